(* executor ops for C06 / C14 (PMT, PSI accessors) and the Coq serialisers used by the generators *)
From Gots Require Import Base.Prelude Exec.ExecBase Model.Psi Model.Pmt Model.StreamType Model.Accumulator Spec.PmtSpec.
Import Pmt.

(* ---- observations ---- *)
Definition vdesc (d : desc) : val := VL [vn (dtag d); VB (ddata d)].
Definition ves (e : es) : val := VL [vn (stype e); vn (epid e); VL (map vdesc (descs e))].
Definition vpmt (p : pmt) : val :=
  VL [VL (map vn (pids p)); VL (map ves (streams p)); vn (version p); vbool (cni p)].
Definition vcode (r : Res bool) : val :=
  match r with Ok false => VI 0%Z | Ok true => VI 1%Z | Err _ => VI 4%Z | Panic => VI 2%Z | Diverge => VI 3%Z end.
Fixpoint prefixes_from (fuel : nat) (k : N) (b : bytes) : list bytes :=
  match fuel with O => [] | S f => takeN k b :: prefixes_from f (k + 1) b end.
Definition vok (v : val) : val := VL [VI 0%Z; v].
Definition unchanged : val := VI 0%Z.    (* goexec reports 1 when a read-only call wrote to its input *)

(* ---- argument decoding ---- *)
Fixpoint ns_of (l : list val) : option (list N) :=
  match l with
  | [] => Some []
  | VI z :: t => match ns_of t with Some r => Some (zN z :: r) | None => None end
  | _ => None
  end.
Fixpoint bs_of (l : list val) : option (list bytes) :=
  match l with
  | [] => Some []
  | VB b :: t => match bs_of t with Some r => Some (b :: r) | None => None end
  | _ => None
  end.
Definition desc_of (v : val) : option desc :=
  match v with VL [VI t; VB b] => Some {| dtag := zN t; ddata := b |} | _ => None end.
Fixpoint opts {A} (f : val -> option A) (l : list val) : option (list A) :=
  match l with
  | [] => Some []
  | v :: t => match f v, opts f t with Some a, Some r => Some (a :: r) | _, _ => None end
  end.
Definition es_of (v : val) : option es :=
  match v with
  | VL [VI t; VI p; VL ds] =>
    match opts desc_of ds with Some d => Some {| stype := zN t; epid := zN p; descs := d |} | None => None end
  | _ => None
  end.
Definition nocrc (s : pmt_sec) (c : bytes) : pmt_sec :=
  {| prog := prog s; sversion := sversion s; scni := scni s; secno := secno s; lastno := lastno s;
     pcr_pid := pcr_pid s; pdescs := pdescs s; sstreams := sstreams s; crc := c |}.
(* [prog version cni secno last pcr [pdescs] [streams] xcrc] ; an empty crc asks for the computed one *)
Definition sec_of (v : val) : option pmt_sec :=
  match v with
  | VL [VI pg; VI ve; VI cn; VI sn; VI ln; VI pc; VL pd; VL ss; VB c] =>
    match opts desc_of pd, opts es_of ss with
    | Some d, Some s =>
      let s0 := {| prog := zN pg; sversion := zN ve; scni := negb (cn =? 0)%Z; secno := zN sn; lastno := zN ln;
                   pcr_pid := zN pc; pdescs := d; sstreams := s; crc := c |} in
      Some (match c with [] => nocrc s0 (crc_model (ser_sec_nocrc s0)) | _ => s0 end)
    | _, _ => None
    end
  | _ => None
  end.
Definition other_of (v : val) : option other_sec :=
  match v with VL [VI t; VI h; VB b] => Some {| otid := zN t; ohi := zN h; obody := b |} | _ => None end.
Definition misc_of (t p s c : Z) : pmisc :=
  {| tei := negb (t =? 0)%Z; prio := negb (p =? 0)%Z; tsc := zN s; cc := zN c |}.
(* [0 xpkt] | [1 tei prio tsc cc [] xchunk] | [1 tei prio tsc cc [xaf] xchunk] *)
Definition item_of (v : val) : option item :=
  match v with
  | VL [VI 0%Z; VB p] => Some (Other p)
  | VL [VI 1%Z; VI t; VI p; VI s; VI c; VL []; VB ch] => Some (Mine (misc_of t p s c) None ch)
  | VL [VI 1%Z; VI t; VI p; VI s; VI c; VL [VB a]; VB ch] => Some (Mine (misc_of t p s c) (Some a) ch)
  | _ => None
  end.

Definition vfilter (r : option (list bytes) * option (list N)) : val :=
  VL [vopt (fun l => VL (map VB l)) (fst r); vopt (fun l => VL (map vn l)) (snd r)].


(* ---- one PMT object observed after every step (goexec/pmt.go pmt.hist): [0 qs] queries, [1 rm] removal ---- *)
Definition lags_of (x : pmt) (pid : N) : bool :=
  StreamType.pmt_lags_by_pid (map (fun e => (epid e, stype e)) (streams x)) (Z.of_N pid).
Fixpoint hist_run (p : pmt) (script : list val) : option (list val) :=
  match script with
  | [] => Some []
  | VL [VI 0%Z; VL qs] :: t =>
    match ns_of qs, hist_run p t with
    | Some q, Some r =>
      Some (VL [VL [VL (map (fun x => vbool (pid_exists p x)) q); VL (map (fun x => vbool (lags_of p x)) q)]; vpmt p] :: r)
    | _, _ => None
    end
  | VL [VI 1%Z; VL rm] :: t =>
    match ns_of rm with
    | Some r0 =>
      let p' := remove_elementary_streams p r0 in
      match hist_run p' t with Some r => Some (VL [VL []; vpmt p'] :: r) | None => None end
    | None => None
    end
  | VL [VI 2%Z] :: t =>        (* the caller holds on to ElementaryStreams(): no effect on a value *)
    match hist_run p t with Some r => Some (VL [VL []; vpmt p] :: r) | None => None end
  | _ => None
  end.

(* ---- several PMTs through ONE accumulator (pmt.acchist): each table = its packets; Reset between tables.
   In Gallina Bytes() is a value, so a PMT decoded from it cannot change when the accumulator goes on. ---- *)
Definition done_pred : Accumulator.pred :=
  fun b => match done_func b with Ok d => (d, None) | Err e => (false, Some e) | _ => (false, None) end.
Fixpoint acc_write_all (a : Accumulator.acc) (pks : list bytes) : Res (Accumulator.acc * list val) :=
  match pks with
  | [] => Ok (a, [])
  | p :: t =>
    let? (a', r) := Accumulator.write_packet done_pred a p in
    let? (a'', rs) := acc_write_all a' t in
    Ok (a'', match snd r with Some e => vn e | None => VI 0%Z end :: rs)
  end.
Fixpoint acchist_run (first : bool) (a : Accumulator.acc) (tables : list (list bytes)) : Res (list val * list val) :=
  match tables with
  | [] => Ok ([], [])
  | tb :: t =>
    let a0 := if first then a else Accumulator.reset a in
    let? (a1, codes) := acc_write_all a0 tb in
    let r := new_pmt (Accumulator.get_bytes a1) in
    let? (outs, finals) := acchist_run false a1 t in
    Ok (VL [VL codes; vres vpmt r] :: outs,
        match r with Ok p => VL [vpmt p] | _ => VL [] end :: finals)
  end.
Fixpoint tables_of (l : list val) : option (list (list bytes)) :=
  match l with
  | [] => Some []
  | VL ps :: t => match bs_of ps, tables_of t with Some a, Some r => Some (a :: r) | _, _ => None end
  | _ => None
  end.

Open Scope string_scope.
Definition ops : list op := [
  ("pmt.parse", fun a => match a with [VB b] => VL [vres vpmt (new_pmt b); unchanged] | _ => vbad end);
  ("pmt.done", fun a => match a with [VB b] => VL [vres vbool (done_func b); unchanged] | _ => vbad end);
  ("pmt.doneall", fun a => match a with
     | [VB b] => VL (map (fun q => vcode (done_func q)) (prefixes_from (S (List.length b)) 0 b)) | _ => vbad end);
  ("pmt.read", fun a => match a with [VB s; VI pid] => vres vpmt (read_pmt s (zN pid)) | _ => vbad end);
  ("pmt.crc", fun a => match a with [VB b] => VL [vres vn (extract_crc b); unchanged] | _ => vbad end);
  ("psi.acc", fun a => match a with
     | [VB b] => VL [vok (vn (Psi.pointer_field b)); vok (vn (Psi.table_id b));
                     vok (vbool (Psi.section_syntax_indicator b)); vok (vbool (Psi.private_indicator b));
                     vok (vn (Psi.section_length b)); unchanged]
     | _ => vbad end);
  ("psi.th", fun a => match a with
     | [VB b] => vres (fun h => VL [vn (Psi.th_tid h); vbool (Psi.th_ssi h); vbool (Psi.th_pi h); vn (Psi.th_sl h);
                                   VB (Psi.table_header_data h)]) (Psi.table_header_from_bytes b)
     | _ => vbad end);
  ("psi.thdata", fun a => match a with
     | [VI t; VI s; VI p; VI l] =>
       VB (Psi.table_header_data {| Psi.th_tid := zN t; Psi.th_ssi := negb (s =? 0)%Z; Psi.th_pi := negb (p =? 0)%Z;
                                    Psi.th_sl := zN l |})
     | _ => vbad end);
  ("psi.npf", fun a => match a with [VI n] => vres VB (Psi.new_pointer_field n) | _ => vbad end);
  ("pmt.filter", fun a => match a with
     | [VL ps; VL ws] =>
       match bs_of ps, ns_of ws with
       | Some pk, Some w => VL [vres vfilter (filter_pmt_packets pk w); unchanged]
       | _, _ => vbad end
     | _ => vbad end);
  ("pmt.remove", fun a => match a with
     | [VB b; VL rm; VL qs] =>
       match ns_of rm, ns_of qs with
       | Some r, Some q =>
         vres (fun p => let p' := remove_elementary_streams p r in
                        VL [vpmt p'; VL (map (fun x => vbool (pid_exists p' x)) q)]) (new_pmt b)
       | _, _ => vbad end
     | _ => vbad end);
  (* query, remove, query again on ONE PMT object: the PMT-level lags-EBP query must follow the stream list
     through RemoveElementaryStreams (no state survives the removal); observation: [before; after; pid_exists after] *)
  ("pmt.lagshist", fun a => match a with
     | [VB b; VL rm; VL qs] =>
       match ns_of rm, ns_of qs with
       | Some r, Some q =>
         vres (fun p => let p' := remove_elementary_streams p r in
                        let lags (x : pmt) (pid : N) := StreamType.pmt_lags_by_pid (map (fun e => (epid e, stype e)) (streams x)) (Z.of_N pid) in
                        VL [VL (map (fun x => vbool (lags p x)) q); VL (map (fun x => vbool (lags p' x)) q);
                            VL (map (fun x => vbool (pid_exists p' x)) q); VL (map (fun x => vbool (lags p' x)) q)]) (new_pmt b)
       | _, _ => vbad end
     | _ => vbad end);
  ("pmt.hist", fun a => match a with
     | [VB b; VL script] =>
       match new_pmt b with
       | Ok p => match hist_run p script with Some r => vok (VL (vpmt p :: r)) | None => vbad end
       | r => vres vpmt r
       end
     | _ => vbad end);
  ("pmt.acchist", fun a => match a with
     | [VL ts] =>
       match tables_of ts with
       | Some tables =>
         match acchist_run true Accumulator.new_acc tables with
         | Ok (outs, finals) => VL (outs ++ [VL finals])
         | Err e => VL [VI 1%Z; vn e] | Panic => VL [VI 2%Z] | Diverge => VL [VI 3%Z]
         end
       | None => vbad end
     | _ => vbad end);
  ("pmt.computecrc", fun a => match a with [VB b] => VB (crc_model b) | _ => vbad end);
  (* ---- serialisers (modelexec only) ---- *)
  ("ser.payload", fun a => match a with
     | [VI p; VL pr; s; VI st] =>
       match opts other_of pr, sec_of s with
       | Some o, Some sc => VB (ser_payload {| pf := zN p; pre := o; sec := sc; stuffing := zN st |})
       | _, _ => vbad end
     | _ => vbad end);
  ("ser.section", fun a => match a with
     | [s] => match sec_of s with Some sc => VB (ser_sec sc) | None => vbad end | _ => vbad end);
  ("ser.stream", fun a => match a with
     | [VI pid; VL its] => match opts item_of its with Some l => VB (packetise (zN pid) l) | None => vbad end
     | _ => vbad end);
  (* ---- oracles computed from the Spec side only (no model function): what the property requires ---- *)
  ("spec.parse", fun a => match a with
     | [s] => match sec_of s with Some sc => VL [vok (vpmt (sec_result sc)); unchanged] | None => vbad end | _ => vbad end);
  ("spec.read", fun a => match a with
     | [s] => match sec_of s with Some sc => vok (vpmt (sec_result sc)) | None => vbad end | _ => vbad end);
  ("spec.filter", fun a => match a with
     | [VI p; s; VI pid; VL its; VL ws] =>
       match sec_of s, opts item_of its, ns_of ws with
       | Some sc, Some l, Some w =>
         let r := match l, w with
                  | [], _ => (None, None)
                  | _, [] => (Some (ser_items (zN pid) true l), None)
                  | _, _ =>
                    let missing := missing_of (map epid (sstreams sc)) (zN pid) w in
                    if none_present (map epid (sstreams sc)) (zN pid) w then (None, Some missing)
                    else (Some (spec_repack (hdrs_of (zN pid) true l)
                                  (ser_unit {| pf := zN p; pre := []; sec := filtered_sec sc w; stuffing := 0 |})),
                          match missing with [] => None | _ => Some missing end)
                  end in
         VL [vok (vfilter r); unchanged]
       | _, _, _ => vbad end
     | _ => vbad end);
  (* decidable hypotheses of C06_L4 / C14_filter_spec, evaluated on the LOGICAL case (sound by Proofs/PmtHyp.v) *)
  ("spec.hyp.read", fun a => match a with
     | [VI p; VL pr; s; VI st; VI pid; VL its] =>
       match opts other_of pr, sec_of s, opts item_of its with
       | Some o, Some sc, Some l => vbool (hyp_readb {| pf := zN p; pre := o; sec := sc; stuffing := zN st |} (zN pid) l)
       | _, _, _ => vbad end
     | _ => vbad end);
  ("spec.hyp.interrupted", fun a => match a with
     | [VI pa; VL pra; sa; VL ia; VI pb; VL prb; sb; VI stb; VI pid; VL ib] =>
       match opts other_of pra, sec_of sa, opts item_of ia, opts other_of prb, sec_of sb, opts item_of ib with
       | Some oa, Some sca, Some la, Some ob, Some scb, Some lb =>
         vbool (hyp_interruptedb {| pf := zN pa; pre := oa; sec := sca; stuffing := 0 |}
                                 {| pf := zN pb; pre := ob; sec := scb; stuffing := zN stb |} (zN pid) la lb)
       | _, _, _, _, _, _ => vbad end
     | _ => vbad end);
  ("spec.hyp.filter", fun a => match a with
     | [VI p; s; VI st; VI pid; VL its] =>
       match sec_of s, opts item_of its with
       | Some sc, Some l => vbool (hyp_filterb {| pf := zN p; pre := []; sec := sc; stuffing := zN st |} (zN pid) l)
       | _, _ => vbad end
     | _ => vbad end);
  ("spec.hyp.carrier", fun a => match a with
     | [VI p; VL pr; s] =>
       match opts other_of pr, sec_of s with
       | Some o, Some sc => vbool (wf_carrierb {| pf := zN p; pre := o; sec := sc; stuffing := 0 |})
       | _, _ => vbad end
     | _ => vbad end);
  ("ser.pkts", fun a => match a with
     | [VI pid; VL its] => match opts item_of its with Some l => VL (map VB (ser_items (zN pid) true l)) | None => vbad end
     | _ => vbad end)
].
