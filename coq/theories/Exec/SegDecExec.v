(* Executor ops for C19 on DECODED descriptors (same names in goexec/segdec.go).

   The ops of Exec/SegExec.v run CanClose / Equal on abstract records `SegDesc.desc` which goexec
   realises with descriptors BUILT through the setter API.  Here both sides start from section BYTES:
   goexec decodes them with scte35.NewSCTE35 and calls the real CanClose / Equal on the first
   segmentation descriptor of Descriptors(); the model decodes the same bytes with Model/Scte.v
   (`Scte.new_scte35`, the decoder model of C08), turns the decoded model descriptor into the abstract
   record with `desc_of_decoded` below, and runs Model/SegDesc.v on it.  Both sides also print the
   getter view of every decoded descriptor, so that "decoded descriptor = abstract record" is itself
   compared (and not only its consequences for CanClose / Equal).

   Reply shapes (sview = vres (vopt view): [0 [view]] decoded, [0 []] decoded but no segmentation
   descriptor, [1 e] decoder error e, [2] panic, [3] diverge):
     seg.dec.close1 <secD> <secO>          -> [ sviewD sviewO cc unchanged ]   cc = [c] | [] (c = D.CanClose(O))
     seg.dec.closem [ <secD>* ] [ <secO>* ] -> [ [sviewD*] [sviewO*] rows unchanged ]
                                              rows = one list per D of D.CanClose(O) for every O; [] unless
                                              every section decoded to a descriptor
     seg.dec.eqm <sec>*                     -> [ [sview*] rows unchanged ]      rows[i][j] = Equal(i, j), same proviso
   view = [TypeID EventID SCTE35().HasPTS() SCTE35().PTS() SegmentNumber SegmentsExpected HasSubSegments
           SubSegmentNumber SubSegmentsExpected IsIn IsOut]
   unchanged = 0 always here (pure functions); goexec prints 1 when a getter view differs after the calls. *)
From Gots Require Import Base.Prelude Exec.ExecBase Model.Pts Model.Scte Model.SegDesc.

(* GLUE: the abstract record of a decoded descriptor `d` found in the decoded signal `s`.
     ty/event/segnum/segexp/hassub/subnum/subexp  the struct fields behind the getters of the same name
     haspts   s.HasPTS() = s.commandInfo.HasPTS()         (view_scte of Exec/ScteExec.v prints it the same way)
     ptsv     s.PTS()    = s.pts, the ADJUSTED time: (command pts + pts_adjustment) mod 2^33, or the
              pts_adjustment alone for splice_null / commands without a time
     the signal of a descriptor is d.SCTE35(); the decoder sets it to the enclosing signal (C08_desc_backref,
     and `d.SCTE35() == s` is compared by scte.decode), so the enclosing `s` is used here
     id       object identity, given by the driver (nothing reads it)
     vss      StreamSwitchSignalId() is NOT derived here (None): CanClose / Equal / IsIn / IsOut do not read
              it (it belongs to C10, where it stands for a string inside the MID). *)
Definition desc_of_decoded (i : N) (s : Scte.scte) (d : Scte.segdesc) : SegDesc.desc :=
  SegDesc.mk i (Scte.d_type d) (Scte.d_event_id d) (Scte.cmd_has_pts (Scte.s_cmd s)) (Scte.s_pts s)
             (Scte.d_seg_num d) (Scte.d_segs_expected d) (Scte.d_has_sub d)
             (Scte.d_sub_seg_num d) (Scte.d_sub_segs_expected d) None.

(* NewSCTE35(bytes), then Descriptors()[0] when there is one *)
Definition dec_one (i : N) (b : bytes) : Res (option SegDesc.desc) :=
  let? s := Scte.new_scte35 b in
  Ok (match Scte.s_descs s with d :: _ => Some (desc_of_decoded i s d) | [] => None end).

Definition view (d : SegDesc.desc) : val :=
  VL [vn (SegDesc.ty d); vn (SegDesc.event d); vbool (SegDesc.haspts d); vn (SegDesc.ptsv d);
      vn (SegDesc.segnum d); vn (SegDesc.segexp d); vbool (SegDesc.hassub d);
      vn (SegDesc.subnum d); vn (SegDesc.subexp d); vbool (SegDesc.IsIn d); vbool (SegDesc.IsOut d)].
Definition sview (r : Res (option SegDesc.desc)) : val := vres (vopt view) r.

(* decode a list of byte-string arguments, numbering the objects from i; None = malformed request *)
Fixpoint dec_all (i : N) (l : list val) : option (list (Res (option SegDesc.desc))) :=
  match l with
  | [] => Some []
  | VB b :: t => match dec_all (i + 1) t with Some r => Some (dec_one i b :: r) | None => None end
  | _ :: _ => None
  end.
(* the descriptors when every section decoded to one *)
Fixpoint all_descs (l : list (Res (option SegDesc.desc))) : option (list SegDesc.desc) :=
  match l with
  | [] => Some []
  | Ok (Some d) :: t => match all_descs t with Some r => Some (d :: r) | None => None end
  | _ :: _ => None
  end.

Definition close_rows (ds os : list SegDesc.desc) : list val :=
  map (fun d => VL (map (fun o => vbool (SegDesc.CanClose d o)) os)) ds.
Definition equal_rows (ds : list SegDesc.desc) : list val :=
  map (fun a => VL (map (fun b => vbool (SegDesc.Equal a b)) ds)) ds.

Definition closem (lds los : list val) : val :=
  match dec_all 0 lds, dec_all (len lds) los with
  | Some rd, Some ro =>
    VL [VL (map sview rd); VL (map sview ro);
        VL (match all_descs rd, all_descs ro with Some ds, Some os => close_rows ds os | _, _ => [] end);
        VI 0%Z]
  | _, _ => vbad
  end.

Open Scope string_scope.
Definition ops : list op := [
  ("seg.dec.close1", fun a => match a with
     | [VB bd; VB bo] =>
       let rd := dec_one 0 bd in let ro := dec_one 1 bo in
       VL [sview rd; sview ro;
           VL (match rd, ro with Ok (Some d), Ok (Some o) => [vbool (SegDesc.CanClose d o)] | _, _ => [] end);
           VI 0%Z]
     | _ => vbad end);
  ("seg.dec.closem", fun a => match a with
     | [VL lds; VL los] => closem lds los
     | _ => vbad end);
  ("seg.dec.eqm", fun a => match dec_all 0 a with
     | Some rs => VL [VL (map sview rs);
                      VL (match all_descs rs with Some ds => equal_rows ds | None => [] end);
                      VI 0%Z]
     | None => vbad end)
].
