(* Executor ops for C08/C09: scte.decode, scte.reencode, scte.build, ser.scte *)
From Gots Require Import Base.Prelude Exec.ExecBase Model.Pts Model.Scte Model.ScteEnc Spec.Scte35Spec Proofs.ScteNormalB.
Import Scte.

(* ---------------- getter view (what goexec prints from the real getters) ---------------- *)
Definition view_comp (c : component) : val := VL [vn (c_tag c); vbool (c_has_pts c); vn (c_pts c)].
Definition view_cmd (c : command) : val :=
  match c with
  | CNull => VL [vn 0; vbool false; vn 0]
  | CTime h p => VL [vn 6; vbool h; vn p]
  | CInsert i => VL [vn 5; vbool (i_has_pts i); vn (i_pts i); vn (i_event_id i); vbool (i_cancel i);
                     vbool (i_out i); vbool (i_program i); vbool (i_has_duration i); vbool (i_immediate i);
                     VL (map view_comp (i_components i)); vbool (i_auto_return i); vn (i_duration i);
                     vn (i_unique_program_id i); vn (i_avail_num i); vn (i_avails_expected i)]
  end.
Definition view_co (c : comp_offset) : val := VL [vn (co_tag c); vn (co_off c)].
Definition view_upid (u : upid) : val := VL [vn (u_type u); VB (u_upid u)].
Definition view_desc (sid : N) (d : segdesc) : val :=
  VL [vbool (match d_owner d with Some o => o =? sid | None => false end);
      vn (d_event_id d); vbool (d_cancel d); vbool (d_program_seg d); vbool (d_has_duration d);
      vn (d_duration d); vbool (d_dnr d); vbool (d_web d); vbool (d_noblackout d); vbool (d_archive d);
      vn (d_device d); VL (map view_co (d_components d)); vn (d_upid_type d);
      VB (ScteEnc.get_upid d); VL (map view_upid (ScteEnc.get_mid d));
      vn (d_type d); vn (d_seg_num d); vn (d_segs_expected d); vbool (d_has_sub d);
      vn (d_sub_seg_num d); vn (d_sub_segs_expected d);
      vn (d_seg_num d)].   (* SegmentNum(), the deprecated alias of SegmentNumber() *)
Definition view_scte (s : scte) : val :=
  VL [vbool (cmd_has_pts (s_cmd s)); vn (s_pts s); vn (s_tier s); vn (s_cmd_type s); vn (s_stuffing s);
      VB (s_data s); view_cmd (s_cmd s); VL (map (view_desc (s_id s)) (s_descs s))].

(* ---------------- wire -> logical splice_info (for ser.scte) ---------------- *)
Import Scte35Spec.
Definition p_bool (v : val) : option bool := match v with VI z => Some (negb (z =? 0)%Z) | _ => None end.
Definition p_n (v : val) : option N := match v with VI z => Some (zN z) | _ => None end.
Definition p_bytes (v : val) : option bytes := match v with VB b => Some b | _ => None end.
Definition obind {A B} (o : option A) (f : A -> option B) : option B :=
  match o with Some a => f a | None => None end.
Notation "'do' x <- o ; k" := (obind o (fun x => k)) (at level 200, x pattern, o at level 100, k at level 200).
Fixpoint p_list {A} (f : val -> option A) (l : list val) : option (list A) :=
  match l with
  | [] => Some []
  | v :: t => do a <- f v; do r <- p_list f t; Some (a :: r)
  end.
Definition p_vlist {A} (f : val -> option A) (v : val) : option (list A) :=
  match v with VL l => p_list f l | _ => None end.
Definition p_opt {A} (f : val -> option A) (v : val) : option (option A) :=
  match v with VL [] => Some None | VL [x] => do a <- f x; Some (Some a) | _ => None end.
Definition p_stime (v : val) : option stime := p_opt p_n v.
Definition p_mode (v : val) : option splice_mode :=
  match v with
  | VL [VI 0%Z] => Some ProgImmediate
  | VL [VI 1%Z; t] => do t <- p_stime t; Some (ProgTimed t)
  | VL [VI 2%Z; VB tags] => Some (CompImmediate tags)
  | VL [VI 3%Z; cs] =>
    do cs <- p_vlist (fun c => match c with VL [VI tag; t] => do t <- p_stime t; Some (zN tag, t) | _ => None end) cs;
    Some (CompTimed cs)
  | _ => None
  end.
Definition p_pair_bn (v : val) : option (bool * N) :=
  match v with VL [a; VI d] => do a <- p_bool a; Some (a, zN d) | _ => None end.
Definition p_insert_body (v : val) : option insert_body :=
  match v with
  | VL [out; mode; brk; VI up; VI an; VI ae] =>
    do out <- p_bool out; do mode <- p_mode mode; do brk <- p_opt p_pair_bn brk;
    Some (mkib out mode brk (zN up) (zN an) (zN ae))
  | _ => None
  end.
Definition p_command (v : val) : option command :=
  match v with
  | VL [VI 0%Z] => Some Null
  | VL [VI 1%Z; t] => do t <- p_stime t; Some (TimeSignal t)
  | VL [VI 2%Z; VI eid; body] => do b <- p_opt p_insert_body body; Some (Insert (zN eid) b)
  | VL [VI 3%Z; VI ty; VB body] => Some (OtherCmd (zN ty) body)
  | _ => None
  end.
Definition p_upid (v : val) : option Scte35Spec.upid :=
  match v with
  | VL [VI 0%Z; VI ty; VB b] => Some (Single (zN ty) b)
  | VL [VI 1%Z; l] =>
    do l <- p_vlist (fun e => match e with VL [VI ty; VB b] => Some (zN ty, b) | _ => None end) l;
    Some (Multi l)
  | _ => None
  end.
Definition p_nn (v : val) : option (N * N) :=
  match v with VL [VI a; VI b] => Some (zN a, zN b) | _ => None end.
Definition p_restr (v : val) : option (bool * bool * bool * N) :=
  match v with
  | VL [w; n; a; VI d] => do w <- p_bool w; do n <- p_bool n; do a <- p_bool a; Some (w, n, a, zN d)
  | _ => None
  end.
Definition p_seg_body (v : val) : option seg_body :=
  match v with
  | VL [comps; dur; restr; up; VI ty; VI num; VI ex; sub] =>
    do comps <- p_opt (p_vlist p_nn) comps; do dur <- p_opt p_n dur; do restr <- p_opt p_restr restr;
    do up <- p_upid up; do sub <- p_opt p_nn sub;
    Some (mksb comps dur restr up (zN ty) (zN num) (zN ex) sub)
  | _ => None
  end.
Definition p_descriptor (v : val) : option descriptor :=
  match v with
  | VL [VI 0%Z; VI eid; body] => do b <- p_opt p_seg_body body; Some (Seg (zN eid) b)
  | VL [VI 1%Z; VI tag; VB body] => Some (Foreign (zN tag) body)
  | _ => None
  end.
Definition p_splice_info (v : val) : option splice_info :=
  match v with
  | VL [VB ptr; VI tid; ssi; priv; VI sap; VI pv; enc; VI ea; VI adj; VI cw; VI tier; leg; cmd; descs; VB stuff; VI crc] =>
    do ssi <- p_bool ssi; do priv <- p_bool priv; do enc <- p_bool enc; do leg <- p_bool leg;
    do cmd <- p_command cmd; do descs <- p_vlist p_descriptor descs;
    Some (mksi ptr (zN tid) ssi priv (zN sap) (zN pv) enc (zN ea) (zN adj) (zN cw) (zN tier) leg cmd descs stuff (zN crc))
  | _ => None
  end.

(* ---------------- build scripts (C09): creation + setter calls ---------------- *)
Import ScteEnc.
Definition p_compop (v : val) : option comp_op :=
  match v with
  | VL [VI 0%Z; VI x] => Some (CSetTag (w8 (zN x)))
  | VL [VI 1%Z; b] => do b <- p_bool b; Some (CSetHasPTS b)
  | VL [VI 2%Z; VI x] => Some (CSetPTS (w64 (zN x)))
  | _ => None
  end.
Definition p_cmdop (v : val) : option cmd_op :=
  match v with
  | VL [VI 0%Z; b] => do b <- p_bool b; Some (KSetHasPTS b)
  | VL [VI 1%Z; VI x] => Some (KSetPTS (w64 (zN x)))
  | VL [VI 2%Z; VI x] => Some (ISetEventID (w32 (zN x)))
  | VL [VI 3%Z; b] => do b <- p_bool b; Some (ISetIsOut b)
  | VL [VI 4%Z; b] => do b <- p_bool b; Some (ISetIsEventCanceled b)
  | VL [VI 5%Z; b] => do b <- p_bool b; Some (ISetHasDuration b)
  | VL [VI 6%Z; VI x] => Some (ISetDuration (w64 (zN x)))
  | VL [VI 7%Z; b] => do b <- p_bool b; Some (ISetIsAutoReturn b)
  | VL [VI 8%Z; VI x] => Some (ISetUniqueProgramId (w16 (zN x)))
  | VL [VI 9%Z; VI x] => Some (ISetAvailNum (w8 (zN x)))
  | VL [VI 10%Z; VI x] => Some (ISetAvailsExpected (w8 (zN x)))
  | VL [VI 11%Z; b] => do b <- p_bool b; Some (ISetIsProgramSplice b)
  | VL [VI 12%Z; b] => do b <- p_bool b; Some (ISetSpliceImmediate b)
  | VL [VI 13%Z; VI j; o] => do o <- p_compop o; Some (IComp (Z.to_nat j) o)
  | _ => None
  end.
Definition p_upid_new (v : val) : option (N * bytes) :=
  match v with VL [VI ty; VB b] => Some (w8 (zN ty), b) | _ => None end.
Definition p_co_new (v : val) : option (N * N) :=
  match v with VL [VI tag; VI off] => Some (w8 (zN tag), w64 (zN off)) | _ => None end.
Definition p_descop (v : val) : option desc_op :=
  match v with
  | VL [VI 0%Z; VI x] => Some (DSetEventID (w32 (zN x)))
  | VL [VI 1%Z; VI x] => Some (DSetTypeID (w8 (zN x)))
  | VL [VI 2%Z; b] => do b <- p_bool b; Some (DSetIsEventCanceled b)
  | VL [VI 3%Z; b] => do b <- p_bool b; Some (DSetHasDuration b)
  | VL [VI 4%Z; VI x] => Some (DSetDuration (w64 (zN x)))
  | VL [VI 5%Z; VI x] => Some (DSetUPIDType (w8 (zN x)))
  | VL [VI 6%Z; VB b] => Some (DSetUPID b)
  | VL [VI 7%Z; VI x] => Some (DSetSegmentNumber (w8 (zN x)))
  | VL [VI 8%Z; VI x] => Some (DSetSegmentsExpected (w8 (zN x)))
  | VL [VI 9%Z; VI x] => Some (DSetSubSegmentNumber (w8 (zN x)))
  | VL [VI 10%Z; VI x] => Some (DSetSubSegmentsExpected (w8 (zN x)))
  | VL [VI 11%Z; b] => do b <- p_bool b; Some (DSetHasProgramSegmentation b)
  | VL [VI 12%Z; b] => do b <- p_bool b; Some (DSetIsDeliveryNotRestricted b)
  | VL [VI 13%Z; b] => do b <- p_bool b; Some (DSetIsWebDeliveryAllowed b)
  | VL [VI 14%Z; b] => do b <- p_bool b; Some (DSetIsArchiveAllowed b)
  | VL [VI 15%Z; b] => do b <- p_bool b; Some (DSetHasNoRegionalBlackout b)
  | VL [VI 16%Z; VI x] => Some (DSetDeviceRestrictions (w8 (zN x)))
  | VL [VI 17%Z; l] => do l <- p_vlist p_upid_new l; Some (DSetMID l)
  | VL [VI 18%Z; l] => do l <- p_vlist p_co_new l; Some (DSetComponents l)
  | VL [VI 19%Z; b] => do b <- p_bool b; Some (DSetHasSubSegments b)
  | VL [VI 20%Z; VI j; VB b] => Some (DMidSetUPID (Z.to_nat j) b)
  | VL [VI 21%Z; VI j; VI x] => Some (DMidSetUPIDType (Z.to_nat j) (w8 (zN x)))
  | VL [VI 22%Z; VI j; VL [VI 0%Z; VI x]] => Some (DComp (Z.to_nat j) (CoSetTag (w8 (zN x))))
  | VL [VI 22%Z; VI j; VL [VI 1%Z; VI x]] => Some (DComp (Z.to_nat j) (CoSetOffset (w64 (zN x))))
  | _ => None
  end.
Definition p_newcmd (v : val) : option (N * list cmd_op) :=
  match v with VL [VI k; ops] => do ops <- p_vlist p_cmdop ops; Some (zN k, ops) | _ => None end.
Definition p_sigop (v : val) : option sig_op :=
  match v with
  | VL [VI 0%Z; VI x] => Some (SSetTier (w16 (zN x)))
  | VL [VI 1%Z; VI x] => Some (SSetAdjustPTS (w64 (zN x)))
  | VL [VI 2%Z; VI x] => Some (SSetPTS (w64 (zN x)))
  | VL [VI 3%Z; b] => do b <- p_bool b; Some (SSetHasPTS b)
  | VL [VI 4%Z; VI x] => Some (SSetAlignmentStuffing (w64 (zN x)))
  | VL [VI 5%Z; c] => do c <- p_newcmd c; Some (SSetCommandInfo (fst c) (snd c))
  | VL [VI 6%Z; ds] => do ds <- p_vlist (p_vlist p_descop) ds; Some (SSetDescriptors ds)
  | VL [VI 7%Z] => Some SUpdateData
  | VL [VI 8%Z; o] => do o <- p_cmdop o; Some (SCmd o)
  | VL [VI 9%Z; VI i; o] => do o <- p_descop o; Some (SDesc (Z.to_nat i) o)
  | _ => None
  end.

Definition build_reply (start : Res scte) (ops : list sig_op) : val :=
  vres (fun s0 =>
    let s1 := run_script s0 ops in
    let (out, s2) := update_data s1 in
    VL [VB out; view_scte s2; VB (s_data s1); VB (s_data s2);
        vres view_scte (new_scte35 (0 :: out))]) start.   (* decoding what was just encoded, pointer_field 0 *)


(* ---------------- scte.hist: ONE signal observed after every step; arguments taken from its own getters ----------------
   [9 i [32 sels]]  Descriptors()[i].SetMID(list of own MID() entries (an index) and fresh UPIDs ([ty xbytes]))
   [9 i [33 sels]]  Descriptors()[i].SetComponents(own Components() entries by index)
   [9 i [34]]       Descriptors()[i].SetUPID(own UPID())
   [10 sels]        SetDescriptors(own Descriptors() by index, no repetition)
   [11]             SetCommandInfo(own CommandInfo())
   A value obtained from a getter is a copy in Gallina: each of these is resolved, against the current state, into the
   ordinary setter call with that value, which is what an implementation without aliasing does. *)
(* malformed requests, answered with vbad by both executors: a negative integer anywhere in the arguments (every integer
   argument stands for an unsigned Go value or an index), and, in step 10, the same own descriptor listed twice (Go would
   put ONE object into two slots, the model copies values) *)
Fixpoint has_neg (v : val) : bool :=
  match v with
  | VI z => (z <? 0)%Z
  | VB _ => false
  | VL l => (fix go (l : list val) : bool := match l with [] => false | x :: t => has_neg x || go t end) l
  end.
Fixpoint has_dup (l : list Z) : bool :=
  match l with [] => false | x :: t => existsb (Z.eqb x) t || has_dup t end.
Definition sel_indices (n : nat) (sels : list val) : list Z :=
  flat_map (fun v => match v with VI j => if (0 <=? j)%Z && (j <? Z.of_nat n)%Z then [j] else [] | _ => [] end) sels.

Definition pick {A} (own : list A) (v : val) : option (list A) :=
  match v with
  | VI j => Some (if (j <? 0)%Z then [] else match nth_error own (Z.to_nat j) with Some x => [x] | None => [] end)
  | _ => None
  end.
Definition sel_mid (own : list Scte.upid) (v : val) : option (list (N * bytes)) :=
  match v with
  | VI _ => do l <- pick own v; Some (map (fun u => (u_type u, u_upid u)) l)
  | _ => do e <- p_upid_new v; Some [e]
  end.
Definition ext_descop (d : segdesc) (v : val) : option desc_op :=
  match v with
  | VL [VI 32%Z; VL sels] => do l <- p_list (sel_mid (get_mid d)) sels; Some (DSetMID (List.concat l))
  | VL [VI 33%Z; VL sels] =>
    do l <- p_list (pick (d_components d)) sels; Some (DSetComponents (map (fun c => (co_tag c, co_off c)) (List.concat l)))
  | VL [VI 34%Z] => Some (DSetUPID (get_upid d))
  | _ => p_descop v
  end.
Definition ext_step (s : scte) (v : val) : option scte :=
  match v with
  | VL [VI 9%Z; VI i; o] =>
    if (i <? 0)%Z then Some s else
    match nth_error (s_descs s) (Z.to_nat i) with
    | Some d => do o' <- ext_descop d o; Some (apply_sig_op s (SDesc (Z.to_nat i) o'))
    | None => Some s
    end
  | VL [VI 10%Z; VL sels] =>
    if has_dup (sel_indices (List.length (s_descs s)) sels) then None else
    do l <- p_list (pick (s_descs s)) sels; Some (with_descs s (map (set_owner (Some (s_id s))) (List.concat l)))
  | VL [VI 11%Z] => Some (with_cmd s (cmd_type (s_cmd s)) (s_cmd s))
  | _ => do o <- p_sigop v; Some (apply_sig_op s o)
  end.
Fixpoint hist_views (s : scte) (script : list val) : option (list val) :=
  match script with
  | [] => Some []
  | v :: t => do s' <- ext_step s v; do r <- hist_views s' t; Some (view_scte s' :: r)
  end.
Definition hist_reply (start : Res scte) (script : list val) : val :=
  match start with
  | Ok s0 => match hist_views s0 script with Some l => VL [VI 0%Z; VL (view_scte s0 :: l)] | None => vbad end
  | r => vres view_scte r
  end.

(* generator aid: is every state on which the script calls UpdateData inside the hypotheses of C09_encode_canonical? *)
Fixpoint hist_normal (s : scte) (script : list val) : option bool :=
  match script with
  | [] => Some true
  | v :: t => do s' <- ext_step s v; do r <- hist_normal s' t;
              Some ((match v with VL [VI 7%Z] => isnormal s | _ => true end) && r)
  end.

Open Scope string_scope.
Definition ops : list op := [
  ("scte.decode", fun a => match a with
     | [VB b] => vres (fun s => VL [view_scte s; VI 1%Z]) (new_scte35 b)
     | _ => vbad end);
  ("scte.reencode", fun a => match a with
     | [VB b] => vres (fun s => let (out, s') := update_data s in VL [VB out; view_scte s']) (new_scte35 b)
     | _ => vbad end);
  ("scte.build", fun a => if existsb has_neg a then vbad else match a with
     | [VL []; VL l] => match p_list p_sigop l with Some ops => build_reply (Ok create_scte35) ops | None => vbad end
     | [VL [VB b]; VL l] => match p_list p_sigop l with Some ops => build_reply (new_scte35 b) ops | None => vbad end
     | _ => vbad end);
  ("scte.hist", fun a => if existsb has_neg a then vbad else match a with
     | [VL []; VL l] => hist_reply (Ok create_scte35) l
     | [VL [VB b]; VL l] => hist_reply (new_scte35 b) l
     | _ => vbad end);
  (* generator aid (modelexec only): is the state after the script inside the hypotheses of C09_encode_canonical?
     ScteNormalB.isnormal_ok : isnormal st = true -> normal (foreign_of st) st *)
  ("scte.isnormal", fun a => if existsb has_neg a then vbad else match a with
     | [VL []; VL l] => match p_list p_sigop l with Some ops => vbool (isnormal (run_script create_scte35 ops)) | None => vbad end
     | [VL [VB b]; VL l] => match p_list p_sigop l, new_scte35 b with
                            | Some ops, Ok s0 => vbool (isnormal (run_script s0 ops))
                            | Some _, _ => vbool false
                            | None, _ => vbad end
     | _ => vbad end);
  ("scte.histnormal", fun a => if existsb has_neg a then vbad else match a with
     | [VL []; VL l] => match hist_normal create_scte35 l with Some b => vbool b | None => vbad end
     | [VL [VB b]; VL l] => match new_scte35 b with
                            | Ok s0 => match hist_normal s0 l with Some b => vbool b | None => vbad end
                            | _ => vbool false end
     | _ => vbad end);
  ("scte.crc", fun a => match a with [VB b] => VB (crc_model b) | _ => vbad end);
  ("ser.scte", fun a => match a with
     | [v] => match p_splice_info v with Some s => VB (ser_splice_info s) | None => vbad end
     | _ => vbad end)
].
