(* Executor ops added by the coverage round (notes/coverage.md): exported functions and constant tables that no
   op of the twenty properties called in a deciding case.  The same op names run the real code in
   goexec/coverage.go.  Every op is a projection of model definitions that already existed or were appended to the
   Model file of the Go file concerned (definitions only). *)
From Gots Require Import Base.Prelude Exec.ExecBase.
From Gots Require Import Model.Pts Model.Packet Model.Create Model.Psi Model.Pmt Model.PmtDesc Model.StreamType Model.Pes
  Model.Ebp Model.IO Model.PacketWriter Model.Scte Model.ScteEnc Model.SegDesc Model.Printers Model.Errors.
From Gots Require Exec.ScteExec.
Definition vns (l : list N) : val := VL (map vn l).
Definition verr (e : option N) : val := match e with None => VI 0%Z | Some e => vn e end.
Definition no_args (v : val) (a : list val) : val := match a with [] => v | _ => vbad end.

(* io.issynced <data> <terminal error code> <bufio size> <mode>: packet.IsSynced on a fresh reader, then what
   io.ReadFull delivers (IsSynced must not consume).  reply [0 [ok err next188]] *)
Definition issynced_op (a : list val) : val :=
  match a with
  | [VB data; VI te; VI _; VI _] =>
    vres (fun x => match x with (ok, err, r') => VL [vbool ok; verr err; VB (fst (SyncIO.read_n 188 r'))] end)
         (SyncIO.is_synced (SyncIO.start data (zN te)))
  | _ => vbad
  end.

(* sorted copy of a list of N (keys of a Go map are compared after sorting) *)
Fixpoint ins (x : N) (l : list N) : list N :=
  match l with [] => [x] | y :: t => if x <=? y then x :: l else y :: ins x t end.
Definition sortN (l : list N) : list N := fold_right ins [] l.

Fixpoint p_compops (l : list val) : option (list ScteEnc.comp_op) :=
  match l with
  | [] => Some []
  | v :: t => match ScteExec.p_compop v, p_compops t with Some o, Some r => Some (o :: r) | _, _ => None end
  end.

Definition parts_reply (start : Res Scte.scte) (ops : list ScteEnc.sig_op) : val :=
  vres (fun s0 =>
    let s1 := ScteEnc.run_script s0 ops in
    VL [VB (ScteEnc.cmd_data (Scte.s_cmd s1)); VL (map (fun d => VB (ScteEnc.seg_data d)) (Scte.s_descs s1))]) start.

Open Scope string_scope.
Definition ops : list op := [
  ("io.issynced", issynced_op);
  (* psi.canbuild <payload> <sectionLength uint16> *)
  ("psi.canbuild", fun a => match a with [VB p; VI sl] => vbool (Printers.can_build_pmt p (zN sl)) | _ => vbad end);
  (* psi.newth: NewTableHeader() fields and its Data() *)
  ("psi.newth", no_args (let h := Psi.new_table_header in
     VL [vn (Psi.th_tid h); vbool (Psi.th_ssi h); vbool (Psi.th_pi h); vn (Psi.th_sl h); VB (Psi.table_header_data h)]));
  (* pkt.newaf: NewAdaptationField() as 188 bytes ([1 10] = nil) *)
  ("pkt.newaf", no_args (vres VB Packet.NewAdaptationField));
  (* pkt.af <packet>: (p *Packet).AdaptationField(): [0 [bytes same-memory]] | [1 e] *)
  ("pkt.af", fun a => match a with
     | [VB p] => if (len p =? 188)%N then vres (fun b => VL [VB b; VI 1%Z]) (Packet.AdaptationField_m p) else vbad
     | _ => vbad end);
  (* pw.close <kind> <e>: Close() of 0 NopCloser(w), 1 IOWriteCloser(closer returning e), 2 IOWriteCloser(NopCloser(w)) *)
  ("pw.close", fun a => match a with
     | [VI k; VI e] =>
       let ce := if (e =? 0)%Z then None else Some (zN e) in
       verr (if (k =? 0)%Z then PacketWriter.nop_closer_close
             else if (k =? 1)%Z then PacketWriter.io_write_closer_close ce
             else PacketWriter.io_write_closer_close PacketWriter.nop_closer_close)
     | _ => vbad end);
  (* pw.func <packet> <n> <e> <via>: PacketWriterFunc(f).WritePacket(p) (via 0) or NopCloser(PacketWriterFunc(f)).WritePacket(p)
     (via 1) with f returning (n, e): reply [n err packet-seen-by-f calls] *)
  ("pw.func", fun a => match a with
     | [VB p; VI n; VI e; VI via] =>
       let f : PacketWriter.wfun := fun _ _ => (n, if (e =? 0)%Z then None else Some (zN e)) in
       let w := if (via =? 0)%Z then PacketWriter.packet_writer_func f
                else PacketWriter.nop_closer_write (PacketWriter.packet_writer_func f) in
       let (m, err) := w O p in
       VL [VI m; verr err; VB p; VI 1%Z]
     | _ => vbad end);
  (* pes.checklen <bytes> <min >= 0> *)
  ("pes.checklen", fun a => match a with [VB b; VI m] => vbool (Pes.check_length b (zN m)) | _ => vbad end);
  (* scte.component <ops>: CreateComponent(), then the Component setters, then its getters *)
  ("scte.component", fun a => match a with
     | [VL l] => match p_compops l with
                 | Some os => ScteExec.view_comp (fold_left (fun c o => ScteEnc.apply_comp_op o c) os ScteEnc.create_component)
                 | None => vbad end
     | _ => vbad end);
  (* scte.fresh: getters of CreateUPID() and CreateComponentOffset() *)
  ("scte.fresh", no_args (VL [ScteExec.view_upid ScteEnc.create_upid; ScteExec.view_co ScteEnc.create_component_offset]));
  (* scte.done <bytes>: SCTE35AccumulatorDoneFunc *)
  ("scte.done", fun a => match a with [VB b] => vres vbool (Printers.scte35_accumulator_done_func b) | _ => vbad end);
  (* scte.parts <start> <ops>: as scte.build, but observes CommandInfo().Data() and every Descriptors()[i].Data() *)
  ("scte.parts", fun a => match a with
     | [VL []; VL l] => match ScteExec.p_list ScteExec.p_sigop l with Some os => parts_reply (Ok ScteEnc.create_scte35) os | None => vbad end
     | [VL [VB b]; VL l] => match ScteExec.p_list ScteExec.p_sigop l with Some os => parts_reply (Scte.new_scte35 b) os | None => vbad end
     | _ => vbad end);
  (* ---- constant tables, in source order ---- *)
  ("const.gots", no_args (vns Pts.Consts.exported_consts));
  ("const.errors", no_args (VL (map (fun p => VL [vn (fst p); vn (snd p)]) Errors.table)));
  ("const.packet", no_args (VL [vns Packet.Consts.exported_consts; VB Create.TestPatPacket; VB Create.TestPmtPacket]));
  ("const.psi", no_args (VL [vns Pmt.Consts.exported_consts; vns PmtDesc.Consts.exported_consts; vns StreamType.Consts.exported_consts]));
  ("const.pes", no_args (vns Pes.Consts.exported_consts));
  ("const.ebp", no_args (vns Ebp.Consts.exported_consts));
  ("const.scte35", no_args (VL [vns SegDesc.Consts.SpliceCommandTypes; vns SegDesc.Consts.DeviceRestrictionsValues;
                                vns SegDesc.Consts.SegDescTypes; vns SegDesc.Consts.SegUPIDTypes]));
  (* the key sets of the four `...Names` maps, sorted *)
  ("const.scte35.names", no_args (VL [vns (sortN SegDesc.Consts.SpliceCommandTypes); vns (sortN SegDesc.Consts.DeviceRestrictionsValues);
                                      vns (sortN SegDesc.Consts.SegDescTypes); vns (sortN SegDesc.Consts.SegUPIDTypes)]))
].
