(* The functions of packet/adaptationfield.go that differ between the PINNED tree (/repo as given) and the
   repaired code modelled in Model/AF.v, transliterated as they stand in the pinned tree.  Used only to
   re-establish the defects F5 and F6 inside Coq (Proofs/AFPinnedRefuted.v); everything else is AF.*. *)
From Gots Require Import Base.Prelude Model.Pcr Model.AF.
Module AFPinned.
Import AF.
(* if stuffingEnd >= PacketSize { return PacketSize - 1 } *)
Definition stuffingEnd (p : bytes) : N :=
  let e := nthN p 4 + 5 in if PacketSize <=? e then PacketSize - 1 else e.
(* no length guard; the pinned stuffingEnd *)
Definition resizeAF (p : bytes) (start : N) (delta : Z) : Res bytes :=
  match delta with
  | Z0 => Ok p
  | Zpos d' =>
    let d := Npos d' in
    let e := stuffingStart p in
    let startRight := start + d in
    let endRight := stuffingStart p + d in
    if stuffingEnd p <? endRight then Err E.AdaptationFieldCannotGrow else
    let? src := slice p start e in
    let? _ := slice p startRight endRight in
    Ok (blit p startRight src)
  | Zneg d' =>
    let d := Npos d' in
    let startRight := start + d in
    let endRight := stuffingStart p in
    let? src := slice p startRight endRight in
    let e := endRight - d in
    let p1 := blit p start src in
    Ok (fill_ff p1 e endRight)
  end.
(* delta is +-1 whatever the field holds; the zero length byte is written unconditionally *)
Definition SetHasTransportPrivateData (p : bytes) (v : bool) : Res bytes :=
  let? _ := valid p in
  let delta := (1 * bit_delta p 5 2 v)%Z in
  let? p1 := resizeAF p (transportPrivateDataStart p) delta in
  let p2 := upd p1 (transportPrivateDataStart p1) 0 in
  Ok (set_bit p2 5 2 v).
Definition SetTransportPrivateData (p : bytes) (data : bytes) : Res bytes :=
  let? _ := valid p in
  if negb (hasTransportPrivateData p) then Err E.NoPrivateTransportData else
  let delta := (zlen data - (Z.of_N (transportPrivateDataLength p) - 1))%Z in
  let start := transportPrivateDataStart p + 1 in
  let e := start + len data in
  let? p1 := resizeAF p start delta in
  let? _ := slice p1 start e in
  let p2 := blit p1 start data in
  set_idx p2 (start - 1) (w8 (len data)).
(* getters without the C05 guards *)
Definition TransportPrivateData (p : bytes) : Res bytes :=
  let? h := HasTransportPrivateData p in
  if negb h then Err E.NoPrivateTransportData else
  slice p (transportPrivateDataStart p) (adaptationExtensionStart p).
Definition AdaptationFieldExtension (p : bytes) : Res bytes :=
  let? h := HasAdaptationFieldExtension p in
  if negb h then Err E.NoAdaptationFieldExtension else
  slice p (adaptationExtensionStart p) (stuffingStart p).
(* adaptationfield.TransportPrivateData: pkt[uint8(offset) : uint8(offset)+dataLength], uint8 arithmetic *)
Definition fnTransportPrivateData (p : bytes) : Res bytes :=
  if negb (bit (nthN p 5) 2) then Err E.NoPrivateTransportData else
  let offset := transportPrivateDataStart p in
  let dataLength := nthN p offset in
  let offset := offset + 1 in
  slice p (w8 offset) (w8 (w8 offset + dataLength)).
End AFPinned.
