(* Model of /repo/pts.go : PTS arithmetic (uint64 wrap written out). *)
From Gots Require Import Base.Prelude.
Module Pts.
Definition MaxPtsValue : N := 8589934591.
Definition MaxPtsTicks : N := 8589934592.
Definition NegInf : N := 18446744073709551614.
Definition PosInf : N := 18446744073709551615.
Definition Upper : N := 8427934591.
Definition Lower : N := 162000000.

Definition rolled_over (p other : N) : bool :=
  if (other =? NegInf) || (other =? PosInf) then false
  else (p <? Lower) && (Upper <? other).
Definition after (p other : N) : bool :=
  if other =? PosInf then false else
  if other =? NegInf then true else
  if rolled_over p other then true else
  if rolled_over other p then false else other <? p.
Definition greater_or_equal (p other : N) : bool :=
  if p =? other then true else after p other.
(* (p + x) & MaxPtsValue in uint64 *)
Definition add (p x : N) : N := N.land (w64 (p + x)) MaxPtsValue.
(* uint64((MaxPtsTicks - from) + p) etc., every step in uint64 *)
Definition duration_from (p from : N) : N :=
  if rolled_over p from then w64 (sub64 MaxPtsTicks from + p) else
  if rolled_over from p then w64 (sub64 MaxPtsTicks p + from) else
  if p <? from then sub64 from p else sub64 p from.

(* ExtractTime(bytes) : panics when fewer than 5 bytes *)
Definition extract_time (b : bytes) : Res N :=
  let? b4 := idx b 4 in   (* Go evaluates bytes[0] first, but either way the outcome is a panic *)
  let? b0 := idx b 0 in let? b1 := idx b 1 in let? b2 := idx b 2 in let? b3 := idx b 3 in
  let a := N.land (N.shiftr b0 1) 7 in
  let c := N.land (N.shiftr b2 1) 127 in
  let e := N.land (N.shiftr b4 1) 127 in
  Ok (N.lor (N.lor (N.lor (N.lor (N.shiftl a 30) (N.shiftl b1 22)) (N.shiftl c 15)) (N.shiftl b3 7)) e).
(* InsertPTS(b, pts) : b[0..4] overwritten; panics when fewer than 5 bytes (after partial writes,
   which a value model cannot show: the caller's slice is then partly written) *)
Definition insert_pts (b : bytes) (pts : N) : Res bytes :=
  if len b <? 5 then Panic else
  let b0 := N.lor (w8 (N.land (N.shiftr pts 29) 15)) 33 in
  let b1 := w8 (N.land (N.shiftr pts 22) 255) in
  let b2 := N.lor (w8 (N.land (N.shiftr pts 14) 255)) 1 in
  let b3 := w8 (N.land (N.shiftr pts 7) 255) in
  let b4 := N.lor (w8 (N.shiftl (w8 (N.land pts 255)) 1)) 1 in
  Ok (upd (upd (upd (upd (upd b 0 b0) 1 b1) 2 b2) 3 b3) 4 b4).
(* nested module: `Import Pts` does not bring these names into scope *)
Module Consts.
(* ---- exported constants of pts.go, in source order (coverage: notes/coverage.md) ---- *)
Definition PTS_DTS_INDICATOR_BOTH : N := 3.
Definition PTS_DTS_INDICATOR_ONLY_PTS : N := 2.
Definition PTS_DTS_INDICATOR_NONE : N := 0.
Definition PtsClockRate : N := 90000.
Definition exported_consts : list N :=
  [PTS_DTS_INDICATOR_BOTH; PTS_DTS_INDICATOR_ONLY_PTS; PTS_DTS_INDICATOR_NONE; MaxPtsValue; MaxPtsTicks; NegInf; PosInf; PtsClockRate; Upper; Lower].
End Consts.

End Pts.
