(* Model of /repo/packet/accumulator.go (with the packet accessors it uses from packet.go:
   PayloadUnitStartIndicator, ContainsPayload, ContainsAdaptationField, payloadStart, Payload).

   ORACLE: the completion predicate  f : accumulated bytes -> (done, err)  is a parameter
   (`pred`); any function.  Restated next to the theorems in Properties/C17.v. *)
From Gots Require Import Base.Prelude.
Module Accumulator.

Definition pred : Type := bytes -> (bool * option N).

(* ---- packet.go accessors on a *Packet ([188]byte) ---- *)
Definition pusi (pkt : bytes) : Res bool :=
  let? b1 := idx pkt 1 in Ok (negb (N.land b1 64 =? 0)).           (* packet[1]&0x040 != 0 *)
Definition contains_payload (pkt : bytes) : Res bool :=
  let? b3 := idx pkt 3 in Ok (negb (N.land b3 16 =? 0)).           (* packet[3]&0x10 != 0 *)
Definition contains_af (pkt : bytes) : Res bool :=
  let? b3 := idx pkt 3 in Ok (negb (N.land b3 32 =? 0)).           (* packet[3]&0x20 != 0 *)
Definition payload_start (pkt : bytes) : Res N :=
  let? af := contains_af pkt in
  if af then let? l := idx pkt 4 in Ok (4 + (1 + l)) else Ok 4.
(* Payload(packet) ([]byte, error): inner Res = the Go error result *)
Definition payload (pkt : bytes) : Res (bytes + N) :=
  let? cp := contains_payload pkt in
  if negb cp then Ok (inr E.NoPayload) else
  let? start := payload_start pkt in
  if len pkt <? start then Ok (inr E.InvalidPacketLength) else
  let? pay := slice_from pkt start in Ok (inl pay).

(* ---- accumulator ---- *)
Definition stateStarting : N := 0.
Definition stateAccumulating : N := 1.
Definition stateDone : N := 2.

Record acc : Type := mkA { state : N; buf : bytes; packets : list bytes }.
Definition new_acc : acc := mkA stateStarting [] [].

(* the part of WritePacket after the switch: copy and store the packet, append its payload,
   ask the predicate.  Result: new state and (n, err). *)
Definition add_packet (f : pred) (a : acc) (pkt : bytes) : Res (acc * (Z * option N)) :=
  let a1 := mkA (state a) (buf a) (packets a ++ [pkt]) in
  let? pl := payload pkt in
  match pl with
  | inr e => Ok (a1, (188%Z, Some e))
  | inl b =>
    let a2 := mkA (state a1) (buf a1 ++ b) (packets a1) in      (* bytes.Buffer.Write never fails *)
    match f (buf a2) with
    | (_, Some e) => Ok (a2, (188%Z, Some e))
    | (true, None) => Ok (mkA stateDone (buf a2) (packets a2), (188%Z, Some E.AccumulatorDone))
    | (false, None) => Ok (a2, (188%Z, None))
    end
  end.

(* case stateStarting *)
Definition write_starting (f : pred) (a : acc) (pkt : bytes) : Res (acc * (Z * option N)) :=
  let? p := pusi pkt in
  if negb p then Ok (a, (188%Z, Some E.NoPayloadUnitStartIndicator)) else
  add_packet f (mkA stateAccumulating [] []) pkt.               (* buf.Reset(); packets = packets[:0] *)

(* func (a *accumulator) WritePacket(pkt *Packet) (int, error)
   (the recursive call in the accumulating case enters the starting case with a PUSI packet) *)
Definition write_packet (f : pred) (a : acc) (pkt : bytes) : Res (acc * (Z * option N)) :=
  if state a =? stateStarting then write_starting f a pkt
  else if state a =? stateAccumulating then
    let? p := pusi pkt in
    if p then write_starting f (mkA stateStarting (buf a) (packets a)) pkt
    else add_packet f a pkt
  else if state a =? stateDone then Ok (a, (0%Z, Some E.AccumulatorDone))
  else add_packet f a pkt.   (* no case matches (unreachable: state is only ever 0, 1, 2) *)

Definition get_bytes (a : acc) : bytes := buf a.
Definition get_packets (a : acc) : list bytes := packets a.
Definition reset (a : acc) : acc := mkA stateStarting [] [].

(* ---- driving an accumulator with an operation list ---- *)
Inductive aop : Type := OWrite (pkt : bytes) | OReset | OBytes | OPackets.
Inductive aout : Type :=
| RWrite (n : Z) (err : option N) | RReset | RBytes (b : bytes) | RPackets (ps : list bytes).

Definition step (f : pred) (a : acc) (o : aop) : Res (acc * aout) :=
  match o with
  | OWrite pkt => let? (a', r) := write_packet f a pkt in Ok (a', RWrite (fst r) (snd r))
  | OReset => Ok (reset a, RReset)
  | OBytes => Ok (a, RBytes (get_bytes a))
  | OPackets => Ok (a, RPackets (get_packets a))
  end.

Fixpoint run (f : pred) (a : acc) (ops : list aop) : Res (list aout) :=
  match ops with
  | [] => Ok []
  | o :: t => let? (a', r) := step f a o in let? rs := run f a' t in Ok (r :: rs)
  end.

End Accumulator.
