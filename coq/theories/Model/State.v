(* MODEL of /repo/scte35/state.go as of /repo 34afac6, i.e. WITH the F10 repairs and the N1 repair
   (34afac6: the duplicate scan records the descriptor once per call, `if !descAdded { append; descAdded = true }`,
   not once per descriptor already stored for its signal time).  F10 repairs (notes/candidate-fixes.patch):
     - the `descAdded = true` slip in the VSS branch of the duplicate scan is gone,
     - after the close loop: `if s.inBlackout && s.blackoutIdx >= len(s.open) { s.inBlackout = false }`,
     - Close keeps blackoutIdx / inBlackout valid when it removes an element at or below the breakaway.
   Everything else is the code as written: the duplicate scan with its early returns that keep the
   append already made, the ring of 10 signal times, the close loop,
   the switch with fallthrough, the validation of "in" types, Close (search from the top, shift,
   truncate), Open (copy, hide the pending breakaway).
   Slice expressions that Go would check are checked here (Panic); the convention cap = len of
   DESIGN section 3 makes `s.open[0:s.blackoutIdx]` panic as soon as blackoutIdx > len(s.open).
   "The same descriptor" = the same `id` (pointer identity in Go).  No proofs in this file. *)
From Gots Require Import Base.Prelude Model.SegDesc.

Module State.
Import SegDesc.

Definition receivedRingLen : nat := 10.

(* type receivedElem struct { pts; descs } *)
Record elem : Type := mkElem { epts : N; edescs : list desc }.

Record state : Type := mkState {
  open : list desc;                 (* s.open, index 0 = opened first *)
  received : list (option elem);    (* s.received, nil = None *)
  receivedHead : nat;
  blackoutIdx : nat;
  inBlackout : bool }.

Definition NewState : state := mkState [] (repeat None receivedRingLen) 0 0 false.

(* func (s *state) Open(): the copy has cap = len, so both slice expressions are checked against len *)
Definition Open (s : state) : Res (list desc) :=
  if inBlackout s then
    if (blackoutIdx s <=? length (open s))%nat && (blackoutIdx s + 1 <=? length (open s))%nat
    then Ok (firstn (blackoutIdx s) (open s) ++ skipn (blackoutIdx s + 1) (open s))
    else Panic
  else Ok (open s).

(* ---- the duplicate scan ---- *)

(* inner loop `for _, d := range e.descs` for one ring element; `same` is e.pts == pts.
   The range expression is evaluated once, so the loop runs over the element's ORIGINAL descs while
   `e.descs = append(e.descs, desc)` grows the stored slice: the result is the number of appends made
   (at most one per call since 34afac6: `if !descAdded`), descAdded, and the early return (the error) if
   one happened. *)
Fixpoint scan_descs (desc : desc) (same : bool) (ds : list SegDesc.desc) (napp : nat) (added : bool)
  : nat * bool * option N :=
  match ds with
  | [] => (napp, added, None)
  | d :: t =>
    if same && Equal desc d then (napp, added, Some E.SCTE35DuplicateDescriptor) else
    let napp1 := if same && negb added then S napp else napp in     (* if !descAdded { append } *)
    let added1 := if same then true else added in
    if (event desc =? event d) && (ty d =? 0x40) && (ty desc =? 0x40) then
      match StreamSwitchSignalId desc with
      | None => (napp1, added1, Some E.VSSSignalIdNotFound)
      | Some s1 =>
        match StreamSwitchSignalId d with
        | None => (napp1, added1, Some E.VSSSignalIdNotFound)
        | Some s2 =>
          if (s1 =? s2) && (event d =? event desc) then (napp1, added1, Some E.SCTE35DuplicateDescriptor)
          else scan_descs desc same t napp1 added1      (* repaired: no `descAdded = true` here *)
        end
      end
    else scan_descs desc same t napp1 added1
  end.

(* outer loop `for _, e := range s.received`; elements are pointers, so the appends persist even when
   the function returns early *)
Fixpoint scan_ring (desc : desc) (pts : N) (ring : list (option elem)) (added : bool)
  : list (option elem) * bool * option N :=
  match ring with
  | [] => ([], added, None)
  | None :: t => let '(t', a, r) := scan_ring desc pts t added in (None :: t', a, r)
  | Some e :: t =>
    let '(napp, a1, r1) := scan_descs desc (epts e =? pts) (edescs e) 0 added in
    let e' := mkElem (epts e) (edescs e ++ repeat desc napp) in
    match r1 with
    | Some err => (Some e' :: t, a1, Some err)
    | None => let '(t', a, r) := scan_ring desc pts t a1 in (Some e' :: t', a, r)
    end
  end.

Fixpoint set_nth {A} (l : list A) (i : nat) (v : A) : list A :=
  match l, i with
  | [], _ => []
  | _ :: t, O => v :: t
  | h :: t, S k => h :: set_nth t k v
  end.

(* ---- the close loop: from the top of the stack while desc.CanClose(d) ---- *)
Fixpoint close_loop (desc : desc) (ropen : list SegDesc.desc) : list SegDesc.desc :=
  match ropen with
  | [] => []
  | d :: t => if CanClose desc d then d :: close_loop desc t else []
  end.

Fixpoint last_opt {A} (l : list A) : option A :=
  match l with [] => None | [x] => Some x | _ :: t => last_opt t end.

Definition is_nil {A} (l : list A) : bool := match l with [] => true | _ => false end.

(* the validation of the "in" types of the second case list *)
Definition validate_in (desc : desc) (closed open1 : list SegDesc.desc) : option N :=
  if negb (is_nil closed) && is_nil open1 then None else
  let check (od : SegDesc.desc) := if negb (event od =? event desc) then Some E.SCTE35MissingOut else None in
  let use_open :=
    match last_opt closed with
    | None => true                                       (* len(closed) == 0 *)
    | Some c => negb (ty c =? sub8 (ty desc) 1)          (* closed[len-1].TypeID() != desc.TypeID()-1, uint8 *)
    end in
  if use_open then
    match last_opt open1 with
    | None => Some E.SCTE35MissingOut
    | Some od => check od
    end
  else match last_opt closed with Some c => check c | None => None end.

Definition out_case (t : N) : bool :=
  existsb (N.eqb t) [0x10; 0x20; 0x22; 0x30; 0x32; 0x34; 0x36; 0x44; 0x40; 0x50; 0x17; 0x19].
Definition in_case (t : N) : bool :=
  existsb (N.eqb t) [0x21; 0x31; 0x35; 0x33; 0x37; 0x41; 0x51].

(* func (s *state) ProcessDescriptor(desc): (closed, err); both can be non-nil *)
Definition ProcessDescriptor (s : state) (desc : desc) : Res (state * (list SegDesc.desc * option N)) :=
  if negb (haspts desc) then Ok (s, ([], Some E.SCTE35UnsupportedSpliceCommand)) else
  let pts := ptsv desc in
  let '(ring1, descAdded, early) := scan_ring desc pts (received s) false in
  match early with
  | Some err => Ok (mkState (open s) ring1 (receivedHead s) (blackoutIdx s) (inBlackout s), ([], Some err))
  | None =>
    (* s.received[s.receivedHead] = ...; index checked *)
    let? (ring2, head2) :=
      if descAdded then Ok (ring1, receivedHead s)
      else if (receivedHead s <? length ring1)%nat
           then Ok (set_nth ring1 (receivedHead s) (Some (mkElem pts [desc])),
                    ((receivedHead s + 1) mod receivedRingLen)%nat)
           else Panic in
    let closed := close_loop desc (rev (open s)) in
    let open1 := firstn (length (open s) - length closed) (open s) in
    (* repaired: the breakaway itself was closed *)
    let inb1 := if inBlackout s && (length open1 <=? blackoutIdx s)%nat then false else inBlackout s in
    let bidx := blackoutIdx s in
    if ty desc =? 0x13 then
      Ok (mkState (open1 ++ [desc]) ring2 head2 (length open1) true, (closed, None))
    else if ty desc =? 0x14 then
      if inb1 then
        (* s.open = s.open[0:s.blackoutIdx]; fallthrough: append *)
        if (bidx <=? length open1)%nat
        then Ok (mkState (firstn bidx open1 ++ [desc]) ring2 head2 bidx false, (closed, None))
        else Panic
      else Ok (mkState (open1 ++ [desc]) ring2 head2 bidx inb1, (closed, Some E.SCTE35InvalidDescriptor))
    else if out_case (ty desc) then
      Ok (mkState (open1 ++ [desc]) ring2 head2 bidx inb1, (closed, None))
    else if ty desc =? 0x11 then
      Ok (mkState open1 ring2 head2 bidx inb1, (closed, if is_nil closed then Some E.SCTE35MissingOut else None))
    else if in_case (ty desc) then
      Ok (mkState open1 ring2 head2 bidx inb1, (closed, validate_in desc closed open1))
    else Ok (mkState open1 ring2 head2 bidx inb1, (closed, None))
  end.

(* ---- Close: search from the top for the first d with desc.Equal(d) ---- *)
Fixpoint find_last_equal (desc : desc) (l : list SegDesc.desc) : option nat :=
  match l with
  | [] => None
  | d :: t =>
    match find_last_equal desc t with
    | Some k => Some (S k)
    | None => if Equal desc d then Some O else None
    end
  end.

Definition Close (s : state) (desc : desc) : state * (list SegDesc.desc * option N) :=
  match find_last_equal desc (open s) with
  | None => (s, ([], Some E.SCTE35DescriptorNotFound))
  | Some i =>
    let d := nth i (open s) desc in
    let open1 := firstn i (open s) ++ skipn (S i) (open s) in     (* copy(s.open[i:], s.open[i+1:]); truncate *)
    (* repaired bookkeeping *)
    let '(bidx, inb) :=
      if inBlackout s then
        if (i =? blackoutIdx s)%nat then (blackoutIdx s, false)
        else if (i <? blackoutIdx s)%nat then ((blackoutIdx s - 1)%nat, true)
        else (blackoutIdx s, true)
      else (blackoutIdx s, false) in
    (mkState open1 (received s) (receivedHead s) bidx inb, ([d], None))
  end.

(* ---- a history: calls by index into a pool of descriptors ---- *)
Inductive call : Type := CProcess (i : nat) | CClose (i : nat) | COpen.

(* observation of one call: closed ids, error (0 = nil), Open() after the call *)
Record obs : Type := mkObs { o_closed : list N; o_err : N; o_open : Res (list N) }.

Definition ids (l : list desc) : list N := map id l.
Definition errn (e : option N) : N := match e with Some n => n | None => 0 end.

Definition step (pool : list desc) (s : state) (c : call) : Res (state * obs) :=
  match c with
  | CProcess i =>
    match nth_error pool i with
    | None => Err E.Other
    | Some d =>
      let? (s', (closed, err)) := ProcessDescriptor s d in
      Ok (s', mkObs (ids closed) (errn err) (rmap ids (Open s')))
    end
  | CClose i =>
    match nth_error pool i with
    | None => Err E.Other
    | Some d =>
      let '(s', (closed, err)) := Close s d in
      Ok (s', mkObs (ids closed) (errn err) (rmap ids (Open s')))
    end
  | COpen => Ok (s, mkObs [] 0 (rmap ids (Open s)))
  end.

(* run a script: one observation per call; None = the call itself panicked.  The run stops at the
   first panic (of the call, or of the Open() after it, which is recorded in the observation). *)
Fixpoint run (pool : list desc) (s : state) (cs : list call) : list (option obs) :=
  match cs with
  | [] => []
  | c :: t =>
    match step pool s c with
    | Ok (s', o) =>
      match o_open o with
      | Ok _ => Some o :: run pool s' t
      | _ => [Some o]
      end
    | _ => [None]
    end
  end.

End State.
