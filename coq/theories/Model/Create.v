(* Model of /repo/packet/create.go : packet creation helpers.  The variadic option functions of
   Create are data here (one constructor per exported option; the closure CreatePacketWithPayload
   builds and the two-argument WithPES are constructors carrying their captured arguments). *)
From Gots Require Import Base.Prelude Model.Pts Model.Packet.
Module Create.
Import Packet.

Inductive option_fn : Type :=
| WithHasPayloadFlag | WithHasAdaptationFieldFlag | WithAFPrivateDataFlag | WithPUSI
| WithContinuousAF | WithDiscontinuousAF
| OptSetPayload (pay : bytes)        (* func(pkt *Packet) { SetPayload(pkt, pay) } *)
| OptWithPES (pts : N).              (* func(pkt *Packet) { WithPES(pkt, pts) } *)

(* pkt[1] = byte(pid >> 8 & 0x1f); pkt[2] = byte(pid & 0xff) *)
Definition setPid (pkt : bytes) (pid : Z) : bytes :=
  upd (upd pkt 1 (byteZ (Z.land (Z.shiftr pid 8) 31))) 2 (byteZ (Z.land pid 255)).

Definition or_byte (pkt : bytes) (i m : N) : bytes := upd pkt i (N.lor (get pkt i) m).

(* func SetPayload(pkt *Packet, pay []byte) int : the loop never indexes outside the packet *)
Definition SetPayload_fn (pkt : bytes) (pay : bytes) : bytes * N :=
  let start := payloadStart_fn pkt in
  (blit pkt start pay, N.min (len pay) (PacketSize - start)).

Definition pes_payload (pts : N) : bytes :=
  let pay := repeatN 0 184 in
  let pay := upd pay 0 0 in let pay := upd pay 1 0 in let pay := upd pay 2 1 in
  let pay := upd pay 3 184 in let pay := upd pay 4 0 in
  let pay := upd pay 6 64 in let pay := upd pay 7 128 in let pay := upd pay 8 14 in
  match slice pay 9 14 with
  | Ok s => match Pts.insert_pts s pts with Ok s' => blit pay 9 s' | _ => pay end
  | _ => pay
  end.

Definition apply_option (pkt : bytes) (o : option_fn) : bytes :=
  match o with
  | WithHasPayloadFlag => or_byte pkt 3 16
  | WithHasAdaptationFieldFlag => or_byte pkt 3 32
  | WithAFPrivateDataFlag => or_byte pkt 5 2
  | WithPUSI => or_byte pkt 1 64
  | WithContinuousAF => or_byte pkt 5 127
  | WithDiscontinuousAF => or_byte pkt 5 128
  | OptSetPayload pay => fst (SetPayload_fn pkt pay)
  | OptWithPES pts => or_byte (fst (SetPayload_fn pkt (pes_payload pts))) 3 16
  end.

Definition setSyncByte (pkt : bytes) : bytes := upd pkt 0 SyncByte.

Definition Create (pid : Z) (options : list option_fn) : bytes :=
  setSyncByte (fold_left apply_option options (setPid zero_packet pid)).

Definition CreateTestPacket (pid : Z) (cc : N) (pusi hasPay : bool) : bytes :=
  if hasPay && pusi then SetCC (Create pid [WithHasPayloadFlag; WithContinuousAF; WithPUSI]) cc
  else if hasPay then SetCC (Create pid [WithHasPayloadFlag; WithContinuousAF]) cc
  else SetCC (Create pid [WithContinuousAF]) cc.

Definition CreateDCPacket (pid : Z) (cc : N) : bytes :=
  SetCC (Create pid [WithDiscontinuousAF; WithHasPayloadFlag]) cc.

Definition CreatePacketWithPayload (pid : Z) (cc : N) (pay : bytes) : bytes :=
  SetCC (Create pid [WithHasPayloadFlag; WithContinuousAF; OptSetPayload pay]) cc.
(* TestPatPacket / TestPmtPacket (create.go): the literal bytes, then 0xff up to 188 *)
Definition TestPatPacket : bytes :=
  [71; 64; 0; 16; 0; 0; 176; 13; 0; 1; 203; 0; 0; 0; 1; 224; 100; 104; 214; 132; 46] ++ repeatN 255 167.
Definition TestPmtPacket : bytes :=
  [71; 64; 100; 16; 0; 2; 176; 45; 0; 1; 203; 0; 0; 224; 101; 240; 6; 5; 4; 67; 85; 69; 73; 27; 224; 101; 240; 5; 14; 3; 0; 4; 176; 15; 224; 102; 240; 6; 10; 4; 101; 110; 103; 0; 134; 224; 110; 240; 0; 127; 201; 173; 50] ++ repeatN 255 135.

End Create.
