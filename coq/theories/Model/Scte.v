(* Model of the SCTE-35 decoder: /repo/scte35/scte35.go (NewSCTE35, parseTable, uint40),
   splicecommand.go (parseTimeSignal, parseSpliceInsert, spliceInsert.parse, parseSpliceTime),
   segmentationdescriptor.go (parseDescriptor, componentFromBytes), psi/psi.go (PointerField,
   TableHeaderFromBytes), tsutils.go (ComputeCRC).
   The repaired code (/repo HEAD) is modelled: F8 component offset / 40-bit duration; descriptor loop
   counter in int; guards in the MID loop; the two length guards of parseDescriptor (1ed5cb6);
   a splice_null keeps its pts_adjustment in s.pts (0fcfd24).
   Conventions: DESIGN section 3.  Disjoint big-endian assembly `a<<8 | b` is written `a*256 + b`
   (as Prelude.be16/be32); masks stay N.land; every uint8/uint16 wrap is explicit. *)
From Gots Require Import Base.Prelude Model.Pts.
Module Scte.

(* ---- bytes.Buffer: remaining bytes + the byte an UnreadByte would restore (lastRead = opRead) ---- *)
Record buf := mkbuf { rem : bytes; last : option N }.
Definition buf_new (b : bytes) : buf := mkbuf b None.
Definition blen (b : buf) : N := len (rem b).
(* ReadByte: EOF on empty (and Reset, which invalidates UnreadByte) *)
Definition read_byte (b : buf) : option N * buf :=
  match rem b with
  | [] => (None, mkbuf [] None)
  | x :: r => (Some x, mkbuf r (Some x))
  end.
(* the closure `readByte := func() byte { b, _ := buf.ReadByte(); return b }` *)
Definition read_byte0 (b : buf) : N * buf :=
  match read_byte b with (Some x, b') => (x, b') | (None, b') => (0, b') end.
(* Next(n): min n len bytes, never panics (n >= 0 at every call site) *)
Definition next (n : N) (b : buf) : bytes * buf :=
  let d := takeN n (rem b) in
  (d, mkbuf (dropN n (rem b)) (match d with [] => None | _ => Some (List.last d 0) end)).
(* UnreadByte: error unless the previous operation was a successful read *)
Definition unread_byte (b : buf) : Res buf :=
  match last b with None => Err E.Other | Some x => Ok (mkbuf (x :: rem b) None) end.

(* ---- the structs ---- *)
Record component := mkcomp { c_tag : N; c_has_pts : bool; c_pts : N }.
Record insert := mkins {
  i_event_id : N; i_cancel : bool; i_out : bool; i_program : bool; i_immediate : bool;
  i_has_pts : bool; i_pts : N; i_components : list component;
  i_has_duration : bool; i_duration : N; i_auto_return : bool;
  i_unique_program_id : N; i_avail_num : N; i_avails_expected : N }.
Inductive command := CNull | CTime (has_pts : bool) (pts : N) | CInsert (i : insert).
Record comp_offset := mkco { co_tag : N; co_off : N }.
Record upid := mkupid { u_type : N; u_len : N; u_upid : bytes }.
Record segdesc := mkseg {
  d_type : N; d_event_id : N; d_has_duration : bool; d_duration : N; d_upid_type : N;
  d_upid : bytes; d_mid : list upid; d_seg_num : N; d_segs_expected : N;
  d_sub_seg_num : N; d_sub_segs_expected : N;
  d_owner : option N;            (* spliceInfo: id of the signal it points to, None = nil *)
  d_cancel : bool; d_dnr : bool; d_has_sub : bool;
  d_program_seg : bool; d_web : bool; d_noblackout : bool; d_archive : bool; d_device : N;
  d_components : list comp_offset }.
Record scte := mkscte {
  s_id : N;                      (* identity of the object (DESIGN section 3: pointers as ids) *)
  s_tid : N; s_ssi : bool; s_pi : bool; s_slen : N;      (* psi.TableHeader *)
  s_protocol : N; s_encrypted : bool; s_enc_alg : N; s_pts : N; s_cw : N; s_tier : N;
  s_scl : N; s_cmd_type : N; s_cmd : command; s_descs : list segdesc;
  s_stuffing : N; s_data : bytes; s_other : bytes }.

Definition SpliceNull : N := 0.
Definition SpliceInsert : N := 5.
Definition TimeSignal : N := 6.
Definition segDescTag : N := 2.
Definition segDescID : N := 1129661769.    (* 0x43554549 "CUEI" *)
Definition SegUPIDMID : N := 13.
Definition M33 : N := 8589934591.          (* 0x01ffffffff *)

Definition cmd_has_pts (c : command) : bool :=
  match c with CNull => false | CTime h _ => h | CInsert i => i_has_pts i end.
Definition cmd_pts (c : command) : N :=
  match c with CNull => 0 | CTime _ p => p | CInsert i => i_pts i end.
Definition cmd_type (c : command) : N :=
  match c with CNull => SpliceNull | CTime _ _ => TimeSignal | CInsert _ => SpliceInsert end.

(* uint40(buf): five indexings (panic when shorter), bit 0 of buf[0] on top of 32 bits *)
Definition uint40 (b : bytes) : Res N :=
  let? b0 := idx b 0 in let? b1 := idx b 1 in let? b2 := idx b 2 in
  let? b3 := idx b 3 in let? b4 := idx b 4 in
  Ok (N.land b0 1 * 4294967296 + be32 b1 b2 b3 b4).
(* binary.BigEndian.Uint32 / Uint16: panic when shorter *)
Definition be32_of (b : bytes) : Res N :=
  let? b3 := idx b 3 in
  let? b0 := idx b 0 in let? b1 := idx b 1 in let? b2 := idx b 2 in Ok (be32 b0 b1 b2 b3).
Definition be16_of (b : bytes) : Res N :=
  let? b1 := idx b 1 in let? b0 := idx b 0 in Ok (be16 b0 b1).

(* parseSpliceTime: Go returns (timeSpecified, pts, err) and some callers look at the flag
   before the error, so all three are kept *)
Definition parse_splice_time (b : buf) : Res ((bool * N * option N) * buf) :=
  match read_byte b with
  | (None, b1) => Ok ((false, 0, Some E.InvalidSCTE35Length), b1)
  | (Some flags, b1) =>
    if negb (N.land flags 128 =? 128) then Ok ((false, 0, None), b1) else
    match unread_byte b1 with
    | Ok b2 =>
      if blen b2 <? 5 then Ok ((true, 0, Some E.InvalidSCTE35Length), b2) else
      let (d, b3) := next 5 b2 in
      let? v := uint40 d in
      Ok ((true, N.land v M33, None), b3)
    | Err e => Ok ((true, 0, Some e), b1)
    | Panic => Panic | Diverge => Diverge
    end
  end.

(* parseTimeSignal: `if !hasPTS` is tested first and the error is otherwise dropped *)
Definition parse_time_signal (b : buf) : Res (command * buf) :=
  let? r := parse_splice_time b in
  let '((has, pts, _), b1) := r in
  if negb has then Err E.SCTE35UnsupportedSpliceCommand else Ok (CTime has pts, b1).

(* component loop of spliceInsert.parse: `for ; cc > 0; cc--` over a uint8 *)
Fixpoint parse_components (cc : nat) (imm : bool) (b : buf) (acc : list component)
  : Res (list component * buf) :=
  match cc with
  | O => Ok (acc, b)
  | S k =>
    match read_byte b with
    | (None, _) => Err E.InvalidSCTE35Length
    | (Some tag, b1) =>
      if negb imm then
        let? r := parse_splice_time b1 in
        let '((has, pts, err), b2) := r in
        match err with
        | Some e => Err e
        | None => parse_components k imm b2 (acc ++ [mkcomp tag has pts])
        end
      else parse_components k imm b1 (acc ++ [mkcomp tag false 0])
    end
  end.

Definition ins0 : insert := mkins 0 false false false false false 0 [] false 0 false 0 0 0.

Definition parse_insert (b : buf) : Res (insert * buf) :=
  let (base, b1) := next 5 b in
  if len base <? 5 then Err E.InvalidSCTE35Length else
  let? eid := be32_of (takeN 4 base) in
  let? f4 := idx base 4 in
  let cancel := N.land f4 128 =? 128 in
  if cancel then Ok (mkins eid true false false false false 0 [] false 0 false 0 0 0, b1) else
  match read_byte b1 with
  | (None, _) => Err E.InvalidSCTE35Length
  | (Some flags, b2) =>
    let out := N.land flags 128 =? 128 in
    let prog := N.land flags 64 =? 64 in
    let hasdur := N.land flags 32 =? 32 in
    let imm := N.land flags 16 =? 16 in
    let? r1 :=
      (if prog && negb imm then
         let? r := parse_splice_time b2 in
         let '((has, pts, err), b3) := r in
         match err with
         | Some e => Err e
         | None => if negb has then Err E.SCTE35UnsupportedSpliceCommand else Ok (has, pts, b3)
         end
       else Ok (false, 0, b2)) in
    let '(haspts, pts, b3) := r1 in
    let? r2 :=
      (if negb prog then
         match read_byte b3 with
         | (None, _) => Err E.InvalidSCTE35Length
         | (Some cc, b4) => parse_components (N.to_nat cc) imm b4 []
         end
       else Ok ([], b3)) in
    let '(comps, b5) := r2 in
    let? r3 :=
      (if hasdur then
         let (d, b6) := next 5 b5 in
         if len d <? 5 then Err E.InvalidSCTE35Length else
         let? d0 := idx d 0 in
         let? v := uint40 d in
         Ok (N.land d0 128 =? 128, N.land v M33, b6)
       else Ok (false, 0, b5)) in
    let '(auto, dur, b7) := r3 in
    let (pi, b8) := next 4 b7 in
    if len pi <? 4 then Err E.InvalidSCTE35Length else
    let? up := be16_of (takeN 2 pi) in
    let? an := idx pi 2 in
    let? ae := idx pi 3 in
    Ok (mkins eid false out prog imm haspts pts comps hasdur dur auto up an ae, b8)
  end.

(* componentFromBytes (repaired: mask, then shift) *)
Definition component_from_bytes (b : bytes) : Res comp_offset :=
  let? b0 := idx b 0 in let? b1 := idx b 1 in let? b2 := idx b 2 in
  let? b3 := idx b 3 in let? b4 := idx b 4 in let? b5 := idx b 5 in
  Ok (mkco b0 (N.land b1 1 * 4294967296 + be32 b2 b3 b4 b5)).

Fixpoint parse_seg_components (ct : nat) (b : buf) (acc : list comp_offset)
  : Res (list comp_offset * buf) :=
  match ct with
  | O => Ok (acc, b)
  | S k =>
    let (d, b1) := next 6 b in
    let? c := component_from_bytes d in
    parse_seg_components k b1 (acc ++ [c])
  end.

(* the MID loop `for segUpidLen != 0` (repaired: two guards); fuel exhaustion = Diverge *)
Fixpoint parse_mid (fuel : nat) (sul : N) (b : buf) (acc : list upid) : Res (list upid * buf) :=
  match fuel with
  | O => Diverge
  | S f =>
    if sul =? 0 then Ok (acc, b) else
    if (sul <? 2) || (blen b <? 2) then Err E.InvalidSCTE35Length else
    let (ty, b1) := read_byte0 b in
    let sul1 := sul - 1 in
    let (ul, b2) := read_byte0 b1 in
    let sul2 := sul1 - 1 in
    if (sul2 <? ul) || (blen b2 <? ul) then Err E.InvalidSCTE35Length else
    let (u, b3) := next ul b2 in
    parse_mid f (sul2 - ul) b3 (acc ++ [mkupid ty ul u])
  end.

Definition seg0 (owner : option N) : segdesc :=
  mkseg 0 0 false 0 0 [] [] 0 0 0 0 owner false false false false false false false 0 [].

(* segmentationDescriptor.parseDescriptor(data); owner = the signal being parsed *)
Definition parse_descriptor (owner : option N) (data : bytes) : Res segdesc :=
  let b := buf_new data in
  if blen b <? 4 then Err E.InvalidSCTE35Length else          (* too short to hold the identifier *)
  let (idb, b1) := next 4 b in
  let? id := be32_of idb in
  if negb (id =? segDescID) then Err E.SCTE35InvalidDescriptorID else
  if blen b1 <? 5 then Err E.InvalidSCTE35Length else         (* event id + cancel indicator must be present *)
  let (eb, b2) := next 4 b1 in
  let? eid := be32_of eb in
  let (c, b3) := read_byte0 b2 in
  let cancel := negb (N.land c 128 =? 0) in
  if cancel then
    Ok (mkseg 0 eid false 0 0 [] [] 0 0 0 0 owner true false false false false false false 0 [])
  else
  let (flags, b4) := read_byte0 b3 in
  let dnr := negb (N.land flags 32 =? 0) in
  let hasdur := negb (N.land flags 64 =? 0) in
  let prog := negb (N.land flags 128 =? 0) in
  let web := if dnr then false else negb (N.land flags 16 =? 0) in
  let nobl := if dnr then false else negb (N.land flags 8 =? 0) in
  let arch := if dnr then false else negb (N.land flags 4 =? 0) in
  let dev := if dnr then 0 else N.land flags 3 in
  let? r1 :=
    (if negb prog then
       let (ct, b5) := read_byte0 b4 in
       (* int(ct)*6 > buf.Len()-5, in int *)
       if (Z.of_N (blen b5) - 5 <? Z.of_N ct * 6)%Z then Err E.InvalidSCTE35Length
       else parse_seg_components (N.to_nat ct) b5 []
     else Ok ([], b4)) in
  let '(comps, b6) := r1 in
  let? r2 :=
    (if hasdur then
       if blen b6 <? 10 then Err E.InvalidSCTE35Length else
       let (db, b7) := next 5 b6 in
       let? d0 := idx db 0 in
       let? lo := be32_of (dropN 1 db) in
       Ok (d0 * 4294967296 + lo, b7)
     else Ok (0, b6)) in
  let '(dur, b8) := r2 in
  let (uty, b9) := read_byte0 b8 in
  let (sul, b10) := read_byte0 b9 in
  let? r3 :=
    (if uty =? SegUPIDMID then
       let? r := parse_mid (S (N.to_nat sul)) sul b10 [] in
       let (m, bb) := r in Ok ([], m, bb)
     else
       if blen b10 <? sul + 3 then Err E.InvalidSCTE35Length else
       let (u, bb) := next sul b10 in Ok (u, [], bb)) in
  let '(u, m, b11) := r3 in
  let (ty, b12) := read_byte0 b11 in
  let (sn, b13) := read_byte0 b12 in
  let (se, b14) := read_byte0 b13 in
  if (0 <? blen b14) && ((ty =? 52) || (ty =? 54)) then
    let (ssn, b15) := read_byte0 b14 in
    let (sse, _) := read_byte0 b15 in
    Ok (mkseg ty eid hasdur dur uty u m sn se ssn sse owner false dnr true prog web nobl arch dev comps)
  else
    Ok (mkseg ty eid hasdur dur uty u m sn se 0 0 owner false dnr false prog web nobl arch dev comps).

(* the descriptor loop of parseTable (repaired: bytesRead and the comparisons in int) *)
Fixpoint parse_desc_loop (fuel : nat) (owner : N) (dll bytes_read : N) (b : buf)
    (other : bytes) (descs : list segdesc) : Res (bytes * list segdesc * buf) :=
  match fuel with
  | O => Diverge
  | S f =>
    if negb (bytes_read <? dll) then Ok (other, descs, b) else
    let (tag, b1) := read_byte0 b in
    let (dl, b2) := read_byte0 b1 in
    if (Z.of_N dll - Z.of_N bytes_read - 2 <? Z.of_N dl)%Z then Err E.InvalidSCTE35Length else
    if negb (tag =? segDescTag) then
      let (body, b3) := next dl b2 in
      parse_desc_loop f owner dll (bytes_read + 2 + dl) b3 (other ++ [tag; dl] ++ body) descs
    else
      let (body, b3) := next dl b2 in
      let? d := parse_descriptor (Some owner) body in
      parse_desc_loop f owner dll (bytes_read + 2 + dl) b3 other (descs ++ [d])
  end.

(* psi.TableHeaderFromBytes *)
Definition table_header_from_bytes (d : bytes) : Res (N * bool * bool * N) :=
  if len d <? 3 then Err E.ShortPayload else
  let? d0 := idx d 0 in let? d1 := idx d 1 in let? d2 := idx d 2 in
  Ok (d0, negb (N.land d1 128 =? 0), negb (N.land d1 64 =? 0), N.land d1 3 * 256 + d2).

(* psi.PointerField (with the guard of the C05 repair in psi.go: 0 on empty input; the pinned
   /repo indexes data[0] and panics on empty input) *)
Definition pointer_field (data : bytes) : N := match data with [] => 0 | x :: _ => x end.

(* the command switch of parseTable: (s.pts, s.commandInfo, rest of buffer) *)
Definition parse_command (ct adj : N) (b : buf) : Res (N * command * buf) :=
  if (ct =? TimeSignal) || (ct =? SpliceInsert) then
    let? rc := (if ct =? TimeSignal then parse_time_signal b
                else let? ri := parse_insert b in let (i, b') := ri in Ok (CInsert i, b')) in
    let (cmd, b') := rc in
    Ok (Pts.add (cmd_pts cmd) adj, cmd, b')
  else if ct =? SpliceNull then Ok (adj, CNull, b)   (* s.pts = ptsAdjustment: nothing to adjust, kept for re-encoding *)
  else Err E.SCTE35UnsupportedSpliceCommand.

(* descriptor_loop_length, the two length guards and the descriptor loop of parseTable *)
Definition parse_descriptors (sid : N) (data : bytes) (b : buf) : Res (bytes * list segdesc) :=
  if blen b <? 6 then Err E.InvalidSCTE35Length else
  let (lb, b) := next 2 b in
  let? dll := be16_of lb in
  if blen b <? dll + 4 then Err E.InvalidSCTE35Length else
  let? rl := parse_desc_loop (S (length data)) sid dll 0 b [] [] in
  let '(other, descs, _) := rl in Ok (other, descs).

(* scte35.parseTable; sid = identity given to the new object *)
Definition parse_table (sid : N) (data : bytes) : Res scte :=
  let pf := pointer_field data in
  if len data <? w16 (pf + 4 + 15) then Err E.InvalidSCTE35Length else   (* uint16(pf)+PSIHeaderLen(=4)+15 *)
  let b := buf_new data in
  let (_, b) := next (w8 (pf + 1)) b in           (* uint8 addition *)
  let (hb, b) := next 3 b in
  let? th := table_header_from_bytes hb in
  let '(tid, ssi, pi, slen) := th in
  if negb (tid =? 252) then Err E.UnknownTableID else
  let (pv, b) := read_byte0 b in
  let (f, b) := read_byte0 b in
  if negb (N.land f 128 =? 0) then Err E.SCTE35EncryptionUnsupported else
  let? b := unread_byte b in
  let (f2, b) := read_byte0 b in
  let encalg := N.land (N.shiftr f2 1) 63 in
  let? b := unread_byte b in
  let (ab, b) := next 5 b in
  let? adj0 := uint40 ab in
  let adj := N.land adj0 M33 in
  let (cw, b) := read_byte0 b in
  let (tb, b) := next 3 b in
  let? t0 := idx tb 0 in let? t1 := idx tb 1 in let? t2 := idx tb 2 in
  let tier := t0 * 16 + N.shiftr (N.land t1 240) 4 in
  let scl := N.land t1 15 * 256 + t2 in
  let (ct, b) := read_byte0 b in
  let? r := parse_command ct adj b in
  let '(pts, cmd, b) := r in
  let? od := parse_descriptors sid data b in
  let (other, descs) := od in
  let? dat := slice_from data (w8 (pf + 1)) in
  Ok (mkscte sid tid ssi pi slen pv false encalg pts cw tier scl ct cmd descs 0 dat other).

Definition new_scte35 (data : bytes) : Res scte := parse_table 1 data.

(* ---- tsutils.go ComputeCRC, transliterated (register loop); Module Crc of another branch
   proves this algorithm equal to CRC-32/MPEG-2 ---- *)
Definition crc_step (crc bitv : N) : N :=
  let top := N.land crc 2147483648 in
  let crc' := N.lor (N.land (N.shiftl crc 1) 4294967295) bitv in
  if negb (top =? 0) then N.lxor crc' 79764919 else crc'.
Definition crc_byte (crc item : N) : N :=
  fold_left (fun c j => crc_step c (N.land (N.shiftr item (7 - j)) 1)) [0;1;2;3;4;5;6;7] crc.
Definition crc_reg (input : bytes) : N :=
  let c := fold_left crc_byte input 1185899593 in
  fold_left (fun c _ => crc_step c 0) (repeat tt 32) c.
Definition crc_model (input : bytes) : bytes := to_be32 (crc_reg input).   (* binary.BigEndian.PutUint32 *)

End Scte.
