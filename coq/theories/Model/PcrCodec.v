(* Model of /repo/pcr.go : ExtractPCR / InsertPCR, uint64 arithmetic written out. *)
From Gots Require Import Base.Prelude.
Module PcrCodec.
(* ExtractPCR(bytes) : reads bytes[0..5] in this order; panics when fewer than 6 bytes *)
Definition extract_pcr (bytes : bytes) : Res N :=
  let? a := idx bytes 0 in let? b := idx bytes 1 in let? c := idx bytes 2 in
  let? d := idx bytes 3 in let? e := idx bytes 4 in let? f := idx bytes 5 in
  let pcrBase := N.lor (N.lor (N.lor (N.lor (w64 (N.shiftl a 25)) (w64 (N.shiftl b 17))) (w64 (N.shiftl c 9)))
                              (w64 (N.shiftl d 1))) (N.shiftr e 7) in
  let pcrExt := N.lor (w64 (N.shiftl (N.land e 1) 8)) f in
  Ok (w64 (w64 (pcrBase * 300) + pcrExt)).
(* InsertPCR(b, pcr) : b[0..5] overwritten in this order; panics when fewer than 6 bytes (after
   partial writes, which a value model cannot show: the caller's slice is then partly written) *)
Definition insert_pcr (b : bytes) (pcr : N) : Res bytes :=
  if len b <? 6 then Panic else
  let pcrBase := pcr / 300 in
  let pcrExt := N.land (sub64 pcr (w64 (pcrBase * 300))) 511 in
  let b0 := w8 (N.shiftr pcrBase 25) in
  let b1 := w8 (N.shiftr pcrBase 17) in
  let b2 := w8 (N.shiftr pcrBase 9) in
  let b3 := w8 (N.shiftr pcrBase 1) in
  let b4 := w8 (N.lor (N.lor (w64 (N.shiftl pcrBase 7)) (N.shiftr pcrExt 8)) 126) in
  let b5 := w8 (N.land pcrExt 255) in
  Ok (upd (upd (upd (upd (upd (upd b 0 b0) 1 b1) 2 b2) 3 b3) 4 b4) 5 b5).
End PcrCodec.
