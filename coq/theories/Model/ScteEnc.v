(* Model of the SCTE-35 encoder and setter API: /repo/scte35/modify.go (CreateSCTE35, subtractPTS,
   UpdateData, Set.. ), splicecommandmodify.go (Create.., spliceTimeBytes, Data, Set.. ),
   descriptormodify.go (Data, Set.. ), segmentationdescriptor.go (componentOffset.data, UPID/MID getters),
   psi/psi.go (TableHeader.Data).  REPAIRED code for F9 (cancelled splice_insert stops after the
   indicator; component splice_time emitted when NOT immediate; SCTE35.SetHasPTS passes its flag).
   Also repaired in /repo HEAD and modelled so: UPID.SetUPID sets upidLen = len(value) (0cd2c00);
   spliceTimeBytes emits 0x7F for an unspecified time (ce48cf3).
   Rendering: byte(x>>k) = (x / 2^k) mod 256, `& (2^k-1)` = mod 2^k, OR of disjoint fields = +. *)
From Gots Require Import Base.Prelude Model.Pts Model.Scte.
Module ScteEnc.
Import Scte.

Definition T32 : N := 4294967296.

(* ---- field updates (Go assignments through the pointer receiver) ---- *)
Definition ins_upd (i : insert) (eid : N) (cancel out prog imm has : bool) (pts : N) (comps : list component)
  (hasdur : bool) (dur : N) (auto : bool) (up an ae : N) : insert :=
  mkins eid cancel out prog imm has pts comps hasdur dur auto up an ae.

Inductive comp_op := CSetTag (v : N) | CSetHasPTS (b : bool) | CSetPTS (v : N).
Definition apply_comp_op (o : comp_op) (c : component) : component :=
  match o with
  | CSetTag v => mkcomp v (c_has_pts c) (c_pts c)
  | CSetHasPTS b => mkcomp (c_tag c) b (c_pts c)
  | CSetPTS v => mkcomp (c_tag c) (c_has_pts c) (v mod 8589934592)
  end.

Fixpoint upd_nth {A} (l : list A) (n : nat) (f : A -> A) : list A :=
  match l, n with
  | [], _ => []
  | x :: t, O => f x :: t
  | x :: t, S k => x :: upd_nth t k f
  end.

Inductive cmd_op :=
| KSetHasPTS (b : bool) | KSetPTS (v : N)                      (* SpliceCommand interface *)
| ISetEventID (v : N) | ISetIsOut (b : bool) | ISetIsEventCanceled (b : bool)
| ISetHasDuration (b : bool) | ISetDuration (v : N) | ISetIsAutoReturn (b : bool)
| ISetUniqueProgramId (v : N) | ISetAvailNum (v : N) | ISetAvailsExpected (v : N)
| ISetIsProgramSplice (b : bool) | ISetSpliceImmediate (b : bool)
| IComp (j : nat) (o : comp_op).                               (* Components()[j].Set... *)

Definition apply_ins_op (o : cmd_op) (i : insert) : insert :=
  match i with
  | mkins eid cancel out prog imm has pts comps hasdur dur auto up an ae =>
    match o with
    | KSetHasPTS b => mkins eid cancel out prog imm b pts comps hasdur dur auto up an ae
    | KSetPTS v => mkins eid cancel out prog imm has (v mod 8589934592) comps hasdur dur auto up an ae
    | ISetEventID v => mkins v cancel out prog imm has pts comps hasdur dur auto up an ae
    | ISetIsOut b => mkins eid cancel b prog imm has pts comps hasdur dur auto up an ae
    | ISetIsEventCanceled b => mkins eid b out prog imm has pts comps hasdur dur auto up an ae
    | ISetHasDuration b => mkins eid cancel out prog imm has pts comps b dur auto up an ae
    | ISetDuration v => mkins eid cancel out prog imm has pts comps hasdur (v mod 8589934592) auto up an ae   (* 0b05886 *)
    | ISetIsAutoReturn b => mkins eid cancel out prog imm has pts comps hasdur dur b up an ae
    | ISetUniqueProgramId v => mkins eid cancel out prog imm has pts comps hasdur dur auto v an ae
    | ISetAvailNum v => mkins eid cancel out prog imm has pts comps hasdur dur auto up v ae
    | ISetAvailsExpected v => mkins eid cancel out prog imm has pts comps hasdur dur auto up an v
    | ISetIsProgramSplice b => mkins eid cancel out b imm has pts comps hasdur dur auto up an ae
    | ISetSpliceImmediate b => mkins eid cancel out prog b has pts comps hasdur dur auto up an ae
    | IComp j co => mkins eid cancel out prog imm has pts (upd_nth comps j (apply_comp_op co)) hasdur dur auto up an ae
    end
  end.

(* a setter of SpliceInsertCommand applied to another command kind is not callable (no-op in the executors) *)
Definition apply_cmd_op (o : cmd_op) (c : command) : command :=
  match c with
  | CNull => CNull                                 (* spliceNull.SetHasPTS / SetPTS do nothing *)
  | CTime h p =>
    match o with
    | KSetHasPTS b => CTime b p
    | KSetPTS v => CTime h (v mod 8589934592)
    | _ => CTime h p
    end
  | CInsert i => CInsert (apply_ins_op o i)
  end.

(* CreateSpliceNull / CreateTimeSignalCommand / CreateSpliceInsertCommand (isProgramSplice: true) *)
Definition create_cmd (k : N) : command :=
  if k =? 1 then CTime false 0
  else if k =? 2 then CInsert (mkins 0 false false true false false 0 [] false 0 false 0 0 0)
  else CNull.

Inductive co_op := CoSetTag (v : N) | CoSetOffset (v : N).
Definition apply_co_op (o : co_op) (c : comp_offset) : comp_offset :=
  match o with
  | CoSetTag v => mkco v (co_off c)
  | CoSetOffset v => mkco (co_tag c) (v mod 8589934592)
  end.

Inductive desc_op :=
| DSetEventID (v : N) | DSetTypeID (v : N) | DSetIsEventCanceled (b : bool) | DSetHasDuration (b : bool)
| DSetDuration (v : N) | DSetUPIDType (v : N) | DSetUPID (b : bytes)
| DSetSegmentNumber (v : N) | DSetSegmentsExpected (v : N)
| DSetSubSegmentNumber (v : N) | DSetSubSegmentsExpected (v : N)
| DSetHasProgramSegmentation (b : bool) | DSetIsDeliveryNotRestricted (b : bool)
| DSetIsWebDeliveryAllowed (b : bool) | DSetIsArchiveAllowed (b : bool) | DSetHasNoRegionalBlackout (b : bool)
| DSetDeviceRestrictions (v : N)
| DSetMID (l : list (N * bytes))          (* UPIDs made by CreateUPID + SetUPIDType + SetUPID *)
| DSetComponents (l : list (N * N))       (* made by CreateComponentOffset + SetComponentTag + SetPTSOffset (33 bits kept) *)
| DSetHasSubSegments (b : bool)
| DMidSetUPID (j : nat) (b : bytes)       (* MID()[j].SetUPID(b): writes through the pointer into d.mid[j], length included *)
| DMidSetUPIDType (j : nat) (v : N)       (* MID()[j].SetUPIDType(v) *)
| DComp (j : nat) (o : co_op).            (* Components()[j].SetComponentTag / SetPTSOffset: pointers into d.components *)

Definition apply_desc_op (o : desc_op) (d : segdesc) : segdesc :=
  match d with
  | mkseg ty eid hasdur dur uty u m sn se ssn sse owner cancel dnr hassub prog web nobl arch dev comps =>
    match o with
    | DSetEventID v => mkseg ty v hasdur dur uty u m sn se ssn sse owner cancel dnr hassub prog web nobl arch dev comps
    | DSetTypeID v =>
      mkseg v eid hasdur dur uty u m sn se ssn sse owner cancel dnr
            (if negb (v =? 52) && negb (v =? 54) then false else hassub) prog web nobl arch dev comps
    | DSetIsEventCanceled b => mkseg ty eid hasdur dur uty u m sn se ssn sse owner b dnr hassub prog web nobl arch dev comps
    | DSetHasDuration b => mkseg ty eid b dur uty u m sn se ssn sse owner cancel dnr hassub prog web nobl arch dev comps
    | DSetDuration v => mkseg ty eid hasdur (v mod 1099511627776) uty u m sn se ssn sse owner cancel dnr hassub prog web nobl arch dev comps
    | DSetUPIDType v =>
      if v =? SegUPIDMID then mkseg ty eid hasdur dur v [] m sn se ssn sse owner cancel dnr hassub prog web nobl arch dev comps
      else if v =? 0 then mkseg ty eid hasdur dur v [] [] sn se ssn sse owner cancel dnr hassub prog web nobl arch dev comps
      else mkseg ty eid hasdur dur v u [] sn se ssn sse owner cancel dnr hassub prog web nobl arch dev comps
    | DSetUPID b =>
      if uty =? SegUPIDMID then d
      else mkseg ty eid hasdur dur uty b m sn se ssn sse owner cancel dnr hassub prog web nobl arch dev comps
    | DSetSegmentNumber v => mkseg ty eid hasdur dur uty u m v se ssn sse owner cancel dnr hassub prog web nobl arch dev comps
    | DSetSegmentsExpected v => mkseg ty eid hasdur dur uty u m sn v ssn sse owner cancel dnr hassub prog web nobl arch dev comps
    | DSetSubSegmentNumber v => mkseg ty eid hasdur dur uty u m sn se v sse owner cancel dnr hassub prog web nobl arch dev comps
    | DSetSubSegmentsExpected v => mkseg ty eid hasdur dur uty u m sn se ssn v owner cancel dnr hassub prog web nobl arch dev comps
    | DSetHasProgramSegmentation b => mkseg ty eid hasdur dur uty u m sn se ssn sse owner cancel dnr hassub b web nobl arch dev comps
    | DSetIsDeliveryNotRestricted b => mkseg ty eid hasdur dur uty u m sn se ssn sse owner cancel b hassub prog web nobl arch dev comps
    | DSetIsWebDeliveryAllowed b => mkseg ty eid hasdur dur uty u m sn se ssn sse owner cancel dnr hassub prog b nobl arch dev comps
    | DSetIsArchiveAllowed b => mkseg ty eid hasdur dur uty u m sn se ssn sse owner cancel dnr hassub prog web nobl b dev comps
    | DSetHasNoRegionalBlackout b => mkseg ty eid hasdur dur uty u m sn se ssn sse owner cancel dnr hassub prog web b arch dev comps
    | DSetDeviceRestrictions v => mkseg ty eid hasdur dur uty u m sn se ssn sse owner cancel dnr hassub prog web nobl arch (v mod 4) comps   (* 0b05886 *)
    | DSetMID l =>
      if negb (uty =? SegUPIDMID) then d
      else mkseg ty eid hasdur dur uty u (map (fun e => mkupid (fst e) (len (snd e)) (snd e)) l)
                 sn se ssn sse owner cancel dnr hassub prog web nobl arch dev comps
    | DSetComponents l =>
      mkseg ty eid hasdur dur uty u m sn se ssn sse owner cancel dnr hassub prog web nobl arch dev
            (map (fun e => mkco (fst e) (snd e mod 8589934592)) l)   (* SetPTSOffset truncates (0b05886) *)
    | DSetHasSubSegments b => mkseg ty eid hasdur dur uty u m sn se ssn sse owner cancel dnr b prog web nobl arch dev comps
    | DMidSetUPID j b =>
      if negb (uty =? SegUPIDMID) then d     (* MID() returns nil: nothing to call *)
      else mkseg ty eid hasdur dur uty u (upd_nth m j (fun e => mkupid (u_type e) (len b) b))   (* 0cd2c00: upidLen = len(value) *)
                 sn se ssn sse owner cancel dnr hassub prog web nobl arch dev comps
    | DMidSetUPIDType j v =>
      if negb (uty =? SegUPIDMID) then d
      else mkseg ty eid hasdur dur uty u (upd_nth m j (fun e => mkupid v (u_len e) (u_upid e)))
                 sn se ssn sse owner cancel dnr hassub prog web nobl arch dev comps
    | DComp j o =>
      mkseg ty eid hasdur dur uty u m sn se ssn sse owner cancel dnr hassub prog web nobl arch dev
            (upd_nth comps j (apply_co_op o))
    end
  end.

(* getters with logic *)
Definition get_upid (d : segdesc) : bytes := if d_upid_type d =? SegUPIDMID then [] else d_upid d.
Definition get_mid (d : segdesc) : list upid := if negb (d_upid_type d =? SegUPIDMID) then [] else d_mid d.

Definition set_owner (o : option N) (d : segdesc) : segdesc :=
  match d with
  | mkseg ty eid hasdur dur uty u m sn se ssn sse _ cancel dnr hassub prog web nobl arch dev comps =>
    mkseg ty eid hasdur dur uty u m sn se ssn sse o cancel dnr hassub prog web nobl arch dev comps
  end.

(* ---- Data() of commands and descriptors ---- *)
Definition splice_time_bytes (has : bool) (pts : N) : bytes :=
  if has then (254 + (pts / T32) mod 2) :: to_be32 pts else [127].   (* ce48cf3: all seven reserved bits set *)

Definition comp_data (imm : bool) (c : component) : bytes :=
  c_tag c :: (if negb imm then splice_time_bytes (c_has_pts c) (c_pts c) else []).

Definition insert_data (c : insert) : bytes :=
  if i_cancel c then to_be32 (i_event_id c) ++ [255] else
  to_be32 (i_event_id c) ++ [127]
  ++ [15 + 128 * b2n (i_out c) + 64 * b2n (i_program c) + 32 * b2n (i_has_duration c) + 16 * b2n (i_immediate c)]
  ++ (if i_program c && negb (i_immediate c) then splice_time_bytes (i_has_pts c) (i_pts c) else [])
  ++ (if negb (i_program c) then w8 (len (i_components c)) :: flat_map (comp_data (i_immediate c)) (i_components c) else [])
  ++ (if i_has_duration c
      then (126 + 128 * b2n (i_auto_return c) + (i_duration c / T32) mod 2) :: to_be32 (i_duration c) else [])
  ++ to_be16 (i_unique_program_id c) ++ [i_avail_num c; i_avails_expected c].

Definition cmd_data (c : command) : bytes :=
  match c with
  | CNull => []
  | CTime h p => splice_time_bytes h p
  | CInsert i => insert_data i
  end.

Definition co_data (c : comp_offset) : bytes :=
  co_tag c :: (254 + (co_off c / T32) mod 2) :: to_be32 (co_off c).
Definition mid_elem_data (u : upid) : bytes := u_type u :: w8 (u_len u) :: u_upid u.

Definition seg_event_data (d : segdesc) : bytes :=
  let restr := if d_dnr d then 32 + 31
               else 16 * b2n (d_web d) + 8 * b2n (d_noblackout d) + 4 * b2n (d_archive d) + d_device d mod 4 in
  let upid_body := if 0 <? len (d_upid d) then d_upid d else flat_map mid_elem_data (d_mid d) in
  [restr + 128 * b2n (d_program_seg d) + 64 * b2n (d_has_duration d)]
  ++ (if d_program_seg d then [] else w8 (len (d_components d)) :: flat_map co_data (d_components d))
  ++ (if d_has_duration d then ((d_duration d / T32) mod 256) :: to_be32 (d_duration d) else [])
  ++ [d_upid_type d; w8 (len upid_body)] ++ upid_body
  ++ [d_type d; d_seg_num d; d_segs_expected d]
  ++ (if ((d_type d =? 52) || (d_type d =? 54)) && d_has_sub d then [d_sub_seg_num d; d_sub_segs_expected d] else []).

Definition seg_data (d : segdesc) : bytes :=
  let tail := to_be32 segDescID ++ to_be32 (d_event_id d)
              ++ (if d_cancel d then [255] else 127 :: seg_event_data d) in
  segDescTag :: w8 (len tail) :: tail.

(* subtractPTS in uint64 *)
Definition subtract_pts (final initial : N) : N :=
  if initial <=? final then final - initial else sub64 8589934592 (initial - final).

(* UpdateData: returns the bytes and the struct with spliceCommandLength, SectionLength, data updated.
   (alignmentStuffing is assumed small enough for make(); `normal` states it) *)
Definition update_data (s : scte) : bytes * scte :=
  let cmdb := cmd_data (s_cmd s) in
  let scl_int := len cmdb in
  let scl := w16 scl_int in
  let descb := s_other s ++ flat_map seg_data (s_descs s) in
  let dll := len descb in
  let slen_int := 13 + scl_int + dll + 4 + s_stuffing s in
  let slen := w16 slen_int in
  let th := [s_tid s; 128 * b2n (s_ssi s) + 64 * b2n (s_pi s) + 48 + (slen / 256) mod 4; slen mod 256] in
  let adj := subtract_pts (s_pts s) (cmd_pts (s_cmd s)) in
  let fixed := [s_protocol s; 128 * b2n (s_encrypted s) + (s_enc_alg s mod 64) * 2 + (adj / T32) mod 2]
               ++ to_be32 adj
               ++ [s_cw s; (s_tier s / 16) mod 256; (s_tier s * 16) mod 256 + (scl / 256) mod 16; scl mod 256;
                   s_cmd_type s] in
  let body := th ++ fixed ++ cmdb ++ [(dll / 256) mod 256; dll mod 256] ++ descb ++ repeatN 0 (s_stuffing s) in
  let data := body ++ crc_model body in
  (data, mkscte (s_id s) (s_tid s) (s_ssi s) (s_pi s) slen (s_protocol s) (s_encrypted s) (s_enc_alg s)
               (s_pts s) (s_cw s) (s_tier s) scl (s_cmd_type s) (s_cmd s) (s_descs s) (s_stuffing s) data (s_other s)).

(* ---- SCTE35 setters ---- *)
Definition create_scte35 : scte :=
  mkscte 1 252 false false 0 0 false 0 0 0 4095 0 SpliceNull CNull [] 0 [] [].

Inductive sig_op :=
| SSetTier (v : N) | SSetAdjustPTS (v : N) | SSetPTS (v : N) | SSetHasPTS (b : bool)
| SSetAlignmentStuffing (v : N)
| SSetCommandInfo (kind : N) (ops : list cmd_op)     (* a fresh command, set up by ops, then installed *)
| SSetDescriptors (ds : list (list desc_op))         (* fresh descriptors, each set up by its ops *)
| SUpdateData
| SCmd (o : cmd_op)                                  (* CommandInfo().Set...: same object *)
| SDesc (i : nat) (o : desc_op).                     (* Descriptors()[i].Set... *)

Definition with_cmd (s : scte) (ct : N) (c : command) : scte :=
  mkscte (s_id s) (s_tid s) (s_ssi s) (s_pi s) (s_slen s) (s_protocol s) (s_encrypted s) (s_enc_alg s)
         (s_pts s) (s_cw s) (s_tier s) (s_scl s) ct c (s_descs s) (s_stuffing s) (s_data s) (s_other s).
Definition with_pts (s : scte) (p : N) : scte :=
  mkscte (s_id s) (s_tid s) (s_ssi s) (s_pi s) (s_slen s) (s_protocol s) (s_encrypted s) (s_enc_alg s)
         p (s_cw s) (s_tier s) (s_scl s) (s_cmd_type s) (s_cmd s) (s_descs s) (s_stuffing s) (s_data s) (s_other s).
Definition with_tier (s : scte) (t : N) : scte :=
  mkscte (s_id s) (s_tid s) (s_ssi s) (s_pi s) (s_slen s) (s_protocol s) (s_encrypted s) (s_enc_alg s)
         (s_pts s) (s_cw s) t (s_scl s) (s_cmd_type s) (s_cmd s) (s_descs s) (s_stuffing s) (s_data s) (s_other s).
Definition with_stuffing (s : scte) (n : N) : scte :=
  mkscte (s_id s) (s_tid s) (s_ssi s) (s_pi s) (s_slen s) (s_protocol s) (s_encrypted s) (s_enc_alg s)
         (s_pts s) (s_cw s) (s_tier s) (s_scl s) (s_cmd_type s) (s_cmd s) (s_descs s) n (s_data s) (s_other s).
Definition with_descs (s : scte) (ds : list segdesc) : scte :=
  mkscte (s_id s) (s_tid s) (s_ssi s) (s_pi s) (s_slen s) (s_protocol s) (s_encrypted s) (s_enc_alg s)
         (s_pts s) (s_cw s) (s_tier s) (s_scl s) (s_cmd_type s) (s_cmd s) ds (s_stuffing s) (s_data s) (s_other s).

Definition build_desc (owner : N) (ops : list desc_op) : segdesc :=
  set_owner (Some owner) (fold_left (fun d o => apply_desc_op o d) ops (seg0 None)).

Definition apply_sig_op (s : scte) (o : sig_op) : scte :=
  match o with
  | SSetTier v => with_tier s (v mod 4096)
  | SSetAdjustPTS v => with_pts s (v mod 8589934592)   (* 0b05886 *)
  | SSetPTS v => with_cmd (with_pts s (v mod 8589934592)) (s_cmd_type s) (apply_cmd_op (KSetPTS (v mod 8589934592)) (s_cmd s))   (* a397833: s.pts truncated too *)
  | SSetHasPTS b => with_cmd s (s_cmd_type s) (apply_cmd_op (KSetHasPTS b) (s_cmd s))
  | SSetAlignmentStuffing v => with_stuffing s v
  | SSetCommandInfo k ops =>
    let c := fold_left (fun c o => apply_cmd_op o c) ops (create_cmd k) in
    with_cmd s (cmd_type c) c
  | SSetDescriptors ds => with_descs s (map (build_desc (s_id s)) ds)
  | SUpdateData => snd (update_data s)
  | SCmd o => with_cmd s (s_cmd_type s) (apply_cmd_op o (s_cmd s))
  | SDesc i o => with_descs s (upd_nth (s_descs s) i (apply_desc_op o))
  end.

Definition run_script (s : scte) (ops : list sig_op) : scte := fold_left apply_sig_op ops s.

(* CreateComponent(): &component{} *)
Definition create_component : component := mkcomp 0 false 0.
(* CreateUPID(): &upidSt{} ; CreateComponentOffset(): &componentOffset{} *)
Definition create_upid : upid := mkupid 0 0 [].
Definition create_component_offset : comp_offset := mkco 0 0.

End ScteEnc.
