(* Model of /repo/packet/packet.go and /repo/packet/modify.go (transport packet header accessors,
   payload accessors, SetPayload) plus the few primitives of /repo/packet/adaptationfield.go that
   Header/Payload/SetPayload/SetAdaptationFieldControl use (sub-module AFP).

   A Packet is [188]byte: a list of 188 byte values.  Constant-index reads p[k] (k < 188) cannot
   panic in Go; they are modelled with [get] (nth with default 0) and every theorem about them
   carries the guard [is_pkt p].  Constant-index writes use [upd] (no-op outside the list).
   Go [int] arguments (pid, continuity counter value, lengths that are subtracted) are Z.
   Function-style accessors of packet.go carry the suffix _fn where a method of the same name
   exists in modify.go (suffix _m); their masks are written separately in the source and are
   transliterated separately here.

   The model follows /root/work/repo-fixed:
   SetPayload is the REPAIRED function (notes/candidate-fixes.patch, hunk for packet/modify.go,
   defect F7): the flags byte is cleared when the adaptation field grows from length 0.
   AFP.stuffingEnd is the REPAIRED function (hunk for packet/adaptationfield.go, defect F6).
   Header, the Payload method and the SetPayload method carry the C05 guards of
   /verif/notes/c05-guards.patch (adaptation_field_length running past the packet). *)
From Gots Require Import Base.Prelude.
Module Packet.

Definition PacketSize : N := 188.
Definition SyncByte : N := 71.
Definition NullPacketPid : N := 8191.
(* var pkt Packet *)
Definition zero_packet : bytes := repeatN 0 188.
Definition get (p : bytes) (i : N) : N := nthN p i.
(* byte(x) for a Go int x *)
Definition byteZ (z : Z) : N := Z.to_N (z mod 256).
(* ^mask, and the operand of &^mask, on a byte *)
Definition not8 (m : N) : N := N.lxor 255 m.
Fixpoint bytes_eqb (a b : bytes) : bool :=
  match a, b with
  | [], [] => true
  | x :: a', y :: b' => (x =? y) && bytes_eqb a' b'
  | _, _ => false
  end.
(* for i := a; i < b; i++ { l[i] = v }   (callers establish b <= len l) *)
Definition fill (l : bytes) (a b : N) (v : N) : bytes := blit l a (repeatN v (b - a)).

(* ------------------------------------------------------------------ packet.go *)
Definition PayloadUnitStartIndicator_fn (p : bytes) : bool := negb (N.land (get p 1) 64 =? 0).
Definition Pid_fn (p : bytes) : N := N.lor (N.shiftl (N.land (get p 1) 31) 8) (get p 2).
Definition ContainsPayload (p : bytes) : bool := negb (N.land (get p 3) 16 =? 0).
Definition ContainsAdaptationField (p : bytes) : bool := negb (N.land (get p 3) 32 =? 0).
Definition ContinuityCounter_fn (p : bytes) : N := N.land (get p 3) 15.
Definition IsNull_fn (p : bytes) : bool := Pid_fn p =? NullPacketPid.
Definition IsPat_fn (p : bytes) : bool := Pid_fn p =? 0.

Definition payloadStart_fn (p : bytes) : N :=
  if ContainsAdaptationField p then 4 + (1 + get p 4) else 4.

(* returns a view packet[start:] *)
Definition Payload_fn (p : bytes) : Res bytes :=
  if negb (ContainsPayload p) then Err E.NoPayload else
  let start := payloadStart_fn p in
  if PacketSize <? start then Err E.InvalidPacketLength else
  slice p start PacketSize.

(* var newPacket Packet; copy(newPacket[:], packet[:]) *)
Definition copy_packet (p : bytes) : bytes := blit zero_packet 0 p.
Definition increment4BitInt (cc : N) : N := N.land (w8 (cc + 1)) 15.
Definition IncrementCC (p : bytes) : bytes :=
  let np := copy_packet p in
  let ccByte := get np 3 in
  upd np 3 (N.lor (N.land ccByte 240) (increment4BitInt ccByte)).
Definition ZeroCC (p : bytes) : bytes :=
  let np := copy_packet p in
  upd np 3 (N.land (get np 3) 240).
(* newCC is a uint8: values above 15 spill into the upper nibble, as in the code *)
Definition SetCC (p : bytes) (newCC : N) : bytes :=
  let np := copy_packet p in
  upd np 3 (N.lor (N.land (get np 3) 240) newCC).

Definition PESHeader (p : bytes) : Res bytes :=
  if PayloadUnitStartIndicator_fn p then
    let? pay := Payload_fn p in
    if (3 <? len pay) && (nthN pay 0 =? 0) && (nthN pay 1 =? 0) && (nthN pay 2 =? 1)
    then Ok pay else Err E.NoPayload
  else Err E.NoPayload.

(* packet[:start]; start is clamped to 188 (C05 guard of notes/c05-guards.patch) *)
Definition Header (p : bytes) : Res bytes :=
  let start := payloadStart_fn p in
  let start := if PacketSize <? start then PacketSize else start in
  slice p 0 start.

(* *a == *b on arrays (pointer identity and nil are outside a value model; goexec covers a == a) *)
Definition Equal (a b : bytes) : bool := bytes_eqb a b.
Definition CopyPackets (ps : list bytes) : list bytes := map copy_packet ps.

(* ------------------------------------------------------------------ modify.go *)
Definition New : bytes := upd (upd (upd (upd zero_packet 0 71) 1 31) 2 255) 3 16.

Definition getBit (p : bytes) (index mask : N) : bool := negb (N.land (get p index) mask =? 0).
Definition setBit (p : bytes) (index mask : N) (value : bool) : bytes :=
  if value then upd p index (N.lor (get p index) mask)
  else upd p index (N.land (get p index) (not8 mask)).

Definition SetTransportErrorIndicator (p : bytes) (v : bool) : bytes := setBit p 1 128 v.
Definition TransportErrorIndicator (p : bytes) : bool := getBit p 1 128.
Definition SetPayloadUnitStartIndicator (p : bytes) (v : bool) : bytes := setBit p 1 64 v.
Definition PayloadUnitStartIndicator_m (p : bytes) : bool := getBit p 1 64.
Definition SetTransportPriority (p : bytes) (v : bool) : bytes := setBit p 1 32 v.
Definition TransportPriority (p : bytes) : bool := getBit p 1 32.

(* p[1] = p[1]&^byte(0x1f) | byte(pid>>8)&byte(0x1f);  p[2] = byte(pid) *)
Definition SetPID (p : bytes) (pid : Z) : bytes :=
  let p1 := upd p 1 (N.lor (N.land (get p 1) (not8 31)) (N.land (byteZ (Z.shiftr pid 8)) 31)) in
  upd p1 2 (byteZ pid).
Definition PID_m (p : bytes) : N := N.lor (N.shiftl (N.land (get p 1) 31) 8) (get p 2).

(* value is a byte-typed option; byte(value)<<6 is a uint8 shift *)
Definition SetTransportScramblingControl (p : bytes) (value : N) : bytes :=
  upd p 3 (N.lor (N.land (get p 3) (not8 192)) (w8 (N.shiftl value 6))).
Definition TransportScramblingControl (p : bytes) : N := N.shiftr (N.land (get p 3) 192) 6.
Definition AdaptationFieldControl (p : bytes) : N := N.shiftr (N.land (get p 3) 48) 4.
Definition HasPayload (p : bytes) : bool := getBit p 3 16.
Definition HasAdaptationField (p : bytes) : bool := getBit p 3 32.

(* p[3] = p[3]&^byte(0x0F) | byte(value&0x0F)   (value is an int; & on negative ints = Z.land) *)
Definition SetContinuityCounter (p : bytes) (value : Z) : bytes :=
  upd p 3 (N.lor (N.land (get p 3) (not8 15)) (byteZ (Z.land value 15))).
Definition ContinuityCounter_m (p : bytes) : N := N.land (get p 3) 15.
Definition ZeroContinuityCounter (p : bytes) : bytes := SetContinuityCounter p 0.
Definition IncContinuityCounter (p : bytes) : bytes :=
  SetContinuityCounter p (Z.of_N (ContinuityCounter_m p) + 1).
Definition IsNull_m (p : bytes) : bool := PID_m p =? NullPacketPid.
Definition IsPAT_m (p : bytes) : bool := PID_m p =? 0.

Definition syncByte (p : bytes) : N := get p 0.
(* None = nil error *)
Definition CheckErrors (p : bytes) : option N :=
  if negb (syncByte p =? SyncByte) then Some E.BadSyncByte else
  if TransportScramblingControl p =? 1 then Some E.InvalidTSCFlag else
  if AdaptationFieldControl p =? 0 then Some E.InvalidAFCFlag else None.

(* returns (packet pointer or nil, error or nil); note that a packet is returned together with
   the error when only CheckErrors complains *)
Definition FromBytes (b : bytes) : option bytes * option N :=
  if negb (len b =? PacketSize) then (None, Some E.InvalidPacketLength) else
  let pkt := blit zero_packet 0 b in
  (Some pkt, CheckErrors pkt).

(* ------------------------------------------------------------------ adaptationfield.go (primitives) *)
Module AFP.
Definition Length (af : bytes) : N := get af 4.
Definition hasPCR (af : bytes) : bool := getBit af 5 16.
Definition hasOPCR (af : bytes) : bool := getBit af 5 8.
Definition hasSplicingPoint (af : bytes) : bool := getBit af 5 4.
Definition hasTransportPrivateData (af : bytes) : bool := getBit af 5 2.
Definition hasAdaptationFieldExtension (af : bytes) : bool := getBit af 5 1.
Definition pcrStart : N := 6.
Definition pcrLength (af : bytes) : N := if hasPCR af then 6 else 0.
Definition opcrLength (af : bytes) : N := if hasOPCR af then 6 else 0.
Definition spliceCountdownLength (af : bytes) : N := if hasSplicingPoint af then 1 else 0.
Definition transportPrivateDataStart (af : bytes) : N :=
  pcrStart + pcrLength af + opcrLength af + spliceCountdownLength af.
Definition transportPrivateDataLength (af : bytes) : N :=
  if negb (hasTransportPrivateData af) then 0 else
  if PacketSize <=? transportPrivateDataStart af then 0 else
  1 + get af (transportPrivateDataStart af).
Definition adaptationExtensionStart (af : bytes) : N :=
  pcrStart + pcrLength af + opcrLength af + spliceCountdownLength af + transportPrivateDataLength af.
Definition adaptationExtensionLength (af : bytes) : N :=
  if negb (hasAdaptationFieldExtension af) then 0 else
  if PacketSize <=? adaptationExtensionStart af then 0 else
  1 + get af (adaptationExtensionStart af).
Definition stuffingStart (af : bytes) : N :=
  pcrStart + pcrLength af + opcrLength af + spliceCountdownLength af +
  transportPrivateDataLength af + adaptationExtensionLength af.
(* repaired (F6): clamp to PacketSize *)
Definition stuffingEnd (af : bytes) : N :=
  let e := get af 4 + 5 in if PacketSize <? e then PacketSize else e.
Definition setLength (af : bytes) (length : Z) : bytes := upd af 4 (byteZ length).
Definition stuffAF (af : bytes) : bytes := fill af (stuffingStart af) (stuffingEnd af) 255.
Definition initAdaptationField (p : bytes) : bytes := fill (upd (upd p 4 183) 5 0) 6 PacketSize 255.
End AFP.

(* returns the packet after the call and the error (None = nil) *)
Definition SetAdaptationFieldControl (p : bytes) (value : N) : bytes * option N :=
  let hasAFBefore := HasAdaptationField p in
  let p1 := upd p 3 (N.lor (N.land (get p 3) (not8 48)) (w8 (N.shiftl value 4))) in
  let hasAFAfter := HasAdaptationField p1 in
  let p2 := if negb hasAFBefore && hasAFAfter then AFP.initAdaptationField p1 else p1 in
  if value =? 3 then
    (* af, _ := p.AdaptationField(): value 3 has set bit 0x20, af is not nil *)
    if AFP.Length p2 =? 183 then
      if AFP.stuffingStart p2 <? PacketSize
      then (AFP.stuffAF (AFP.setLength p2 182), None)
      else (p2, Some E.AdaptationFieldTooLarge)
    else (p2, None)
  else (p2, None).

Definition payloadStart_m (p : bytes) : N :=
  if HasAdaptationField p then 4 + 1 + AFP.Length p else 4.
Definition stuffingStart_m (p : bytes) : N :=
  if negb (HasAdaptationField p) then 4 else
  if AFP.Length p =? 0 then 5 else AFP.stuffingStart p.
Definition freeSpace (p : bytes) : Z := 188 - Z.of_N (stuffingStart_m p).

(* returns a copy; offset > 188 is refused (C05 guard) *)
Definition Payload_m (p : bytes) : Res bytes :=
  if AdaptationFieldControl p =? 2 then Err E.NoPayload else
  let offset := payloadStart_m p in
  if PacketSize <? offset then Err E.InvalidPacketLength else
  slice p offset PacketSize.

(* the packet as SetPayload leaves it before the final copy *)
Definition SetPayload_prepare (p : bytes) (data : bytes) : bytes :=
  let fs := freeSpace p in
  if (zlen data <? fs)%Z then
    let p1 := fst (SetAdaptationFieldControl p 3) in
    let p2 := if AFP.Length p1 =? 0 then upd p1 5 0 else p1 in     (* F7 repair *)
    AFP.stuffAF (AFP.setLength p2 (188 - (zlen data + 4 + 1)))
  else if HasAdaptationField p then AFP.setLength p (188 - (fs + 4 + 1)) else p.

(* returns the packet after the call and (count, error).  The final p[offset:] panics for
   offset > 188 (the packet would then already be modified); Proofs/HdrTotal.v shows that the
   C05 guard makes that branch unreachable on 188-byte packets. *)
Definition SetPayload_m (p : bytes) (data : bytes) : bytes * Res N :=
  if AdaptationFieldControl p =? 2 then (p, Err E.NoPayload) else
  if (PacketSize <? payloadStart_m p) || (PacketSize <? stuffingStart_m p)
  then (p, Err E.InvalidPacketLength) else
  let p' := SetPayload_prepare p data in
  let offset := payloadStart_m p' in
  if PacketSize <? offset then (p', Panic) else
  (blit p' offset data, Ok (N.min (len data) (PacketSize - offset))).

(* nested module: `Import Packet` does not bring these names into scope *)
Module Consts.
(* ---- exported constants of packet/packet.go and packet/adaptationfield.go, in source order (coverage: notes/coverage.md) ---- *)
Definition PayloadFlag : N := 1.
Definition AdaptationFieldFlag : N := 2.
Definition PayloadAndAdaptationFieldFlag : N := 3.
Definition NoScrambleFlag : N := 0.
Definition ScrambleEvenKeyFlag : N := 2.
Definition ScrambleOddKeyFlag : N := 3.
Definition exported_consts : list N :=
  [PayloadFlag; AdaptationFieldFlag; PayloadAndAdaptationFieldFlag; PacketSize; SyncByte; NullPacketPid; NoScrambleFlag; ScrambleEvenKeyFlag; ScrambleOddKeyFlag].
End Consts.

(* (p *Packet) AdaptationField(): the packet itself viewed as *AdaptationField, or (nil, ErrNoAdaptationField) *)
Definition AdaptationField_m (p : bytes) : Res bytes :=
  if HasAdaptationField p then Ok p else Err E.NoAdaptationField.
(* NewAdaptationField(): p := New(); p.SetAdaptationFieldControl(AdaptationFieldFlag); af, _ := p.AdaptationField(); return af
   (the error of SetAdaptationFieldControl is dropped by the code; Err = the nil pointer) *)
Definition NewAdaptationField : Res bytes := AdaptationField_m (fst (SetAdaptationFieldControl New 2)).

End Packet.
