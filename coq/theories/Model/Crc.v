(* Model of /repo/tsutils.go : ComputeCRC, transliterated as written: the augmented-message form
   (the message bit is OR-ed into the low end of the register, 32 trailing zero bits are clocked
   through at the end) with the pre-conditioned initial register 0x46af6449.  All values uint32. *)
From Gots Require Import Base.Prelude.
Module Crc.
Definition mask : N := 4294967295.   (* 0xffffffff *)
Definition msb  : N := 2147483648.   (* 0x80000000 *)
Definition poly : N := 79764919.     (* 0x04c11db7 *)
Definition init : N := 1185899593.   (* 0x46af6449 *)

(* body of the inner loop:   top := crc & msb
                              crc = ((crc << 1) & mask) | ((item >> uint32(7-j)) & 0x1)
                              if top != 0 { crc ^= poly }                                  *)
Definition inner (crc item j : N) : N :=
  let top := N.land crc msb in
  let crc1 := N.lor (N.land (N.shiftl crc 1) mask) (N.land (N.shiftr item (7 - j)) 1) in
  if top =? 0 then crc1 else N.lxor crc1 poly.
(* for j := 0; j < 8; j++ *)
Definition byte_loop (crc item : N) : N :=
  fold_left (fun c j => inner c item j) [0; 1; 2; 3; 4; 5; 6; 7] crc.
(* for i := 0; i < len(input); i++ { item := uint32(input[i]); ... } *)
Definition input_loop (crc : N) (input : bytes) : N := fold_left byte_loop input crc.
(* body of the trailing loop:  top := crc & msb; crc = (crc << 1) & mask; if top != 0 { crc ^= poly } *)
Definition trail (crc : N) : N :=
  let top := N.land crc msb in
  let crc1 := N.land (N.shiftl crc 1) mask in
  if top =? 0 then crc1 else N.lxor crc1 poly.
Fixpoint iter (n : nat) (f : N -> N) (x : N) : N :=
  match n with O => x | S k => iter k f (f x) end.
(* for i := 0; i < 32; i++ *)
Definition trail_loop (crc : N) : N := iter 32 trail crc.
(* the uint32 left in crc *)
Definition compute_crc_word (input : bytes) : N := trail_loop (input_loop init input).
(* binary.BigEndian.PutUint32(crcBytes, crc) *)
Definition compute_crc (input : bytes) : bytes := to_be32 (compute_crc_word input).
End Crc.
