(* MODEL of /repo/psi/pmtdescriptor.go (decoders) and of the descriptor queries of
   /repo/psi/pmtelementarystream.go (MaxBitRate, IsTTMLSubtitling).  No proofs here.
   The model follows the REPAIRED tree (/root/work/repo-fixed): F12 and the C05 length guards of
   notes/c05-guards.patch (DecodeMaximumBitRate / DecodeIso639LanguageCode need len >= 3,
   IsIFrameProfile stops at the end of the data, IsDolbyATMOS reads data[2] only when len >= 3).
   The `_unguarded` / `_unrepaired` variants are the pinned functions, used only for `_refuted` witnesses.
   DecodeIso639AudioType is modelled as REPAIRED (defect F12, notes/candidate-fixes.patch:
   `descriptor.tag == LANGUAGE && len(descriptor.data) >= 4`); `audio_type_unrepaired` is the
   function as it stands in the pinned tree and is used only for the `_refuted` witness.
   Go strings are modelled as their bytes.  fmt.Sprintf("%s.%02d.%02d") is re-implemented
   over decimal digits (fmt02d) - the only piece of package fmt that is modelled. *)
From Gots Require Import Base.Prelude.
Module PmtDesc.

(* descriptor tags (const block of pmtdescriptor.go) *)
Definition VIDEO_STREAM : N := 2.      Definition AUDIO_STREAM : N := 3.
Definition REGISTRATION : N := 5.      Definition CONDITIONAL_ACCESS : N := 9.
Definition LANGUAGE : N := 10.         Definition SYSTEM_CLOCK : N := 11.
Definition DOLBY_DIGITAL : N := 12.    Definition COPYRIGHT : N := 13.
Definition MAXIMUM_BITRATE : N := 14.  Definition AVC_VIDEO : N := 40.
Definition STREAM_IDENTIFIER : N := 82. Definition EXTENSION : N := 127.
Definition SCTE_ADAPTATION : N := 151. Definition DOLBY_VISION : N := 176.
Definition EBP : N := 233.             Definition EC3 : N := 204.
Definition TTML_DESC_TAG_EXTENSION : N := 32.

(* type pmtDescriptor struct { tag uint8; data []byte } *)
Record t : Type := mk { tag : N; data : bytes }.

Definition is_iso639_language_descriptor (d : t) : bool := tag d =? LANGUAGE.
Definition is_maximum_bitrate_descriptor (d : t) : bool := tag d =? MAXIMUM_BITRATE.
Definition is_ebp_descriptor (d : t) : bool := tag d =? EBP.

(* uint32(data[0]&0x1f)<<16 | uint32(data[1])<<8 | uint32(data[2]); 0 for another tag *)
Definition decode_maximum_bit_rate (d : t) : Res N :=
  if is_maximum_bitrate_descriptor d && (3 <=? len (data d)) then
    let? b0 := idx (data d) 0 in
    let? b1 := idx (data d) 1 in
    let? b2 := idx (data d) 2 in
    Ok (N.lor (N.lor (N.shiftl (N.land b0 31) 16) (N.shiftl b1 8)) b2)
  else Ok 0.

(* pinned tree: no length test *)
Definition decode_maximum_bit_rate_unguarded (d : t) : Res N :=
  if is_maximum_bitrate_descriptor d then
    let? b0 := idx (data d) 0 in
    let? b1 := idx (data d) 1 in
    let? b2 := idx (data d) 2 in
    Ok (N.lor (N.lor (N.shiftl (N.land b0 31) 16) (N.shiftl b1 8)) b2)
  else Ok 0.

(* if LANGUAGE == tag && len(data) >= 3 { return string(data[0:3]) }; return "" *)
Definition decode_iso639_language_code (d : t) : Res bytes :=
  if (LANGUAGE =? tag d) && (3 <=? len (data d)) then slice (data d) 0 3 else Ok [].
Definition decode_iso639_language_code_unguarded (d : t) : Res bytes :=
  if LANGUAGE =? tag d then slice (data d) 0 3 else Ok [].

(* REPAIRED (F12): if descriptor.tag == LANGUAGE && len(descriptor.data) >= 4 { return data[3] }; return 0 *)
Definition decode_iso639_audio_type (d : t) : Res N :=
  if (tag d =? LANGUAGE) && (4 <=? len (data d)) then idx (data d) 3 else Ok 0.
(* pinned tree: if len(descriptor.data) >= 4 { return data[3] }; return 0 *)
Definition audio_type_unrepaired (d : t) : Res N :=
  if 4 <=? len (data d) then idx (data d) 3 else Ok 0.

(* len(data) >= 1 && data[0] == TTML_DESC_TAG_EXTENSION *)
Definition is_ttml_desc_tag_extension (d : t) : bool :=
  match data d with b :: _ => b =? TTML_DESC_TAG_EXTENSION | [] => false end.
Definition is_ttml_subtitling_descriptor (d : t) : bool := tag d =? EXTENSION.

Definition decode_ttml_iso639_language_code (d : t) : Res bytes :=
  if tag d =? EXTENSION then
    if 4 <=? len (data d) then slice (data d) 1 4 else Ok []
  else Ok [].

(* uint8(data[4] >> 2), 0xFF otherwise *)
Definition decode_ttml_subtitle_purpose (d : t) : Res N :=
  if tag d =? EXTENSION then
    if 5 <=? len (data d) then let? b := idx (data d) 4 in Ok (N.shiftr b 2) else Ok 255
  else Ok 255.

(* IsIFrameProfile.  `offset` is an int, `indx`, `num_partitions` are uint8 (num_partitions <= 31, so
   the loop runs at most 31 times and indx never wraps).  EBP_distance_width_minus_1 is never
   assigned (always 0).  representation_id_flag is `1 == (data[offset]&0x04)>>6`, which is
   always false; it is transliterated as written. *)
Fixpoint iframe_loop (n : nat) (dat : bytes) (offset : N) : Res bool :=
  match n with
  | O => Ok false
  | S k =>
      if len dat <=? offset then Ok false (* truncated descriptor (C05 guard) *) else
      let? b := idx dat offset in
      let explicit := N.shiftr (N.land b 128) 7 =? 1 in
      let repid := N.shiftr (N.land b 4) 6 =? 1 in
      if explicit then
        if len dat <=? offset + 1 then Ok false (* truncated descriptor (C05 guard) *) else
        let? dist := idx dat (offset + 1) in Ok (dist =? 1)
      else
        iframe_loop k dat (if repid then offset + 2 + 8 else offset + 2)
  end.
(* pinned tree: no guards *)
Fixpoint iframe_loop_unguarded (n : nat) (dat : bytes) (offset : N) : Res bool :=
  match n with
  | O => Ok false
  | S k =>
      let? b := idx dat offset in
      let explicit := N.shiftr (N.land b 128) 7 =? 1 in
      let repid := N.shiftr (N.land b 4) 6 =? 1 in
      if explicit then
        let? dist := idx dat (offset + 1) in Ok (dist =? 1)
      else
        iframe_loop_unguarded k dat (if repid then offset + 2 + 8 else offset + 2)
  end.
Definition is_iframe_profile (d : t) : Res bool :=
  if (EBP =? tag d) && (0 <? len (data d)) then
    let? b0 := idx (data d) 0 in
    let num_partitions := N.shiftr (N.land b0 248) 3 in
    let timescale_flag := N.shiftr (N.land b0 4) 2 =? 1 in
    if timescale_flag then Ok false
    else iframe_loop (N.to_nat num_partitions) (data d) 1
  else Ok false.

(* IsDolbyATMOS.  `start` is a uint8 that is at most 2+1+5+3*5 = 23 (no wrap); the scan runs over
   i in [start, uint8(len(data))) - the length is truncated to 8 bits as in the code.
   C05 guard: `if bsid_flag && len(data) >= 3` (the pinned tree reads data[2] whenever bsid_flag). *)
Definition is_dolby_atmos (d : t) : Res bool :=
  if (tag d =? EC3) && (2 <=? len (data d)) then
    let? b0 := idx (data d) 0 in
    let flag (m s : N) := N.shiftr (N.land b0 m) s =? 1 in
    let bsid := flag 64 6 in let mainid := flag 32 5 in let asvc := flag 16 4 in
    let sub1 := flag 4 2 in let sub2 := flag 2 1 in let sub3 := N.land b0 1 =? 1 in
    let? lf12 := (if bsid && (3 <=? len (data d)) then let? b2 := idx (data d) 2 in
                    Ok (N.shiftr (N.land b2 128) 7 =? 1, N.shiftr (N.land b2 64) 6 =? 1)
                  else Ok (false, false)) in
    let start := 2 + b2n (bsid && (3 <=? len (data d))) + b2n mainid + b2n asvc + b2n sub1 + b2n sub2 + b2n sub3
                 + 3 * b2n (fst lf12) + 3 * b2n (snd lf12) + 3 * b2n sub1 + 3 * b2n sub2 + 3 * b2n sub3 in
    let stop := w8 (len (data d)) in
    Ok (existsb (fun b => b =? 1) (takeN (stop - start) (dropN start (data d))))
  else Ok false.

(* binary.BigEndian.Uint32(data[:4]) == 0x444F5649 *)
Definition is_dolby_vision (d : t) : Res bool :=
  if tag d =? REGISTRATION then
    if 4 <=? len (data d) then
      let? s := slice (data d) 0 4 in
      match s with
      | [a; b; c; e] => Ok (be32 a b c e =? 1146050121)
      | _ => Panic
      end
    else Ok false
  else Ok false.

(* fmt "%02d" of a uint8: at least two decimal digits, zero padded *)
Definition digit (n : N) : N := 48 + n.
Definition fmt02d (n : N) : bytes :=
  if n <? 10 then [48; digit n]
  else if n <? 100 then [digit (n / 10); digit (n mod 10)]
  else [digit (n / 100); digit ((n / 10) mod 10); digit (n mod 10)].

Definition dvhe : bytes := [100; 118; 104; 101].   (* "dvhe" *)
Definition dot : N := 46.

(* num := BigEndian.Uint16(data[2:4]); dv_profile := uint8((num & 0xFE00) >> 9);
   dv_level := uint8((num & 0xFC) >> 3); Sprintf("%s.%02d.%02d", "dvhe", dv_profile, dv_level).
   The argument originalCodec is not used by the code. *)
Definition decode_dolby_vision_codec (d : t) : Res bytes :=
  if (tag d =? DOLBY_VISION) && (4 <=? len (data d)) then
    let? s := slice (data d) 2 4 in
    match s with
    | [a; b] =>
        let num := be16 a b in
        let dv_profile := w8 (N.shiftr (N.land num 65024) 9) in
        let dv_level := w8 (N.shiftr (N.land num 252) 3) in
        Ok (dvhe ++ [dot] ++ fmt02d dv_profile ++ [dot] ++ fmt02d dv_level)
    | _ => Panic
    end
  else Ok [].

(* pmtelementarystream.go: MaxBitRate(): first maximum-bitrate descriptor,
   uint64(DecodeMaximumBitRate()) * BitsPerByte * MaxBitRateBytesPerSecond (< 2^32 * 400, no wrap) *)
Definition BitsPerByte : N := 8.
Definition MaxBitRateBytesPerSecond : N := 50.
Fixpoint max_bit_rate (ds : list t) : Res N :=
  match ds with
  | [] => Ok 0
  | d :: rest =>
      if is_maximum_bitrate_descriptor d then
        let? r := decode_maximum_bit_rate d in Ok (w64 (r * BitsPerByte * MaxBitRateBytesPerSecond))
      else max_bit_rate rest
  end.

(* IsTTMLSubtitling(): some descriptor is a TTML subtitling descriptor with the TTML tag extension *)
Fixpoint is_ttml_subtitling (ds : list t) : bool :=
  match ds with
  | [] => false
  | d :: rest =>
      if is_ttml_subtitling_descriptor d && is_ttml_desc_tag_extension d then true
      else is_ttml_subtitling rest
  end.

(* nested module: `Import PmtDesc` does not bring these names into scope *)
Module Consts.
(* ---- exported constants of psi/pmtdescriptor.go and psi/pmtelementarystream.go, in source order (coverage: notes/coverage.md) ---- *)
Definition AUDIO_UNDEFINED : N := 0.
Definition AUDIO_CLEAN_EFFECTS : N := 1.
Definition AUDIO_HEARING_IMPAIRED : N := 2.
Definition AUDIO_DESCRIPTION : N := 3.
Definition AUDIO_PRIMARY : N := 128.
Definition AUDIO_NATIVE : N := 129.
Definition TTML_PURPOSE_SAME_LANG_DIALOGUE : N := 0.
Definition TTML_PURPOSE_OTHER_LANG_DIALOGUE : N := 1.
Definition TTML_PURPOSE_ALL_DIALOGUE : N := 2.
Definition TTML_PURPOSE_HARD_OF_HEARING : N := 16.
Definition TTML_PURPOSE_OTHER_LANG_DIALOGUE_WITH_HARD_OF_HEARING : N := 17.
Definition TTML_PURPOSE_ALL_DIALOGUE_WITH_HARD_OF_HEARING : N := 18.
Definition TTML_PURPOSE_AUDIO_DESCRIPTION : N := 48.
Definition TTML_PURPOSE_CONTENT_RELATED_COMMENTARY : N := 49.
Definition exported_consts : list N :=
  [VIDEO_STREAM; AUDIO_STREAM; REGISTRATION; CONDITIONAL_ACCESS; LANGUAGE; SYSTEM_CLOCK; DOLBY_DIGITAL; COPYRIGHT; MAXIMUM_BITRATE; AVC_VIDEO; STREAM_IDENTIFIER; EXTENSION; SCTE_ADAPTATION; DOLBY_VISION; EBP; EC3; AUDIO_UNDEFINED; AUDIO_CLEAN_EFFECTS; AUDIO_HEARING_IMPAIRED; AUDIO_DESCRIPTION; AUDIO_PRIMARY; AUDIO_NATIVE; TTML_DESC_TAG_EXTENSION; TTML_PURPOSE_SAME_LANG_DIALOGUE; TTML_PURPOSE_OTHER_LANG_DIALOGUE; TTML_PURPOSE_ALL_DIALOGUE; TTML_PURPOSE_HARD_OF_HEARING; TTML_PURPOSE_OTHER_LANG_DIALOGUE_WITH_HARD_OF_HEARING; TTML_PURPOSE_ALL_DIALOGUE_WITH_HARD_OF_HEARING; TTML_PURPOSE_AUDIO_DESCRIPTION; TTML_PURPOSE_CONTENT_RELATED_COMMENTARY; BitsPerByte; MaxBitRateBytesPerSecond].
End Consts.

End PmtDesc.
