(* Model of /repo/pes/pesheader.go, /repo/pes/pes.go and the PES part of /repo/packet/packet.go. *)
From Gots Require Import Base.Prelude Model.Pts.
Module Pes.
(* pes.ExtractTime : a second copy of gots.ExtractTime (pesheader.go); reads bytes[0..4] in order *)
Definition extract_time (bytes : bytes) : Res N :=
  let? b0 := idx bytes 0 in let? b1 := idx bytes 1 in let? b2 := idx bytes 2 in
  let? b3 := idx bytes 3 in let? b4 := idx bytes 4 in
  let a := N.land (N.shiftr b0 1) 7 in
  let c := N.land (N.shiftr b2 1) 127 in
  let e := N.land (N.shiftr b4 1) 127 in
  Ok (N.lor (N.lor (N.lor (N.lor (N.shiftl a 30) (N.shiftl b1 22)) (N.shiftl c 15)) (N.shiftl b3 7)) e).
End Pes.
