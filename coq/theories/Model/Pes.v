(* Model of /repo/pes/pesheader.go, /repo/pes/pes.go and the PES part of /repo/packet/packet.go. *)
From Gots Require Import Base.Prelude Model.Pts.
Module Pes.
(* pes.ExtractTime : a second copy of gots.ExtractTime (pesheader.go); reads bytes[0..4] in order *)
Definition extract_time (bytes : bytes) : Res N :=
  let? b0 := idx bytes 0 in let? b1 := idx bytes 1 in let? b2 := idx bytes 2 in
  let? b3 := idx bytes 3 in let? b4 := idx bytes 4 in
  let a := N.land (N.shiftr b0 1) 7 in
  let c := N.land (N.shiftr b2 1) 127 in
  let e := N.land (N.shiftr b4 1) 127 in
  Ok (N.lor (N.lor (N.lor (N.lor (N.shiftl a 30) (N.shiftl b1 22)) (N.shiftl c 15)) (N.shiftl b3 7)) e).

(* type pESHeader struct; data = [] stands for the nil slice (Data() is nil or non-empty, never empty non-nil) *)
Record header : Type := mk_header {
  packetStartCodePrefix : N;   (* uint32 *)
  dataAlignment : bool;
  streamId : N;                (* uint8 *)
  pesPacketLength : N;         (* uint16 *)
  ptsDtsIndicator : N;         (* uint8 *)
  pts : N;                     (* uint64 *)
  dts : N;
  data : bytes }.

(* func (pes *pESHeader) optionalFieldsExist() bool *)
Definition optional_fields_exist (streamId : N) : bool :=
  if (streamId =? 190) || (streamId =? 191) || (streamId =? 240) || (streamId =? 241) ||
     (streamId =? 242) || (streamId =? 248) || (streamId =? 255) then false else true.

(* CheckLength(byteArray, name, min) *)
Definition check_length (b : bytes) (min : N) : bool := negb (len b <? min).

(* NewPESHeader(pesBytes) (PESHeader, error).  The error is errors.New(..), numbered E.Other. *)
Definition new_pes_header (pesBytes : bytes) : Res header :=
  if check_length pesBytes 7 then
    let? b0 := idx pesBytes 0 in let? b1 := idx pesBytes 1 in let? b2 := idx pesBytes 2 in
    let prefix := N.lor (N.lor (w32 (N.shiftl b0 16)) (w32 (N.shiftl b1 8))) b2 in
    let? sid := idx pesBytes 3 in
    let? b4 := idx pesBytes 4 in let? b5 := idx pesBytes 5 in
    let plen := N.lor (w16 (N.shiftl b4 8)) b5 in
    let? b6 := idx pesBytes 6 in
    let aligned := negb (N.land b6 4 =? 0) in
    if optional_fields_exist sid && check_length pesBytes 9 then
      let? b7 := idx pesBytes 7 in
      let ind := N.shiftr (N.land b7 192) 6 in
      let? hdl := idx pesBytes 8 in
      let dataStartIndex := 9 + hdl in
      let? pd :=
        (if negb (ind =? 0) && check_length pesBytes 14 then
           let? s := slice pesBytes 9 14 in
           let? p := Pts.extract_time s in
           if (ind =? 3) && check_length pesBytes 19 then
             let? s2 := slice pesBytes 14 19 in
             let? d := Pts.extract_time s2 in Ok (p, d)
           else Ok (p, 0)
         else Ok (0, 0)) in
      let? dat := (if dataStartIndex <? len pesBytes then slice_from pesBytes dataStartIndex else Ok []) in
      Ok (mk_header prefix aligned sid plen ind (fst pd) (snd pd) dat)
    else
      let? dat := (if 6 <? len pesBytes then slice_from pesBytes 6 else Ok []) in
      Ok (mk_header prefix aligned sid plen 0 0 0 dat)
  else Err E.Other.

(* getters *)
Definition has_pts (h : header) : bool := negb (N.land (ptsDtsIndicator h) 2 =? 0).
Definition has_dts (h : header) : bool := ptsDtsIndicator h =? 3.

(* ---- packet.go, on a [188]byte array (indexing a fixed-size array cannot panic: nthN) ---- *)
Definition pkt_pusi (p : bytes) : bool := negb (N.land (nthN p 1) 64 =? 0).
Definition pkt_contains_payload (p : bytes) : bool := negb (N.land (nthN p 3) 16 =? 0).
Definition pkt_contains_af (p : bytes) : bool := negb (N.land (nthN p 3) 32 =? 0).
Definition pkt_payload_start (p : bytes) : N :=
  if pkt_contains_af p then 4 + (1 + nthN p 4) else 4.
(* packet.Payload *)
Definition pkt_payload (p : bytes) : Res bytes :=
  if negb (pkt_contains_payload p) then Err E.NoPayload else
  let start := pkt_payload_start p in
  if len p <? start then Err E.InvalidPacketLength else slice_from p start.
(* packet.PESHeader *)
Definition pkt_pes_header (p : bytes) : Res bytes :=
  if pkt_pusi p then
    let? pay := pkt_payload p in
    if (3 <? len pay) && (nthN pay 0 =? 0) && (nthN pay 1 =? 0) && (nthN pay 2 =? 1) then Ok pay
    else Err E.NoPayload
  else Err E.NoPayload.
(* pes.AlignedPUSI : (data, true) or (nil, false) *)
Definition aligned_pusi (p : bytes) : option bytes :=
  if negb (pkt_pusi p) then None else
  match pkt_pes_header p with
  | Ok hb => match new_pes_header hb with
             | Ok h => if dataAlignment h then Some (data h) else None
             | _ => None end
  | _ => None end.

(* gots.InsertPTS(b[off:], v) : writes five bytes at offset off *)
Definition put_ts (b : bytes) (off v : N) : Res bytes :=
  let? tail := slice_from b off in
  let? tail' := Pts.insert_pts tail v in
  Ok (takeN off b ++ tail').

(* ---- packet/create.go: the library's own PES-start builder ---- *)
(* packet.SetPayload(pkt, pay): for i < PacketSize && j < len(pay) { pkt[i] = pay[j] } from payloadStart *)
Definition pkt_set_payload (pkt pay : bytes) : bytes := blit pkt (pkt_payload_start pkt) pay.
(* packet.WithPES(pkt, pts) *)
Definition with_pes (pkt : bytes) (pts : N) : Res bytes :=
  let pay := repeatN 0 184 in                       (* make([]byte, size, size), size = PacketSize - 4 *)
  let pay := upd (upd (upd pay 0 0) 1 0) 2 1 in     (* packet_start_code_prefix *)
  let pay := upd pay 3 184 in                       (* stream id *)
  let pay := upd pay 4 0 in                         (* packet length, high byte; pay[5] is left as made *)
  let pay := upd pay 6 64 in                        (* "data alignment indicator" : 0x40 as written *)
  let pay := upd pay 7 128 in                       (* PTS_DTS indicator = only PTS *)
  let pay := upd pay 8 14 in                        (* header length *)
  let? s := slice pay 9 14 in
  let? s' := Pts.insert_pts s pts in                (* gots.InsertPTS(pay[9:14], pts) writes through the slice *)
  let pay := blit pay 9 s' in
  let pkt := pkt_set_payload pkt pay in             (* SetPayload(pkt, pay) *)
  Ok (upd pkt 3 (N.lor (nthN pkt 3) 16)).           (* WithHasPayloadFlag(pkt) *)
(* nested module: `Import Pes` does not bring these names into scope *)
Module Consts.
(* ---- exported constants of pes/pesheader.go, in source order (coverage: notes/coverage.md) ---- *)
Definition STREAM_ID_ALL_AUDIO_STREAMS : N := 184.
Definition STREAM_ID_ALL_VIDEO_STREAMS : N := 185.
Definition STREAM_ID_PROGRAM_STREAM_MAP : N := 188.
Definition STREAM_ID_PRIVATE_STREAM_1 : N := 189.
Definition STREAM_ID_PADDNG_STREAM : N := 190.
Definition STREAM_ID_PRIVATE_STREAM_2 : N := 191.
Definition STREAM_ID_ECM_STREAM : N := 240.
Definition STREAM_ID_EMM_STREAM : N := 241.
Definition STREAM_ID_DSM_CC_STREAM : N := 242.
Definition STREAM_ID_ISO_IEC_13552_STREAM : N := 243.
Definition STREAM_ID_ITU_T_H222_1_TYPE_A : N := 244.
Definition STREAM_ID_ITU_T_H222_1_TYPE_B : N := 245.
Definition STREAM_ID_ITU_T_H222_1_TYPE_C : N := 246.
Definition STREAM_ID_ITU_T_H222_1_TYPE_D : N := 247.
Definition STREAM_ID_ITU_T_H222_1_TYPE_E : N := 248.
Definition STREAM_ID_ANCILLARY_STREAM : N := 249.
Definition STREAM_ID_MPEG_4_SL_PACKETIZED_STREAM : N := 250.
Definition STREAM_ID_MPEG_4_FLEXMUX_STREAM : N := 251.
Definition STREAM_ID_METADATA_STREAM : N := 252.
Definition STREAM_ID_EXTENDED_STREAM_ID : N := 253.
Definition STREAM_ID_RESERVED : N := 254.
Definition STREAM_ID_PROGRAM_STREAM_DIRECTORY : N := 255.
Definition exported_consts : list N :=
  [STREAM_ID_ALL_AUDIO_STREAMS; STREAM_ID_ALL_VIDEO_STREAMS; STREAM_ID_PROGRAM_STREAM_MAP; STREAM_ID_PRIVATE_STREAM_1; STREAM_ID_PADDNG_STREAM; STREAM_ID_PRIVATE_STREAM_2; STREAM_ID_ECM_STREAM; STREAM_ID_EMM_STREAM; STREAM_ID_DSM_CC_STREAM; STREAM_ID_ISO_IEC_13552_STREAM; STREAM_ID_ITU_T_H222_1_TYPE_A; STREAM_ID_ITU_T_H222_1_TYPE_B; STREAM_ID_ITU_T_H222_1_TYPE_C; STREAM_ID_ITU_T_H222_1_TYPE_D; STREAM_ID_ITU_T_H222_1_TYPE_E; STREAM_ID_ANCILLARY_STREAM; STREAM_ID_MPEG_4_SL_PACKETIZED_STREAM; STREAM_ID_MPEG_4_FLEXMUX_STREAM; STREAM_ID_METADATA_STREAM; STREAM_ID_EXTENDED_STREAM_ID; STREAM_ID_RESERVED; STREAM_ID_PROGRAM_STREAM_DIRECTORY].
End Consts.

End Pes.
