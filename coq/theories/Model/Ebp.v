(* Model of /repo/ebp/{ebp.go, baseebp.go, comcastebp.go, cablelabsebp.go} with the two repairs of
   notes/candidate-fixes.patch applied (clamped fraction in insertUtcTime, guarded CableLabs grouping
   loop).  One Gallina function per Go function; `index` is a uint8 and every `index += k`,
   `index+4`, `DataFieldLength+2` is wrapped with w8 as in the code.

   One record serves both struct types (comcastEbp = baseEbp; cableLabsEbp = baseEbp +
   FormatIdentifier + PartitionFlags, which stay 0 for a Comcast EBP).  SuccessReadTime
   (time.Now()) is not modelled.  time.Time is a Z: nanoseconds since 1900-01-01T00:00:00Z. *)
From Gots Require Import Base.Prelude.
Module Ebp.

Definition ComcastEbpTag : N := 169.      (* 0xA9 *)
Definition CableLabsEbpTag : N := 223.    (* 0xDF *)
Definition CableLabsFormatIdentifier : N := 1161973808. (* 0x45425030 *)
Definition InvalidStreamSyncSignal : N := 255.
Definition StreamNotSynchronized : N := 28. (* 0x1C *)
Definition StreamSynchronized : N := 29.    (* 0x1D *)

Record t : Type := mk {
  DataFieldTag : N; DataFieldLength : N; DataFlags : N; ExtensionFlags : N; SapType : N;
  TimeSeconds : N; TimeFraction : N; ReservedBytes : bytes; Grouping : bytes;
  FormatIdentifier : N; PartitionFlags : N }.

Definition zero (tag : N) : t := mk tag 0 0 0 0 0 0 [] [] 0 0.
(* field assignments *)
Definition set_DataFieldTag (e : t) (v : N) : t :=
  mk v (DataFieldLength e) (DataFlags e) (ExtensionFlags e) (SapType e) (TimeSeconds e) (TimeFraction e)
     (ReservedBytes e) (Grouping e) (FormatIdentifier e) (PartitionFlags e).
Definition set_DataFieldLength (e : t) (v : N) : t :=
  mk (DataFieldTag e) v (DataFlags e) (ExtensionFlags e) (SapType e) (TimeSeconds e) (TimeFraction e)
     (ReservedBytes e) (Grouping e) (FormatIdentifier e) (PartitionFlags e).
Definition set_DataFlags (e : t) (v : N) : t :=
  mk (DataFieldTag e) (DataFieldLength e) v (ExtensionFlags e) (SapType e) (TimeSeconds e) (TimeFraction e)
     (ReservedBytes e) (Grouping e) (FormatIdentifier e) (PartitionFlags e).
Definition set_ExtensionFlags (e : t) (v : N) : t :=
  mk (DataFieldTag e) (DataFieldLength e) (DataFlags e) v (SapType e) (TimeSeconds e) (TimeFraction e)
     (ReservedBytes e) (Grouping e) (FormatIdentifier e) (PartitionFlags e).
Definition set_SapType (e : t) (v : N) : t :=
  mk (DataFieldTag e) (DataFieldLength e) (DataFlags e) (ExtensionFlags e) v (TimeSeconds e) (TimeFraction e)
     (ReservedBytes e) (Grouping e) (FormatIdentifier e) (PartitionFlags e).
Definition set_Time (e : t) (s f : N) : t :=
  mk (DataFieldTag e) (DataFieldLength e) (DataFlags e) (ExtensionFlags e) (SapType e) s f
     (ReservedBytes e) (Grouping e) (FormatIdentifier e) (PartitionFlags e).
Definition set_ReservedBytes (e : t) (v : bytes) : t :=
  mk (DataFieldTag e) (DataFieldLength e) (DataFlags e) (ExtensionFlags e) (SapType e) (TimeSeconds e) (TimeFraction e)
     v (Grouping e) (FormatIdentifier e) (PartitionFlags e).
Definition set_Grouping (e : t) (v : bytes) : t :=
  mk (DataFieldTag e) (DataFieldLength e) (DataFlags e) (ExtensionFlags e) (SapType e) (TimeSeconds e) (TimeFraction e)
     (ReservedBytes e) v (FormatIdentifier e) (PartitionFlags e).
Definition set_FormatIdentifier (e : t) (v : N) : t :=
  mk (DataFieldTag e) (DataFieldLength e) (DataFlags e) (ExtensionFlags e) (SapType e) (TimeSeconds e) (TimeFraction e)
     (ReservedBytes e) (Grouping e) v (PartitionFlags e).
Definition set_PartitionFlags (e : t) (v : N) : t :=
  mk (DataFieldTag e) (DataFieldLength e) (DataFlags e) (ExtensionFlags e) (SapType e) (TimeSeconds e) (TimeFraction e)
     (ReservedBytes e) (Grouping e) (FormatIdentifier e) v.

(* ---------------- baseebp.go ---------------- *)
(* ebp.DataFieldLength != 0 && ebp.DataFlags&mask != 0 *)
Definition flag (e : t) (mask : N) : bool := negb (DataFieldLength e =? 0) && bit (DataFlags e) mask.
(* if ebp.DataFieldLength != 0 && value { ebp.DataFlags |= mask }   (never clears) *)
Definition set_flag (e : t) (mask : N) (value : bool) : t :=
  if negb (DataFieldLength e =? 0) && value then set_DataFlags e (N.lor (DataFlags e) mask) else e.

Definition FragmentFlag (e : t) : bool := flag e 128.
Definition SetFragmentFlag (e : t) (v : bool) : t := set_flag e 128 v.
Definition SegmentFlag (e : t) : bool := flag e 64.
Definition SetSegmentFlag (e : t) (v : bool) : t := set_flag e 64 v.
Definition SapFlag (e : t) : bool := flag e 32.
Definition SetSapFlag (e : t) (v : bool) : t := set_flag e 32 v.
Definition GroupingFlag (e : t) : bool := flag e 16.
Definition SetGroupingFlag (e : t) (v : bool) : t := set_flag e 16 v.
Definition TimeFlag (e : t) : bool := flag e 8.
Definition SetTimeFlag (e : t) (v : bool) : t := set_flag e 8 v.
Definition ExtensionFlag (e : t) : bool := flag e 1.
Definition SetExtensionFlag (e : t) (v : bool) : t := set_flag e 1 v.
Definition Sap (e : t) : N := SapType e.
Definition SetSap (e : t) (v : N) : t := set_SapType e v.
Definition IsEmpty (e : t) : bool := DataFieldLength e =? 0.
Definition SetIsEmpty (e : t) (v : bool) : t := set_DataFieldLength e (if v then 0 else 1).
Definition EBPType (e : t) : N := DataFieldTag e.

(* for _, groupID := range ebp.Grouping { if groupID == 0x1D || groupID == 0x1C { return groupID } }; return 0xFF *)
Fixpoint stream_sync (g : bytes) : N :=
  match g with
  | [] => InvalidStreamSyncSignal
  | x :: r => if (x =? StreamSynchronized) || (x =? StreamNotSynchronized) then x else stream_sync r
  end.
Definition StreamSyncSignal (e : t) : N := stream_sync (Grouping e).

(* ---------------- comcastebp.go / cablelabsebp.go : flag accessors ---------------- *)
Definition DiscontinuityFlag (e : t) : bool := flag e 4.
Definition SetDiscontinuityFlag (e : t) (v : bool) : t := set_flag e 4 v.
(* ConcealmentFlag does NOT test DataFieldLength: return ebp.DataFlags&0x04 != 0 *)
Definition ConcealmentFlag (e : t) : bool := bit (DataFlags e) 4.
Definition SetConcealmentFlag (e : t) (v : bool) : t := set_flag e 4 v.
Definition PartitionFlag (e : t) : bool := ExtensionFlag e && bit (ExtensionFlags e) 128.
Definition SetPartitionFlag (e : t) (v : bool) : t :=
  if ExtensionFlag e && v then set_ExtensionFlags e (N.lor (ExtensionFlags e) 128) else e.

Definition CreateComcastEBP : t := set_DataFieldLength (zero ComcastEbpTag) 1.
Definition CreateCableLabsEbp : t :=
  set_FormatIdentifier (set_DataFieldLength (zero CableLabsEbpTag) 1) CableLabsFormatIdentifier.

(* ---------------- ebp.go : time ---------------- *)
Definition NS : Z := 1000000000.
Definition Era1 : Z := 4294967296 * 1000000000.   (* 2036-02-07T06:28:16Z - 1900-01-01T00:00:00Z = 2^32 s *)
(* nanos := uint64(seconds)*1e9 + (uint64(fraction)*1e9)>>32; base chosen by bit 31 of seconds;
   time.Duration(nanos) is an int64 conversion (two's complement) *)
Definition extractUtcTime (seconds fraction : N) : Z :=
  let nanos := w64 (w64 (seconds * 1000000000) + N.shiftr (w64 (fraction * 1000000000)) 32) in
  let d := if nanos <? 9223372036854775808 then Z.of_N nanos else (Z.of_N nanos - 18446744073709551616)%Z in
  if negb (N.land seconds 2147483648 =? 0) then d else (Era1 + d)%Z.
(* t.Sub saturates at the int64 range; uint64(int64) is two's complement *)
Definition sat64 (d : Z) : Z := Z.max (-9223372036854775808) (Z.min 9223372036854775807 d).
Definition insertUtcTime (t : Z) : N * N :=
  let start := if (t <? Era1)%Z then 0%Z else Era1 in
  let nanos := Z.to_N (sat64 (t - start) mod 18446744073709551616)%Z in
  let seconds := w32 (nanos / 1000000000) in
  let frac := w64 (N.shiftl (w64 (nanos mod 1000000000 + 1)) 32) / 1000000000 in
  let frac := if 4294967295 <? frac then 4294967295 else frac in     (* repair of F3 *)
  (seconds, w32 frac).
(* the unrepaired line, kept for the refutation witness of F3:  fraction = uint32(((nanos%1e9+1)<<32)/1e9) *)
Definition insertUtcTime_unclamped (t : Z) : N * N :=
  let start := if (t <? Era1)%Z then 0%Z else Era1 in
  let nanos := Z.to_N (sat64 (t - start) mod 18446744073709551616)%Z in
  (w32 (nanos / 1000000000), w32 (w64 (N.shiftl (w64 (nanos mod 1000000000 + 1)) 32) / 1000000000)).
Definition EBPTime (e : t) : Z := extractUtcTime (TimeSeconds e) (TimeFraction e).
Definition SetEBPTime (e : t) (tm : Z) : t := let '(s, f) := insertUtcTime tm in set_Time e s f.

(* ---------------- readers ---------------- *)
(* Every reader takes g : bool.  g = true is the code of /repo HEAD: commit 0e5df3a added a length test before every
   optional field (`short(n)`: n = 1, or 8 for the time) that returns ErrInvalidEBPLength.  g = false is the code before
   that commit (only the candidate repairs of the grouping loop and of the time fraction), kept because C05 relates the
   two (C05_read_ebp_patch_only_adds_error) and the pinned-tree witnesses use it.  The theorems of C12 are stated for every
   g; the executors' ops `ebp.readg` / `ebp.buildg` / `ebp.hist` use g = true, `ebp.read` / `ebp.build` g = false. *)
Definition chk (g : bool) (data : bytes) (index n : N) : bool :=
  g && ((len data <? index + n) || (255 <? index + n)).

(* x = data[index]; index += uint8(1) *)
Definition rd8 (data : bytes) (index : N) : Res (N * N) :=
  let? v := idx data index in Ok (v, w8 (index + 1)).
(* binary.BigEndian.Uint32(b): panics when len(b) < 4 *)
Definition uint32be (b : bytes) : Res N :=
  match b with a :: b :: c :: d :: _ => Ok (be32 a b c d) | _ => Panic end.
(* x = binary.BigEndian.Uint32(data[index : index+4]); index += uint8(4)     (index+4 is uint8) *)
Definition rd32 (data : bytes) (index : N) : Res (N * N) :=
  let? s := slice data index (w8 (index + 4)) in
  let? v := uint32be s in Ok (v, w8 (index + 4)).

(* if ebp.ExtensionFlag() { ebp.ExtensionFlags = data[index]; index += uint8(1) } *)
Definition rd_ext (g : bool) (data : bytes) (s : t * N) : Res (t * N) :=
  let (e, index) := s in
  if ExtensionFlag e then
    if chk g data index 1 then Err E.InvalidEBPLength else
    let? (v, index) := rd8 data index in Ok (set_ExtensionFlags e v, index)
  else Ok (e, index).
(* if ebp.SapFlag() { ebp.SapType = data[index]; index += uint8(1) } *)
Definition rd_sap (g : bool) (data : bytes) (s : t * N) : Res (t * N) :=
  let (e, index) := s in
  if SapFlag e then
    if chk g data index 1 then Err E.InvalidEBPLength else
    let? (v, index) := rd8 data index in Ok (set_SapType e v, index)
  else Ok (e, index).
(* comcast: if ebp.GroupingFlag() { group := data[index]; ebp.Grouping = append(ebp.Grouping, group); index += uint8(1) } *)
Definition rd_group1 (g : bool) (data : bytes) (s : t * N) : Res (t * N) :=
  let (e, index) := s in
  if GroupingFlag e then
    if chk g data index 1 then Err E.InvalidEBPLength else
    let? (v, index) := rd8 data index in Ok (set_Grouping e (Grouping e ++ [v]), index)
  else Ok (e, index).
(* if ebp.TimeFlag() { TimeSeconds = Uint32(data[index:index+4]); index += 4; TimeFraction = ...; index += 4 } *)
Definition read_time (g : bool) (data : bytes) (s : t * N) : Res (t * N) :=
  let (e, index) := s in
  if TimeFlag e then
    if chk g data index 8 then Err E.InvalidEBPLength else
    let? (sec, index) := rd32 data index in
    let? (f, index) := rd32 data index in
    Ok (set_Time e sec f, index)
  else Ok (e, index).
(* cablelabs: if ebp.PartitionFlag() { ebp.PartitionFlags = data[index]; index += uint8(1) } *)
Definition rd_part (g : bool) (data : bytes) (s : t * N) : Res (t * N) :=
  let (e, index) := s in
  if PartitionFlag e then
    if chk g data index 1 then Err E.InvalidEBPLength else
    let? (v, index) := rd8 data index in Ok (set_PartitionFlags e v, index)
  else Ok (e, index).

(* the common tail of both readers:
   if index < ebp.DataFieldLength+2 { if int(ebp.DataFieldLength+2) > len(data) { return err }
                                      ebp.ReservedBytes = data[index : ebp.DataFieldLength+2] }   (uint8) *)
Definition read_reserved (data : bytes) (s : t * N) : Res t :=
  let (e, index) := s in
  let stop := w8 (DataFieldLength e + 2) in
  if index <? stop then
    if len data <? stop then Err E.InvalidEBPLength else
    let? r := slice data index stop in Ok (set_ReservedBytes e r)
  else Ok e.

Definition readComcastEbp (g : bool) (data : bytes) : Res t :=
  let e := zero ComcastEbpTag in
  if len data <? 2 then Err E.NoPayload else
  let index := 0 in
  let? (v, index) := rd8 data index in let e := set_DataFieldTag e v in
  let? (v, index) := rd8 data index in let e := set_DataFieldLength e v in
  let? s :=
    if 0 <? DataFieldLength e then
      if 3 <=? len data then let? (v, index) := rd8 data index in Ok (set_DataFlags e v, index)
      else Err E.InvalidEBPLength
    else Ok (e, index) in
  let? s := rd_ext g data s in
  let? s := rd_sap g data s in
  let? s := rd_group1 g data s in
  let? s := read_time g data s in
  read_reserved data s.

(* for groupExtFlag { REPAIR: if int(index) >= len(data) || index == 0xFF { return ErrInvalidEBPLength }
                      groupExtFlag = data[index]&0x80 != 0; group = data[index]&0x7F; append; index++ } *)
Fixpoint group_loop (fuel : nat) (data : bytes) (gr : bytes) (index : N) : Res (bytes * N) :=
  match fuel with
  | O => Diverge
  | S fuel =>
    if (len data <=? index) || (index =? 255) then Err E.InvalidEBPLength else
    let? v := idx data index in
    let gr := gr ++ [N.land v 127] in
    let index := w8 (index + 1) in
    if negb (N.land v 128 =? 0) then group_loop fuel data gr index else Ok (gr, index)
  end.
(* the loop as pinned in /repo (no guard), kept for the C05 refutation witnesses *)
Fixpoint group_loop_unguarded (fuel : nat) (data : bytes) (gr : bytes) (index : N) : Res (bytes * N) :=
  match fuel with
  | O => Diverge
  | S fuel =>
    let? v := idx data index in
    let gr := gr ++ [N.land v 127] in
    let index := w8 (index + 1) in
    if negb (N.land v 128 =? 0) then group_loop_unguarded fuel data gr index else Ok (gr, index)
  end.

(* if ebp.GroupingFlag() { first id; for groupExtFlag { ... } } ; fuel: the loop index is a uint8 *)
Definition read_groups (loop : nat -> bytes -> bytes -> N -> Res (bytes * N)) (g : bool) (data : bytes) (s : t * N)
  : Res (t * N) :=
  let (e, index) := s in
  if GroupingFlag e then
    if chk g data index 1 then Err E.InvalidEBPLength else
    let? v := idx data index in
    let gr := Grouping e ++ [N.land v 127] in
    let index := w8 (index + 1) in
    if negb (N.land v 128 =? 0) then
      let? (gr, index) := loop 257%nat data gr index in Ok (set_Grouping e gr, index)
    else Ok (set_Grouping e gr, index)
  else Ok (e, index).

Definition readCableLabsEbp_with (loop : nat -> bytes -> bytes -> N -> Res (bytes * N)) (g : bool) (data : bytes) : Res t :=
  let e := zero CableLabsEbpTag in
  if len data <? 2 then Err E.NoPayload else
  let index := 0 in
  let? (v, index) := rd8 data index in let e := set_DataFieldTag e v in
  let? (v, index) := rd8 data index in let e := set_DataFieldLength e v in
  let? s :=
    if 0 <? DataFieldLength e then
      if 7 <=? len data then
        let? (v, index) := rd32 data index in let e := set_FormatIdentifier e v in
        let? (v, index) := rd8 data index in Ok (set_DataFlags e v, index)
      else Err E.InvalidEBPLength
    else Ok (e, index) in
  let? s := rd_ext g data s in
  let? s := rd_sap g data s in
  let? s := read_groups loop g data s in
  let? s := read_time g data s in
  let? s := rd_part g data s in
  read_reserved data s.
Definition readCableLabsEbp : bool -> bytes -> Res t := readCableLabsEbp_with group_loop.
Definition readCableLabsEbp_unrepaired : bytes -> Res t := readCableLabsEbp_with group_loop_unguarded false.

Inductive flavour : Type := Comcast | CableLabs.
Definition ReadEncoderBoundaryPoint (g : bool) (data : bytes) : Res (flavour * t) :=
  if len data =? 0 then Err E.NoEBPData else
  let? tag := idx data 0 in
  if tag =? ComcastEbpTag then let? e := readComcastEbp g data in Ok (Comcast, e)
  else if tag =? CableLabsEbpTag then let? e := readCableLabsEbp g data in Ok (CableLabs, e)
  else Err E.UnrecognizedEbpType.

(* ---------------- Data() : returns the bytes and the receiver (DataFieldLength is overwritten) ---------------- *)
Definition time_bytes (e : t) : bytes :=
  if TimeFlag e then to_be32 (TimeSeconds e) ++ to_be32 (TimeFraction e) else [].
Definition comcast_body (e : t) : bytes :=
  [DataFlags e]
  ++ (if ExtensionFlag e then [ExtensionFlags e] else [])
  ++ (if SapFlag e then [SapType e] else [])
  ++ (if GroupingFlag e then Grouping e else [])
  ++ time_bytes e
  ++ ReservedBytes e.
Definition finish_data (e : t) (body : bytes) : bytes * t :=
  let e := set_DataFieldLength e (w8 (len body)) in
  (DataFieldTag e :: DataFieldLength e :: body, e).
Definition ComcastData (e : t) : bytes * t :=
  if DataFieldLength e =? 0 then ([], e) else finish_data e (comcast_body e).

(* group = Grouping[i] | 0x80 for all but the last *)
Fixpoint cl_groups (g : bytes) : bytes :=
  match g with
  | [] => []
  | [x] => [x]
  | x :: r => N.lor x 128 :: cl_groups r
  end.
Definition cablelabs_body (e : t) : bytes :=
  to_be32 (FormatIdentifier e)
  ++ [DataFlags e]
  ++ (if ExtensionFlag e then [ExtensionFlags e] else [])
  ++ (if SapFlag e then [SapType e] else [])
  ++ (if GroupingFlag e then cl_groups (Grouping e) else [])
  ++ time_bytes e
  ++ (if PartitionFlag e then [PartitionFlags e] else [])
  ++ ReservedBytes e.
Definition CableLabsData (e : t) : bytes * t :=
  if DataFieldLength e =? 0 then ([], e) else finish_data e (cablelabs_body e).

Definition Data (f : flavour) (e : t) : bytes * t :=
  match f with Comcast => ComcastData e | CableLabs => CableLabsData e end.
(* nested module: `Import Ebp` does not bring these names into scope *)
Module Consts.
(* ---- exported constants of ebp/ebp.go, in source order (coverage: notes/coverage.md) ---- *)
Definition exported_consts : list N :=
  [ComcastEbpTag; CableLabsEbpTag; CableLabsFormatIdentifier; InvalidStreamSyncSignal; StreamNotSynchronized; StreamSynchronized].
End Consts.

End Ebp.
