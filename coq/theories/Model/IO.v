(* Model of /repo/packet/io.go : Sync / IsSynced, written over any PeekScanner implementation
   and instantiated with a bufio-like reader ORACLE (and, in Model/Bufio.v, with a transcription
   of bufio.Reader that Proofs/BufioRefines.v proves to implement this oracle).
   The model is that of the REPAIRED code (notes/candidate-fixes.patch, hunk packet/io.go:
   `off++` after the second ReadByte on the false-sync path; defect F1 of DESIGN section 7).

   Reader oracle (the assumed contract of bufio.Reader over a well-behaved io.Reader, stated
   again next to the theorems in Properties/C16.v):
     - the stream is a finite byte list `rest` followed by a sticky terminal error `terr`
       (io.EOF = E.EOF, or any other error);
     - ReadByte returns the next byte, or `terr` when none is left (state unchanged);
     - UnreadByte succeeds when a byte has been read and neither UnreadByte nor Peek happened since
       (bufio: lastByte >= 0; a failed ReadByte leaves lastByte alone) and puts that byte back;
       otherwise bufio.ErrInvalidUnreadByte;
     - Peek n returns the next n bytes without consuming them, or fails with `terr` when
       fewer than n remain (n = 4 <= minimum bufio size 16, so ErrBufferFull cannot occur);
       Peek invalidates UnreadByte (bufio sets lastByte = -1). *)
From Gots Require Import Base.Prelude.
Module SyncIO.

Definition SyncByte : N := 71.                  (* 0x47 *)
Definition ErrInvalidUnreadByte : N := 53.      (* bufio.ErrInvalidUnreadByte; local numbering, see goexec/io.go ioErrCode *)

Record reader : Type := mkR { rest : bytes; last : option N; terr : N }.

Definition read_byte (r : reader) : (N + N) * reader :=
  match rest r with
  | b :: t => (inl b, mkR t (Some b) (terr r))
  | [] => (inr (terr r), r)
  end.
Definition unread_byte (r : reader) : option N * reader :=
  match last r with
  | Some b => (None, mkR (b :: rest r) None (terr r))
  | None => (Some ErrInvalidUnreadByte, r)
  end.
Definition peek (n : N) (r : reader) : (bytes + N) * reader :=
  let r' := mkR (rest r) None (terr r) in
  if n <=? len (rest r) then (inl (takeN n (rest r)), r') else (inr (terr r), r').
(* io.ReadFull(r, buf[:n]) through bufio.Reader.Read: the next min(n, remaining) bytes
   (lastByte becomes the last byte delivered) *)
Definition read_n (n : N) (r : reader) : bytes * reader :=
  let out := takeN n (rest r) in
  (out, mkR (dropN n (rest r)) (match rev out with c :: _ => Some c | [] => last r end) (terr r)).

(* err == io.EOF -> gots.ErrSyncByteNotFound, any other error as is *)
Definition map_err (e : N) : N := if e =? E.EOF then E.SyncByteNotFound else e.
Definition pidMask : N := 2096896.   (* 0x1fff << 8 *)
Definition afcMask : N := 48.        (* 0x3 << 4 *)

(* Sync and IsSynced only use the PeekScanner interface; they are written once over ANY
   implementation (state type S with ReadByte / UnreadByte / Peek) and instantiated below with the
   reader oracle, and in Model/Bufio.v with a model of bufio.Reader itself. *)
Section Over.
Variable St : Type.
Variable rb : St -> Res ((N + N) * St).             (* ReadByte: byte or error *)
Variable ub : St -> Res (option N * St).            (* UnreadByte: error or nil *)
Variable pk : N -> St -> Res ((bytes + N) * St).    (* Peek n: bytes or error *)
(* (the outer Res lets an implementation panic or diverge; the oracle never does) *)

(* IsSynced(r Peeker) (ok bool, err error) *)
Definition is_synced_over (r : St) : Res (bool * option N * St) :=
  let? (p, r1) := pk 4 r in
  match p with
  | inr e => Ok (false, Some e, r1)
  | inl b =>
    let? b0 := idx b 0 in
    if negb (b0 =? SyncByte) then Ok (false, None, r1) else
    (* binary.BigEndian.Uint32(b): panics when len(b) < 4 *)
    let? b3 := idx b 3 in let? b1 := idx b 1 in let? b2 := idx b 2 in
    let header := be32 b0 b1 b2 b3 in
    let afc := N.land header afcMask in
    if afc =? 0 then Ok (false, None, r1) else
    let pid := N.shiftr (N.land header pidMask) 8 in
    Ok ((pid <? 4) || (15 <? pid), None, r1)
  end.

(* func Sync(r PeekScanner) (off int64, err error): result (off, err, reader afterwards).
   `off` only ever grows from 0 by 1 per consumed byte, so it is an N (int64 cannot overflow on
   a stream shorter than 2^63 bytes).  One loop iteration consumes exactly one byte, so
   fuel = length + 1 suffices (sync_total in Proofs/SyncProofs.v).
   `repaired` = true: the code with the F1 repair (`off++` on the false-sync path);
   `repaired` = false: the loop as pinned in /repo, kept only to state the defect. *)
Fixpoint sync_loop_over (repaired : bool) (fuel : nat) (r : St) (off : N) : Res (N * option N * St) :=
  match fuel with
  | O => Diverge
  | S f =>
    let? (x, r1) := rb r in
    match x with
    | inr e => Ok (off, Some (map_err e), r1)
    | inl b =>
      if negb (b =? SyncByte) then sync_loop_over repaired f r1 (off + 1) else
      let? (u, r2) := ub r1 in
      match u with
      | Some e => Ok (off, Some e, r2)
      | None =>
        let? (ok, err, r3) := is_synced_over r2 in
        if ok then Ok (off, None, r3) else
        match err with
        | Some e => Ok (off, Some (map_err e), r3)
        | None =>
          let? (y, r4) := rb r3 in
          match y with
          | inr e => Ok (off, Some (map_err e), r4)
          | inl _ => sync_loop_over repaired f r4 (if repaired then off + 1 else off)   (* F1 *)
          end
        end
      end
    end
  end.
End Over.

(* ---- over the reader oracle ---- *)
Definition o_rb (r : reader) := Ok (read_byte r).
Definition o_ub (r : reader) := Ok (unread_byte r).
Definition o_pk (n : N) (r : reader) := Ok (peek n r).
Definition is_synced : reader -> Res (bool * option N * reader) := is_synced_over reader o_pk.
Definition sync_loop : nat -> reader -> N -> Res (N * option N * reader) :=
  sync_loop_over reader o_rb o_ub o_pk true.

Definition sync_raw (r : reader) : Res (N * option N * reader) :=
  sync_loop (S (length (rest r))) r 0.

(* the same with the error folded into Res: Ok (offset, reader left) / Err e *)
Definition sync (r : reader) : Res (N * reader) :=
  let? (off, err, r') := sync_raw r in
  match err with None => Ok (off, r') | Some e => Err e end.

Definition start (l : bytes) (terr : N) : reader := mkR l None terr.

(* ---- the loop as pinned in /repo BEFORE the repair of F1 (Properties/C16.v C16_F1_pinned_refuted);
   no op uses it ---- *)
Definition sync_loop_pinned : nat -> reader -> N -> Res (N * option N * reader) :=
  sync_loop_over reader o_rb o_ub o_pk false.
Definition sync_pinned (r : reader) : Res (N * reader) :=
  let? (off, err, r') := sync_loop_pinned (S (length (rest r))) r 0 in
  match err with None => Ok (off, r') | Some e => Err e end.

End SyncIO.
