(* Model of the part of bufio.Reader that packet.Sync uses (Go 1.23 src/bufio/bufio.go:
   NewReaderSize, fill, readErr, Peek, ReadByte, UnreadByte), over the scripted io.Reader of
   Model/PacketWriter.v (rd_read).  It is NOT gots code: it exists to turn the reader-oracle
   assumption of C16 ("bufio semantics", any buffer size, any fragmentation) into a theorem about
   a transcription of bufio (Proofs/BufioRefines.v), and it is tied to the real bufio.Reader by
   the op io.syncb.

   Representation: of the array b.buf only the window b.buf[b.r:b.w] is kept (`bwin`), together
   with the indices r, w and len(b.buf) (`bcap`); bytes outside the window are never read by
   these methods (UnreadByte writes buf[r-1] before moving r back). *)
From Gots Require Import Base.Prelude Model.PacketWriter Model.IO.
Module Bufio.
Import PacketWriter.

Definition ErrInvalidUnreadByte : N := SyncIO.ErrInvalidUnreadByte.   (* 53 *)
Definition ErrBufferFull : N := 54.
Definition ErrNoProgress : N := 55.
Definition minReadBufferSize : nat := 16.
Definition maxConsecutiveEmptyReads : nat := 100.

Record breader : Type := mkB {
  bcap : nat;            (* len(b.buf) *)
  br : nat; bw : nat;    (* b.r, b.w *)
  bwin : bytes;          (* b.buf[b.r:b.w] *)
  berr : option N;       (* b.err *)
  blast : option N;      (* b.lastByte, None = -1 *)
  brd : rstate           (* b.rd: the underlying io.Reader *)
}.

(* NewReaderSize(rd, size) *)
Definition new_reader (size : nat) (rd : rstate) : breader :=
  mkB (Nat.max size minReadBufferSize) 0 0 [] None None rd.

(* the read loop of fill: for i := maxConsecutiveEmptyReads; i > 0; i-- { n, err := b.rd.Read(b.buf[b.w:]) .. } *)
Fixpoint fill_loop (i : nat) (b : breader) : breader :=
  match i with
  | O => mkB (bcap b) (br b) (bw b) (bwin b) (Some ErrNoProgress) (blast b) (brd b)
  | S i' =>
    let '((data, e), rd') := rd_read (brd b) (bcap b - bw b) in
    let b1 := mkB (bcap b) (br b) (bw b + length data) (bwin b ++ data) (berr b) (blast b) rd' in
    match e with
    | Some x => mkB (bcap b1) (br b1) (bw b1) (bwin b1) (Some x) (blast b1) (brd b1)
    | None => if (0 <? length data)%nat then b1 else fill_loop i' b1
    end
  end.

(* func (b *Reader) fill() *)
Definition fill (b : breader) : Res breader :=
  (* slide existing data to the beginning *)
  let b1 := if (0 <? br b)%nat then mkB (bcap b) 0 (bw b - br b) (bwin b) (berr b) (blast b) (brd b) else b in
  if (bcap b1 <=? bw b1)%nat then Panic     (* "bufio: tried to fill full buffer" *)
  else Ok (fill_loop maxConsecutiveEmptyReads b1).

(* func (b *Reader) ReadByte() (byte, error):  for b.r == b.w { if b.err != nil { return 0, b.readErr() }; b.fill() } *)
Fixpoint read_byte_loop (fuel : nat) (b : breader) : Res ((N + N) * breader) :=
  match fuel with
  | O => Diverge
  | S f =>
    if (br b =? bw b)%nat then
      match berr b with
      | Some e => Ok (inr e, mkB (bcap b) (br b) (bw b) (bwin b) None (blast b) (brd b))   (* readErr clears b.err *)
      | None => let? b' := fill b in read_byte_loop f b'
      end
    else
      match bwin b with
      | c :: t => Ok (inl c, mkB (bcap b) (S (br b)) (bw b) t (berr b) (Some c) (brd b))
      | [] => Panic      (* b.buf[b.r] with r < w: cannot happen while bwin = buf[r:w] *)
      end
  end.
(* a fill either delivers data or sets b.err, so the loop body runs at most three times *)
Definition read_byte (b : breader) : Res ((N + N) * breader) := read_byte_loop 3 b.

(* func (b *Reader) UnreadByte() error *)
Definition unread_byte (b : breader) : Res (option N * breader) :=
  match blast b with
  | None => Ok (Some ErrInvalidUnreadByte, b)
  | Some c =>
    if (br b =? 0)%nat && (0 <? bw b)%nat then Ok (Some ErrInvalidUnreadByte, b)
    else if (0 <? br b)%nat then
      Ok (None, mkB (bcap b) (br b - 1) (bw b) (c :: bwin b) (berr b) None (brd b))
    else (* b.r == 0 && b.w == 0 *)
      Ok (None, mkB (bcap b) (br b) 1 (c :: bwin b) (berr b) None (brd b))
  end.

(* the fill loop of Peek:  for b.w-b.r < n && b.w-b.r < len(b.buf) && b.err == nil { b.fill() } *)
Fixpoint peek_loop (fuel : nat) (n : nat) (b : breader) : Res breader :=
  match fuel with
  | O => Diverge
  | S f =>
    if (bw b - br b <? n)%nat && (bw b - br b <? bcap b)%nat && (match berr b with None => true | Some _ => false end)
    then let? b' := fill b in peek_loop f n b'
    else Ok b
  end.
(* func (b *Reader) Peek(n int) ([]byte, error); n >= 0.  On failure the partial bytes are dropped
   (IsSynced ignores them).  Every fill adds a byte or sets b.err: fuel n + 2. *)
Definition peek (n : N) (b : breader) : Res ((bytes + N) * breader) :=
  let k := N.to_nat n in
  let b0 := mkB (bcap b) (br b) (bw b) (bwin b) (berr b) None (brd b) in
  let? b1 := peek_loop (k + 2) k b0 in
  if (bcap b1 <? k)%nat then Ok (inr ErrBufferFull, b1)
  else if (bw b1 - br b1 <? k)%nat then
    let e := match berr b1 with Some e => e | None => ErrBufferFull end in
    Ok (inr e, mkB (bcap b1) (br b1) (bw b1) (bwin b1) None (blast b1) (brd b1))
  else Ok (inl (firstn k (bwin b1)), b1).

(* func (b *Reader) Read(p []byte) (n int, err error) with len(p) = k: result (bytes copied into p, err) *)
Definition last_of (l : bytes) (d : option N) : option N :=
  match rev l with c :: _ => Some c | [] => d end.
Definition read (k : nat) (b : breader) : Res ((bytes * option N) * breader) :=
  let clear (b : breader) := mkB (bcap b) (br b) (bw b) (bwin b) None (blast b) (brd b) in
  (* copy as much as we can: n = copy(p, b.buf[b.r:b.w]); b.r += n; b.lastByte = int(b.buf[b.r-1]) *)
  let copy_out (b : breader) :=
    let out := firstn k (bwin b) in
    Ok ((out, None), mkB (bcap b) (br b + length out) (bw b) (skipn k (bwin b)) (berr b) (last_of out (blast b)) (brd b)) in
  if (k =? 0)%nat then
    if (0 <? bw b - br b)%nat then Ok (([], None), b) else Ok (([], berr b), clear b)
  else if (br b =? bw b)%nat then
    match berr b with
    | Some e => Ok (([], Some e), clear b)
    | None =>
      if (bcap b <=? k)%nat then
        (* large read, empty buffer: read directly into p *)
        let '((data, e), rd') := rd_read (brd b) k in
        Ok ((data, e), mkB (bcap b) (br b) (bw b) (bwin b) None (last_of data (blast b)) rd')
      else
        (* one read into the buffer: b.r = 0; b.w = 0; n, b.err = b.rd.Read(b.buf) *)
        let '((data, e), rd') := rd_read (brd b) (bcap b) in
        match data with
        | [] => Ok (([], e), mkB (bcap b) 0 0 [] None (blast b) rd')
        | _ => copy_out (mkB (bcap b) 0 (length data) data e (blast b) rd')
        end
    end
  else copy_out b.

(* io.ReadFull(b, buf) with len(buf) = want, as in Model/PacketWriter.v read_at_least *)
Fixpoint read_full_loop (fuel : nat) (want : nat) (b : breader) (acc : bytes) (err : option N)
  : Res (bytes * option N * breader) :=
  match fuel with
  | O => Diverge
  | S f =>
    match err with
    | None =>
      if (length acc <? want)%nat then
        let? (de, b') := read (want - length acc) b in
        read_full_loop f want b' (acc ++ fst de) (snd de)
      else Ok (acc, None, b)
    | Some e =>
      Ok (acc,
          if (want <=? length acc)%nat then None
          else if (0 <? length acc)%nat && (e =? E.EOF) then Some E.UnexpectedEOF else Some e,
          b)
    end
  end.
(* every Read delivers a byte, an error, or consumes an empty script element *)
Definition read_full (want : nat) (b : breader) : Res (bytes * option N * breader) :=
  read_full_loop (want + 2 + weight (brd b)) want b [] None.

(* packet.Sync over bufio.NewReaderSize(scripted reader, size) *)
Definition sync_loop : nat -> breader -> N -> Res (N * option N * breader) :=
  SyncIO.sync_loop_over breader read_byte unread_byte peek true.
Definition sync_raw (size : nat) (s : script) : Res (N * option N * breader) :=
  sync_loop (S (script_len s)) (new_reader size (Script s)) 0.

(* what r.Peek(k) hands out after Sync, error or not *)
Definition peek_avail (k : nat) (b : breader) : Res bytes :=
  let? b1 := peek_loop (k + 2) k b in Ok (firstn k (bwin b1)).

End Bufio.
