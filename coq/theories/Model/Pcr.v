(* Model of /repo/pcr.go : InsertPCR / ExtractPCR as written. *)
From Gots Require Import Base.Prelude.
Module Pcr.
(* ExtractPCR(bytes []byte) uint64 : panics when fewer than 6 bytes.
   The operands are bytes (< 256), so pcrBase < 2^33 and pcrBase*300+pcrExt < 2^42: no uint64 wrap can occur
   and none is written. *)
Definition extract6 (a b c d e f : N) : N :=
  let pcrBase := N.lor (N.lor (N.lor (N.lor (N.shiftl a 25) (N.shiftl b 17)) (N.shiftl c 9)) (N.shiftl d 1)) (N.shiftr e 7) in
  let pcrExt := N.lor (N.shiftl (N.land e 1) 8) f in
  pcrBase * 300 + pcrExt.
Definition extract_pcr (bs : bytes) : Res N :=
  let? a := idx bs 0 in let? b := idx bs 1 in let? c := idx bs 2 in
  let? d := idx bs 3 in let? e := idx bs 4 in let? f := idx bs 5 in
  Ok (extract6 a b c d e f).
(* the six bytes InsertPCR writes (pcr : uint64); they do not depend on the previous contents *)
Definition pcr6 (pcr : N) : bytes :=
  let pcrBase := pcr / 300 in
  let pcrExt := N.land (pcr - pcrBase * 300) 511 in
  [ w8 (N.shiftr pcrBase 25); w8 (N.shiftr pcrBase 17); w8 (N.shiftr pcrBase 9); w8 (N.shiftr pcrBase 1);
    w8 (N.lor (N.lor (w64 (N.shiftl pcrBase 7)) (N.shiftr pcrExt 8)) 126); w8 (N.land pcrExt 255) ].
(* InsertPCR(b []byte, pcr uint64) : b[0..5] overwritten; panics when fewer than 6 bytes (after partial
   writes, which a value model cannot show) *)
Definition insert_pcr (b : bytes) (pcr : N) : Res bytes :=
  if len b <? 6 then Panic else Ok (blit b 0 (pcr6 pcr)).
End Pcr.
