(* Model of psi/pmt.go as repaired (F4 hunk of notes/candidate-fixes.patch in PmtAccumulatorDoneFunc and the
   C05 guards of c05-guards.patch: parseTables / parsePMTSection / ExtractCRC / FilterPMTPacketsToPids return
   ErrPMTParse on truncated or too-short sections, packet.Header clamps its end), the constructors of pmtelementarystream.go / pmtdescriptor.go,
   and the parts of packet/packet.go and packet/accumulator.go that ReadPMT and
   FilterPMTPacketsToPids use.  uint16 / uint8 arithmetic is written out (w16 / w8). *)
From Gots Require Import Base.Prelude Model.Psi.
Module Pmt.

(* pmtDescriptor{tag, data}, pmtElementaryStream{streamType code, elementaryPid, descriptors} *)
Record desc := { dtag : N; ddata : bytes }.
Record es := { stype : N; epid : N; descs : list desc }.
Record pmt := { pids : list N; streams : list es; version : N; cni : bool }.
Definition empty_pmt : pmt := {| pids := []; streams := []; version := 0; cni := false |}.

(* ------------------------------------------------------------------ PmtAccumulatorDoneFunc *)
(* repaired loop:  for len(sb) > 0 && sb[0] != 0xFF { if len(sb) < 3 {return false}; tl := sectionLength(sb);
                    if len(sb) < int(tl)+3 {return false}; sb = sb[3+tl:] }; return true *)
Fixpoint done_loop (fuel : nat) (sb : bytes) : Res bool :=
  match fuel with O => Diverge | S f =>
    match sb with
    | [] => Ok true
    | b0 :: _ =>
      if b0 =? 255 then Ok true else
      if len sb <? 3 then Ok false else
      let tl := Psi.section_length' sb in
      if len sb <? tl + 3 then Ok false else
      let? sb' := slice_from sb (w16 (3 + tl)) in
      done_loop f sb'
    end
  end.
Definition done_func (b : bytes) : Res bool :=
  if len b <? 1 then Ok false else
  let pf := Psi.pointer_field b in
  let start := 1 + pf in                       (* 1 + int(PointerField(b)) : int, no wrap *)
  if len b <=? start then Ok false else
  let? sb := slice_from b start in
  done_loop (S (length b)) sb.

(* the loop as it is on the unrepaired tree (kept only to state the F4 witness):
   if len(b) < start {false}; for len(sb) > 2 && sb[0] != 0xFF {...} *)
Fixpoint done_loop_orig (fuel : nat) (sb : bytes) : Res bool :=
  match fuel with O => Diverge | S f =>
    if (2 <? len sb) then
      let? b0 := idx sb 0 in
      if b0 =? 255 then Ok true else
      let tl := Psi.section_length' sb in
      if len sb <? tl + 3 then Ok false else
      let? sb' := slice_from sb (w16 (3 + tl)) in
      done_loop_orig f sb'
    else Ok true
  end.
Definition done_func_orig (b : bytes) : Res bool :=
  if len b <? 1 then Ok false else
  let pf := Psi.pointer_field b in
  let start := 1 + pf in
  if len b <? start then Ok false else
  let? sb := slice_from b start in
  done_loop_orig (S (length b)) sb.

(* ------------------------------------------------------------------ parsePMTSection *)
(* inner descriptor loop; descriptorOffset < infoLength <= 4095 grows by >= 2 per round *)
Definition desc_fuel : nat := N.to_nat 2050.
Fixpoint parse_descs (fuel : nat) (bs : bytes) (offset il doff : N) (acc : list desc) : Res (list desc) :=
  match fuel with O => Diverge | S f =>
    if doff <? il then
      let? tag := idx bs (w16 (offset + doff)) in
      let doff := w16 (doff + 1) in
      let? dl := idx bs (w16 (offset + doff)) in
      let doff := w16 (doff + 1) in
      let startp := w16 (offset + doff) in
      let endp := w16 (offset + doff + dl) in
      if endp <? len bs then
        let? data := slice bs startp endp in
        parse_descs f bs offset il (w16 (doff + dl)) (acc ++ [{| dtag := tag; ddata := data |}])
      else Err E.ParsePMTDescriptor
    else Ok acc
  end.

Fixpoint parse_streams (fuel : nat) (bs : bytes) (offset bound : N) (ps : list N) (acc : list es)
  : Res (list N * list es) :=
  match fuel with O => Diverge | S f =>
    if offset <? bound then
      let? t := idx bs offset in
      let? b1 := idx bs (w16 (offset + 1)) in
      let? b2 := idx bs (w16 (offset + 2)) in
      let pid := N.lor (N.shiftl (N.land b1 31) 8) b2 in
      let? b3 := idx bs (w16 (offset + 3)) in
      let? b4 := idx bs (w16 (offset + 4)) in
      let il := N.lor (N.shiftl (N.land b3 15) 8) b4 in
      let offset := w16 (offset + 5) in
      if negb (il =? 0) && (w16 (il + offset) <? len bs) then
        let? ds := parse_descs desc_fuel bs offset il 0 [] in
        parse_streams f bs (w16 (offset + il)) bound (ps ++ [pid])
                      (acc ++ [{| stype := t; epid := pid; descs := ds |}])
      else
        parse_streams f bs offset bound (ps ++ [pid]) (acc ++ [{| stype := t; epid := pid; descs := [] |}])
    else Ok (ps, acc)
  end.

(* PSIHeaderLen+sectionLength-pmtEsDescriptorStaticLen-CrcLen, left to right in uint16 *)
Definition stream_bound (sl : N) : N := sub16 (sub16 (w16 (4 + sl)) 5) 4.

Definition parse_pmt_section (sec : bytes) : Res pmt :=
  let sl := Psi.section_length' sec in
  if len sec <=? 11 then Err E.PMTParse else
  if sl <? 9 then Err E.PMTParse else          (* sectionLength < pmtEsDescriptorStaticLen+CrcLen *)
  let? vc := Psi.table_version_and_cni sec in
  let? p10 := idx sec 10 in let? p11 := idx sec 11 in
  let pil := N.lor (N.shiftl (N.land p10 15) 8) p11 in
  let? r := parse_streams (S (length sec)) sec (w16 (12 + pil)) (stream_bound sl) [] [] in
  Ok {| pids := fst r; streams := snd r; version := fst vc; cni := snd vc |}.

(* parseTables: every table_id 2 section overwrites the four fields; the last one wins *)
Fixpoint tables_loop (fuel : nat) (sb : bytes) (p : pmt) : Res pmt :=
  match fuel with O => Diverge | S f =>
    if (2 <? len sb) then
      let? b0 := idx sb 0 in
      if b0 =? 255 then Ok p else
      let tl := Psi.section_length' sb in
      if len sb <? 3 + tl then Err E.PMTParse else
      let? p' := (if Psi.table_id' sb =? 2 then
                    let? sec := slice sb 0 (w16 (3 + tl)) in parse_pmt_section sec
                  else Ok p) in
      let? sb' := slice_from sb (w16 (3 + tl)) in
      tables_loop f sb' p'
    else Ok p
  end.
Definition parse_tables (b : bytes) : Res pmt :=
  let start := 1 + Psi.pointer_field b in         (* 1 + int(PointerField(pmtBytes)) *)
  if len b <? start then Err E.PMTParse else
  let? sb := slice_from b start in
  tables_loop (S (length b)) sb empty_pmt.
Definition new_pmt (b : bytes) : Res pmt := parse_tables b.

(* ------------------------------------------------------------------ methods of *pmt *)
Definition pid_exists (p : pmt) (pid : N) : bool := existsb (N.eqb pid) (pids p).
Fixpoint remove_first (pid : N) (l : list es) : list es :=
  match l with
  | [] => []
  | s :: t => if pid =? epid s then t else s :: remove_first pid t
  end.
Definition remove_elementary_streams (p : pmt) (rm : list N) : pmt :=
  let ss := fold_left (fun l pid => remove_first pid l) rm (streams p) in
  {| pids := map epid ss; streams := ss; version := version p; cni := cni p |}.

(* ------------------------------------------------------------------ ExtractCRC *)
Definition extract_crc (payload : bytes) : Res N :=
  if len payload <? 4 then Err E.ShortPayload else
  let sl := Psi.section_length payload in
  if len payload <? sl then Err E.PMTParse else          (* CanBuildPMT *)
  let e := w16 (4 + sl) in
  if len payload <? e then Err E.PMTParse else
  let? d := slice payload (sub16 e 4) e in
  match d with [a; b; c; d'] => Ok (be32 a b c d') | _ => Panic end.

(* ------------------------------------------------------------------ packet helpers (packet.go) *)
Definition pkt_pusi (p : bytes) : Res bool := let? b := idx p 1 in Ok (bit b 64).
Definition pkt_pid (p : bytes) : Res N :=
  let? b1 := idx p 1 in let? b2 := idx p 2 in Ok (N.lor (N.shiftl (N.land b1 31) 8) b2).
Definition pkt_has_payload (p : bytes) : Res bool := let? b := idx p 3 in Ok (bit b 16).
Definition pkt_has_af (p : bytes) : Res bool := let? b := idx p 3 in Ok (bit b 32).
Definition payload_start (p : bytes) : Res N :=
  let? af := pkt_has_af p in
  if af then let? l := idx p 4 in Ok (4 + 1 + l) else Ok 4.
Definition pkt_payload (p : bytes) : Res bytes :=
  let? hp := pkt_has_payload p in
  if negb hp then Err E.NoPayload else
  let? st := payload_start p in
  if len p <? st then Err E.InvalidPacketLength else slice_from p st.
Definition pkt_header (p : bytes) : Res bytes :=
  let? st := payload_start p in
  slice p 0 (if len p <? st then len p else st).     (* start clamped to len(packet) *)

(* ------------------------------------------------------------------ accumulator.go (buffer and state only) *)
Record acc := { a_buf : bytes; a_state : N }.   (* 0 starting, 1 accumulating, 2 done *)
Definition new_acc : acc := {| a_buf := []; a_state := 0 |}.
(* WritePacket with f = PmtAccumulatorDoneFunc: new state and the returned error (None = nil) *)
Definition acc_add (a : acc) (pkt : bytes) : Res (acc * option N) :=
  match pkt_payload pkt with
  | Err e => Ok ({| a_buf := a_buf a; a_state := 1 |}, Some e)
  | Panic => Panic | Diverge => Diverge
  | Ok b =>
    let buf := a_buf a ++ b in
    let? d := done_func buf in
    if d then Ok ({| a_buf := buf; a_state := 2 |}, Some E.AccumulatorDone)
    else Ok ({| a_buf := buf; a_state := 1 |}, None)
  end.
Definition write_packet (a : acc) (pkt : bytes) : Res (acc * option N) :=
  let? pusi := pkt_pusi pkt in
  if a_state a =? 2 then Ok (a, Some E.AccumulatorDone) else
  if a_state a =? 0 then
    if pusi then acc_add {| a_buf := []; a_state := 1 |} pkt
    else Ok (a, Some E.NoPayloadUnitStartIndicator)
  else
    if pusi then acc_add {| a_buf := []; a_state := 1 |} pkt   (* restart: stateStarting, recursive call *)
    else acc_add a pkt.

(* ------------------------------------------------------------------ ReadPMT *)
(* io.ReadFull on 188 bytes: a short tail is EOF / ErrUnexpectedEOF -> ErrPMTNotFound *)
Fixpoint chop188 (fuel : nat) (s : bytes) : list bytes :=
  match fuel with O => [] | S f =>
    if len s <? 188 then [] else takeN 188 s :: chop188 f (dropN 188 s)
  end.
Fixpoint read_pkts (pkts : list bytes) (pid : N) (a : acc) : Res pmt :=
  match pkts with
  | [] => Err E.PMTNotFound
  | pkt :: rest =>
    let? cur := pkt_pid pkt in
    if negb (cur =? pid) then read_pkts rest pid a else
    let? r := write_packet a pkt in
    match snd r with
    | Some e =>
      if e =? E.AccumulatorDone then
        let? p := new_pmt (a_buf (fst r)) in
        match pids p with
        | [] => read_pkts rest pid new_acc     (* "not a PMT section yet": new accumulator *)
        | _ => Ok p
        end
      else Err e
    | None => read_pkts rest pid (fst r)
    end
  end.
Definition read_pmt (stream : bytes) (pid : N) : Res pmt :=
  read_pkts (chop188 (S (length stream)) stream) pid new_acc.

(* ------------------------------------------------------------------ gots.ComputeCRC (tsutils.go), executable only;
   its equality with CRC-32/MPEG-2 is C13's business (Module Crc elsewhere) *)
Definition crc_bit (crc bitv : N) : N :=
  let top := N.land crc 2147483648 in
  let c := N.lor (N.land (N.shiftl crc 1) 4294967295) bitv in
  if top =? 0 then c else N.lxor c 79764919.
Definition crc_byte (crc item : N) : N :=
  fold_left (fun c j => crc_bit c (N.land (N.shiftr item (7 - j)) 1)) [0;1;2;3;4;5;6;7] crc.
Definition crc_model (input : bytes) : bytes :=
  let c := fold_left crc_byte input 1185899593 in
  let c := fold_left (fun c _ => crc_bit c 0) (repeat tt 32) c in
  to_be32 c.

(* ------------------------------------------------------------------ FilterPMTPacketsToPids *)
Fixpoint concat_payloads (pkts : list bytes) : Res bytes :=
  match pkts with
  | [] => Ok []
  | p :: t =>
    match pkt_payload p with
    | Ok b => let? r := concat_payloads t in Ok (b ++ r)
    | Err _ => Err E.NoPayload
    | Panic => Panic | Diverge => Diverge
    end
  end.

(* the copy loop over the elementary streams of the first section; crc_start = 3 + sectionLength - CrcLen *)
Fixpoint filter_streams (fuel : nat) (pl : bytes) (offset bound crc_start : N) (want : list N) (out : bytes) : Res bytes :=
  match fuel with O => Diverge | S f =>
    if offset <? bound then
      let? b1 := idx pl (w16 (offset + 1)) in
      let? b2 := idx pl (w16 (offset + 2)) in
      let pid := N.lor (N.shiftl (N.land b1 31) 8) b2 in
      let? b3 := idx pl (w16 (offset + 3)) in
      let? b4 := idx pl (w16 (offset + 4)) in
      let il := N.lor (N.shiftl (N.land b3 15) 8) b4 in
      if crc_start <? w16 (offset + 5 + il) then Err E.PMTParse else
      let? out' := (if existsb (N.eqb pid) want then
                      let? s := slice pl offset (w16 (offset + 5 + il)) in Ok (out ++ s)
                    else Ok out) in
      filter_streams f pl (w16 (offset + (5 + il))) bound crc_start want out'
    else Ok out
  end.

(* padPacket(header ++ toWrite) for every packet while bytes remain *)
Fixpoint repacketise (pkts : list bytes) (f : bytes) : Res (list bytes) :=
  match pkts with
  | [] => Ok []
  | p :: t =>
    let? h := pkt_header p in
    match f with
    | [] => Ok []                                  (* all done: break *)
    | _ =>
      let room := 188 - len h in
      let tw := if room <? len f then takeN room f else f in
      let f' := if len tw <? len f then dropN (len tw) f else [] in
      let raw := takeN 188 (h ++ tw) in
      let pk := raw ++ repeatN 255 (188 - len raw) in
      let? r := repacketise t f' in Ok (pk :: r)
    end
  end.

(* result: (packets or nil, missing-PID list of the error or nil) *)
Definition filter_pmt_packets (pkts : list bytes) (want : list N) : Res (option (list bytes) * option (list N)) :=
  match pkts with [] => Ok (None, None) | first :: _ =>
  match want with [] => Ok (Some pkts, None) | _ =>
  let? payload := concat_payloads pkts in
  let? p := new_pmt payload in                       (* the parse error is returned *)
  let? pmt_pid := pkt_pid first in
  (* considered: requested PIDs other than PatPid and pmtPid (4841ed3); missing: considered ones not in the PMT *)
  let considered := filter (fun pid => negb (pid =? 0) && negb (pid =? pmt_pid)) want in
  let missing := filter (fun pid => negb (pid_exists p pid)) considered in
  let rerr := match missing with [] => None | _ => Some missing end in
  if (0 <? len missing) && (len missing =? len considered) then Ok (None, rerr) else
  let pf1 := Psi.pointer_field payload + 1 in        (* int *)
  if len payload <? pf1 + 12 then Err E.PMTParse else
  let? pl := slice_from payload pf1 in
  let sl := Psi.section_length' pl in
  if (sl <? 13) || (len payload <? pf1 + 3 + sl) then Err E.PMTParse else
  let? head := slice payload 0 pf1 in
  let? first12 := slice pl 0 12 in
  let? p10 := idx pl 10 in let? p11 := idx pl 11 in
  let pil := N.lor (N.shiftl (N.land p10 15) 8) p11 in
  let crc_start := sub16 (w16 (3 + sl)) 4 in
  if crc_start <? w16 (12 + pil) then Err E.PMTParse else
  let? pinfo := (if pil =? 0 then Ok [] else slice pl 12 (w16 (12 + pil))) in
  let? f := filter_streams (S (length pl)) pl (w16 (12 + pil)) (stream_bound sl) crc_start want (head ++ first12 ++ pinfo) in
  let nsl := w16 (len f - (pf1 - 1)) in              (* uint16(len(fPMT) - (pointerField - 1)); len f >= pf1 *)
  let? o1 := idx f (pf1 + 1) in
  let? f1 := set_idx f (pf1 + 1) (N.lor (N.land o1 240) (nsl / 256)) in
  let? f2 := set_idx f1 (pf1 + 2) (nsl mod 256) in
  let? body := slice_from f2 pf1 in
  let f3 := f2 ++ crc_model body in
  let? out := repacketise pkts f3 in
  Ok (Some out, rerr)
  end end.

(* nested module: `Import Pmt` does not bring these names into scope *)
Module Consts.
(* ---- exported constants of psi/pat.go and psi/pmt.go, in source order (coverage: notes/coverage.md) ---- *)
Definition PatPid : N := 0.
Definition PidNotFound : N := 65535.
Definition PSIHeaderLen : N := 4.
Definition CrcLen : N := 4.
Definition exported_consts : list N :=
  [PatPid; PidNotFound; PSIHeaderLen; CrcLen].
End Consts.

End Pmt.
