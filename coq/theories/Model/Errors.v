(* Model of /repo/errors.go: the 40 exported error VALUES.
   An error value is modelled by its number in Base/Prelude.v Module E (= goexec/errs.go errCode, which finds the
   value by identity `==`).  What a caller can distinguish:
   * by identity (==, errors.Is): all 40 values are pairwise different (`codes` has no duplicates);
   * by text (Error()): ErrInvalidPacketLength and ErrInvalidAFCFlag both print "invalid packet length";
     every other pair of values has different texts.  `text_class c` is the number of the FIRST value in source
     order that has the same text as c. *)
From Gots Require Import Base.Prelude.
Module Errors.
(* in source order of errors.go *)
Definition codes : list N :=
  [E.BadSyncByte;
   E.UnrecognizedEbpType;
   E.NoEBP;
   E.NoEBPData;
   E.InvalidEBPLength;
   E.InvalidPacketLength;
   E.InvalidTSCFlag;
   E.InvalidAFCFlag;
   E.NoPayload;
   E.NoAdaptationField;
   E.AdaptationFieldTooLarge;
   E.AdaptationFieldCannotGrow;
   E.AdaptationFieldZeroLength;
   E.NoPrivateTransportData;
   E.NoSplicePoint;
   E.NoPCR;
   E.NoOPCR;
   E.NoAdaptationFieldExtension;
   E.PATNotFound;
   E.PMTNotFound;
   E.PMTParse;
   E.ParsePMTDescriptor;
   E.InvalidPATLength;
   E.NoPayloadUnitStartIndicator;
   E.UnknownTableID;
   E.ShortPayload;
   E.InvalidSCTE35Length;
   E.SCTE35EncryptionUnsupported;
   E.SCTE35UnsupportedSpliceCommand;
   E.SCTE35InvalidDescriptorID;
   E.SCTE35DuplicateDescriptor;
   E.SCTE35InvalidDescriptor;
   E.SCTE35MissingOut;
   E.SCTE35DescriptorNotFound;
   E.NilPAT;
   E.SyncByteNotFound;
   E.VSSSignalIdNotFound;
   E.PIDNotInPMT;
   E.AccumulatorDone;
   E.AccumulatorInvalidState].
Definition text_class (c : N) : N := if c =? E.InvalidAFCFlag then E.InvalidPacketLength else c.
Definition table : list (N * N) := map (fun c => (c, text_class c)) codes.
End Errors.
