(* MODEL of /repo/psi/pmtstreamtype.go and of the PMT-level query
   pmt.IsPidForStreamWherePresentationLagsEbp of /repo/psi/pmt.go (over the parsed stream list).
   No proofs here.  A stream type code is a Go uint8: all functions are meant for code < 256. *)
From Gots Require Import Base.Prelude.
From Coq Require Import String.
Module StreamType.

(* constants of pmtstreamtype.go *)
Definition Mpeg2VideoH262 : N := 2.
Definition Mpeg4Video : N := 27.
Definition Mpeg4VideoH264 : N := 27.
Definition Mpeg4VideoH265 : N := 36.
Definition Aac : N := 15.
Definition Ac3 : N := 129.
Definition Ec3 : N := 135.
Definition Scte35 : N := 134.
Definition ID3 : N := 21.
Definition PrivateContent : N := 6.

(* type pmtStreamType struct { code; description; presentationLagsEbp } *)
Record t : Type := mk { code : N; description : string; lags : bool }.

(* func presentationLagsEbp(code uint8) bool: switch code { case 3, 4, 15, 17, 129, 135, 136 } *)
Definition presentation_lags_ebp (c : N) : bool :=
  (c =? 3) || (c =? 4) || (c =? 15) || (c =? 17) || (c =? 129) || (c =? 135) || (c =? 136).

(* var atscPmtStreamTypes: (firstCode, lastCode, description), in source order
   (the row {28,127} precedes {36,36}: first match wins, as in the Go loop) *)
Definition atsc_table : list (N * N * string) := [
  (0, 0, "ITU-T | ISO/IEC Reserved");
  (1, 1, "ISO/IEC 11172 Video	");
  (2, 2, "ITU-T Rec. H.262 | ISO/IEC 13818-2 Video");
  (3, 3, "ISO/IEC 11172 Audio");
  (4, 4, "ISO/IEC 13818-3 Audio");
  (5, 5, "ITU-T Rec. H.222.0 | ISO/IEC 13818-1 private sections");
  (6, 6, "ITU-T Rec. H.222.0 | ISO/IEC 13818-1 PES packets containing private data");
  (7, 7, "ISO/IEC 13522 MHEG");
  (8, 8, "ITU-T Rec. H.222.0 | ISO/IEC 13818-1 DSM-CC");
  (9, 9, "ITU-T Rec. H.222.0 | ISO/IEC 13818-1/11172-1 auxiliary");
  (10, 10, "ISO/IEC 13818-6 Multi-protocol Encapsulation");
  (11, 11, "ISO/IEC 13818-6 DSM-CC U-N Messages");
  (12, 12, "ISO/IEC 13818-6 Stream Descriptors");
  (13, 13, "ISO/IEC 13818-6 Sections (any type, including private data)");
  (14, 14, "ISO/IEC 13818-1 auxiliary");
  (15, 15, "ISO/IEC 13818-7 Audio (AAC) with ADTS transport");
  (16, 16, "ISO/IEC 14496-2 Visual");
  (17, 17, "ISO/IEC 14496-3 Audio with the LATM transport syntax as defined in ISO/IEC 14496-3");
  (18, 18, "ISO/IEC 14496-1 SL-packetized stream or FlexMux stream carried in PES packets");
  (19, 19, "ISO/IEC 14496-1 SL-packetized stream or FlexMux stream carried in ISO/IEC 14496_sections");
  (20, 20, "ISO/IEC 13818-6 DSM-CC Synchronized Download Protocol");
  (21, 21, "Metadata carried in PES packets");
  (22, 22, "Metadata carried in metadata_sections	");
  (23, 23, "Metadata carried in ISO/IEC 13818-6 Data Carousel");
  (24, 24, "Metadata carried in ISO/IEC 13818-6 Object Carousel");
  (25, 25, "Metadata carried in ISO/IEC 13818-6 Synchronized Download Protocol");
  (26, 26, "IPMP stream (defined in ISO/IEC 13818-11, MPEG-2 IPMP)");
  (27, 27, "AVC video stream as defined in ITU-T Rec. H.264 | ISO/IEC 14496-10 Video");
  (28, 127, "ITU-T Rec. H.222.0 | ISO/IEC 13818-1 Reserved");
  (36, 36, "HEVC video stream as defined in ITU-T Rec. H.265 | ISO/IEC 23008-2 Video");
  (128, 128, "DigiCipher® II video | Identical to ITU-T Rec. H.262 | ISO/IEC 13818-2 Video");
  (129, 129, "ATSC A/53 audio [2] | AC-3 audio");
  (130, 130, "SCTE Standard Subtitle");
  (131, 131, "SCTE Isochronous Data | Reserved");
  (132, 132, "ATSC/SCTE reserved");
  (133, 133, "ATSC Program Identifier , SCTE Reserved");
  (134, 134, "SCTE 35 splice_information_table | [Cueing]");
  (135, 135, "E-AC-3");
  (136, 136, "DTS HD Audio");
  (137, 137, "ATSC Reserved");
  (138, 143, "ATSC Reserved");
  (144, 144, "DVB stream_type value for Time Slicing / MPE-FEC");
  (145, 145, "IETF Unidirectional Link Encapsulation (ULE)");
  (146, 148, "ATSC Reserved");
  (149, 149, "ATSC Data Service Table, Network Resources Table");
  (150, 159, "ATSC Reserved");
  (160, 160, "SCTE [IP Data] | ATSC Reserved");
  (161, 191, "ATSC Reserved");
  (192, 192, "DCII (DigiCipher®) Text");
  (193, 193, "ATSC Reserved");
  (194, 194, "ATSC synchronous data stream | [Isochronous Data]");
  (195, 195, "SCTE Asynchronous Data");
  (196, 233, "ATSC User Private Program Elements");
  (234, 234, "VC-1 Elementary Stream per RP227");
  (235, 255, "ATSC User Private Program Elements")
]%string.

(* func LookupPmtStreamType(code uint8) PmtStreamType *)
Fixpoint lookup_in (tbl : list (N * N * string)) (c : N) : option string :=
  match tbl with
  | [] => None
  | (f, l, d) :: rest => if (f <=? c) && (c <=? l) then Some d else lookup_in rest c
  end.
Definition lookup (c : N) : t :=
  match lookup_in atsc_table c with
  | Some d => mk c d (presentation_lags_ebp c)
  | None => mk c "unknown" (presentation_lags_ebp c)
  end.

(* methods of pmtStreamType *)
Definition stream_type (st : t) : N := code st.
Definition stream_type_description (st : t) : string := description st.
Definition is_stream_where_presentation_lags_ebp (st : t) : bool := lags st.
Definition is_audio_content (st : t) : bool :=
  (code st =? Aac) || (code st =? Ac3) || (code st =? Ec3).
Definition is_video_content (st : t) : bool :=
  (code st =? Mpeg4VideoH264) || (code st =? Mpeg4VideoH265) || (code st =? Mpeg4Video) || (code st =? Mpeg2VideoH262).
Definition is_scte35_content (st : t) : bool := code st =? Scte35.
Definition is_id3_content (st : t) : bool := code st =? ID3.
Definition is_private_content (st : t) : bool := code st =? PrivateContent.

Definition nonempty (s : string) : bool := match s with EmptyString => false | String _ _ => true end.

(* func (p * pmt) IsPidForStreamWherePresentationLagsEbp(pid int) bool over p.elementaryStreams,
   each stream given as (elementary pid, stream type) — NewPmtElementaryStream stores
   LookupPmtStreamType(streamType); the first stream with that pid answers *)
Fixpoint pmt_lags_by_pid (streams : list (N * N)) (pid : Z) : bool :=
  match streams with
  | [] => false
  | (p, st) :: rest =>
      if Z.eqb pid (Z.of_N p) then is_stream_where_presentation_lags_ebp (lookup st)
      else pmt_lags_by_pid rest pid
  end.

(* nested module: `Import StreamType` does not bring these names into scope *)
Module Consts.
(* ---- exported constants of psi/pmtstreamtype.go, in source order (coverage: notes/coverage.md) ---- *)
Definition exported_consts : list N :=
  [Mpeg2VideoH262; Mpeg4Video; Mpeg4VideoH264; Mpeg4VideoH265; Aac; Ac3; Ec3; Scte35; ID3; PrivateContent].
End Consts.

End StreamType.
