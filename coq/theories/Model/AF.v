(* Model of /repo/packet/adaptationfield.go (whole file) and of SetAdaptationField in
   /repo/packet/modify.go, with the repairs F5 and F6 of notes/candidate-fixes.patch applied
   (stuffingEnd clamps to 188; SetHasTransportPrivateData/SetHasAdaptationFieldExtension(false) remove the
   whole field and write the zero length byte only on growth).

   Conventions: an *AdaptationField is a *[188]byte; `p : bytes` stands for that array, every theorem
   carries `length p = 188`.  Constant indexes (af[3], af[4], af[5]) and indexes the code guards by
   `< PacketSize` cannot panic on an array and are read with `nthN`; every slice expression and every
   computed index goes through `slice` / `idx` and panics like Go.  `int` values are N (they are sums of
   non-negative terms) except `delta`, which is a Z.
   Every `return err` of the Go code precedes the first write to the packet, so a setter is
   `bytes -> Res bytes`: `Err e` means "error e, packet untouched" (goexec returns the 188 bytes after
   the call and they are compared with the unchanged input). *)
From Gots Require Import Base.Prelude Model.Pcr.
Module AF.
Definition PacketSize : N := 188.

Definition get_bit (p : bytes) (index mask : N) : bool := bit (nthN p index) mask.
(* af[index] |= mask   /   af[index] &= ^mask  (byte complement = 255 - mask) *)
Definition set_bit (p : bytes) (index mask : N) (value : bool) : bytes :=
  if value then upd p index (N.lor (nthN p index) mask)
  else upd p index (N.land (nthN p index) (255 - mask)).
Definition bit_delta (p : bytes) (index mask : N) (value : bool) : Z :=
  if Bool.eqb value (get_bit p index mask) then 0%Z else if value then 1%Z else (-1)%Z.

Definition valid (p : bytes) : Res unit :=
  if negb (get_bit p 3 32) then Err E.NoAdaptationField
  else if nthN p 4 =? 0 then Err E.AdaptationFieldZeroLength
  else Ok tt.

Definition hasPCR (p : bytes) : bool := get_bit p 5 16.
Definition hasOPCR (p : bytes) : bool := get_bit p 5 8.
Definition hasSplicingPoint (p : bytes) : bool := get_bit p 5 4.
Definition hasTransportPrivateData (p : bytes) : bool := get_bit p 5 2.
Definition hasAdaptationFieldExtension (p : bytes) : bool := get_bit p 5 1.

Definition pcrStart : N := 6.
Definition pcrLength (p : bytes) : N := if hasPCR p then 6 else 0.
Definition opcrLength (p : bytes) : N := if hasOPCR p then 6 else 0.
Definition opcrStart (p : bytes) : N := pcrStart + pcrLength p.
Definition spliceCountdownLength (p : bytes) : N := if hasSplicingPoint p then 1 else 0.
Definition spliceCountdownStart (p : bytes) : N := pcrStart + pcrLength p + opcrLength p.
Definition transportPrivateDataStart (p : bytes) : N :=
  pcrStart + pcrLength p + opcrLength p + spliceCountdownLength p.
Definition transportPrivateDataLength (p : bytes) : N :=
  if negb (hasTransportPrivateData p) then 0
  else if PacketSize <=? transportPrivateDataStart p then 0
  else 1 + nthN p (transportPrivateDataStart p).
Definition adaptationExtensionStart (p : bytes) : N :=
  pcrStart + pcrLength p + opcrLength p + spliceCountdownLength p + transportPrivateDataLength p.
Definition adaptationExtensionLength (p : bytes) : N :=
  if negb (hasAdaptationFieldExtension p) then 0
  else if PacketSize <=? adaptationExtensionStart p then 0
  else 1 + nthN p (adaptationExtensionStart p).
Definition stuffingStart (p : bytes) : N :=
  pcrStart + pcrLength p + opcrLength p + spliceCountdownLength p +
  transportPrivateDataLength p + adaptationExtensionLength p.
(* repaired (F6): `if stuffingEnd > PacketSize { return PacketSize }` *)
Definition stuffingEnd (p : bytes) : N :=
  let e := nthN p 4 + 5 in if PacketSize <? e then PacketSize else e.

(* for i := a; i < b; i++ { af[i] = 0xFF } ; callers have b <= 188 *)
Definition fill_ff (p : bytes) (a b : N) : bytes := blit p a (repeatN 255 (b - a)).
Definition stuffAF (p : bytes) : bytes := fill_ff p (stuffingStart p) (stuffingEnd p).

Definition resizeAF (p : bytes) (start : N) (delta : Z) : Res bytes :=
  if PacketSize <? stuffingStart p then Err E.InvalidPacketLength else   (* C05 guard *)
  match delta with
  | Z0 => Ok p
  | Zpos d' =>
    let d := Npos d' in
    let e := stuffingStart p in
    let startRight := start + d in
    let endRight := stuffingStart p + d in
    if stuffingEnd p <? endRight then Err E.AdaptationFieldCannotGrow else
    let? src := slice p start e in
    let? _ := slice p startRight endRight in
    Ok (blit p startRight src)                 (* copy = memmove *)
  | Zneg d' =>
    let d := Npos d' in
    let startRight := start + d in
    let endRight := stuffingStart p in
    let? src := slice p startRight endRight in (* panics when start-delta > stuffingStart or stuffingStart > 188 *)
    let e := endRight - d in                   (* >= start here, so af[start:end] cannot panic any more *)
    let p1 := blit p start src in
    Ok (fill_ff p1 e endRight)
  end.

Definition Length (p : bytes) : N := nthN p 4.

Definition set_flag (p : bytes) (mask : N) (v : bool) : Res bytes :=
  let? _ := valid p in Ok (set_bit p 5 mask v).
Definition get_flag (p : bytes) (mask : N) : Res bool :=
  let? _ := valid p in Ok (get_bit p 5 mask).
Definition SetDiscontinuity p v := set_flag p 128 v.
Definition Discontinuity p := get_flag p 128.
Definition SetRandomAccess p v := set_flag p 64 v.
Definition RandomAccess p := get_flag p 64.
Definition SetElementaryStreamPriority p v := set_flag p 32 v.
Definition ElementaryStreamPriority p := get_flag p 32.

Definition SetHasPCR (p : bytes) (v : bool) : Res bytes :=
  let? _ := valid p in
  let delta := (6 * bit_delta p 5 16 v)%Z in
  let? p1 := resizeAF p pcrStart delta in
  Ok (set_bit p1 5 16 v).
Definition HasPCR p := get_flag p 16.
Definition SetPCR (p : bytes) (v : N) : Res bytes :=
  let? _ := valid p in
  if negb (hasPCR p) then Err E.NoPCR else
  let? s := slice p pcrStart (opcrStart p) in
  let? s' := Pcr.insert_pcr s v in
  Ok (blit p pcrStart s').
Definition PCR (p : bytes) : Res N :=
  let? _ := valid p in
  if negb (hasPCR p) then Err E.NoPCR else
  let? s := slice p pcrStart (opcrStart p) in Pcr.extract_pcr s.

Definition SetHasOPCR (p : bytes) (v : bool) : Res bytes :=
  let? _ := valid p in
  let delta := (6 * bit_delta p 5 8 v)%Z in
  let? p1 := resizeAF p (opcrStart p) delta in
  Ok (set_bit p1 5 8 v).
Definition HasOPCR p := get_flag p 8.
Definition SetOPCR (p : bytes) (v : N) : Res bytes :=
  let? _ := valid p in
  if negb (hasOPCR p) then Err E.NoOPCR else
  let? s := slice p (opcrStart p) (spliceCountdownStart p) in
  let? s' := Pcr.insert_pcr s v in
  Ok (blit p (opcrStart p) s').
Definition OPCR (p : bytes) : Res N :=
  let? _ := valid p in
  if negb (hasOPCR p) then Err E.NoOPCR else
  let? s := slice p (opcrStart p) (spliceCountdownStart p) in Pcr.extract_pcr s.

Definition SetHasSplicingPoint (p : bytes) (v : bool) : Res bytes :=
  let? _ := valid p in
  let delta := (1 * bit_delta p 5 4 v)%Z in
  let? p1 := resizeAF p (spliceCountdownStart p) delta in
  Ok (set_bit p1 5 4 v).
Definition HasSplicingPoint p := get_flag p 4.
Definition SetSpliceCountdown (p : bytes) (v : N) : Res bytes :=
  let? _ := valid p in
  if negb (hasSplicingPoint p) then Err E.NoSplicePoint else
  Ok (upd p (spliceCountdownStart p) v).          (* index <= 18 *)
(* int(int8(b)) *)
Definition int8 (b : N) : Z := if b <? 128 then Z.of_N b else (Z.of_N b - 256)%Z.
Definition SpliceCountdown (p : bytes) : Res Z :=
  let? _ := valid p in
  if negb (hasSplicingPoint p) then Err E.NoSplicePoint else
  Ok (int8 (nthN p (spliceCountdownStart p))).   (* index <= 18 *)

(* repaired (F5) *)
Definition SetHasTransportPrivateData (p : bytes) (v : bool) : Res bytes :=
  let? _ := valid p in
  let delta0 := (1 * bit_delta p 5 2 v)%Z in
  let delta := if (delta0 <? 0)%Z then (- Z.of_N (transportPrivateDataLength p))%Z else delta0 in
  let? p1 := resizeAF p (transportPrivateDataStart p) delta in
  let p2 := if (0 <? delta)%Z then upd p1 (transportPrivateDataStart p1) 0 else p1 in  (* index <= 19 *)
  Ok (set_bit p2 5 2 v).
Definition HasTransportPrivateData p := get_flag p 2.
Definition SetTransportPrivateData (p : bytes) (data : bytes) : Res bytes :=
  let? _ := valid p in
  if negb (hasTransportPrivateData p) then Err E.NoPrivateTransportData else
  let delta := (zlen data - (Z.of_N (transportPrivateDataLength p) - 1))%Z in
  let start := transportPrivateDataStart p + 1 in
  let e := start + len data in
  let? p1 := resizeAF p start delta in
  let? _ := slice p1 start e in
  let p2 := blit p1 start data in
  set_idx p2 (start - 1) (w8 (len data)).        (* byte(len(data)) *)
(* returns the field WITH its length byte (F13, pinned by the repo's tests) *)
Definition TransportPrivateData (p : bytes) : Res bytes :=
  let? h := HasTransportPrivateData p in
  if negb h then Err E.NoPrivateTransportData else
  if PacketSize <? adaptationExtensionStart p then Err E.InvalidPacketLength else   (* C05 guard *)
  slice p (transportPrivateDataStart p) (adaptationExtensionStart p).

(* repaired (F5) *)
Definition SetHasAdaptationFieldExtension (p : bytes) (v : bool) : Res bytes :=
  let? _ := valid p in
  let delta0 := (1 * bit_delta p 5 1 v)%Z in
  let delta := if (delta0 <? 0)%Z then (- Z.of_N (adaptationExtensionLength p))%Z else delta0 in
  let? p1 := resizeAF p (adaptationExtensionStart p) delta in
  let? p2 := if (0 <? delta)%Z then set_idx p1 (adaptationExtensionStart p1) 0 else Ok p1 in  (* index can reach 275 *)
  Ok (set_bit p2 5 1 v).
Definition HasAdaptationFieldExtension p := get_flag p 1.
Definition SetAdaptationFieldExtension (p : bytes) (data : bytes) : Res bytes :=
  let? _ := valid p in
  if negb (hasAdaptationFieldExtension p) then Err E.NoAdaptationFieldExtension else
  let delta := (zlen data - (Z.of_N (adaptationExtensionLength p) - 1))%Z in
  let start := adaptationExtensionStart p + 1 in
  let e := start + len data in
  let? p1 := resizeAF p start delta in
  let? _ := slice p1 start e in
  let p2 := blit p1 start data in
  set_idx p2 (start - 1) (w8 (len data)).        (* byte(len(data)) *)
Definition AdaptationFieldExtension (p : bytes) : Res bytes :=
  let? h := HasAdaptationFieldExtension p in
  if negb h then Err E.NoAdaptationFieldExtension else
  if PacketSize <? stuffingStart p then Err E.InvalidPacketLength else   (* C05 guard *)
  slice p (adaptationExtensionStart p) (stuffingStart p).

(* modify.go: func (p *Packet) SetAdaptationField(af *AdaptationField) error *)
Definition SetAdaptationField (p : bytes) (src : bytes) : Res bytes :=
  if negb (get_bit p 3 32) then Err E.NoAdaptationField else
  if stuffingEnd p <? stuffingStart src then Err E.AdaptationFieldTooLarge else
  let? dst := slice p 5 (stuffingEnd p) in
  let? s := slice src 5 (stuffingStart src) in    (* panics when the source's lengths overshoot 188 *)
  let p1 := blit p 5 (firstn (length dst) s) in   (* copy copies min(len dst, len src) *)
  Ok (stuffAF p1).

(* ---- the edit operations as data (one constructor per setter), for histories ---- *)
Inductive op : Type :=
| OSetDisc (v : bool) | OSetRAI (v : bool) | OSetPrio (v : bool)
| OSetHasPCR (v : bool) | OSetHasOPCR (v : bool) | OSetHasSplice (v : bool)
| OSetHasTPD (v : bool) | OSetHasExt (v : bool)
| OSetPCR (v : N) | OSetOPCR (v : N) | OSetSplice (v : N)
| OSetTPD (d : bytes) | OSetExt (d : bytes)
| OSetAF (src : bytes).

Definition step (p : bytes) (o : op) : Res bytes :=
  match o with
  | OSetDisc v => SetDiscontinuity p v
  | OSetRAI v => SetRandomAccess p v
  | OSetPrio v => SetElementaryStreamPriority p v
  | OSetHasPCR v => SetHasPCR p v
  | OSetHasOPCR v => SetHasOPCR p v
  | OSetHasSplice v => SetHasSplicingPoint p v
  | OSetHasTPD v => SetHasTransportPrivateData p v
  | OSetHasExt v => SetHasAdaptationFieldExtension p v
  | OSetPCR v => SetPCR p v
  | OSetOPCR v => SetOPCR p v
  | OSetSplice v => SetSpliceCountdown p v
  | OSetTPD d => SetTransportPrivateData p d
  | OSetExt d => SetAdaptationFieldExtension p d
  | OSetAF src => SetAdaptationField p src
  end.
(* a caller that ignores errors: the packet after the call *)
Definition after (p : bytes) (o : op) : bytes :=
  match step p o with Ok p' => p' | _ => p end.
Definition run (p : bytes) (h : list op) : bytes := fold_left after h p.
End AF.
