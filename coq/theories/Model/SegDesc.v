(* MODEL of /repo/scte35/segmentationdescriptor.go: CanClose, Equal, IsIn, IsOut, the segCloseRules
   literal with the four breakaway additions of init(), StreamSwitchSignalId (as an abstract field).
   One Gallina function per Go function, as the code computes them.  No proofs here.

   A descriptor is abstracted to the fields these functions read:
     id      identity of the Go object (pointer identity; assigned by the driver, read by nothing here)
     ty      TypeID()            uint8
     event   EventID()           uint32
     haspts  SCTE35().HasPTS()   (the splice command's flag)
     ptsv    SCTE35().PTS()      (the signal's stored pts field; it exists, and CanClose reads it,
                                  whether or not HasPTS() is true)
     segnum/segexp/hassub/subnum/subexp   the (sub)segment getters
     vss     StreamSwitchSignalId(): Some k when the MID has the VSS shape (k stands for the signal id
             string), None when the call returns ErrVSSSignalIdNotFound.
   `pts d : option N` is the derived "signal time": Some ptsv iff haspts. *)
From Gots Require Import Base.Prelude.

Module SegDesc.

Record desc : Type := mk {
  id : N; ty : N; event : N; haspts : bool; ptsv : N;
  segnum : N; segexp : N; hassub : bool; subnum : N; subexp : N; vss : option N }.

Definition pts (d : desc) : option N := if haspts d then Some (ptsv d) else None.

(* type segCloseType *)
Inductive ctype : Type :=
| Normal | NoBreakaway | EventID | Breakaway | DiffPTS | NotNested | EventIDNotNested | Unconditional.

(* map lookup / map assignment on association lists (Go map literals cannot repeat a key) *)
Fixpoint assoc {A} (k : N) (l : list (N * A)) : option A :=
  match l with [] => None | (k', v) :: t => if k' =? k then Some v else assoc k t end.
(* m[tin][tout] = c  for an existing row tin (a missing row would be a nil-map panic in init) *)
Fixpoint set_rule (tin tout : N) (c : ctype) (m : list (N * list (N * ctype))) :=
  match m with
  | [] => []
  | (k, row) :: t => if k =? tin then (k, (tout, c) :: row) :: t else (k, row) :: set_rule tin tout c t
  end.

(* the literal in init() *)
Definition base_rules : list (N * list (N * ctype)) := [
  (0x10, [(0x10, NoBreakaway); (0x14, Normal); (0x17, NoBreakaway); (0x19, NoBreakaway); (0x20, Normal); (0x22, Normal); (0x24, Normal); (0x26, Normal); (0x30, Normal); (0x34, Normal); (0x36, Normal); (0x3c, Normal); (0x40, Normal); (0x42, Normal); (0x44, Normal)]);
  (0x11, [(0x10, EventID); (0x14, EventID); (0x17, EventID); (0x19, EventID); (0x20, Normal); (0x22, Normal); (0x24, Normal); (0x26, Normal); (0x30, Normal); (0x34, Normal); (0x36, Normal); (0x3c, Normal); (0x40, Normal); (0x42, Normal); (0x44, Normal)]);
  (0x12, [(0x10, EventID); (0x14, EventID); (0x17, EventID); (0x19, EventID); (0x20, Normal); (0x30, Normal); (0x32, Normal); (0x34, Normal); (0x36, Normal)]);
  (0x13, [(0x20, Normal); (0x30, Normal); (0x32, Normal); (0x34, Normal); (0x36, Normal)]);
  (0x14, [(0x10, Breakaway); (0x17, Breakaway); (0x19, Breakaway); (0x20, Normal); (0x30, Normal); (0x32, Normal); (0x34, Normal); (0x36, Normal)]);
  (0x19, [(0x10, NoBreakaway); (0x14, Normal); (0x17, NoBreakaway); (0x19, NoBreakaway); (0x20, Normal); (0x30, Normal); (0x32, Normal); (0x34, Normal); (0x36, Normal)]);
  (0x20, [(0x20, Normal); (0x30, Normal); (0x32, Normal); (0x34, Normal); (0x36, Normal)]);
  (0x21, [(0x20, EventID); (0x30, Normal); (0x32, Normal); (0x34, Normal); (0x36, Normal)]);
  (0x22, [(0x20, Normal); (0x22, Normal); (0x24, Normal); (0x26, Normal); (0x30, Normal); (0x34, Normal); (0x36, Normal); (0x3c, Normal); (0x44, Normal)]);
  (0x23, [(0x22, EventID); (0x30, Normal); (0x34, Normal); (0x36, Normal); (0x3c, Normal); (0x44, Normal)]);
  (0x24, [(0x20, Normal); (0x22, Normal); (0x24, Normal); (0x26, Normal); (0x30, Normal); (0x34, Normal); (0x36, Normal); (0x3c, Normal); (0x44, Normal)]);
  (0x25, [(0x24, EventID); (0x30, Normal); (0x34, Normal); (0x36, Normal); (0x3c, Normal); (0x44, Normal)]);
  (0x26, [(0x20, Normal); (0x22, Normal); (0x24, Normal); (0x26, Normal); (0x30, Normal); (0x34, Normal); (0x36, Normal); (0x3c, Normal); (0x44, Normal)]);
  (0x27, [(0x26, EventID); (0x30, Normal); (0x34, Normal); (0x36, Normal); (0x3c, Normal); (0x44, Normal)]);
  (0x30, [(0x30, Normal); (0x32, Normal)]);
  (0x31, [(0x30, EventID)]);
  (0x32, [(0x30, Normal); (0x32, Normal)]);
  (0x33, [(0x32, EventID)]);
  (0x34, [(0x30, DiffPTS); (0x3c, DiffPTS); (0x44, DiffPTS)]);
  (0x35, [(0x30, Normal); (0x34, EventIDNotNested); (0x3c, Normal); (0x44, Normal)]);
  (0x36, [(0x30, DiffPTS); (0x3c, DiffPTS); (0x44, DiffPTS)]);
  (0x37, [(0x30, Normal); (0x36, EventIDNotNested); (0x3c, Normal); (0x44, Normal)]);
  (0x3c, [(0x30, Normal); (0x3c, Normal)]);
  (0x3d, [(0x3c, EventID)]);
  (0x40, [(0x40, Normal)]);
  (0x41, [(0x40, EventID)]);
  (0x42, [(0x20, Normal); (0x22, Normal); (0x24, Normal); (0x26, Normal); (0x30, Normal); (0x34, Normal); (0x36, Normal); (0x3c, Normal); (0x42, Normal); (0x44, Normal)]);
  (0x43, [(0x20, Normal); (0x22, Normal); (0x24, Normal); (0x26, Normal); (0x30, Normal); (0x34, Normal); (0x36, Normal); (0x3c, Normal); (0x42, EventID); (0x44, Normal)]);
  (0x44, [(0x30, DiffPTS); (0x3c, DiffPTS); (0x44, Normal)]);
  (0x45, [(0x30, Normal); (0x3c, Normal); (0x44, EventID)]);
  (0x50, [(0x10, Normal); (0x14, Normal); (0x17, Normal); (0x19, Normal); (0x20, Normal); (0x30, Normal); (0x32, Normal); (0x34, Normal); (0x36, Normal); (0x40, Unconditional); (0x50, Normal)]);
  (0x51, [(0x10, Normal); (0x14, Normal); (0x17, Normal); (0x19, Normal); (0x20, Normal); (0x30, Normal); (0x32, Normal); (0x34, Normal); (0x36, Normal); (0x40, Unconditional); (0x50, EventID)])
].

(* init(): the literal, then the four program-breakaway additions *)
Definition rules : list (N * list (N * ctype)) :=
  set_rule 0x51 0x13 Normal (set_rule 0x50 0x13 Normal (set_rule 0x41 0x13 Normal (set_rule 0x40 0x13 Normal base_rules))).

Definition is_out_ty (t : N) : bool :=
  existsb (N.eqb t) [0x10; 0x14; 0x17; 0x19; 0x20; 0x22; 0x30; 0x32; 0x34; 0x36; 0x40; 0x44; 0x50].
Definition IsOut (d : desc) : bool := is_out_ty (ty d).

Definition is_in_ty (t : N) : bool :=
  existsb (N.eqb t) [0x11; 0x12; 0x13; 0x15; 0x16; 0x18; 0x21; 0x23; 0x31; 0x33; 0x35; 0x37; 0x41; 0x45; 0x51].
Definition IsIn (d : desc) : bool := is_in_ty (ty d).

Definition CanClose (d out : desc) : bool :=
  match assoc (ty d) rules with
  | None => false
  | Some inRules =>
    match assoc (ty out) inRules with
    | None => false
    | Some closeType =>
      match closeType with
      | Normal | Unconditional => true
      | Breakaway | NoBreakaway => true
      | EventID => event d =? event out
      | DiffPTS => negb (ptsv d =? ptsv out)
      | EventIDNotNested => IsIn d && (event d =? event out) && (segnum d =? segexp d)
      | NotNested => if hassub d then subnum d =? subexp d else true
      end
    end
  end.

Definition Equal (d c : desc) : bool :=
  if negb (ty d =? ty c) then false else
  if negb (haspts d) || negb (haspts c) then false else
  if negb (ptsv d =? ptsv c) then false else
  if negb (event d =? event c) then false else
  if negb (segnum d =? segnum c) then false else
  if negb (segexp d =? segexp c) then false else
  if negb (Bool.eqb (hassub d) (hassub c)) then false else
  if hassub d && hassub c && negb (subnum d =? subnum c) then false else
  if hassub d && hassub c && negb (subexp d =? subexp c) then false else
  true.

(* StreamSwitchSignalId(): (string, error).  Some k = (signal id k, nil);
   None = ("", ErrVSSSignalIdNotFound) -- the only error the function returns. *)
Definition StreamSwitchSignalId (d : desc) : option N := vss d.

End SegDesc.
