(* MODEL of /repo/scte35/segmentationdescriptor.go: CanClose, Equal, IsIn, IsOut, the segCloseRules
   literal with the four breakaway additions of init(), StreamSwitchSignalId (as an abstract field).
   One Gallina function per Go function, as the code computes them.  No proofs here.

   A descriptor is abstracted to the fields these functions read:
     id      identity of the Go object (pointer identity; assigned by the driver, read by nothing here)
     ty      TypeID()            uint8
     event   EventID()           uint32
     haspts  SCTE35().HasPTS()   (the splice command's flag)
     ptsv    SCTE35().PTS()      (the signal's stored pts field; it exists, and CanClose reads it,
                                  whether or not HasPTS() is true)
     segnum/segexp/hassub/subnum/subexp   the (sub)segment getters
     vss     StreamSwitchSignalId(): Some k when the MID has the VSS shape (k stands for the signal id
             string), None when the call returns ErrVSSSignalIdNotFound.
   `pts d : option N` is the derived "signal time": Some ptsv iff haspts. *)
From Gots Require Import Base.Prelude.

Module SegDesc.

Record desc : Type := mk {
  id : N; ty : N; event : N; haspts : bool; ptsv : N;
  segnum : N; segexp : N; hassub : bool; subnum : N; subexp : N; vss : option N }.

Definition pts (d : desc) : option N := if haspts d then Some (ptsv d) else None.

(* type segCloseType *)
Inductive ctype : Type :=
| Normal | NoBreakaway | EventID | Breakaway | DiffPTS | NotNested | EventIDNotNested | Unconditional.

(* map lookup / map assignment on association lists (Go map literals cannot repeat a key) *)
Fixpoint assoc {A} (k : N) (l : list (N * A)) : option A :=
  match l with [] => None | (k', v) :: t => if k' =? k then Some v else assoc k t end.
(* m[tin][tout] = c  for an existing row tin (a missing row would be a nil-map panic in init) *)
Fixpoint set_rule (tin tout : N) (c : ctype) (m : list (N * list (N * ctype))) :=
  match m with
  | [] => []
  | (k, row) :: t => if k =? tin then (k, (tout, c) :: row) :: t else (k, row) :: set_rule tin tout c t
  end.

(* the literal in init() *)
Definition base_rules : list (N * list (N * ctype)) := [
  (0x10, [(0x10, NoBreakaway); (0x14, Normal); (0x17, NoBreakaway); (0x19, NoBreakaway); (0x20, Normal); (0x22, Normal); (0x24, Normal); (0x26, Normal); (0x30, Normal); (0x34, Normal); (0x36, Normal); (0x3c, Normal); (0x40, Normal); (0x42, Normal); (0x44, Normal)]);
  (0x11, [(0x10, EventID); (0x14, EventID); (0x17, EventID); (0x19, EventID); (0x20, Normal); (0x22, Normal); (0x24, Normal); (0x26, Normal); (0x30, Normal); (0x34, Normal); (0x36, Normal); (0x3c, Normal); (0x40, Normal); (0x42, Normal); (0x44, Normal)]);
  (0x12, [(0x10, EventID); (0x14, EventID); (0x17, EventID); (0x19, EventID); (0x20, Normal); (0x30, Normal); (0x32, Normal); (0x34, Normal); (0x36, Normal)]);
  (0x13, [(0x20, Normal); (0x30, Normal); (0x32, Normal); (0x34, Normal); (0x36, Normal)]);
  (0x14, [(0x10, Breakaway); (0x17, Breakaway); (0x19, Breakaway); (0x20, Normal); (0x30, Normal); (0x32, Normal); (0x34, Normal); (0x36, Normal)]);
  (0x19, [(0x10, NoBreakaway); (0x14, Normal); (0x17, NoBreakaway); (0x19, NoBreakaway); (0x20, Normal); (0x30, Normal); (0x32, Normal); (0x34, Normal); (0x36, Normal)]);
  (0x20, [(0x20, Normal); (0x30, Normal); (0x32, Normal); (0x34, Normal); (0x36, Normal)]);
  (0x21, [(0x20, EventID); (0x30, Normal); (0x32, Normal); (0x34, Normal); (0x36, Normal)]);
  (0x22, [(0x20, Normal); (0x22, Normal); (0x24, Normal); (0x26, Normal); (0x30, Normal); (0x34, Normal); (0x36, Normal); (0x3c, Normal); (0x44, Normal)]);
  (0x23, [(0x22, EventID); (0x30, Normal); (0x34, Normal); (0x36, Normal); (0x3c, Normal); (0x44, Normal)]);
  (0x24, [(0x20, Normal); (0x22, Normal); (0x24, Normal); (0x26, Normal); (0x30, Normal); (0x34, Normal); (0x36, Normal); (0x3c, Normal); (0x44, Normal)]);
  (0x25, [(0x24, EventID); (0x30, Normal); (0x34, Normal); (0x36, Normal); (0x3c, Normal); (0x44, Normal)]);
  (0x26, [(0x20, Normal); (0x22, Normal); (0x24, Normal); (0x26, Normal); (0x30, Normal); (0x34, Normal); (0x36, Normal); (0x3c, Normal); (0x44, Normal)]);
  (0x27, [(0x26, EventID); (0x30, Normal); (0x34, Normal); (0x36, Normal); (0x3c, Normal); (0x44, Normal)]);
  (0x30, [(0x30, Normal); (0x32, Normal)]);
  (0x31, [(0x30, EventID)]);
  (0x32, [(0x30, Normal); (0x32, Normal)]);
  (0x33, [(0x32, EventID)]);
  (0x34, [(0x30, DiffPTS); (0x3c, DiffPTS); (0x44, DiffPTS)]);
  (0x35, [(0x30, Normal); (0x34, EventIDNotNested); (0x3c, Normal); (0x44, Normal)]);
  (0x36, [(0x30, DiffPTS); (0x3c, DiffPTS); (0x44, DiffPTS)]);
  (0x37, [(0x30, Normal); (0x36, EventIDNotNested); (0x3c, Normal); (0x44, Normal)]);
  (0x3c, [(0x30, Normal); (0x3c, Normal)]);
  (0x3d, [(0x3c, EventID)]);
  (0x40, [(0x40, Normal)]);
  (0x41, [(0x40, EventID)]);
  (0x42, [(0x20, Normal); (0x22, Normal); (0x24, Normal); (0x26, Normal); (0x30, Normal); (0x34, Normal); (0x36, Normal); (0x3c, Normal); (0x42, Normal); (0x44, Normal)]);
  (0x43, [(0x20, Normal); (0x22, Normal); (0x24, Normal); (0x26, Normal); (0x30, Normal); (0x34, Normal); (0x36, Normal); (0x3c, Normal); (0x42, EventID); (0x44, Normal)]);
  (0x44, [(0x30, DiffPTS); (0x3c, DiffPTS); (0x44, Normal)]);
  (0x45, [(0x30, Normal); (0x3c, Normal); (0x44, EventID)]);
  (0x50, [(0x10, Normal); (0x14, Normal); (0x17, Normal); (0x19, Normal); (0x20, Normal); (0x30, Normal); (0x32, Normal); (0x34, Normal); (0x36, Normal); (0x40, Unconditional); (0x50, Normal)]);
  (0x51, [(0x10, Normal); (0x14, Normal); (0x17, Normal); (0x19, Normal); (0x20, Normal); (0x30, Normal); (0x32, Normal); (0x34, Normal); (0x36, Normal); (0x40, Unconditional); (0x50, EventID)])
].

(* init(): the literal, then the four program-breakaway additions *)
Definition rules : list (N * list (N * ctype)) :=
  set_rule 0x51 0x13 Normal (set_rule 0x50 0x13 Normal (set_rule 0x41 0x13 Normal (set_rule 0x40 0x13 Normal base_rules))).

Definition is_out_ty (t : N) : bool :=
  existsb (N.eqb t) [0x10; 0x14; 0x17; 0x19; 0x20; 0x22; 0x30; 0x32; 0x34; 0x36; 0x40; 0x44; 0x50].
Definition IsOut (d : desc) : bool := is_out_ty (ty d).

Definition is_in_ty (t : N) : bool :=
  existsb (N.eqb t) [0x11; 0x12; 0x13; 0x15; 0x16; 0x18; 0x21; 0x23; 0x31; 0x33; 0x35; 0x37; 0x41; 0x45; 0x51].
Definition IsIn (d : desc) : bool := is_in_ty (ty d).

Definition CanClose (d out : desc) : bool :=
  match assoc (ty d) rules with
  | None => false
  | Some inRules =>
    match assoc (ty out) inRules with
    | None => false
    | Some closeType =>
      match closeType with
      | Normal | Unconditional => true
      | Breakaway | NoBreakaway => true
      | EventID => event d =? event out
      | DiffPTS => negb (ptsv d =? ptsv out)
      | EventIDNotNested => IsIn d && (event d =? event out) && (segnum d =? segexp d)
      | NotNested => if hassub d then subnum d =? subexp d else true
      end
    end
  end.

Definition Equal (d c : desc) : bool :=
  if negb (ty d =? ty c) then false else
  if negb (haspts d) || negb (haspts c) then false else
  if negb (ptsv d =? ptsv c) then false else
  if negb (event d =? event c) then false else
  if negb (segnum d =? segnum c) then false else
  if negb (segexp d =? segexp c) then false else
  if negb (Bool.eqb (hassub d) (hassub c)) then false else
  if hassub d && hassub c && negb (subnum d =? subnum c) then false else
  if hassub d && hassub c && negb (subexp d =? subexp c) then false else
  true.

(* StreamSwitchSignalId(): (string, error).  Some k = (signal id k, nil);
   None = ("", ErrVSSSignalIdNotFound) -- the only error the function returns. *)
Definition StreamSwitchSignalId (d : desc) : option N := vss d.

(* nested module: `Import SegDesc` does not bring these names into scope *)
Module Consts.
(* ---- scte35/doc.go: the exported constant tables (SpliceCommandType, DeviceRestrictions, SegDescType, SegUPIDType),
   in source order; the four `...Names` maps have exactly these keys (executor op const.scte35.names) ---- *)
Definition SpliceNull : N := 0.
Definition SpliceSchedule : N := 4.
Definition SpliceInsert : N := 5.
Definition TimeSignal : N := 6.
Definition BandwidthReservation : N := 7.
Definition PrivateCommand : N := 255.
Definition RestrictGroup0 : N := 0.
Definition RestrictGroup1 : N := 1.
Definition RestrictGroup2 : N := 2.
Definition RestrictNone : N := 3.
Definition SegDescNotIndicated : N := 0.
Definition SegDescContentIdentification : N := 1.
Definition SegDescProgramStart : N := 16.
Definition SegDescProgramEnd : N := 17.
Definition SegDescProgramEarlyTermination : N := 18.
Definition SegDescProgramBreakaway : N := 19.
Definition SegDescProgramResumption : N := 20.
Definition SegDescProgramRunoverPlanned : N := 21.
Definition SegDescProgramRunoverUnplanned : N := 22.
Definition SegDescProgramOverlapStart : N := 23.
Definition SegDescProgramBlackoutOverride : N := 24.
Definition SegDescProgramStartInProgress : N := 25.
Definition SegDescChapterStart : N := 32.
Definition SegDescChapterEnd : N := 33.
Definition SegDescBreakStart : N := 34.
Definition SegDescBreakEnd : N := 35.
Definition SegDescOpeningCreditStart : N := 36.
Definition SegDescOpeningCreditEnd : N := 37.
Definition SegDescClosingCreditStart : N := 38.
Definition SegDescClosingCreditEnd : N := 39.
Definition SegDescProviderAdvertisementStart : N := 48.
Definition SegDescProviderAdvertisementEnd : N := 49.
Definition SegDescDistributorAdvertisementStart : N := 50.
Definition SegDescDistributorAdvertisementEnd : N := 51.
Definition SegDescProviderPOStart : N := 52.
Definition SegDescProviderPOEnd : N := 53.
Definition SegDescDistributorPOStart : N := 54.
Definition SegDescDistributorPOEnd : N := 55.
Definition SegDescProviderPromoStart : N := 60.
Definition SegDescProviderPromoEnd : N := 61.
Definition SegDescUnscheduledEventStart : N := 64.
Definition SegDescUnscheduledEventEnd : N := 65.
Definition SegDescAlternateContentOpportunityStart : N := 66.
Definition SegDescAlternateContentOpportunityEnd : N := 67.
Definition SegDescProviderAdBlockStart : N := 68.
Definition SegDescProviderAdBlockEnd : N := 69.
Definition SegDescNetworkStart : N := 80.
Definition SegDescNetworkEnd : N := 81.
Definition SegUPIDNotUsed : N := 0.
Definition SegUPIDUserDefined : N := 1.
Definition SegUPIDISCI : N := 2.
Definition SegUPIDAdID : N := 3.
Definition SegUPIDUMID : N := 4.
Definition SegUPIDISAN : N := 5.
Definition SegUPIDVISAN : N := 6.
Definition SegUPIDTID : N := 7.
Definition SegUPIDTI : N := 8.
Definition SegUPIDADI : N := 9.
Definition SegUPIDEIDR : N := 10.
Definition SegUPIDATSCID : N := 11.
Definition SegUPIDMPU : N := 12.
Definition SegUPIDMID : N := 13.
Definition SegUPADSINFO : N := 14.
Definition SegUPIDURN : N := 15.
Definition SpliceCommandTypes : list N :=
  [SpliceNull; SpliceSchedule; SpliceInsert; TimeSignal; BandwidthReservation; PrivateCommand].
Definition DeviceRestrictionsValues : list N :=
  [RestrictGroup0; RestrictGroup1; RestrictGroup2; RestrictNone].
Definition SegDescTypes : list N :=
  [SegDescNotIndicated; SegDescContentIdentification; SegDescProgramStart; SegDescProgramEnd; SegDescProgramEarlyTermination; SegDescProgramBreakaway; SegDescProgramResumption; SegDescProgramRunoverPlanned; SegDescProgramRunoverUnplanned; SegDescProgramOverlapStart; SegDescProgramBlackoutOverride; SegDescProgramStartInProgress; SegDescChapterStart; SegDescChapterEnd; SegDescBreakStart; SegDescBreakEnd; SegDescOpeningCreditStart; SegDescOpeningCreditEnd; SegDescClosingCreditStart; SegDescClosingCreditEnd; SegDescProviderAdvertisementStart; SegDescProviderAdvertisementEnd; SegDescDistributorAdvertisementStart; SegDescDistributorAdvertisementEnd; SegDescProviderPOStart; SegDescProviderPOEnd; SegDescDistributorPOStart; SegDescDistributorPOEnd; SegDescProviderPromoStart; SegDescProviderPromoEnd; SegDescUnscheduledEventStart; SegDescUnscheduledEventEnd; SegDescAlternateContentOpportunityStart; SegDescAlternateContentOpportunityEnd; SegDescProviderAdBlockStart; SegDescProviderAdBlockEnd; SegDescNetworkStart; SegDescNetworkEnd].
Definition SegUPIDTypes : list N :=
  [SegUPIDNotUsed; SegUPIDUserDefined; SegUPIDISCI; SegUPIDAdID; SegUPIDUMID; SegUPIDISAN; SegUPIDVISAN; SegUPIDTID; SegUPIDTI; SegUPIDADI; SegUPIDEIDR; SegUPIDATSCID; SegUPIDMPU; SegUPIDMID; SegUPADSINFO; SegUPIDURN].
Definition exported_consts : list N := SpliceCommandTypes ++ DeviceRestrictionsValues ++ SegDescTypes ++ SegUPIDTypes.
End Consts.

End SegDesc.
