(* MODEL of the PANIC-RELEVANT behaviour of the printers reachable from the C05 entry groups (goexec/total.go), and
   of the remaining calls of those groups that had no model: psi.CanBuildPMT, SegmentationDescriptor.
   StreamSwitchSignalId / MID / Components, the glue from a decoded descriptor to the tracker record of Model/State.v.

   A printer model returns `Res unit`: it performs, in the order of the Go source, exactly the operations of the
   Go method that can panic - index expressions, slice expressions, the decoder calls a printer makes - and the
   branches that decide which of them run.  The TEXT produced is not modelled.  What cannot panic is written down
   once here and then omitted:
     - a map index expression `m[k]` (a missing key yields the zero value; reading a nil map too): `map_read`;
     - a type assertion in comma-ok form, a `for range` over a slice, string(bytes), integer formatting;
     - a method call through an interface / pointer field that the decoder ALWAYS sets: the models carry such a field
       as a plain value (Scte.s_cmd : command, Pmt.stype : N, ...), so "nil" is not a value of the model type.  The
       one field that can be nil, segmentationDescriptor.spliceInfo (Scte.d_owner : option N), is not read by any printer.
   package fmt: `%v` (also Sprint, and `%s` for these types) of an operand calls its Error() / String() method when the
   operand's dynamic type has one (fmt.handleMethods); otherwise it prints the fields by reflection, calling no gots
   code (methods of nested unexported fields are not called either: reflect.Value.CanInterface is false for them).
   fmt RECOVERS a panic raised by such a String() call and prints it as text ("%!v(PANIC=String method: ...)",
   fmt.catchPanic).  That recovery is NOT modelled: `fmt_v r = r`, so a panic inside a nested String() is a panic of
   the model.  The totality theorems (Proofs/PrintersTotal.v) are therefore about the printers themselves, not about
   fmt's safety net; goexec/total.go also calls every nested String() directly so that the real side sees the same.
   No proofs in this file. *)
From Gots Require Import Base.Prelude Model.Psi Model.Pmt Model.PmtDesc Model.Pes Model.Ebp Model.Scte Model.ScteEnc
  Model.SegDesc Model.State.
Module Printers.

(* evaluate, drop the value *)
Definition ign {A} (r : Res A) : Res unit := let? _ := r in Ok tt.
(* `for _, x := range l { f x }`: the first panic ends the loop *)
Fixpoint each {A} (f : A -> Res unit) (l : list A) : Res unit :=
  match l with [] => Ok tt | x :: t => let? _ := f x in each f t end.
(* m[k] on a Go map *)
Definition map_read (k : N) : Res unit := Ok tt.
(* fmt: %v of a value with a String() method = that call (the recover of fmt.catchPanic is not modelled) *)
Definition fmt_v (r : Res unit) : Res unit := r.
(* `out := make([]T, len(l)); for i := range l { out[i] = &l[i] }`: both index expressions, for every i < len(l) *)
Definition at_index {A} (l : list A) (i : nat) : Res unit :=
  match nth_error l i with Some _ => Ok tt | None => Panic end.
Definition addr_all {A} (l : list A) : Res unit :=
  each (fun i => let? _ := at_index l i in at_index l i) (seq 0 (length l)).

(* ================================================================== psi *)
(* psi/pmt.go: func CanBuildPMT(payload []byte, sectionLength uint16) bool { return !(len(payload) < int(sectionLength)) } *)
Definition can_build_pmt (payload : bytes) (sectionLength : N) : bool := negb (len payload <? sectionLength).

Definition desc_of (d : Pmt.desc) : PmtDesc.t := PmtDesc.mk (Pmt.dtag d) (Pmt.ddata d).

(* psi/pmtdescriptor.go: func (descriptor *pmtDescriptor) decode() string.  Arguments of Sprintf are evaluated left to right.
     LANGUAGE           DecodeIso639LanguageCode(), then DecodeIso639AudioType()
     MAXIMUM_BITRATE    DecodeMaximumBitRate()
     STREAM_IDENTIFIER  if len(data) == 0 { .. } else { .. data[0] }
     EXTENSION          DecodeTTMLIso639LanguageCode()
     the ten tags that print only the tag, and every other tag (strconv.Itoa): nothing *)
Definition desc_decode (d : PmtDesc.t) : Res unit :=
  let tag := PmtDesc.tag d in
  if tag =? PmtDesc.LANGUAGE then
    let? _ := PmtDesc.decode_iso639_language_code d in
    let? _ := PmtDesc.decode_iso639_audio_type d in Ok tt
  else if tag =? PmtDesc.MAXIMUM_BITRATE then ign (PmtDesc.decode_maximum_bit_rate d)
  else if (tag =? PmtDesc.VIDEO_STREAM) || (tag =? PmtDesc.AUDIO_STREAM) || (tag =? PmtDesc.REGISTRATION)
          || (tag =? PmtDesc.CONDITIONAL_ACCESS) || (tag =? PmtDesc.SYSTEM_CLOCK) || (tag =? PmtDesc.COPYRIGHT)
          || (tag =? PmtDesc.AVC_VIDEO) || (tag =? PmtDesc.DOLBY_DIGITAL) || (tag =? PmtDesc.SCTE_ADAPTATION)
          || (tag =? PmtDesc.DOLBY_VISION) || (tag =? PmtDesc.EBP) then Ok tt
  else if tag =? PmtDesc.STREAM_IDENTIFIER then
    if len (PmtDesc.data d) =? 0 then Ok tt else ign (idx (PmtDesc.data d) 0)
  else if tag =? PmtDesc.EXTENSION then ign (PmtDesc.decode_ttml_iso639_language_code d)
  else Ok tt.
(* func (descriptor *pmtDescriptor) String() string { return descriptor.decode() } *)
Definition desc_string (d : PmtDesc.t) : Res unit := desc_decode d.
(* func (descriptor *pmtDescriptor) Format() string { Sprintf("[tag=%b, decoded=%s]\n", tag, descriptor.decode()) } *)
Definition desc_format (d : PmtDesc.t) : Res unit := desc_decode d.

(* psi/pmtstreamtype.go: func (st pmtStreamType) String() string { Sprintf("streamType=%d", st.code) } *)
Definition stream_type_string (code : N) : Res unit := Ok tt.

(* psi/pmtelementarystream.go String(): `%v` of every descriptor (an interface value holding *pmtDescriptor: String()),
   then Sprintf("ElementaryStream[pid=%d,%v%s]", es.elementaryPid, es.PmtStreamType, ..): `%v` of the embedded
   PmtStreamType (an interface value holding a pmtStreamType: String()) *)
Definition es_string (e : Pmt.es) : Res unit :=
  let? _ := each (fun d => fmt_v (desc_string (desc_of d))) (Pmt.descs e) in
  fmt_v (stream_type_string (Pmt.stype e)).

(* psi/pmt.go String(): `%v` of every elementary stream (an interface value holding *pmtElementaryStream: String()) *)
Definition pmt_string (p : Pmt.pmt) : Res unit := each (fun e => fmt_v (es_string e)) (Pmt.streams p).

(* ================================================================== pes *)
(* pes/pesheader.go Format(): reads struct fields only; the branches are kept to show that nothing else happens.
   PTS_DTS_INDICATOR_BOTH = 3, PTS_DTS_INDICATOR_ONLY_PTS = 2 *)
Definition pes_format (h : Pes.header) : Res unit :=
  if Pes.optional_fields_exist (Pes.streamId h) then
    if (Pes.ptsDtsIndicator h =? 3) || (Pes.ptsDtsIndicator h =? 2) then
      if Pes.ptsDtsIndicator h =? 3 then Ok tt else Ok tt
    else Ok tt
  else Ok tt.
(* fmt.Sprintf("%v", h): *pESHeader has no String() / Error() and no Format(fmt.State, rune) (its Format() string is not
   fmt.Formatter), so fmt prints &{..} field by field, the data bytes as decimal numbers: no gots code runs *)
Definition pes_fmt_v (h : Pes.header) : Res unit := Ok tt.

(* ================================================================== ebp *)
(* fmt.Sprint(e): *cableLabsEbp / *comcastEbp have no String() / Error() / Format; the embedded baseEbp is an
   unexported field, so not even time.Time.String() of SuccessReadTime is called: no gots code runs *)
Definition ebp_sprint (e : Ebp.t) : Res unit := Ok tt.

(* ================================================================== scte35 *)
Import Scte.

(* segmentationdescriptor.go Components(): make + `components[i] = &d.components[i]` *)
Definition seg_components (d : segdesc) : Res unit := addr_all (d_components d).
(* segmentationdescriptor.go MID(): nil unless upidType == SegUPIDMID; make + `mid[i] = &d.mid[i]` *)
Definition seg_mid (d : segdesc) : Res unit :=
  if negb (d_upid_type d =? SegUPIDMID) then Ok tt else addr_all (d_mid d).

(* strings.Contains / strings.TrimPrefix on the bytes of a Go string *)
Fixpoint has_prefix (p s : bytes) : bool :=
  match p, s with
  | [], _ => true
  | a :: p', b :: s' => (a =? b) && has_prefix p' s'
  | _ :: _, [] => false
  end.
Fixpoint contains (needle hay : bytes) : bool :=
  has_prefix needle hay || match hay with [] => false | _ :: t => contains needle t end.
Definition trim_prefix (p s : bytes) : bytes := if has_prefix p s then dropN (len p) s else s.
Definition s_BLACKOUT : bytes := [66; 76; 65; 67; 75; 79; 85; 84].                       (* "BLACKOUT" *)
Definition s_BLACKOUT_colon : bytes := s_BLACKOUT ++ [58].                               (* "BLACKOUT:" *)
Definition s_licenserotation : bytes :=                                                  (* "comcast:linear:licenserotation" *)
  [99; 111; 109; 99; 97; 115; 116; 58; 108; 105; 110; 101; 97; 114; 58; 108; 105; 99; 101; 110; 115; 101; 114; 111; 116; 97; 116; 105; 111; 110].
Definition SegUPIDADI : N := 9.
Definition SegUPADSINFO : N := 14.
(* segmentationdescriptor.go StreamSwitchSignalId(): the condition is a chain of && evaluated left to right;
   d.mid[0] / d.mid[1] are index expressions (guarded by len(d.mid) == 2).  Ok None = ("", ErrVSSSignalIdNotFound) *)
Definition stream_switch_signal_id (d : segdesc) : Res (option bytes) :=
  let at_ (i : nat) : Res upid := match nth_error (d_mid d) i with Some u => Ok u | None => Panic end in
  if negb (len (d_mid d) =? 2) then Ok None else
  if d_dnr d then Ok None else
  let? m0 := at_ 0%nat in
  if negb (u_type m0 =? SegUPIDADI) then Ok None else
  let? m0' := at_ 0%nat in
  if negb (contains s_BLACKOUT (u_upid m0')) then Ok None else
  let? m1 := at_ 1%nat in
  if negb (u_type m1 =? SegUPADSINFO) then Ok None else
  let? m1' := at_ 1%nat in
  if negb (contains s_licenserotation (u_upid m1')) then Ok None else
  let? m0'' := at_ 0%nat in
  Ok (Some (trim_prefix s_BLACKOUT_colon (u_upid m0''))).

(* scte35.go String(), the part inside `if cmd, ok := s.commandInfo.(SpliceInsertCommand); ok`: getters of the struct;
   cmd.Components() returns the stored slice *)
Definition insert_string (i : insert) : Res unit :=
  if i_cancel i then Ok tt else
  each (fun c : component => Ok tt) (i_components i).

(* one descriptor of the loop `for _, desc := range s.descriptors` *)
Definition seg_string (d : segdesc) : Res unit :=
  (* desc.IsIn(), desc.IsOut(): switches over TypeID(); EventID(), IsEventCanceled(): fields *)
  if d_cancel d then Ok tt else
  let? _ := (if negb (d_dnr d) then map_read (d_device d) else Ok tt) in            (* DeviceRestrictionsNames[..] *)
  let? _ := (if negb (d_program_seg d) then
               let? _ := seg_components d in                                        (* len(desc.Components()) *)
               seg_components d                                                     (* range desc.Components() *)
             else Ok tt) in
  let? _ := map_read (d_upid_type d) in                                             (* SegUPIDTypeNames[desc.UPIDType()] *)
  let? _ := (if negb (d_upid_type d =? SegUPIDMID) then Ok tt                       (* string(desc.UPID()) *)
             else let? _ := seg_mid d in                                            (* range desc.MID() *)
                  each (fun u => map_read (u_type u)) (ScteEnc.get_mid d)) in       (* SegUPIDTypeNames[upid.UPIDType()] *)
  map_read (d_type d).                                                              (* SegDescTypeNames[desc.TypeID()] *)

(* s.data[len(s.data)-4:]: the low bound is an int that is negative when the data is shorter than four bytes *)
Definition tail4 (d : bytes) : Res bytes := if len d <? 4 then Panic else slice_from d (len d - 4).

(* what String() leaves behind: it starts with s.UpdateData(), which stores spliceCommandLength, SectionLength and data *)
Definition scte_after_string (s : scte) : scte := snd (ScteEnc.update_data s).
(* scte35.go String().  s.HasPTS() = s.commandInfo.HasPTS() is a call through the interface field commandInfo, which
   parseTable sets on every path that returns nil (CNull / CTime / CInsert).  UpdateData is the total function of
   Model/ScteEnc.v (its own make / slice expressions are sized from the lengths it has just computed). *)
Definition scte_string (s : scte) : Res unit :=
  let s1 := scte_after_string s in
  let? _ := map_read (s_cmd_type s1) in                                             (* SpliceCommandTypeNames[s.commandType] *)
  let? _ := (match s_cmd s1 with CInsert i => insert_string i | _ => Ok tt end) in
  let? _ := each seg_string (s_descs s1) in
  ign (tail4 (s_data s1)).

(* ---- the tracker record (Model/SegDesc.v) of a decoded descriptor: Exec/SegDecExec.desc_of_decoded plus the
   StreamSwitchSignalId the tracker's duplicate scan reads.  The signal id is a string; the tracker only compares two
   of them for equality, so it is carried as the number whose base-256 digits are a 1 followed by its bytes. *)
Definition str_code (b : bytes) : N := fold_left (fun a x => a * 256 + x) b 1.
Definition tracker_desc (i : N) (s : scte) (d : segdesc) : SegDesc.desc :=
  SegDesc.mk i (d_type d) (d_event_id d) (cmd_has_pts (s_cmd s)) (s_pts s)
             (d_seg_num d) (d_segs_expected d) (d_has_sub d) (d_sub_seg_num d) (d_sub_segs_expected d)
             (match stream_switch_signal_id d with Ok (Some b) => Some (str_code b) | _ => None end).
(* st := NewState(); for _, d := range s.Descriptors() { st.ProcessDescriptor(d) }; st.Open() *)
Fixpoint tracker_feed (st : State.state) (ds : list SegDesc.desc) : Res State.state :=
  match ds with
  | [] => Ok st
  | d :: t => let? r := State.ProcessDescriptor st d in tracker_feed (fst r) t
  end.
Fixpoint number_from {A} (i : N) (l : list A) : list (N * A) :=
  match l with [] => [] | x :: t => (i, x) :: number_from (i + 1) t end.
Definition tracker_calls (s : scte) : Res unit :=
  let ds := map (fun p => tracker_desc (fst p) s (snd p)) (number_from 0 (s_descs s)) in
  let? st := tracker_feed State.NewState ds in
  ign (State.Open st).

(* scte35.SCTE35AccumulatorDoneFunc(b) = psi.PmtAccumulatorDoneFunc(b) (doc.go) *)
Definition scte35_accumulator_done_func (b : bytes) : Res bool := Pmt.done_func b.

End Printers.
