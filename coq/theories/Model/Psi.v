(* Model of /repo/psi/psi.go : PSI header accessors and the table-header codec.
   (repaired tree: offsets are int, short input gives the neutral value). *)
From Gots Require Import Base.Prelude.
Module Psi.

(* The accessors below are the guarded ones of the repaired tree (notes: c05-guards.patch): they return the
   neutral value on short input and compute offsets in int, so they are total and written as plain functions. *)
(* func PointerField(psi []byte) uint8 { if len(psi) == 0 { return 0 }; return psi[0] } *)
Definition pointer_field (psi : bytes) : N := match psi with [] => 0 | b :: _ => b end.

(* unexported helpers working on a section (table_id first) *)
Definition table_id' (s : bytes) : N := match s with [] => 0 | b :: _ => b end.
Definition ssi' (s : bytes) : bool := if len s <? 2 then false else bit (nthN s 1) 128.
(* if len(psi) < 3 { return 0 }; uint16(psi[1]&3)<<8 | uint16(psi[2]) *)
Definition section_length' (s : bytes) : N :=
  if len s <? 3 then 0 else N.lor (N.shiftl (N.land (nthN s 1) 3) 8) (nthN s 2).

(* offset := 1 + int(PointerField(psi)); if offset >= len(psi) { return 0 }; tableID(psi[offset:]) *)
Definition table_id (psi : bytes) : N :=
  let off := 1 + pointer_field psi in
  if len psi <=? off then 0 else table_id' (dropN off psi).
Definition section_syntax_indicator (psi : bytes) : bool :=
  let off := 1 + pointer_field psi in
  if len psi <=? off then false else ssi' (dropN off psi).
(* offset := 2 + int(PointerField(psi)); if offset >= len(psi) { return false }; psi[offset]&0x40 != 0 *)
Definition private_indicator (psi : bytes) : bool :=
  let off := 2 + pointer_field psi in
  if len psi <=? off then false else bit (nthN psi off) 64.
Definition section_length (psi : bytes) : N :=
  let off := 1 + pointer_field psi in
  if len psi <=? off then 0 else section_length' (dropN off psi).

(* tableVersionAndCNI *)
Definition table_version_and_cni (s : bytes) : Res (N * bool) :=
  if len s <? 6 then Err E.ShortPayload else
  let? b := idx s 5 in
  Ok (N.shiftr (N.land b 62) 1, N.land b 1 =? 1).

(* NewPointerField(size int): make([]byte, size+1) panics for size < -1, data[0] panics for size = -1 *)
Definition new_pointer_field (size : Z) : Res bytes :=
  if (size <? 0)%Z then Panic else
  let n := Z.to_N size in Ok (w8 n :: repeatN 255 n).

Record table_header := { th_tid : N; th_ssi : bool; th_pi : bool; th_sl : N }.

Definition table_header_from_bytes (d : bytes) : Res table_header :=
  if len d <? 3 then Err E.ShortPayload else
  let? b0 := idx d 0 in let? b1 := idx d 1 in let? b2 := idx d 2 in
  Ok {| th_tid := b0; th_ssi := bit b1 128; th_pi := bit b1 64;
        th_sl := N.lor (N.shiftl (N.land b1 3) 8) b2 |}.

(* (th TableHeader) Data(): TableID uint8, SectionLength uint16 *)
Definition table_header_data (h : table_header) : bytes :=
  let d1 := if th_ssi h then 128 else 0 in
  let d1 := if th_pi h then N.lor d1 64 else d1 in
  let d1 := N.lor d1 48 in
  let d1 := N.lor d1 (N.land (w8 (N.shiftr (th_sl h) 8)) 3) in
  [th_tid h; d1; w8 (th_sl h)].

(* NewTableHeader(): the zero TableHeader *)
Definition new_table_header : table_header := {| th_tid := 0; th_ssi := false; th_pi := false; th_sl := 0 |}.

End Psi.
