(* MODEL of /repo/psi/pat.go, of the psi.go helpers it uses, of IsPMT (psi/pmt.go) and of the few
   packet accessors PAT decoding needs (packet/packet.go: Pid, IsPat, ContainsPayload,
   ContainsAdaptationField, payloadStart, Payload).  No proofs here.
   The model follows the REPAIRED tree (/root/work/repo-fixed = pinned tree + notes/candidate-fixes.patch
   + notes/c05-guards.patch): psi.PointerField/TableID/... return neutral values on short input, the offset
   1+pointer_field is computed in int (no uint8 wrap), NewPAT re-checks len >= 13 on the payload taken
   from a 188-byte packet.  The PAT accessors follow /repo commit 3223166 (finding P1 of notes/findings/C07.md):
   NumPrograms clips section_length to len(pat) - pointer_field, ProgramMap starts at 8 + pointer_field.
   The `_pinned` variants are the functions of the pinned tree, kept for the C05 `_refuted` witnesses (F11); the
   `_with` functions (clip to len(pat), fixed counter 8) are the accessors as they were BEFORE 3223166 and are
   used by the `_pinned` variants only.
   A PAT object (`type pat []byte`) is its byte string; map[int]int is an association list with
   last-write-wins insertion (observations are compared after sorting, DESIGN section 3). *)
From Gots Require Import Base.Prelude.
Module Pat.

(* ------------------------------------------------------------------ packet/packet.go (188-byte arrays) *)
Module PatPkt.
Definition PacketSize : N := 188.
(* int(packet[1]&0x1f)<<8 | int(packet[2]) *)
Definition pid (p : bytes) : Res N :=
  let? b1 := idx p 1 in let? b2 := idx p 2 in Ok (N.lor (N.shiftl (N.land b1 31) 8) b2).
Definition is_pat (p : bytes) : Res bool := let? x := pid p in Ok (x =? 0).
Definition contains_payload (p : bytes) : Res bool := let? b := idx p 3 in Ok (bit b 16).
Definition contains_adaptation_field (p : bytes) : Res bool := let? b := idx p 3 in Ok (bit b 32).
(* dataOffset = 4; if ContainsAdaptationField { dataOffset += 1 + int(packet[4]) } *)
Definition payload_start (p : bytes) : Res N :=
  let? af := contains_adaptation_field p in
  if af then let? l := idx p 4 in Ok (4 + 1 + l) else Ok 4.
(* Payload: ErrNoPayload without the payload flag; ErrInvalidPacketLength when start > 188; packet[start:] *)
Definition payload (p : bytes) : Res bytes :=
  let? has := contains_payload p in
  if negb has then Err E.NoPayload else
  let? start := payload_start p in
  if len p <? start then Err E.InvalidPacketLength else slice_from p start.
End PatPkt.

(* ------------------------------------------------------------------ psi/psi.go *)
Module PatPsi.
(* repaired: if len(psi) == 0 { return 0 }; return psi[0] *)
Definition pointer_field (psi : bytes) : Res N :=
  if len psi =? 0 then Ok 0 else idx psi 0.
(* section-relative helpers (repaired: neutral value on a too-short slice) *)
Definition table_id_sec (s : bytes) : Res N := if len s =? 0 then Ok 0 else idx s 0.
Definition section_syntax_indicator_sec (s : bytes) : Res bool :=
  if len s <? 2 then Ok false else let? b := idx s 1 in Ok (bit b 128).
(* uint16(psi[1]&3)<<8 | uint16(psi[2]) *)
Definition section_length_sec (s : bytes) : Res N :=
  if len s <? 3 then Ok 0 else
  let? b1 := idx s 1 in let? b2 := idx s 2 in Ok (N.lor (N.shiftl (N.land b1 3) 8) b2).
(* repaired: offset := 1 + int(PointerField(psi)); if offset >= len(psi) { neutral }; f(psi[offset:]) *)
Definition at_section {A} (neutral : A) (f : bytes -> Res A) (psi : bytes) : Res A :=
  let? pf := pointer_field psi in
  let offset := 1 + pf in
  if len psi <=? offset then Ok neutral else let? s := slice_from psi offset in f s.
Definition table_id (psi : bytes) : Res N := at_section 0 table_id_sec psi.
Definition section_syntax_indicator (psi : bytes) : Res bool := at_section false section_syntax_indicator_sec psi.
Definition section_length (psi : bytes) : Res N := at_section 0 section_length_sec psi.
(* offset := 2 + int(PointerField(psi)); if offset >= len(psi) { return false }; psi[offset]&0x40 != 0 *)
Definition private_indicator (psi : bytes) : Res bool :=
  let? pf := pointer_field psi in
  let offset := 2 + pf in
  if len psi <=? offset then Ok false else let? b := idx psi offset in Ok (bit b 64).

(* ---- the pinned tree (no guards; `1+PointerField(psi)` is uint8 arithmetic and wraps at 255) ---- *)
Definition pointer_field_pinned (psi : bytes) : Res N := idx psi 0.
Definition section_length_sec_pinned (s : bytes) : Res N :=
  let? b1 := idx s 1 in let? b2 := idx s 2 in Ok (N.lor (N.shiftl (N.land b1 3) 8) b2).
Definition table_id_pinned (psi : bytes) : Res N :=
  let? pf := pointer_field_pinned psi in let? s := slice_from psi (w8 (1 + pf)) in idx s 0.
Definition section_syntax_indicator_pinned (psi : bytes) : Res bool :=
  let? pf := pointer_field_pinned psi in let? s := slice_from psi (w8 (1 + pf)) in
  let? b := idx s 1 in Ok (bit b 128).
Definition private_indicator_pinned (psi : bytes) : Res bool :=
  let? pf := pointer_field_pinned psi in let? b := idx psi (w8 (2 + pf)) in Ok (bit b 64).
(* offset := int(1 + PointerField(psi)); if offset >= len(psi) { return 0 }; sectionLength(psi[offset:]) *)
Definition section_length_pinned (psi : bytes) : Res N :=
  let? pf := pointer_field_pinned psi in
  let offset := w8 (1 + pf) in
  if len psi <=? offset then Ok 0 else let? s := slice_from psi offset in section_length_sec_pinned s.
End PatPsi.

(* ------------------------------------------------------------------ psi/pat.go *)
Definition PatPid : N := 0.

(* NewPAT (repaired): len < 13 -> ErrInvalidPATLength; a 188-byte slice is treated as a TS packet and
   the PAT is built from its payload (error of packet.Payload passed on; payload re-checked >= 13) *)
Definition new_pat (b : bytes) : Res bytes :=
  if len b <? 13 then Err E.InvalidPATLength else
  if len b =? 188 then
    let? pay := PatPkt.payload b in
    if len pay <? 13 then Err E.InvalidPATLength else Ok pay
  else Ok b.
(* pinned tree: the payload of a 188-byte packet is not re-checked *)
Definition new_pat_pinned (b : bytes) : Res bytes :=
  if len b <? 13 then Err E.InvalidPATLength else
  if len b =? 188 then PatPkt.payload b else Ok b.

(* before 3223166 - NumPrograms: sectionLength := int(SectionLength(pat)), clamped to len(pat);
   (sectionLength - 2 - 1 - 1 - 1 - 4) / 4 with Go's int division (truncation towards zero) *)
Definition num_programs_with (section_length : bytes -> Res N) (pat : bytes) : Res Z :=
  let? sl := section_length pat in
  let sl := Z.of_N sl in
  let sl := if (zlen pat <? sl)%Z then zlen pat else sl in
  Ok (Z.quot (sl - 2 - 1 - 1 - 1 - 4) 4).
(* NumPrograms (3223166): sectionLength := int(SectionLength(pat));
   if avail := len(pat) - int(PointerField(pat)); avail < sectionLength { sectionLength = avail }
   (avail can be negative: all int arithmetic); (sectionLength - 2 - 1 - 1 - 1 - 4) / 4, truncating division *)
Definition num_programs (pat : bytes) : Res Z :=
  let? sl := PatPsi.section_length pat in
  let? pf := PatPsi.pointer_field pat in
  let sl := Z.of_N sl in
  let avail := (zlen pat - Z.of_N pf)%Z in
  let sl := if (avail <? sl)%Z then avail else sl in
  Ok (Z.quot (sl - 2 - 1 - 1 - 1 - 4) 4).

(* m[pn] = pid *)
Definition map_insert (k v : N) (m : list (N * N)) : list (N * N) :=
  (k, v) :: filter (fun kv => negb (fst kv =? k)) m.

(* ProgramMap: counter := 8 + int(PointerField(pat))  (before 3223166: counter := 8); for i := 0; i < NumPrograms(); i++ {
     pn := int(pat[counter+1])<<8 | int(pat[counter+2]); pid := int(pat[counter+3])&0x1f<<8 | int(pat[counter+4])
     if pn > 0 { m[pn] = pid }; counter += 4 } *)
Fixpoint program_map_loop (n : nat) (pat : bytes) (counter : N) (m : list (N * N)) : Res (list (N * N)) :=
  match n with
  | O => Ok m
  | S k =>
      let? a := idx pat (counter + 1) in
      let? b := idx pat (counter + 2) in
      let? c := idx pat (counter + 3) in
      let? d := idx pat (counter + 4) in
      let pn := N.lor (N.shiftl a 8) b in
      let pid := N.lor (N.shiftl (N.land c 31) 8) d in
      program_map_loop k pat (counter + 4) (if 0 <? pn then map_insert pn pid m else m)
  end.
Definition program_map_with (section_length : bytes -> Res N) (pat : bytes) : Res (list (N * N)) :=
  let? n := num_programs_with section_length pat in
  program_map_loop (Z.to_nat n) pat 8 [].
Definition program_map (pat : bytes) : Res (list (N * N)) :=
  let? pf := PatPsi.pointer_field pat in
  let? n := num_programs pat in
  program_map_loop (Z.to_nat n) pat (8 + pf) [].

(* SPTSpmtPID: NumPrograms() > 1 -> error; the first (only) value of ProgramMap(); none -> error.
   Both errors are errors.New values (executor code E.Other). *)
Definition spts_pmt_pid_with (section_length : bytes -> Res N) (pat : bytes) : Res N :=
  let? n := num_programs_with section_length pat in
  if (1 <? n)%Z then Err E.Other else
  let? m := program_map_with section_length pat in
  match m with
  | (_, pid) :: _ => Ok pid
  | [] => Err E.Other
  end.
Definition spts_pmt_pid (pat : bytes) : Res N :=
  let? n := num_programs pat in
  if (1 <? n)%Z then Err E.Other else
  let? m := program_map pat in
  match m with
  | (_, pid) :: _ => Ok pid
  | [] => Err E.Other
  end.

(* ReadPAT over a scripted reader: the results of the successive io.ReadFull(r, pkt[:]) calls.
   RFull p: 188 bytes were delivered; RFail e: the call failed with error e (fewer than 188 bytes).
   An exhausted script behaves like io.EOF.  io.EOF / io.ErrUnexpectedEOF end the search with
   ErrPATNotFound, any other reader error is returned as it is. *)
Inductive read_result : Type := RFull (p : bytes) | RFail (e : N).
Fixpoint read_pat (script : list read_result) : Res bytes :=
  match script with
  | [] => Err E.PATNotFound
  | RFail e :: _ => if (e =? E.EOF) || (e =? E.UnexpectedEOF) then Err E.PATNotFound else Err e
  | RFull pkt :: rest =>
      let? isp := PatPkt.is_pat pkt in
      if isp then
        let? pay := PatPkt.payload pkt in
        new_pat pay            (* NewPAT(cp), cp a copy of the payload *)
      else read_pat rest
  end.

(* psi/pmt.go IsPMT(pkt, pat): nil PAT -> ErrNilPAT; true iff the packet's PID is a value of ProgramMap() *)
Definition is_pmt (pkt : bytes) (pat : option bytes) : Res bool :=
  match pat with
  | None => Err E.NilPAT
  | Some p =>
      let? m := program_map p in
      let? x := PatPkt.pid pkt in
      Ok (existsb (fun kv => snd kv =? x) m)
  end.

(* the accessors of the pinned tree (for the F11 witnesses) *)
Definition num_programs_pinned := num_programs_with PatPsi.section_length_pinned.
Definition program_map_pinned := program_map_with PatPsi.section_length_pinned.
Definition spts_pmt_pid_pinned := spts_pmt_pid_with PatPsi.section_length_pinned.

End Pat.
