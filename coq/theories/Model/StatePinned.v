(* MODEL of the three places of /repo/scte35/state.go AS PINNED (before the F10 repairs of
   notes/candidate-fixes.patch), for the refutation witnesses of Properties/C10.v only:
     - the VSS branch of the duplicate scan sets `descAdded = true` without storing the descriptor,
     - nothing resets inBlackout when the close loop closes the breakaway itself,
     - Close does not touch blackoutIdx / inBlackout.
   Everything else is shared with Model/State.v (close loop, validation, ring write, Open).
   Under the cap = len convention `s.open[0:s.blackoutIdx]` with a stale index is Panic here; in Go it
   re-slices within cap and brings closed descriptors back (observed by goexec, see notes/findings/C10.md).
   Nothing here is extracted or used by the executors: bin/check ties Model/State.v (the repaired code) to
   the tree, and on the pinned tree reports these very histories as violations. *)
From Gots Require Import Base.Prelude Model.SegDesc Model.State.

Module StatePinned.
Import SegDesc State.

Fixpoint scan_descs (desc : desc) (same : bool) (ds : list SegDesc.desc) (napp : nat) (added : bool)
  : nat * bool * option N :=
  match ds with
  | [] => (napp, added, None)
  | d :: t =>
    if same && Equal desc d then (napp, added, Some E.SCTE35DuplicateDescriptor) else
    let napp1 := if same then S napp else napp in
    let added1 := if same then true else added in
    if (event desc =? event d) && (ty d =? 0x40) && (ty desc =? 0x40) then
      match StreamSwitchSignalId desc with
      | None => (napp1, added1, Some E.VSSSignalIdNotFound)
      | Some s1 =>
        match StreamSwitchSignalId d with
        | None => (napp1, added1, Some E.VSSSignalIdNotFound)
        | Some s2 =>
          if (s1 =? s2) && (event d =? event desc) then (napp1, added1, Some E.SCTE35DuplicateDescriptor)
          else scan_descs desc same t napp1 true          (* pinned: descAdded = true *)
        end
      end
    else scan_descs desc same t napp1 added1
  end.

Fixpoint scan_ring (desc : desc) (pts : N) (ring : list (option elem)) (added : bool)
  : list (option elem) * bool * option N :=
  match ring with
  | [] => ([], added, None)
  | None :: t => let '(t', a, r) := scan_ring desc pts t added in (None :: t', a, r)
  | Some e :: t =>
    let '(napp, a1, r1) := scan_descs desc (epts e =? pts) (edescs e) 0 added in
    let e' := mkElem (epts e) (edescs e ++ repeat desc napp) in
    match r1 with
    | Some err => (Some e' :: t, a1, Some err)
    | None => let '(t', a, r) := scan_ring desc pts t a1 in (Some e' :: t', a, r)
    end
  end.

Definition ProcessDescriptor (s : state) (desc : desc) : Res (state * (list SegDesc.desc * option N)) :=
  if negb (haspts desc) then Ok (s, ([], Some E.SCTE35UnsupportedSpliceCommand)) else
  let pts := ptsv desc in
  let '(ring1, descAdded, early) := scan_ring desc pts (received s) false in
  match early with
  | Some err => Ok (mkState (open s) ring1 (receivedHead s) (blackoutIdx s) (inBlackout s), ([], Some err))
  | None =>
    let? (ring2, head2) :=
      if descAdded then Ok (ring1, receivedHead s)
      else if (receivedHead s <? length ring1)%nat
           then Ok (set_nth ring1 (receivedHead s) (Some (mkElem pts [desc])),
                    ((receivedHead s + 1) mod receivedRingLen)%nat)
           else Panic in
    let closed := close_loop desc (rev (open s)) in
    let open1 := firstn (length (open s) - length closed) (open s) in
    let inb1 := inBlackout s in                                  (* pinned: no reset *)
    let bidx := blackoutIdx s in
    if ty desc =? 0x13 then
      Ok (mkState (open1 ++ [desc]) ring2 head2 (length open1) true, (closed, None))
    else if ty desc =? 0x14 then
      if inb1 then
        if (bidx <=? length open1)%nat
        then Ok (mkState (firstn bidx open1 ++ [desc]) ring2 head2 bidx false, (closed, None))
        else Panic
      else Ok (mkState (open1 ++ [desc]) ring2 head2 bidx inb1, (closed, Some E.SCTE35InvalidDescriptor))
    else if out_case (ty desc) then
      Ok (mkState (open1 ++ [desc]) ring2 head2 bidx inb1, (closed, None))
    else if ty desc =? 0x11 then
      Ok (mkState open1 ring2 head2 bidx inb1, (closed, if is_nil closed then Some E.SCTE35MissingOut else None))
    else if in_case (ty desc) then
      Ok (mkState open1 ring2 head2 bidx inb1, (closed, validate_in desc closed open1))
    else Ok (mkState open1 ring2 head2 bidx inb1, (closed, None))
  end.

Definition Close (s : state) (desc : desc) : state * (list SegDesc.desc * option N) :=
  match find_last_equal desc (open s) with
  | None => (s, ([], Some E.SCTE35DescriptorNotFound))
  | Some i =>
    let d := nth i (open s) desc in
    (mkState (firstn i (open s) ++ skipn (S i) (open s)) (received s) (receivedHead s)
             (blackoutIdx s) (inBlackout s), ([d], None))          (* pinned: flags untouched *)
  end.

Definition step (pool : list desc) (s : state) (c : call) : Res (state * obs) :=
  match c with
  | CProcess i =>
    match nth_error pool i with
    | None => Err E.Other
    | Some d =>
      let? (s', (closed, err)) := ProcessDescriptor s d in
      Ok (s', mkObs (ids closed) (errn err) (rmap ids (Open s')))
    end
  | CClose i =>
    match nth_error pool i with
    | None => Err E.Other
    | Some d =>
      let '(s', (closed, err)) := Close s d in
      Ok (s', mkObs (ids closed) (errn err) (rmap ids (Open s')))
    end
  | COpen => Ok (s, mkObs [] 0 (rmap ids (Open s)))
  end.

Fixpoint run (pool : list desc) (s : state) (cs : list call) : list (option obs) :=
  match cs with
  | [] => []
  | c :: t =>
    match step pool s c with
    | Ok (s', o) => match o_open o with Ok _ => Some o :: run pool s' t | _ => [Some o] end
    | _ => [None]
    end
  end.

End StatePinned.
