(* Model of /repo/packet/adaptationfield/adaptationfield.go : the function-style accessors on a
   *packet.Packet (a *[188]byte), as in /root/work/repo-fixed.  None of them checks that the packet has an
   adaptation field (except EncoderBoundaryPoint).  TransportPrivateData is the guarded version of
   c05-guards.patch (int arithmetic, ErrInvalidPacketLength when the data would run past the packet); the
   pinned tree computed `pkt[uint8(offset) : uint8(offset)+dataLength]` with uint8 wrap-around and panicked. *)
From Gots Require Import Base.Prelude.
Module AFfn.
Definition Length (p : bytes) : N := nthN p 4.
Definition IsDiscontinuous (p : bytes) : bool := bit (nthN p 5) 128.
Definition IsRandomAccess (p : bytes) : bool := bit (nthN p 5) 64.
Definition IsESHigherPriority (p : bytes) : bool := bit (nthN p 5) 32.
Definition HasPCR (p : bytes) : bool := bit (nthN p 5) 16.
Definition HasOPCR (p : bytes) : bool := bit (nthN p 5) 8.
Definition HasSplicingPoint (p : bytes) : bool := bit (nthN p 5) 4.
Definition HasTransportPrivateData (p : bytes) : bool := bit (nthN p 5) 2.
Definition HasAdaptationFieldExtension (p : bytes) : bool := bit (nthN p 5) 1.

Definition PCR (p : bytes) : Res bytes :=
  if negb (HasPCR p) then Err E.NoPCR else slice p 6 12.
Definition opcr_offset (p : bytes) : N := 6 + (if HasPCR p then 6 else 0).
Definition OPCR (p : bytes) : Res bytes :=
  if negb (HasOPCR p) then Err E.NoOPCR else
  let offset := opcr_offset p in slice p offset (offset + 6).
Definition splice_offset (p : bytes) : N := opcr_offset p + (if HasOPCR p then 6 else 0).
Definition SpliceCountdown (p : bytes) : Res N :=
  if negb (HasSplicingPoint p) then Err E.NoSplicePoint else
  Ok (nthN p (splice_offset p)).                 (* offset <= 18 *)
Definition tpd_offset (p : bytes) : N := splice_offset p + (if HasSplicingPoint p then 1 else 0).
Definition TransportPrivateData (p : bytes) : Res bytes :=
  if negb (HasTransportPrivateData p) then Err E.NoPrivateTransportData else
  let offset := tpd_offset p in
  let dataLength := nthN p offset in             (* offset <= 19 *)
  let offset := offset + 1 in
  if 188 <? offset + dataLength then Err E.InvalidPacketLength else
  slice p offset (offset + dataLength).
(* packet.ContainsAdaptationField(pkt) && Length(pkt) > 0 && HasTransportPrivateData(pkt) *)
Definition EncoderBoundaryPoint (p : bytes) : Res bytes :=
  if bit (nthN p 3) 32 && (0 <? Length p) && HasTransportPrivateData p
  then TransportPrivateData p else Err E.NoEBP.
End AFfn.
