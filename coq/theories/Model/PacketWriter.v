(* Model of /repo/packet/packetwriter.go : packetWriter.Write and ReadFrom, the adapters
   IOWriter / IOWriteCloser / NopCloser / PacketWriterFunc being plain delegation.
   ReadFrom is the REPAIRED code (/repo commit 2f35340: a fill loop that reads until one packet
   is complete or the reader fails, instead of a single Read per packet; defect F2).

   ORACLES (never axioms; contracts restated next to the theorems in Properties/C18.v):
   - wrapped packet writer  w : call index -> packet bytes -> (n, err)   (`wfun`);
     the model records the packets it is called with, in order (`calls`).
   - reader: a finite script of results (chunk, optional error) (`rstate`).  A Read(p) call
     delivers the next chunk, or only its first len(p) bytes when it does not fit (the rest stays
     for the next call, with the chunk's error); an error is returned together with the last
     bytes of its chunk and is STICKY: every later Read returns (0, that error); when the script
     is exhausted every Read returns (0, io.EOF).  Chunks may be empty ((0, nil) reads). *)
From Gots Require Import Base.Prelude.
Module PacketWriter.

Definition PacketSize : nat := 188.
Definition ErrShortWrite : N := 52.        (* io.ErrShortWrite; local numbering, see goexec/io.go ioErrCode *)

Definition wfun : Type := nat -> bytes -> (Z * option N).

(* ------------------------------------------------------------------ Write *)
(* for i := 0; i < len(p); i += PacketSize { copy(pw.pkt[:], p[i:]); m, err := pw.WritePacket(&pw.pkt) .. }
   state: pkt = pw.pkt, n, k = number of WritePacket calls so far, calls = packets delivered *)
Fixpoint write_loop (fuel : nat) (w : wfun) (p : bytes) (i : N) (pkt : bytes) (n : Z) (k : nat)
         (calls : list bytes) : Res (Z * option N * list bytes) :=
  match fuel with
  | O => Diverge
  | S f =>
    if i <? len p then
      let? src := slice_from p i in
      let pkt' := blit pkt 0 src in
      let (m, e) := w k pkt' in
      match e with
      | None => write_loop f w p (i + 188) pkt' (n + m) (S k) (calls ++ [pkt'])
      | Some e => Ok ((n + m)%Z, Some e, calls ++ [pkt'])
      end
    else Ok (n, if (n <? zlen p)%Z then Some ErrShortWrite else None, calls)
  end.

(* func (pw *packetWriter) Write(p []byte) (n int, err error); pkt = pw.pkt before the call *)
Definition write (w : wfun) (pkt : bytes) (p : bytes) : Res (Z * option N * list bytes) :=
  if negb (len p mod 188 =? 0) then Ok (0%Z, Some E.InvalidPacketLength, [])
  else write_loop (S (length p)) w p 0 pkt 0%Z O [].

(* ------------------------------------------------------------------ reader oracle *)
Definition script : Type := list (bytes * option N).
Inductive rstate : Type := Script (s : script) | Failed (e : N).

(* r.Read(p) with len(p) = k > 0 *)
Definition rd_read (st : rstate) (k : nat) : (bytes * option N) * rstate :=
  match st with
  | Failed e => (([], Some e), Failed e)
  | Script [] => (([], Some E.EOF), Failed E.EOF)
  | Script ((c, oe) :: s') =>
    if (length c <=? k)%nat then
      ((c, oe), match oe with Some e => Failed e | None => Script s' end)
    else ((firstn k c, None), Script ((skipn k c, oe) :: s'))
  end.

(* fuel for the read loops: every Read call consumes a script element or at least one byte *)
Definition weight (st : rstate) : nat :=
  match st with
  | Failed _ => O
  | Script s => S (fold_right (fun ce acc => S (length (fst ce)) + acc)%nat O s)
  end.

(* the fill loop of the repaired ReadFrom (len(buf) = 188):
     nr := 0; var er error
     for nr < PacketSize && er == nil { k, er = r.Read(buf[nr:]); nr += k }
   acc = buf[:nr].  Every Read consumes a script element or at least one byte, so weight + 2
   iterations suffice for a FINITE script; a reader that returns (0, nil) for ever makes this loop
   (like io.ReadFull) spin: such a reader is outside the script oracle. *)
Fixpoint fill_packet (fuel : nat) (st : rstate) (acc : bytes) (err : option N)
  : Res (bytes * option N * rstate) :=
  match fuel with
  | O => Diverge
  | S f =>
    match err with
    | None =>
      if (length acc <? PacketSize)%nat then
        let '((c, oe), st') := rd_read st (PacketSize - length acc) in
        fill_packet f st' (acc ++ c) oe
      else Ok (acc, None, st)
    | Some e => Ok (acc, Some e, st)
    end
  end.
Definition fill_one (st : rstate) : Res (bytes * option N * rstate) :=
  fill_packet (weight st + 2) st [] None.

(* ------------------------------------------------------------------ ReadFrom (repaired) *)
(*  buf := pw.pkt[:]
    for {
      nr := 0; var er error
      for nr < PacketSize && er == nil { var k int; k, er = r.Read(buf[nr:]); nr += k }
      if nr == PacketSize {
        nw, ew := pw.WritePacket(&pw.pkt)
        if nw > 0 { n += int64(nw) }
        if ew != nil { err = ew; break }
        if nr != nw { err = io.ErrShortWrite; break }
      } else if nr > 0 && nr != PacketSize { err = gots.ErrInvalidPacketLength }
      if er != nil { if er != io.EOF { err = er }; break }
    }
    return n, err *)
Fixpoint rf_loop (fuel : nat) (w : wfun) (st : rstate) (pkt : bytes) (n : Z) (err : option N)
         (k : nat) (calls : list bytes) : Res (Z * option N * list bytes) :=
  match fuel with
  | O => Diverge
  | S f =>
    let? (data, er, st') := fill_one st in
    let pkt' := blit pkt 0 data in
    let nr := length data in
    let finish (n : Z) (err : option N) (k : nat) (calls : list bytes) :=
      match er with
      | Some e => Ok (n, if e =? E.EOF then err else Some e, calls)
      | None => rf_loop f w st' pkt' n err k calls
      end in
    if (nr =? PacketSize)%nat then
      let (nw, ew) := w k pkt' in
      let n' := if (0 <? nw)%Z then (n + nw)%Z else n in
      let calls' := calls ++ [pkt'] in
      match ew with
      | Some e => Ok (n', Some e, calls')
      | None =>
        if negb (nw =? 188)%Z then Ok (n', Some ErrShortWrite, calls')
        else finish n' err (S k) calls'
      end
    else finish n (if (0 <? nr)%nat then Some E.InvalidPacketLength else err) k calls
  end.

(* data the script can still deliver (everything up to and including the first chunk that
   carries an error); used only to size the fuel *)
Fixpoint script_len (s : script) : nat :=
  match s with
  | [] => O
  | (c, None) :: s' => length c + script_len s'
  | (c, Some _) :: _ => length c
  end.

Definition read_from (w : wfun) (pkt : bytes) (s : script) : Res (Z * option N * list bytes) :=
  rf_loop (S (script_len s)) w (Script s) pkt 0%Z None O [].

Definition pkt0 : bytes := repeat 0 PacketSize.

(* ---- ReadFrom as pinned in /repo BEFORE the repair of F2: one r.Read(buf) per iteration.
   Kept only to state the defect (Properties/C18.v C18_F2_pinned_refuted); no op uses it. *)
Fixpoint rf_loop_pinned (fuel : nat) (w : wfun) (st : rstate) (pkt : bytes) (n : Z) (err : option N)
         (k : nat) (calls : list bytes) : Res (Z * option N * list bytes) :=
  match fuel with
  | O => Diverge
  | S f =>
    let '((data, er), st') := rd_read st PacketSize in
    let pkt' := blit pkt 0 data in
    let nr := length data in
    let finish (n : Z) (err : option N) (k : nat) (calls : list bytes) :=
      match er with
      | Some e => Ok (n, if e =? E.EOF then err else Some e, calls)
      | None => rf_loop_pinned f w st' pkt' n err k calls
      end in
    if (nr =? PacketSize)%nat then
      let (nw, ew) := w k pkt' in
      let n' := if (0 <? nw)%Z then (n + nw)%Z else n in
      let calls' := calls ++ [pkt'] in
      match ew with
      | Some e => Ok (n', Some e, calls')
      | None =>
        if negb (nw =? 188)%Z then Ok (n', Some ErrShortWrite, calls')
        else finish n' err (S k) calls'
      end
    else finish n (if (0 <? nr)%nat then Some E.InvalidPacketLength else err) k calls
  end.
Definition read_from_pinned (w : wfun) (pkt : bytes) (s : script) : Res (Z * option N * list bytes) :=
  rf_loop_pinned (weight (Script s) + 1) w (Script s) pkt 0%Z None O [].   (* the zero pw.pkt of a fresh IOWriter *)

(* ---- the small adapters ----
   PacketWriterFunc(f).WritePacket(p) = f(p): the adapter is the function itself (call index k as in wfun).
   NopCloser(w): WritePacket is w's, Close() returns nil.  IOWriter(w) = &packetWriter{NopCloser(w)};
   IOWriteCloser(wc) = &packetWriter{wc}: Write / ReadFrom above go to wc.WritePacket, Close() is wc's own
   (promoted through the embedded interface).  A closer is modelled by the error its Close returns. *)
Definition packet_writer_func (f : wfun) : wfun := f.
Definition nop_closer_write (w : wfun) : wfun := w.
Definition nop_closer_close : option N := None.
Definition io_writer_close : option N := nop_closer_close.
Definition io_write_closer_close (close_result : option N) : option N := close_result.

End PacketWriter.
