(* Base conventions shared by every Model / Spec file (DESIGN.md section 3). *)
From Coq Require Export List NArith ZArith Bool Lia ZifyN ZifyNat ZifyBool.
Export ListNotations.
Global Ltac Zify.zify_post_hook ::= Z.div_mod_to_equations.
Open Scope N_scope.

(* ---- machine words: every Go operation that can wrap is wrapped explicitly ---- *)
Definition w8  (x : N) : N := x mod 256.
Definition w16 (x : N) : N := x mod 65536.
Definition w32 (x : N) : N := x mod 4294967296.
Definition w64 (x : N) : N := x mod 18446744073709551616.
(* unsigned subtraction a - b in k-bit arithmetic *)
Definition sub8  (a b : N) : N := w8  (a + 256 - w8 b).
Definition sub16 (a b : N) : N := w16 (a + 65536 - w16 b).
Definition sub64 (a b : N) : N := w64 (a + 18446744073709551616 - w64 b).

(* ---- results: value, library error (numbered as in errors.go), panic, non-termination ---- *)
Inductive Res (A : Type) : Type :=
| Ok (a : A) | Err (e : N) | Panic | Diverge.
Arguments Ok {A} a. Arguments Err {A} e. Arguments Panic {A}. Arguments Diverge {A}.

Definition bind {A B} (r : Res A) (f : A -> Res B) : Res B :=
  match r with Ok a => f a | Err e => Err e | Panic => Panic | Diverge => Diverge end.
Notation "'let?' x := r 'in' k" := (bind r (fun x => k))
  (at level 200, x pattern, r at level 100, k at level 200, right associativity).
Definition rmap {A B} (f : A -> B) (r : Res A) : Res B := bind r (fun a => Ok (f a)).

(* ---- bytes ---- *)
Definition bytes := list N.
Definition is_byte (b : N) : Prop := b < 256.
Definition is_bytes (l : bytes) : Prop := Forall is_byte l.
Definition is_byteb (b : N) : bool := b <? 256.
Definition is_bytesb (l : bytes) : bool := forallb is_byteb l.
Definition len {A} (l : list A) : N := N.of_nat (length l).
Definition zlen {A} (l : list A) : Z := Z.of_nat (length l).

(* b[i] : panics when out of range, like Go *)
Definition idx (l : bytes) (i : N) : Res N :=
  match nth_error l (N.to_nat i) with Some x => Ok x | None => Panic end.
(* b[i] with default 0 for proofs where the range is established *)
Definition nthN (l : bytes) (i : N) : N := nth (N.to_nat i) l 0.
(* b[i:j] : panics unless i <= j <= len (cap = len assumed, DESIGN section 3) *)
Definition slice (l : bytes) (i j : N) : Res bytes :=
  if (i <=? j) && (j <=? len l) then Ok (firstn (N.to_nat (j - i)) (skipn (N.to_nat i) l)) else Panic.
Definition slice_from (l : bytes) (i : N) : Res bytes := slice l i (len l).
Definition takeN {A} (n : N) (l : list A) : list A := firstn (N.to_nat n) l.
Definition dropN {A} (n : N) (l : list A) : list A := skipn (N.to_nat n) l.
(* l[i] = v (no-op when out of range; callers check the range first) *)
Fixpoint upd_nat (l : bytes) (i : nat) (v : N) : bytes :=
  match l, i with
  | [], _ => []
  | _ :: t, O => v :: t
  | h :: t, S k => h :: upd_nat t k v
  end.
Definition upd (l : bytes) (i : N) (v : N) : bytes := upd_nat l (N.to_nat i) v.
Definition set_idx (l : bytes) (i : N) (v : N) : Res bytes :=
  if i <? len l then Ok (upd l i v) else Panic.
(* copy(dst[i:], src) restricted to what fits *)
Fixpoint blit_nat (dst : bytes) (i : nat) (src : bytes) : bytes :=
  match dst, i with
  | [], _ => []
  | d :: t, S k => d :: blit_nat t k src
  | d :: t, O => match src with [] => d :: t | s :: ss => s :: blit_nat t O ss end
  end.
Definition blit (dst : bytes) (i : N) (src : bytes) : bytes := blit_nat dst (N.to_nat i) src.
Definition repeatN {A} (x : A) (n : N) : list A := repeat x (N.to_nat n).

Definition bit (x : N) (mask : N) : bool := negb (N.land x mask =? 0).
Definition b2n (b : bool) : N := if b then 1 else 0.

(* big-endian assembly *)
Definition be16 (a b : N) : N := a * 256 + b.
Definition be32 (a b c d : N) : N := ((a * 256 + b) * 256 + c) * 256 + d.
Definition to_be32 (x : N) : bytes :=
  [ (x / 16777216) mod 256; (x / 65536) mod 256; (x / 256) mod 256; x mod 256 ].
Definition to_be16 (x : N) : bytes := [ (x / 256) mod 256; x mod 256 ].

(* ---- values exchanged with the executors (Appendix A of DESIGN.md) ---- *)
Inductive val : Type :=
| VI (z : Z)            (* integer, decimal on the wire *)
| VB (b : bytes)        (* byte string, x<hex> on the wire *)
| VL (l : list val).    (* list, [ ... ] on the wire *)

Definition vn (n : N) : val := VI (Z.of_N n).
Definition vbool (b : bool) : val := VI (if b then 1 else 0)%Z.
Definition vres {A} (f : A -> val) (r : Res A) : val :=
  match r with
  | Ok a => VL [VI 0%Z; f a]
  | Err e => VL [VI 1%Z; vn e]
  | Panic => VL [VI 2%Z]
  | Diverge => VL [VI 3%Z]
  end.
Definition vbad : val := VL [VI (-9999)%Z].   (* executor called with malformed arguments *)
Definition vopt {A} (f : A -> val) (o : option A) : val :=
  match o with Some a => VL [f a] | None => VL [] end.

(* ---- error numbering (mirrors /repo/errors.go; goexec uses the same table) ---- *)
Module E.
Definition BadSyncByte := 1. Definition UnrecognizedEbpType := 2. Definition NoEBP := 3.
Definition NoEBPData := 4. Definition InvalidEBPLength := 5. Definition InvalidPacketLength := 6.
Definition InvalidTSCFlag := 7. Definition InvalidAFCFlag := 8. Definition NoPayload := 9.
Definition NoAdaptationField := 10. Definition AdaptationFieldTooLarge := 11.
Definition AdaptationFieldCannotGrow := 12. Definition AdaptationFieldZeroLength := 13.
Definition NoPrivateTransportData := 14. Definition NoSplicePoint := 15. Definition NoPCR := 16.
Definition NoOPCR := 17. Definition NoAdaptationFieldExtension := 18. Definition PATNotFound := 19.
Definition PMTNotFound := 20. Definition PMTParse := 21. Definition ParsePMTDescriptor := 22.
Definition InvalidPATLength := 23. Definition NoPayloadUnitStartIndicator := 24.
Definition UnknownTableID := 25. Definition ShortPayload := 26. Definition InvalidSCTE35Length := 27.
Definition SCTE35EncryptionUnsupported := 28. Definition SCTE35UnsupportedSpliceCommand := 29.
Definition SCTE35InvalidDescriptorID := 30. Definition SCTE35DuplicateDescriptor := 31.
Definition SCTE35InvalidDescriptor := 32. Definition SCTE35MissingOut := 33.
Definition SCTE35DescriptorNotFound := 34. Definition NilPAT := 35. Definition SyncByteNotFound := 36.
Definition VSSSignalIdNotFound := 37. Definition PIDNotInPMT := 38. Definition AccumulatorDone := 39.
Definition AccumulatorInvalidState := 40.
Definition EOF := 50. Definition UnexpectedEOF := 51. Definition Other := 99.
End E.
