(* Generic lemmas used by the codec proofs (C04, C11, C13): disjoint lor as +, masks as mod,
   finite sweeps over N ranges, list surgery for fixed-size prefixes. *)
From Gots Require Import Base.Prelude.
Local Open Scope N_scope.

(* ---- bit slicing ---- *)
Lemma lor_shiftl_add a b k : b < 2^k -> N.lor (N.shiftl a k) b = a * 2^k + b.
Proof. intros H. rewrite <- N.shiftl_mul_pow2. rewrite <- N.lxor_lor, <- N.add_nocarry_lxor; try reflexivity;
  apply N.bits_inj; intro n; rewrite N.land_spec, N.bits_0;
  (destruct (N.lt_ge_cases n k) as [Hn|Hn];
   [rewrite N.shiftl_spec_low by assumption; reflexivity|
    replace (N.testbit b n) with false; [apply andb_false_r|];
    symmetry; destruct (N.eq_dec b 0) as [->|Hb]; [apply N.bits_0|];
    apply N.bits_above_log2; apply N.log2_lt_pow2; [lia|];
    eapply N.lt_le_trans; [exact H|]; apply N.pow_le_mono_r; lia]). Qed.

Lemma lor_mult_add a b k : a mod 2^k = 0 -> b < 2^k -> N.lor a b = a + b.
Proof. intros Ha Hb. assert (E: a = N.shiftl (a / 2^k) k).
  { rewrite N.shiftl_mul_pow2. pose proof (N.div_mod a (2^k)) as D.
    assert (2^k <> 0) by (apply N.pow_nonzero; lia). specialize (D H). rewrite Ha in D. lia. }
  rewrite E at 1. rewrite lor_shiftl_add by assumption. rewrite <- N.shiftl_mul_pow2, <- E. reflexivity. Qed.

Lemma land1 x : N.land x 1 = x mod 2. Proof. change 1 with (N.ones 1). apply N.land_ones. Qed.
Lemma land7 x : N.land x 7 = x mod 8. Proof. change 7 with (N.ones 3). apply N.land_ones. Qed.
Lemma land15 x : N.land x 15 = x mod 16. Proof. change 15 with (N.ones 4). apply N.land_ones. Qed.
Lemma land127 x : N.land x 127 = x mod 128. Proof. change 127 with (N.ones 7). apply N.land_ones. Qed.
Lemma land255 x : N.land x 255 = x mod 256. Proof. change 255 with (N.ones 8). apply N.land_ones. Qed.
Lemma land511 x : N.land x 511 = x mod 512. Proof. change 511 with (N.ones 9). apply N.land_ones. Qed.

Lemma land_lxor_distr_l a b c : N.land (N.lxor a b) c = N.lxor (N.land a c) (N.land b c).
Proof. apply N.bits_inj; intro n. rewrite !N.land_spec, !N.lxor_spec, !N.land_spec.
  destruct (N.testbit a n), (N.testbit b n), (N.testbit c n); reflexivity. Qed.

(* ---- finite sweeps over an N range ---- *)
Fixpoint nseq (k : N) (n : nat) : list N := match n with O => [] | S m => k :: nseq (k + 1) m end.
Lemma in_nseq n : forall k x, k <= x < k + N.of_nat n -> In x (nseq k n).
Proof. induction n as [|n IH]; intros k x H; [lia|]. cbn [nseq].
  destruct (N.eq_dec x k) as [->|Hne]; [left; reflexivity|right; apply IH; lia]. Qed.
Lemma sweep (P : N -> bool) (n : nat) : forallb P (nseq 0 n) = true -> forall x, x < N.of_nat n -> P x = true.
Proof. intros H x Hx. rewrite forallb_forall in H. apply H. apply in_nseq. lia. Qed.

(* ---- lists with a fixed-size prefix ---- *)
Lemma list_ge5 {A} (l : list A) : (5 <= length l)%nat ->
  exists a b c d e rest, l = a :: b :: c :: d :: e :: rest.
Proof. destruct l as [|a [|b [|c [|d [|e rest]]]]]; cbn [length]; intro H; try lia.
  exists a, b, c, d, e, rest. reflexivity. Qed.
Lemma list_ge6 {A} (l : list A) : (6 <= length l)%nat ->
  exists a b c d e f rest, l = a :: b :: c :: d :: e :: f :: rest.
Proof. destruct l as [|a [|b [|c [|d [|e [|f rest]]]]]]; cbn [length]; intro H; try lia.
  exists a, b, c, d, e, f, rest. reflexivity. Qed.

Lemma len_cons {A} (x : A) l : len (x :: l) = len l + 1.
Proof. unfold len. cbn [length]. lia. Qed.
Lemma len_nil {A} : len (@nil A) = 0. Proof. reflexivity. Qed.
Lemma len_app {A} (a b : list A) : len (a ++ b) = len a + len b.
Proof. unfold len. rewrite app_length. lia. Qed.

(* ---- reading inside concatenations ---- *)
Lemma skipn_len_app {A} (pre post : list A) : skipn (N.to_nat (len pre)) (pre ++ post) = post.
Proof. unfold len. rewrite Nat2N.id. induction pre as [|x pre IH]; [reflexivity|]. cbn [length skipn app]. exact IH. Qed.
Lemma firstn_len_app {A} (pre post : list A) : firstn (N.to_nat (len pre)) (pre ++ post) = pre.
Proof. unfold len. rewrite Nat2N.id. induction pre as [|x pre IH]; [reflexivity|]. cbn [length firstn app]. f_equal. exact IH. Qed.
Lemma slice_from_app (pre post : bytes) i : i = len pre -> slice_from (pre ++ post) i = Ok post.
Proof. intros ->. unfold slice_from, slice. rewrite len_app.
  assert (E1: (len pre <=? len pre + len post) = true) by (apply N.leb_le; lia).
  assert (E2: (len pre + len post <=? len pre + len post) = true) by (apply N.leb_le; lia).
  rewrite E1, E2. cbn [andb]. rewrite skipn_len_app. f_equal.
  replace (len pre + len post - len pre) with (len post) by lia.
  rewrite <- (app_nil_r post) at 2. apply firstn_len_app. Qed.
Lemma slice_mid (pre mid post : bytes) i j : i = len pre -> j = i + len mid ->
  slice (pre ++ mid ++ post) i j = Ok mid.
Proof. intros -> ->. unfold slice. rewrite !len_app.
  assert (E1: (len pre <=? len pre + len mid) = true) by (apply N.leb_le; lia).
  assert (E2: (len pre + len mid <=? len pre + (len mid + len post)) = true) by (apply N.leb_le; lia).
  rewrite E1, E2. cbn [andb]. rewrite skipn_len_app. f_equal.
  replace (len pre + len mid - len pre) with (len mid) by lia. apply firstn_len_app. Qed.
Lemma dropN_len_app {A} (pre post : list A) i : i = len pre -> dropN i (pre ++ post) = post.
Proof. intros ->. apply skipn_len_app. Qed.
Lemma takeN_len_app {A} (pre post : list A) i : i = len pre -> takeN i (pre ++ post) = pre.
Proof. intros ->. apply firstn_len_app. Qed.

(* testing one bit through a mask *)
Lemma land_pow2' r n : N.land r (2 ^ n) = if N.testbit r n then 2 ^ n else 0.
Proof. apply N.bits_inj; intro m. rewrite N.land_spec, N.pow2_bits_eqb.
  destruct (N.eqb_spec n m) as [->|Hne].
  - destruct (N.testbit r m); [rewrite N.pow2_bits_true; reflexivity | rewrite N.bits_0; reflexivity].
  - rewrite andb_false_r. destruct (N.testbit r n); [|rewrite N.bits_0; reflexivity].
    rewrite N.pow2_bits_eqb. symmetry. apply N.eqb_neq. exact Hne. Qed.
Lemma mask_test r n : negb (N.land r (2 ^ n) =? 0) = N.testbit r n.
Proof. rewrite land_pow2'. destruct (N.testbit r n); [|reflexivity].
  assert (2 ^ n <> 0) by (apply N.pow_nonzero; lia). destruct (N.eqb_spec (2 ^ n) 0); [contradiction|reflexivity]. Qed.
