(* N-indexed ranges for finite sweeps (never `seq` on nat with thousands of elements) and lifting lemmas. *)
From Gots Require Import Base.Prelude.

Fixpoint nrange_from (n : nat) (start : N) : list N :=
  match n with O => [] | S k => start :: nrange_from k (start + 1) end.

Lemma in_nrange_from : forall n s x, s <= x -> x < s + N.of_nat n -> In x (nrange_from n s).
Proof.
  induction n; intros s x H1 H2; simpl in *.
  - lia.
  - destruct (N.eq_dec s x) as [->|Hne]; [now left|right].
    apply IHn; lia.
Qed.

Definition types256 : list N := nrange_from 256 0.
Lemma in_types256 : forall x, x < 256 -> In x types256.
Proof. intros x H. apply in_nrange_from; simpl; lia. Qed.

Lemma existsb_eqb_in : forall (t : N) l, existsb (N.eqb t) l = true <-> In t l.
Proof.
  intros t l. rewrite existsb_exists. split.
  - intros [x [Hi He]]. apply N.eqb_eq in He. now subst.
  - intros Hi. exists t. split; [assumption|apply N.eqb_refl].
Qed.
