(* Generic list / byte lemmas used by the packet proofs (C01, C02): nthN, upd, blit, slices,
   N-indexed ranges and the lifting of finite sweeps. *)
From Gots Require Import Base.Prelude.
Local Open Scope N_scope.

(* ---- packets ---- *)
Definition is_pkt (p : bytes) : Prop := length p = 188%nat /\ is_bytes p.

(* ---- N-indexed ranges and sweeps ---- *)
Fixpoint nrange (fuel : nat) (s : N) : list N :=
  match fuel with O => [] | S f => s :: nrange f (N.succ s) end.
Lemma nrange_in fuel s x : s <= x < s + N.of_nat fuel -> In x (nrange fuel s).
Proof.
  revert s; induction fuel as [|f IH]; intros s H; cbn; [lia|].
  destruct (N.eq_dec s x); [left; assumption|right; apply IH; lia].
Qed.
Definition sweep1 (n : nat) (P : N -> bool) : bool := forallb P (nrange n 0).
Definition sweep2 (n m : nat) (P : N -> N -> bool) : bool :=
  forallb (fun a => forallb (P a) (nrange m 0)) (nrange n 0).
Lemma sweep1_ok n P : sweep1 n P = true -> forall a, a < N.of_nat n -> P a = true.
Proof.
  unfold sweep1; intros S a Ha. rewrite forallb_forall in S. apply S, nrange_in. lia.
Qed.
Lemma sweep2_ok n m P : sweep2 n m P = true ->
  forall a b, a < N.of_nat n -> b < N.of_nat m -> P a b = true.
Proof.
  unfold sweep2; intros S a b Ha Hb. rewrite forallb_forall in S.
  specialize (S a (nrange_in n 0 a ltac:(lia))). rewrite forallb_forall in S.
  apply S, nrange_in. lia.
Qed.

(* ---- nth / upd ---- *)
Lemma upd_nat_length l i v : length (upd_nat l i v) = length l.
Proof. revert i; induction l as [|h t IH]; intros [|i]; cbn; auto. Qed.
Lemma upd_length l i v : length (upd l i v) = length l.
Proof. apply upd_nat_length. Qed.
Lemma nth_upd_nat_same l i v d : (i < length l)%nat -> nth i (upd_nat l i v) d = v.
Proof. revert i; induction l as [|h t IH]; intros [|i] H; cbn in *; try lia; auto. apply IH; lia. Qed.
Lemma nth_upd_nat_other l i j v d : i <> j -> nth j (upd_nat l i v) d = nth j l d.
Proof.
  revert i j; induction l as [|h t IH]; intros [|i] [|j] H; cbn; try reflexivity; try lia.
  apply IH; lia.
Qed.
Lemma nthN_upd_same l i v : i < len l -> nthN (upd l i v) i = v.
Proof. unfold nthN, upd, len. intros H. apply nth_upd_nat_same. lia. Qed.
Lemma nthN_upd_other l i j v : i <> j -> nthN (upd l i v) j = nthN l j.
Proof. unfold nthN, upd. intros H. apply nth_upd_nat_other. lia. Qed.
Lemma upd_nat_bytes l i v : is_bytes l -> is_byte v -> is_bytes (upd_nat l i v).
Proof.
  unfold is_bytes. intros H Hv. revert i; induction H as [|h t Hh Ht IH]; intros [|i]; cbn; constructor; auto.
Qed.
Lemma upd_bytes l i v : is_bytes l -> is_byte v -> is_bytes (upd l i v).
Proof. apply upd_nat_bytes. Qed.
Lemma nthN_byte l i : is_bytes l -> nthN l i < 256.
Proof.
  intros H. unfold nthN. destruct (nth_in_or_default (N.to_nat i) l 0) as [Hin| ->]; [|lia].
  unfold is_bytes in H. rewrite Forall_forall in H. exact (H _ Hin).
Qed.
Lemma upd_pkt p i v : is_pkt p -> v < 256 -> is_pkt (upd p i v).
Proof. intros [L B] Hv. split; [rewrite upd_length; exact L | apply upd_bytes; assumption]. Qed.
Lemma pkt_len p : is_pkt p -> len p = 188.
Proof. intros [L _]. unfold len. rewrite L. reflexivity. Qed.

(* two lists of the same length agreeing at every index are equal *)
Lemma nth_ext_N (a b : bytes) : length a = length b ->
  (forall i, i < len a -> nthN a i = nthN b i) -> a = b.
Proof.
  intros L H. apply (nth_ext a b 0 0 L). intros n Hn.
  specialize (H (N.of_nat n)). unfold nthN, len in H. rewrite Nat2N.id in H. apply H. lia.
Qed.

(* ---- blit ---- *)
Lemma blit_nat_length d i s : length (blit_nat d i s) = length d.
Proof.
  revert i s; induction d as [|h t IH]; intros i s; [destruct i; reflexivity|].
  destruct i; cbn; [destruct s; cbn; auto | auto].
Qed.
Lemma blit_length d i s : length (blit d i s) = length d.
Proof. apply blit_nat_length. Qed.
(* element k of blit d i s *)
Lemma nth_blit_nat d i s k dflt : nth k (blit_nat d i s) dflt =
  if (Nat.leb i k) && (Nat.ltb k (i + length s)) && (Nat.ltb k (length d))
  then nth (k - i) s dflt else nth k d dflt.
Proof.
  revert i s k; induction d as [|h t IH]; intros i s k.
  - destruct i; cbn [blit_nat length]; rewrite Bool.andb_false_r; reflexivity.
  - destruct i as [|i].
    + destruct s as [|x s]; cbn [blit_nat length].
      * replace (Nat.ltb k (0 + 0)) with false by (symmetry; apply Nat.ltb_ge; lia).
        rewrite Bool.andb_false_r. reflexivity.
      * destruct k as [|k]; [reflexivity|].
        cbn [nth]. rewrite IH. cbn [Nat.leb Nat.sub].
        replace (Nat.ltb (S k) (0 + S (length s))) with (Nat.ltb k (0 + length s))
          by (destruct (Nat.ltb_spec k (0 + length s)), (Nat.ltb_spec (S k) (0 + S (length s))); lia || reflexivity).
        replace (Nat.ltb (S k) (S (length t))) with (Nat.ltb k (length t))
          by (destruct (Nat.ltb_spec k (length t)), (Nat.ltb_spec (S k) (S (length t))); lia || reflexivity).
        rewrite Nat.sub_0_r. reflexivity.
    + cbn [blit_nat length]. destruct k as [|k]; [reflexivity|].
      cbn [nth]. rewrite IH. cbn [Nat.leb Nat.sub].
      replace (Nat.ltb (S k) (S i + length s)) with (Nat.ltb k (i + length s))
        by (destruct (Nat.ltb_spec k (i + length s)), (Nat.ltb_spec (S k) (S i + length s)); lia || reflexivity).
      replace (Nat.ltb (S k) (S (length t))) with (Nat.ltb k (length t))
        by (destruct (Nat.ltb_spec k (length t)), (Nat.ltb_spec (S k) (S (length t))); lia || reflexivity).
      reflexivity.
Qed.
Lemma nthN_blit d i s k : nthN (blit d i s) k =
  if (i <=? k) && (k <? i + len s) && (k <? len d) then nthN s (k - i) else nthN d k.
Proof.
  unfold nthN, blit, len. rewrite nth_blit_nat.
  replace (Nat.leb (N.to_nat i) (N.to_nat k)) with (i <=? k)
    by (destruct (N.leb_spec i k), (Nat.leb_spec (N.to_nat i) (N.to_nat k)); lia || reflexivity).
  replace (Nat.ltb (N.to_nat k) (N.to_nat i + length s)) with (k <? i + N.of_nat (length s))
    by (destruct (N.ltb_spec k (i + N.of_nat (length s))), (Nat.ltb_spec (N.to_nat k) (N.to_nat i + length s)); lia || reflexivity).
  replace (Nat.ltb (N.to_nat k) (length d)) with (k <? N.of_nat (length d))
    by (destruct (N.ltb_spec k (N.of_nat (length d))), (Nat.ltb_spec (N.to_nat k) (length d)); lia || reflexivity).
  replace (N.to_nat k - N.to_nat i)%nat with (N.to_nat (k - i)) by lia. reflexivity.
Qed.
Lemma blit_nat_bytes d i s : is_bytes d -> is_bytes s -> is_bytes (blit_nat d i s).
Proof.
  unfold is_bytes. intros Hd. revert i s; induction Hd as [|h t Hh Ht IH]; intros i s Hs.
  - destruct i; constructor.
  - destruct i; cbn.
    + destruct Hs as [|x s' Hx Hs']; constructor; auto.
    + constructor; auto.
Qed.
Lemma blit_bytes d i s : is_bytes d -> is_bytes s -> is_bytes (blit d i s).
Proof. apply blit_nat_bytes. Qed.
(* copy(dst[:], src) over the whole of an equally long destination *)
Lemma blit_all d s : length d = length s -> blit d 0 s = s.
Proof.
  unfold blit. cbn [N.to_nat]. revert s; induction d as [|h t IH]; intros [|x s] L; cbn in *; try lia; auto.
  f_equal. apply IH. lia.
Qed.

(* ---- repeat ---- *)
Lemma repeatN_length {A} (x : A) n : length (repeatN x n) = N.to_nat n.
Proof. apply repeat_length. Qed.
Lemma nth_repeat_lt' (x d : N) n k : (k < n)%nat -> nth k (repeat x n) d = x.
Proof. revert k; induction n as [|n IH]; intros [|k] H; cbn; try lia; auto. apply IH; lia. Qed.
Lemma nthN_repeatN x n k : k < n -> nthN (repeatN x n) k = x.
Proof.
  unfold nthN, repeatN. intros H. apply nth_repeat_lt'. lia.
Qed.
Lemma repeatN_bytes x n : is_byte x -> is_bytes (repeatN x n).
Proof. intros H. unfold is_bytes, repeatN. apply Forall_forall. intros y Hy. apply repeat_spec in Hy. subst; exact H. Qed.

(* ---- slices ---- *)
Lemma len_firstn_skipn (l : bytes) i j : i <= j -> j <= len l ->
  length (firstn (N.to_nat (j - i)) (skipn (N.to_nat i) l)) = N.to_nat (j - i).
Proof. unfold len. intros. rewrite firstn_length, skipn_length. lia. Qed.
Lemma nth_firstn_lt {A} (l : list A) n k d : (k < n)%nat -> nth k (firstn n l) d = nth k l d.
Proof. revert n k; induction l as [|h t IH]; intros [|n] [|k] H; cbn; try lia; auto. apply IH; lia. Qed.
Lemma nth_skipn_add {A} (l : list A) i k d : nth k (skipn i l) d = nth (i + k) l d.
Proof. revert i; induction l as [|h t IH]; intros [|i]; cbn; auto. destruct k; reflexivity. Qed.
Lemma nth_slice (l : bytes) i j k : i <= j -> j <= len l -> k < j - i ->
  nthN (firstn (N.to_nat (j - i)) (skipn (N.to_nat i) l)) k = nthN l (i + k).
Proof.
  unfold nthN, len. intros Hij Hj Hk.
  rewrite nth_firstn_lt by lia.
  rewrite nth_skipn_add. f_equal. lia.
Qed.

(* ---- lists built with ++ : reads, writes and copies at a position given as a length ---- *)
Lemma len_app {A} (a b : list A) : len (a ++ b) = len a + len b.
Proof. unfold len. rewrite app_length. lia. Qed.
Lemma len_cons {A} (x : A) (a : list A) : len (x :: a) = 1 + len a.
Proof. unfold len. cbn [length]. lia. Qed.
Lemma len_nil {A} : len (@nil A) = 0.
Proof. reflexivity. Qed.
Lemma len_repeatN {A} (x : A) n : len (repeatN x n) = n.
Proof. unfold len. rewrite repeatN_length. lia. Qed.
Lemma nthN_app_l (a b : bytes) i : i < len a -> nthN (a ++ b) i = nthN a i.
Proof. unfold nthN, len. intros H. apply app_nth1. lia. Qed.
Lemma nthN_app_r (a b : bytes) i : len a <= i -> nthN (a ++ b) i = nthN b (i - len a).
Proof. unfold nthN, len. intros H. rewrite app_nth2 by lia. f_equal. lia. Qed.
Lemma nthN_app_at (a b : bytes) x i : i = len a -> nthN (a ++ x :: b) i = x.
Proof. intros ->. rewrite nthN_app_r by lia. rewrite N.sub_diag. reflexivity. Qed.
Lemma upd_nat_app_at (a b : bytes) x v : upd_nat (a ++ x :: b) (length a) v = a ++ v :: b.
Proof. induction a as [|h t IH]; cbn; [reflexivity|]. rewrite IH. reflexivity. Qed.
Lemma upd_app_at (a b : bytes) x v i : i = len a -> upd (a ++ x :: b) i v = a ++ v :: b.
Proof. intros ->. unfold upd, len. rewrite Nat2N.id. apply upd_nat_app_at. Qed.
Lemma blit_nat_0 (r s : bytes) : blit_nat r 0 s = firstn (length r) s ++ skipn (length s) r.
Proof.
  revert s; induction r as [|h t IH]; intros s; cbn.
  - rewrite skipn_nil. reflexivity.
  - destruct s as [|x s]; cbn; [reflexivity|]. rewrite IH. reflexivity.
Qed.
Lemma blit_nat_app (a r s : bytes) : blit_nat (a ++ r) (length a) s = a ++ blit_nat r 0 s.
Proof. induction a as [|h t IH]; cbn; [reflexivity|]. rewrite IH. reflexivity. Qed.
(* copy(l[len a:], s) when s fits *)
Lemma blit_app_fit (a r s : bytes) i : i = len a -> (length s <= length r)%nat ->
  blit (a ++ r) i s = a ++ s ++ skipn (length s) r.
Proof.
  intros -> L. unfold blit, len. rewrite Nat2N.id, blit_nat_app, blit_nat_0.
  rewrite firstn_all2 by lia. reflexivity.
Qed.
(* copy(l[len a:], s) when s is at least as long as the room *)
Lemma blit_app_over (a r s : bytes) i : i = len a -> (length r <= length s)%nat ->
  blit (a ++ r) i s = a ++ firstn (length r) s.
Proof.
  intros -> L. unfold blit, len. rewrite Nat2N.id, blit_nat_app, blit_nat_0.
  rewrite skipn_all2 by lia. rewrite app_nil_r. reflexivity.
Qed.
Lemma slice_app_l (a b : bytes) j : j = len a -> slice (a ++ b) 0 j = Ok a.
Proof.
  intros ->. unfold slice. rewrite len_app. replace ((0 <=? len a) && (len a <=? len a + len b)) with true
    by (symmetry; apply andb_true_intro; split; apply N.leb_le; lia).
  rewrite N.sub_0_r. cbn [N.to_nat skipn]. unfold len. rewrite Nat2N.id.
  rewrite firstn_app, Nat.sub_diag, firstn_all. cbn [firstn]. rewrite app_nil_r. reflexivity.
Qed.
Lemma slice_app_r (a b : bytes) i j : i = len a -> j = len a + len b -> slice (a ++ b) i j = Ok b.
Proof.
  intros -> ->. unfold slice. rewrite len_app.
  replace ((len a <=? len a + len b) && (len a + len b <=? len a + len b)) with true
    by (symmetry; apply andb_true_intro; split; apply N.leb_le; lia).
  replace (len a + len b - len a) with (len b) by lia. unfold len. rewrite !Nat2N.id.
  rewrite skipn_app, skipn_all, Nat.sub_diag. cbn [skipn app]. rewrite firstn_all. reflexivity.
Qed.
Lemma is_bytes_app (a b : bytes) : is_bytes (a ++ b) <-> is_bytes a /\ is_bytes b.
Proof. unfold is_bytes. apply Forall_app. Qed.
