package main

// C01 (hdr.*) and C02 (pay.*): the ops of coq/theories/Exec/PacketExec.v over the real library.

import (
	"bytes"

	"github.com/Comcast/gots/v2/packet"
)

func nb(b bool) uint64 {
	if b {
		return 1
	}
	return 0
}

// pktOf copies the argument into a fresh Packet; anything but 188 bytes is a malformed request.
func pktOf(v Val) *packet.Packet {
	if len(v.B) != packet.PacketSize {
		panic("bad request: packet length")
	}
	var p packet.Packet
	copy(p[:], v.B)
	return &p
}

func getters(p *packet.Packet) []uint64 {
	var ce uint64
	if err := p.CheckErrors(); err != nil {
		ce = uint64(errCode(err))
	}
	return []uint64{
		nb(packet.PayloadUnitStartIndicator(p)), uint64(packet.Pid(p)), nb(packet.ContainsPayload(p)),
		nb(packet.ContainsAdaptationField(p)), uint64(packet.ContinuityCounter(p)), nb(packet.IsNull(p)),
		nb(packet.IsPat(p)),
		nb(p.TransportErrorIndicator()), nb(p.PayloadUnitStartIndicator()), nb(p.TransportPriority()),
		uint64(p.PID()), uint64(p.TransportScramblingControl()), uint64(p.AdaptationFieldControl()),
		nb(p.HasPayload()), nb(p.HasAdaptationField()), uint64(p.ContinuityCounter()), nb(p.IsNull()),
		nb(p.IsPAT()), ce,
	}
}

func vgetters(p *packet.Packet) Val {
	g := getters(p)
	l := make([]Val, len(g))
	for i, x := range g {
		l[i] = VU(x)
	}
	return VL(l...)
}

func rdBits(p *packet.Packet) []uint64 {
	return []uint64{nb(p.TransportErrorIndicator()), nb(p.PayloadUnitStartIndicator()),
		nb(packet.PayloadUnitStartIndicator(p)), nb(p.TransportPriority())}
}
func rdPid(p *packet.Packet) []uint64 {
	return []uint64{uint64(packet.Pid(p)), uint64(p.PID()), nb(packet.IsNull(p)), nb(p.IsNull()),
		nb(packet.IsPat(p)), nb(p.IsPAT())}
}
func rdB3(p *packet.Packet) []uint64 {
	var ce uint64
	if err := p.CheckErrors(); err != nil {
		ce = uint64(errCode(err))
	}
	return []uint64{uint64(p.TransportScramblingControl()), uint64(p.AdaptationFieldControl()),
		uint64(packet.ContinuityCounter(p)), uint64(p.ContinuityCounter()),
		nb(packet.ContainsPayload(p)), nb(p.HasPayload()), nb(packet.ContainsAdaptationField(p)),
		nb(p.HasAdaptationField()), ce}
}

// sweeper accumulates the observation of one sweep request
type sweeper struct {
	out  []byte
	same uint64
}

// step: p0 is the prepared packet, f returns the packet after the call (p0 itself for methods,
// a new packet for the copying helpers)
func (s *sweeper) step(p0 *packet.Packet, f func(*packet.Packet) *packet.Packet, rd func(*packet.Packet) []uint64) {
	before := *p0
	r := f(p0)
	s.out = append(s.out, r[:4]...)
	for _, x := range rd(r) {
		s.out = append(s.out, byte(x>>8), byte(x))
	}
	if bytes.Equal(r[4:], before[4:]) {
		s.same++
	}
}
func (s *sweeper) val() Val { return VL(VB(s.out), VU(s.same)) }

func vErrOpt(err error) Val {
	if err == nil {
		return VL()
	}
	return VL(VI(int64(errCode(err))))
}

// vresBytes mirrors vres VB: [0 bytes] or [1 code]
func vresBytes(b []byte, err error) Val {
	if err != nil {
		return VErr(errCode(err))
	}
	return VOk(VB(b))
}

// guard runs f and turns a panic into the observation [2]
func guard(f func() Val) (r Val) {
	defer func() {
		if e := recover(); e != nil {
			lastPanic = "recovered"
			r = VPanic()
		}
	}()
	return f()
}

func init() {
	method := func(f func(p *packet.Packet, v Val)) func([]Val) Val {
		return func(a []Val) Val {
			p := pktOf(a[0])
			var v Val
			if len(a) > 1 {
				v = a[1]
			}
			f(p, v)
			return VL(VB(p[:]), vgetters(p))
		}
	}
	isTrue := func(v Val) bool { return v.I.Sign() != 0 }
	register("hdr.get", func(a []Val) Val {
		p := pktOf(a[0])
		before := *p
		g := vgetters(p)
		return VL(g, VBool(*p == before))
	})
	register("hdr.new", func(a []Val) Val { return VB(packet.New()[:]) })
	register("hdr.set_tei", method(func(p *packet.Packet, v Val) { p.SetTransportErrorIndicator(isTrue(v)) }))
	register("hdr.set_pusi", method(func(p *packet.Packet, v Val) { p.SetPayloadUnitStartIndicator(isTrue(v)) }))
	register("hdr.set_tp", method(func(p *packet.Packet, v Val) { p.SetTransportPriority(isTrue(v)) }))
	register("hdr.set_pid", method(func(p *packet.Packet, v Val) { p.SetPID(v.Int()) }))
	register("hdr.set_tsc", method(func(p *packet.Packet, v Val) {
		p.SetTransportScramblingControl(packet.TransportScramblingControlOptions(v.U()))
	}))
	register("hdr.set_cc", method(func(p *packet.Packet, v Val) { p.SetContinuityCounter(v.Int()) }))
	register("hdr.inc_cc", method(func(p *packet.Packet, v Val) { p.IncContinuityCounter() }))
	register("hdr.zero_cc", method(func(p *packet.Packet, v Val) { p.ZeroContinuityCounter() }))

	copying := func(f func(p *packet.Packet, v Val) *packet.Packet) func([]Val) Val {
		return func(a []Val) Val {
			p := pktOf(a[0])
			before := *p
			var v Val
			if len(a) > 1 {
				v = a[1]
			}
			r := f(p, v)
			unchanged := *p == before
			res := *r
			// fresh memory: writing through the result must not reach the argument
			for i := range r {
				r[i] ^= 0xff
			}
			fresh := r != p && *p == before
			return VL(VB(res[:]), vgetters(&res), VBool(unchanged), VBool(fresh))
		}
	}
	register("hdr.increment_cc_fn", copying(func(p *packet.Packet, v Val) *packet.Packet { return packet.IncrementCC(p) }))
	register("hdr.zero_cc_fn", copying(func(p *packet.Packet, v Val) *packet.Packet { return packet.ZeroCC(p) }))
	register("hdr.set_cc_fn", copying(func(p *packet.Packet, v Val) *packet.Packet { return packet.SetCC(p, uint8(v.U())) }))

	register("hdr.equal", func(a []Val) Val {
		p, q := pktOf(a[0]), pktOf(a[1])
		bp, bq := *p, *q
		e1 := packet.Equal(p, q)
		e2 := p.Equals(q)
		e3 := packet.Equal(p, p) && packet.Equal(q, q) && q.Equals(q)
		// nil arguments: equal only to nil (bin/gocover: the nil branch was never reached)
		e3 = e3 && !packet.Equal(p, nil) && !packet.Equal(nil, q) && packet.Equal(nil, nil) && !p.Equals(nil)
		// the method agrees with the function on a nil receiver too (seeded C01-u2)
		var np *packet.Packet
		e3 = e3 && !np.Equals(q) && np.Equals(nil)
		return VL(VBool(e1), VBool(e2), VBool(e3), VBool(*p == bp && *q == bq))
	})
	register("hdr.from_bytes", func(a []Val) Val {
		in := append([]byte{}, a[0].B...)
		in = in[:len(in):len(in)]
		pkt, err := packet.FromBytes(in)
		// a second packet from the same slice: both are the caller's, neither may follow the other or the slice
		pkt2, err2 := packet.FromBytes(in)
		if (err == nil) != (err2 == nil) || (pkt == nil) != (pkt2 == nil) || (pkt != nil && (*pkt != *pkt2 || pkt == pkt2)) {
			noteUnstable("FromBytes twice on one slice: the results differ or are the same object")
		}
		keepPkt("second packet from FromBytes", pkt2)
		unchanged := bytes.Equal(in, a[0].B)
		var pv Val = VL()
		alias := false
		if pkt != nil {
			pv = VL(VB(pkt[:]))
			snap := *pkt
			for i := range in {
				in[i] ^= 0xff
			}
			alias = *pkt != snap
		}
		return VL(pv, vErrOpt(err), VBool(unchanged), VBool(!alias))
	})
	register("hdr.copy_packets", func(a []Val) Val {
		var ps []*packet.Packet
		for _, v := range a[0].L {
			ps = append(ps, pktOf(v))
		}
		snap := make([]packet.Packet, len(ps))
		for i, p := range ps {
			snap[i] = *p
		}
		cs := packet.CopyPackets(ps)
		out := make([]Val, len(cs))
		for i, c := range cs {
			out[i] = VB(c[:])
		}
		unchanged, fresh := true, len(cs) == len(ps)
		for i, c := range cs {
			if i < len(ps) {
				if c == ps[i] {
					fresh = false
				}
				for k := range c {
					c[k] ^= 0xff
				}
			}
		}
		for i, p := range ps {
			if *p != snap[i] {
				unchanged = false
				fresh = false
			}
		}
		return VL(VL(out...), VBool(unchanged), VBool(fresh))
	})

	// ---- sweeps
	self := func(f func(*packet.Packet)) func(*packet.Packet) *packet.Packet {
		return func(p *packet.Packet) *packet.Packet { f(p); return p }
	}
	register("hdr.sweep_bit", func(a []Val) Val {
		base := pktOf(a[0])
		w := a[1].Int()
		var s sweeper
		for b1 := 0; b1 < 256; b1++ {
			for v := 0; v < 2; v++ {
				p := *base
				p[1] = byte(b1)
				s.step(&p, self(func(q *packet.Packet) {
					switch w {
					case 0:
						q.SetTransportErrorIndicator(v == 1)
					case 1:
						q.SetPayloadUnitStartIndicator(v == 1)
					default:
						q.SetTransportPriority(v == 1)
					}
				}), rdBits)
			}
		}
		return s.val()
	})
	register("hdr.sweep_pid", func(a []Val) Val {
		base := pktOf(a[0])
		b1 := byte(a[1].U())
		var s sweeper
		for pid := 0; pid < 8192; pid++ {
			p := *base
			p[1] = b1
			s.step(&p, self(func(q *packet.Packet) { q.SetPID(pid) }), rdPid)
		}
		return s.val()
	})
	register("hdr.sweep_pid_b2", func(a []Val) Val {
		base := pktOf(a[0])
		pid := a[1].Int()
		var s sweeper
		for b1 := 0; b1 < 256; b1++ {
			for b2 := 0; b2 < 256; b2++ {
				p := *base
				p[1], p[2] = byte(b1), byte(b2)
				s.step(&p, self(func(q *packet.Packet) { q.SetPID(pid) }), rdPid)
			}
		}
		return s.val()
	})
	register("hdr.sweep_tsc", func(a []Val) Val {
		base := pktOf(a[0])
		var s sweeper
		for b3 := 0; b3 < 256; b3++ {
			for v := 0; v < 4; v++ {
				p := *base
				p[3] = byte(b3)
				s.step(&p, self(func(q *packet.Packet) {
					q.SetTransportScramblingControl(packet.TransportScramblingControlOptions(v))
				}), rdB3)
			}
		}
		return s.val()
	})
	register("hdr.sweep_cc", func(a []Val) Val {
		base := pktOf(a[0])
		lo, n := a[1].Int(), a[2].Int()
		var s sweeper
		for b3 := 0; b3 < 256; b3++ {
			for k := 0; k < n; k++ {
				p := *base
				p[3] = byte(b3)
				s.step(&p, self(func(q *packet.Packet) { q.SetContinuityCounter(lo + k) }), rdB3)
			}
		}
		return s.val()
	})
	register("hdr.sweep_inc", func(a []Val) Val {
		base := pktOf(a[0])
		var s sweeper
		for b3 := 0; b3 < 256; b3++ {
			for k := 0; k < 5; k++ {
				p := *base
				p[3] = byte(b3)
				s.step(&p, func(q *packet.Packet) *packet.Packet {
					switch k {
					case 0:
						q.IncContinuityCounter()
					case 1:
						q.ZeroContinuityCounter()
					case 2:
						return packet.IncrementCC(q)
					case 3:
						return packet.ZeroCC(q)
					}
					return q
				}, rdB3)
			}
		}
		return s.val()
	})
	register("hdr.sweep_cc_fn", func(a []Val) Val {
		base := pktOf(a[0])
		n := a[1].Int()
		var s sweeper
		for b3 := 0; b3 < 256; b3++ {
			for v := 0; v < n; v++ {
				p := *base
				p[3] = byte(b3)
				s.step(&p, func(q *packet.Packet) *packet.Packet { return packet.SetCC(q, uint8(v)) }, rdB3)
			}
		}
		return s.val()
	})
	rd12 := func(p *packet.Packet) []uint64 { return append(rdBits(p), rdPid(p)...) }
	register("hdr.sweep_get12", func(a []Val) Val {
		base := pktOf(a[0])
		var s sweeper
		for b1 := 0; b1 < 256; b1++ {
			for b2 := 0; b2 < 256; b2++ {
				p := *base
				p[1], p[2] = byte(b1), byte(b2)
				s.step(&p, self(func(q *packet.Packet) {}), rd12)
			}
		}
		return s.val()
	})
	register("hdr.sweep_get03", func(a []Val) Val {
		base := pktOf(a[0])
		var s sweeper
		for b0 := 0; b0 < 256; b0++ {
			for b3 := 0; b3 < 256; b3++ {
				p := *base
				p[0], p[3] = byte(b0), byte(b3)
				s.step(&p, self(func(q *packet.Packet) {}), rdB3)
			}
		}
		return s.val()
	})

	// ---- C02
	register("pay.view", func(a []Val) Val {
		p := pktOf(a[0])
		before := *p
		v1 := twice("packet.Payload", func() Val {
			return guard(func() Val { b, err := packet.Payload(p); return vresBytes(keep("packet.Payload view", b), err) })
		})
		copyOK := true
		v2 := guard(func() Val {
			b, err := p.Payload()
			if err == nil {
				out := vresBytes(b, err)
				// the method form must hand out an independent copy
				for i := range b {
					b[i] ^= 0xff
				}
				copyOK = *p == before
				return out
			}
			return vresBytes(b, err)
		})
		v3 := twice("packet.Header", func() Val { return guard(func() Val { return VOk(VB(keep("packet.Header view", packet.Header(p)))) }) })
		v4 := twice("packet.PESHeader", func() Val {
			return guard(func() Val { b, err := packet.PESHeader(p); return vresBytes(keep("packet.PESHeader view", b), err) })
		})
		return VL(v1, v2, v3, v4, VBool(*p == before), VBool(copyOK))
	})
	register("pay.set", func(a []Val) Val {
		return nilTwin("SetPayload", a[1].B, func(arg []byte) Val {
			p := pktOf(a[0])
			var d []byte
			if arg != nil {
				d = append([]byte{}, arg...)
				d = d[:len(d):len(d)]
			}
			r := guard(func() Val {
				n, err := p.SetPayload(d)
				if err != nil {
					return VErr(errCode(err))
				}
				return VOk(VI(int64(n)))
			})
			return VL(VB(p[:]), r, vgetters(p), VBool(bytes.Equal(d, a[1].B)))
		})
	})
	register("pay.set_afc", func(a []Val) Val {
		p := pktOf(a[0])
		err := p.SetAdaptationFieldControl(packet.AdaptationFieldControlOptions(a[1].U()))
		return VL(VB(p[:]), vErrOpt(err))
	})
	register("pay.set_fn", func(a []Val) Val {
		return nilTwin("packet.SetPayload", a[1].B, func(arg []byte) Val {
			p := pktOf(a[0])
			var d []byte
			if arg != nil {
				d = append([]byte{}, arg...)
			}
			n := packet.SetPayload(p, d)
			return VL(VB(p[:]), VI(int64(n)), VBool(bytes.Equal(d, a[1].B)))
		})
	})
	optsOf := func(l []Val) []func(*packet.Packet) {
		var out []func(*packet.Packet)
		for _, v := range l {
			if v.K == 0 {
				switch v.Int() {
				case 0:
					out = append(out, packet.WithHasPayloadFlag)
				case 1:
					out = append(out, packet.WithHasAdaptationFieldFlag)
				case 2:
					out = append(out, packet.WithAFPrivateDataFlag)
				case 3:
					out = append(out, packet.WithPUSI)
				case 4:
					out = append(out, packet.WithContinuousAF)
				case 5:
					out = append(out, packet.WithDiscontinuousAF)
				default:
					panic("bad request: option")
				}
			} else {
				switch v.L[0].Int() {
				case 6:
					pay := v.L[1].B
					out = append(out, func(pkt *packet.Packet) { packet.SetPayload(pkt, pay) })
				case 7:
					pts := v.L[1].U()
					out = append(out, func(pkt *packet.Packet) { packet.WithPES(pkt, pts) })
				default:
					panic("bad request: option")
				}
			}
		}
		return out
	}
	register("pay.create", func(a []Val) Val { return VB(packet.Create(a[0].Int(), optsOf(a[1].L)...)[:]) })
	// pay.create2 <pid> <opts> <k>: ONE option slice with spare capacity, used three times
	register("pay.create2", func(a []Val) Val {
		all := optsOf(a[1].L)
		k := a[2].Int()
		if k < 0 || k > len(all) {
			return VBad()
		}
		backing := make([]func(*packet.Packet), len(all), len(all)+8)
		copy(backing, all)
		// the caller's slice must keep naming the options the caller wrote, also beyond the prefix passed in
		keepList("option slice passed to Create", backing)
		p1 := packet.Create(a[0].Int(), backing[:k]...)
		keepPkt("packet returned by the first Create", p1)
		p2 := packet.Create(a[0].Int(), backing...)
		keepPkt("packet returned by the second Create", p2)
		p3 := packet.Create(a[0].Int(), backing[:k]...)
		return VL(VB(p1[:]), VB(p2[:]), VB(p3[:]))
	})
	// pay.setown <pkt> <lo> <hi>: SetPayload with a part of the packet's OWN payload view as argument
	register("pay.setown", func(a []Val) Val {
		p := pktOf(a[0])
		lo, hi := a[1].Int(), a[2].Int()
		bad := false
		r := guard(func() Val {
			v, err := packet.Payload(p)
			if err != nil {
				return VErr(errCode(err))
			}
			if lo < 0 || lo > hi || hi > len(v) {
				bad = true
				return VBad()
			}
			n, err := p.SetPayload(v[lo:hi])
			if err != nil {
				return VErr(errCode(err))
			}
			return VOk(VI(int64(n)))
		})
		if bad {
			return VBad()
		}
		return VL(VB(p[:]), r, vgetters(p))
	})
	register("pay.create_test", func(a []Val) Val {
		return VB(packet.CreateTestPacket(a[0].Int(), uint8(a[1].U()), isTrue(a[2]), isTrue(a[3]))[:])
	})
	register("pay.create_dc", func(a []Val) Val { return VB(packet.CreateDCPacket(a[0].Int(), uint8(a[1].U()))[:]) })
	register("pay.create_pwp", func(a []Val) Val {
		pay := append([]byte{}, a[2].B...)
		r := packet.CreatePacketWithPayload(a[0].Int(), uint8(a[1].U()), pay)
		return VL(VB(r[:]), VBool(bytes.Equal(pay, a[2].B)))
	})
}
