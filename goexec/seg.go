package main

// C19: the real CanClose / Equal / IsIn / IsOut, on descriptors built through the library's
// public creation and setter API.
// descriptor on the wire: [id ty event haspts ptsv segnum segexp hassub subnum subexp vss], vss = [] | [k]

import (
	"fmt"

	gots "github.com/Comcast/gots/v2"
	"github.com/Comcast/gots/v2/scte35"
)

type descSpec struct {
	id                             int
	ty                             uint8
	event                          uint32
	haspts                         bool
	ptsv                           uint64
	segnum, segexp, subnum, subexp uint8
	hassub                         bool
	hasvss                         bool
	vss                            uint64
}

func specOfVal(v Val) descSpec {
	l := v.L
	if len(l) != 11 {
		panic("bad descriptor")
	}
	s := descSpec{id: l[0].Int(), ty: uint8(l[1].U()), event: uint32(l[2].U()), haspts: l[3].U() != 0, ptsv: l[4].U(),
		segnum: uint8(l[5].U()), segexp: uint8(l[6].U()), hassub: l[7].U() != 0, subnum: uint8(l[8].U()), subexp: uint8(l[9].U())}
	if len(l[10].L) == 1 {
		s.hasvss = true
		s.vss = l[10].L[0].U()
	}
	return s
}

// mkDetached: the descriptor alone, never attached to a signal (CreateSegmentationDescriptor + setters only)
func mkDetached(sp descSpec) scte35.SegmentationDescriptor {
	d := scte35.CreateSegmentationDescriptor()
	d.SetTypeID(scte35.SegDescType(sp.ty))
	d.SetEventID(sp.event)
	d.SetSegmentNumber(sp.segnum)
	d.SetSegmentsExpected(sp.segexp)
	d.SetHasSubSegments(sp.hassub)
	d.SetSubSegmentNumber(sp.subnum)
	d.SetSubSegmentsExpected(sp.subexp)
	d.SetIsDeliveryNotRestricted(true)
	return d
}

// vssText: the ADI UPID text of a VSS descriptor; codes from 900000 are unusual texts (Exec/SegExec.v vss_code says
// which signal id StreamSwitchSignalId derives from each)
func vssText(k uint64) string {
	switch k {
	case 900000:
		return "BLACKOUT"
	case 900001:
		return "SIGNAL:BLACKOUT"
	case 900002:
		return "BLACKOUT:"
	case 900003:
		return "xBLACKOUT:7"
	case 900004:
		return "BLACKOUT:BLACKOUT"
	case 900005:
		return "BLACKOU"
	case 900006:
		return ""
	}
	return fmt.Sprintf("BLACKOUT:%d", k)
}

// mkDesc builds signal + descriptor through the public API only.
func mkDesc(sp descSpec) scte35.SegmentationDescriptor {
	sig := scte35.CreateSCTE35()
	if sp.haspts {
		cmd := scte35.CreateTimeSignalCommand()
		cmd.SetHasPTS(true)
		sig.SetCommandInfo(cmd)
		sig.SetPTS(gots.PTS(sp.ptsv))
	} else {
		// a signal without PTS: splice_null, or a time_signal whose time_specified_flag is off;
		// the signal's stored pts field exists all the same
		if sp.ptsv%2 == 1 {
			cmd := scte35.CreateTimeSignalCommand()
			cmd.SetHasPTS(false)
			sig.SetCommandInfo(cmd)
		}
		sig.SetAdjustPTS(gots.PTS(sp.ptsv))
	}
	d := scte35.CreateSegmentationDescriptor()
	d.SetTypeID(scte35.SegDescType(sp.ty))
	d.SetEventID(sp.event)
	d.SetSegmentNumber(sp.segnum)
	d.SetSegmentsExpected(sp.segexp)
	d.SetHasSubSegments(sp.hassub) // after SetTypeID, which clears the flag for types other than 0x34/0x36
	d.SetSubSegmentNumber(sp.subnum)
	d.SetSubSegmentsExpected(sp.subexp)
	d.SetIsDeliveryNotRestricted(true)
	if sp.hasvss {
		d.SetIsDeliveryNotRestricted(false)
		d.SetUPIDType(scte35.SegUPIDMID)
		u0 := scte35.CreateUPID()
		u0.SetUPIDType(scte35.SegUPIDADI)
		u0.SetUPID([]byte(vssText(sp.vss)))
		u1 := scte35.CreateUPID()
		u1.SetUPIDType(scte35.SegUPADSINFO)
		u1.SetUPID([]byte("comcast:linear:licenserotation"))
		d.SetMID([]scte35.UPID{u0, u1})
	}
	sig.SetDescriptors([]scte35.SegmentationDescriptor{d})
	return d
}

// mkDescN = mkDesc plus "noise": fields that the closing relation, the classification and Equal must not depend on
// (C19: "depends only on types, event ids, PTS values and segment numbers"), chosen by the bits of n and set through
// the public setters.  The model ignores n (Exec/SegExec.v seg.close1n / seg.eqn).
func mkDescN(sp descSpec, n uint64) scte35.SegmentationDescriptor {
	d := mkDesc(sp)
	if n&1 != 0 {
		d.SetIsEventCanceled(true)
	}
	if n&2 != 0 {
		d.SetHasDuration(true)
		d.SetDuration(gots.PTS(n * 7919 % (1 << 40)))
	}
	if n&4 != 0 && !sp.hasvss {
		d.SetUPIDType(scte35.SegUPIDURN)
		d.SetUPID([]byte(fmt.Sprintf("urn:noise:%d", n)))
	}
	if n&8 != 0 {
		d.SetHasProgramSegmentation(false)
		c1, c2 := scte35.CreateComponentOffset(), scte35.CreateComponentOffset()
		c1.SetComponentTag(uint8(n))
		c1.SetPTSOffset(gots.PTS(n * 31))
		c2.SetComponentTag(uint8(n >> 3))
		d.SetComponents([]scte35.ComponentOffset{c1, c2})
	}
	if n&16 != 0 && !sp.hasvss {
		d.SetIsDeliveryNotRestricted(false)
		d.SetIsWebDeliveryAllowed(n&32 != 0)
		d.SetIsArchiveAllowed(n&64 != 0)
		d.SetHasNoRegionalBlackout(n&128 != 0)
		d.SetDeviceRestrictions(scte35.DeviceRestrictions(n >> 8 & 3))
	}
	sig := d.SCTE35()
	if n&256 != 0 {
		sig.SetTier(uint16(n>>4) & 0xFFF)
		sig.SetAlignmentStuffing(uint(n >> 9 & 3))
	}
	if n&512 != 0 {
		// the descriptor is not the only one of its signal: another one in front and one behind
		x, y := scte35.CreateSegmentationDescriptor(), scte35.CreateSegmentationDescriptor()
		x.SetTypeID(scte35.SegDescType(0x30))
		x.SetEventID(uint32(n))
		y.SetTypeID(scte35.SegDescType(0x35))
		sig.SetDescriptors([]scte35.SegmentationDescriptor{x, d, y})
	}
	return d
}

// view = every getter the C19/C10 functions read; used to detect mutation of arguments
func descView(d scte35.SegmentationDescriptor) string {
	id, err := d.StreamSwitchSignalId()
	return fmt.Sprint(d.TypeID(), d.EventID(), d.SCTE35().HasPTS(), d.SCTE35().PTS(), d.SegmentNumber(), d.SegmentsExpected(),
		d.HasSubSegments(), d.SubSegmentNumber(), d.SubSegmentsExpected(), id, err)
}

func init() {
	register("seg.row", func(a []Val) Val {
		tin := uint8(a[0].U())
		e1, e2 := uint32(a[1].U()), uint32(a[2].U())
		p1, p2 := a[3].U(), a[4].U()
		s1, s2 := uint8(a[5].U()), uint8(a[6].U())
		hpd, hpo := a[7].U() != 0, a[8].U() != 0
		out := make([]Val, 256)
		for tout := 0; tout < 256; tout++ {
			var acc uint64
			for k := 0; k < 24; k++ {
				sub := k % 3
				se := (k / 3) % 2
				pe := (k / 6) % 2
				ee := (k / 12) % 2
				d := descSpec{ty: tin, event: e1, haspts: hpd, ptsv: p1, segnum: s2, segexp: s1, hassub: sub != 0, subnum: 8, subexp: 7}
				if se == 1 {
					d.segnum = s1
				}
				if sub == 1 {
					d.subnum = 7
				}
				o := descSpec{id: 1, ty: uint8(tout), event: e2, haspts: hpo, ptsv: p2, segnum: s2, segexp: s2 + 1}
				if ee == 1 {
					o.event = e1
				}
				if pe == 1 {
					o.ptsv = p1
				}
				if mkDesc(d).CanClose(mkDesc(o)) {
					acc |= 1 << uint(k)
				}
			}
			out[tout] = VU(acc)
		}
		return VL(out...)
	})
	register("seg.inout", func(a []Val) Val {
		out := make([]Val, 256)
		for t := 0; t < 256; t++ {
			d := mkDesc(descSpec{ty: uint8(t), haspts: true, ptsv: 1})
			out[t] = VL(VBool(d.IsIn()), VBool(d.IsOut()))
		}
		return VL(out...)
	})
	register("seg.eqm", func(a []Val) Val {
		ds := make([]scte35.SegmentationDescriptor, len(a))
		views := make([]string, len(a))
		for i := range a {
			ds[i] = mkDesc(specOfVal(a[i]))
			views[i] = descView(ds[i])
		}
		rows := make([]Val, 0, len(a)+1)
		for i := range ds {
			row := make([]Val, len(ds))
			for j := range ds {
				row[j] = VBool(ds[i].Equal(ds[j]))
			}
			rows = append(rows, VL(row...))
		}
		changed := 0
		for i := range ds {
			if descView(ds[i]) != views[i] {
				changed = 1
			}
			if ds[i].Equal(nil) {
				changed = 2 // no descriptor is Equal to nil
			}
		}
		rows = append(rows, VI(int64(changed)))
		return VL(rows...)
	})
	register("seg.close1", func(a []Val) Val {
		return VBool(mkDesc(specOfVal(a[0])).CanClose(mkDesc(specOfVal(a[1]))))
	})
	// seg.close1n d o nd no: CanClose with noise nd / no on the two descriptors; also IsIn / IsOut of both
	register("seg.close1n", func(a []Val) Val {
		if len(a) != 4 {
			return VBad()
		}
		d, o := mkDescN(specOfVal(a[0]), a[2].U()), mkDescN(specOfVal(a[1]), a[3].U())
		// the argument of CanClose / Equal may be the caller's own implementation of the interface (foreign.go)
		if d.CanClose(foreignSegDesc{o}) != d.CanClose(o) || d.Equal(foreignSegDesc{o}) != d.Equal(o) {
			noteUnstable("CanClose / Equal treat a caller-written SegmentationDescriptor (forwarding every method) differently from the library's own value")
		}
		return VL(VBool(d.CanClose(o)), VBool(d.IsIn()), VBool(d.IsOut()), VBool(o.IsIn()), VBool(o.IsOut()))
	})
	// seg.closedet d o k: CanClose on descriptors that are not attached to a signal (k = 1: d detached, 2: o detached,
	// 3: both).  The rule that compares signal times dereferences the missing signal and panics - reply [2], which the
	// oracle sets aside (a descriptor in use belongs to a signal); every other rule must answer as for attached ones.
	register("seg.closedet", func(a []Val) Val {
		if len(a) != 3 {
			return VBad()
		}
		k := a[2].U()
		var d, o scte35.SegmentationDescriptor
		if k&1 != 0 {
			d = mkDetached(specOfVal(a[0]))
		} else {
			d = mkDesc(specOfVal(a[0]))
		}
		if k&2 != 0 {
			o = mkDetached(specOfVal(a[1]))
		} else {
			o = mkDesc(specOfVal(a[1]))
		}
		return VL(VBool(d.CanClose(o)), VBool(d.IsIn()), VBool(d.IsOut()), VBool(o.IsIn()), VBool(o.IsOut()))
	})
	// seg.eqn [n0 n1 ..] d0 d1 ..: the Equal matrix of descriptors built with noise
	register("seg.eqn", func(a []Val) Val {
		if len(a) < 1 || len(a[0].L) != len(a)-1 {
			return VBad()
		}
		ds := make([]scte35.SegmentationDescriptor, len(a)-1)
		for i := range ds {
			ds[i] = mkDescN(specOfVal(a[i+1]), a[0].L[i].U())
		}
		rows := make([]Val, 0, len(ds))
		for i := range ds {
			row := make([]Val, len(ds))
			for j := range ds {
				row[j] = VBool(ds[i].Equal(ds[j]))
			}
			rows = append(rows, VL(row...))
		}
		return VL(rows...)
	})
}
