package main

// C13, last clause: every section the library emits (filtered PMT, encoded splice_info_section) carries a CRC that
// satisfies the receivers' check.  These ops run the real emitters; the generator checks the residue of what they return.

import (
	gots "github.com/Comcast/gots/v2"
	"github.com/Comcast/gots/v2/packet"
	"github.com/Comcast/gots/v2/psi"
	"github.com/Comcast/gots/v2/scte35"
)

func init() {
	// crc.emit.pmt pkts pids -> [filtered packets concatenated, error code (0 = nil)]
	register("crc.emit.pmt", func(a []Val) Val {
		raw := a[0].B
		if len(raw)%packet.PacketSize != 0 {
			return VBad()
		}
		var pkts []*packet.Packet
		for i := 0; i < len(raw); i += packet.PacketSize {
			var p packet.Packet
			copy(p[:], raw[i:i+packet.PacketSize])
			pkts = append(pkts, &p)
		}
		var pids []int
		for _, v := range a[1].L {
			pids = append(pids, v.Int())
		}
		out, err := psi.FilterPMTPacketsToPids(pkts, pids)
		code := 0
		if err != nil {
			code = errCode(err)
		}
		var cat []byte
		for _, p := range out {
			cat = append(cat, p[:]...)
		}
		return VL(VB(cat), VI(int64(code)))
	})
	// crc.emit.scte cmd tier pts stuffing [[eventid typeid hasdur dur upid] ...] -> UpdateData()
	register("crc.emit.scte", func(a []Val) Val {
		s := scte35.CreateSCTE35()
		switch a[0].Int() {
		case 1:
			c := scte35.CreateTimeSignalCommand()
			c.SetHasPTS(true)
			c.SetPTS(gots.PTS(a[2].U()))
			s.SetCommandInfo(c)
		case 2:
			c := scte35.CreateSpliceInsertCommand()
			c.SetEventID(uint32(a[2].U()))
			c.SetIsOut(a[2].U()&1 == 1)
			c.SetHasPTS(true)
			c.SetPTS(gots.PTS(a[2].U()))
			c.SetHasDuration(a[2].U()&2 == 2)
			c.SetDuration(gots.PTS(a[2].U() >> 3))
			c.SetUniqueProgramId(uint16(a[1].U()))
			s.SetCommandInfo(c)
		}
		s.SetTier(uint16(a[1].U()))
		s.SetAlignmentStuffing(uint(a[3].U()))
		var descs []scte35.SegmentationDescriptor
		for _, d := range a[4].L {
			sd := scte35.CreateSegmentationDescriptor()
			sd.SetEventID(uint32(d.L[0].U()))
			sd.SetTypeID(scte35.SegDescType(d.L[1].U()))
			sd.SetHasDuration(d.L[2].U() != 0)
			sd.SetDuration(gots.PTS(d.L[3].U()))
			sd.SetUPIDType(scte35.SegUPIDType(d.L[5].U()))
			sd.SetUPID(d.L[4].B)
			sd.SetSegmentNumber(uint8(d.L[0].U()))
			sd.SetSegmentsExpected(uint8(d.L[3].U()))
			descs = append(descs, sd)
		}
		s.SetDescriptors(descs)
		return VB(s.UpdateData())
	})
}
