// goexec: runs the REAL gots code on the cases the model runs (DESIGN.md appendix A).
// request: <op> <val>*   reply: <val>      val: -?[0-9]+ | x<hex> | [ <val>* ]
// A panic is the observation "[2]"; a call that runs longer than the limit or blows up the
// heap is "[3]" and ends the process (a runaway goroutine cannot be stopped from inside).
package main

import (
	"bufio"
	"fmt"
	"math/big"
	"os"
	"runtime"
	"sort"
	"strings"
	"sync/atomic"
	"time"
)

type Val struct {
	K int // 0 int, 1 bytes, 2 list
	I *big.Int
	B []byte
	L []Val
}

func VI(i int64) Val    { return Val{K: 0, I: big.NewInt(i)} }
func VU(u uint64) Val   { return Val{K: 0, I: new(big.Int).SetUint64(u)} }
func VB(b []byte) Val   { c := make([]byte, len(b)); copy(c, b); return Val{K: 1, B: c} }
func VL(l ...Val) Val   { return Val{K: 2, L: l} }
func VBool(b bool) Val  { if b { return VI(1) }; return VI(0) }
func VOk(v Val) Val     { return VL(VI(0), v) }
func VErr(code int) Val { return VL(VI(1), VI(int64(code))) }
func VPanic() Val       { return VL(VI(2)) }
func VBad() Val         { return VL(VI(-9999)) }
func VOpt(ok bool, v Val) Val { if ok { return VL(v) }; return VL() }

func (v Val) U() uint64 {
	if v.I.Sign() < 0 {
		return 0 // as Z.to_N on the model side
	}
	return v.I.Uint64()
}
func (v Val) Int() int  { return int(v.I.Int64()) }

func parseVals(toks []string, pos int) ([]Val, int) {
	var out []Val
	for pos < len(toks) {
		t := toks[pos]
		switch {
		case t == "]":
			return out, pos
		case t == "[":
			inner, p := parseVals(toks, pos+1)
			if p >= len(toks) || toks[p] != "]" {
				panic("unbalanced")
			}
			if inner == nil {
				inner = []Val{}
			}
			out = append(out, Val{K: 2, L: inner})
			pos = p + 1
		case t[0] == 'x':
			b := make([]byte, (len(t)-1)/2)
			for i := range b {
				b[i] = hexv(t[1+2*i])<<4 | hexv(t[2+2*i])
			}
			out = append(out, Val{K: 1, B: b})
			pos++
		default:
			n, ok := new(big.Int).SetString(t, 10)
			if !ok {
				panic("bad int")
			}
			out = append(out, Val{K: 0, I: n})
			pos++
		}
	}
	return out, pos
}

func hexv(c byte) byte {
	switch {
	case c >= '0' && c <= '9':
		return c - '0'
	case c >= 'a' && c <= 'f':
		return c - 'a' + 10
	case c >= 'A' && c <= 'F':
		return c - 'A' + 10
	}
	panic("hex")
}

const hexd = "0123456789abcdef"

func printVal(sb *strings.Builder, v Val) {
	switch v.K {
	case 0:
		sb.WriteString(v.I.String())
	case 1:
		sb.WriteByte('x')
		for _, c := range v.B {
			sb.WriteByte(hexd[c>>4])
			sb.WriteByte(hexd[c&15])
		}
	default:
		sb.WriteByte('[')
		for i, x := range v.L {
			if i > 0 {
				sb.WriteByte(' ')
			}
			printVal(sb, x)
		}
		sb.WriteByte(']')
	}
}

var registry = map[string]func([]Val) Val{}

// "[a b]" and "[ a b ]" are the same request
var bracketSpacer = strings.NewReplacer("[", " [ ", "]", " ] ")

// every op runs under stableWrap (stable.go): values recorded with keep*() must still be what was handed out
func register(name string, f func([]Val) Val) {
	switch {
	case strings.HasPrefix(name, "cost."):
		registry[name] = stableWrapN(f, 1)
	case strings.HasPrefix(name, "tot."):
		registry[name] = stableWrapN(f, 2)
	default:
		registry[name] = stableWrap(f)
	}
}

var lastPanic string

func call(f func([]Val) Val, args []Val) (r Val) {
	defer func() {
		if e := recover(); e != nil {
			lastPanic = fmt.Sprint(e)
			r = VPanic()
		}
	}()
	return f(args)
}

func main() {
	if len(os.Args) > 1 && os.Args[1] == "--list" {
		var names []string
		for k := range registry {
			names = append(names, k)
		}
		sort.Strings(names)
		fmt.Println(strings.Join(names, "\n"))
		return
	}
	limit := 3 * time.Second
	var started int64 // unix nanos of the running call, 0 when idle
	out := bufio.NewWriterSize(os.Stdout, 1<<16)
	go func() { // watchdog
		var ms runtime.MemStats
		tick := 0
		for {
			time.Sleep(50 * time.Millisecond)
			s := atomic.LoadInt64(&started)
			if s == 0 {
				continue
			}
			tick++
			over := time.Now().UnixNano()-s > int64(limit)
			if !over && tick%4 == 0 {
				runtime.ReadMemStats(&ms)
				over = ms.HeapAlloc > 768<<20
			}
			if over {
				os.Stdout.WriteString("[3]\n")
				os.Exit(3)
			}
		}
	}()
	in := bufio.NewScanner(os.Stdin)
	in.Buffer(make([]byte, 1<<20), 1<<28)
	var sb strings.Builder
	for in.Scan() {
		toks := strings.Fields(bracketSpacer.Replace(in.Text()))
		sb.Reset()
		if len(toks) == 0 {
			sb.WriteString("[-8888]")
		} else if f, ok := registry[toks[0]]; !ok {
			sb.WriteString("[-8888]")
		} else {
			var args []Val
			bad := false
			func() {
				defer func() {
					if recover() != nil {
						bad = true
					}
				}()
				var p int
				args, p = parseVals(toks[1:], 0)
				if p != len(toks)-1 {
					bad = true
				}
			}()
			if bad {
				sb.WriteString("[-9999]")
			} else {
				// flush earlier replies before a call that may end the process
				out.Flush()
				atomic.StoreInt64(&started, time.Now().UnixNano())
				r := call(f, args)
				atomic.StoreInt64(&started, 0)
				printVal(&sb, r)
			}
		}
		out.WriteString(sb.String())
		out.WriteByte('\n')
	}
	out.Flush()
}
