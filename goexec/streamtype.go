package main

// C20: stream types and PMT descriptor decoders, run on the real psi package.

import (
	"bytes"

	"github.com/Comcast/gots/v2/psi"
)

// guarded runs one decoder; a Go panic inside it is the observation [2] for that decoder only
func guarded(f func() Val) (r Val) {
	defer func() {
		if e := recover(); e != nil {
			r = VPanic()
		}
	}()
	return f()
}

// exact copies b into a slice with cap == len (DESIGN section 3: caller slices have cap = len,
// so that a re-slice past len panics as the model says)
func exact(b []byte) []byte {
	if spareMode {
		return spareCopy(b) // stable.go: second run of every request, canary-filled spare capacity
	}
	c := make([]byte, len(b))
	copy(c, b)
	return c[:len(c):len(c)]
}

func stRow(st psi.PmtStreamType) Val {
	return VL(VU(uint64(st.StreamType())), VBool(len(st.StreamTypeDescription()) > 0),
		VBool(st.IsStreamWherePresentationLagsEbp()), VBool(st.IsAudioContent()), VBool(st.IsVideoContent()),
		VBool(st.IsSCTE35Content()), VBool(st.IsID3Content()), VBool(st.IsPrivateContent()))
}

// pmtSectionOf builds the payload of a PMT carrying the given (pid, stream_type) list and no
// descriptors (harness glue: the pmt struct is unexported, NewPMT is the only constructor).
func pmtSectionOf(streams []Val) []byte {
	var body []byte
	body = append(body, 0x00, 0x01, 0xC1, 0x00, 0x00, 0xE1, 0x00, 0xF0, 0x00)
	for _, s := range streams {
		pid := s.L[0].Int()
		body = append(body, byte(s.L[1].Int()), 0xE0|byte(pid>>8), byte(pid), 0xF0, 0x00)
	}
	sl := len(body) + 4
	sec := []byte{0x00, 0x02, 0xB0 | byte(sl>>8), byte(sl)}
	sec = append(sec, body...)
	sec = append(sec, 0, 0, 0, 0) // CRC is not examined by NewPMT
	return sec
}

func descsOf(l []Val) []psi.PmtDescriptor {
	var ds []psi.PmtDescriptor
	for _, d := range l {
		ds = append(ds, maybeForeignPmtDesc(psi.NewPmtDescriptor(uint8(d.L[0].Int()), exact(d.L[1].B))))
	}
	return ds
}

func init() {
	register("st.row", func(a []Val) Val { return stRow(psi.LookupPmtStreamType(uint8(a[0].Int()))) })
	register("st.es", func(a []Val) Val {
		return stRow(psi.NewPmtElementaryStream(uint8(a[0].Int()), 0x101, nil))
	})
	register("st.pmtlags", func(a []Val) Val {
		p, err := psi.NewPMT(pmtSectionOf(a[0].L))
		if err != nil {
			return VErr(errCode(err))
		}
		if len(p.ElementaryStreams()) != len(a[0].L) {
			return VBad()
		}
		return VBool(p.IsPidForStreamWherePresentationLagsEbp(a[1].Int()))
	})
	register("st.desc", func(a []Val) Val {
		data := exact(a[1].B)
		before := append([]byte{}, data...)
		d := psi.NewPmtDescriptor(uint8(a[0].Int()), data)
		out := []Val{
			VBool(d.IsIso639LanguageDescriptor()),
			VBool(d.IsMaximumBitrateDescriptor()),
			VBool(d.IsEBPDescriptor()),
			guarded(func() Val { return VOk(VU(uint64(d.DecodeMaximumBitRate()))) }),
			guarded(func() Val { return VOk(VB([]byte(d.DecodeIso639LanguageCode()))) }),
			guarded(func() Val { return VOk(VU(uint64(d.DecodeIso639AudioType()))) }),
			VBool(d.IsTTMLSubtitlingDescriptor()),
			guarded(func() Val { return VBool(d.IsTTMLDescTagExtension()) }),
			guarded(func() Val { return VOk(VB([]byte(d.DecodeTTMLIso639LanguageCode()))) }),
			guarded(func() Val { return VOk(VU(uint64(d.DecodeTTMLSubtitlePurpose()))) }),
			guarded(func() Val { return VOk(VBool(d.IsDolbyVision())) }),
			guarded(func() Val { return VOk(VB([]byte(d.DecodeDolbyVisionCodec("hvc1.2.4.L120.90")))) }),
		}
		out = append(out, VBool(bytes.Equal(before, data) && d.Tag() == uint8(a[0].Int())))
		return VL(out...)
	})
	register("st.desctot", func(a []Val) Val {
		d := psi.NewPmtDescriptor(uint8(a[0].Int()), exact(a[1].B))
		return VL(guarded(func() Val { return VOk(VBool(d.IsIFrameProfile())) }),
			guarded(func() Val { return VOk(VBool(d.IsDolbyATMOS())) }))
	})
	register("st.esq", func(a []Val) Val {
		return foreignTwin("st.esq (an elementary stream over caller-written PmtDescriptor values)", func() Val {
			es := psi.NewPmtElementaryStream(0x1B, 0x101, descsOf(a[0].L))
			return VL(guarded(func() Val { return VOk(VU(es.MaxBitRate())) }), VBool(es.IsTTMLSubtitling()))
		})
	})
}
