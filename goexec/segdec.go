package main

// C19 on DECODED descriptors: the ops of Exec/SegDecExec.v on the real code.  Every descriptor comes from
// scte35.NewSCTE35(section bytes).Descriptors()[0]; nothing is built through the setters here.
//
//	seg.dec.close1 <secD> <secO>           -> [ sviewD sviewO cc unchanged ]   cc = [D.CanClose(O)] | []
//	seg.dec.closem [ <secD>* ] [ <secO>* ] -> [ [sviewD*] [sviewO*] rows unchanged ]
//	seg.dec.eqm <sec>*                     -> [ [sview*] rows unchanged ]
//
// sview = [0 [view]] | [0 []] (no segmentation descriptor) | [1 e] (decoder error) | [2] (decoder panicked);
// rows are present only when every section decoded to a descriptor; unchanged = 1 when the getter view of
// some descriptor differs after the CanClose / Equal calls.

import (
	"github.com/Comcast/gots/v2/scte35"
)

// the getters CanClose / Equal / IsIn / IsOut read, in the order of SegDecExec.view
func segDecView(d scte35.SegmentationDescriptor) Val {
	return VL(VU(uint64(d.TypeID())), VU(uint64(d.EventID())), VBool(d.SCTE35().HasPTS()), VU(uint64(d.SCTE35().PTS())),
		VU(uint64(d.SegmentNumber())), VU(uint64(d.SegmentsExpected())), VBool(d.HasSubSegments()),
		VU(uint64(d.SubSegmentNumber())), VU(uint64(d.SubSegmentsExpected())), VBool(d.IsIn()), VBool(d.IsOut()))
}

// segDecOne decodes one section; d == nil unless it decoded and has a segmentation descriptor
func segDecOne(b []byte) (d scte35.SegmentationDescriptor, sv Val) {
	defer func() {
		if e := recover(); e != nil {
			d, sv = nil, VPanic()
		}
	}()
	s, err := scte35.NewSCTE35(append([]byte{}, b...))
	if err != nil {
		return nil, VErr(errCode(err))
	}
	ds := s.Descriptors()
	if len(ds) == 0 {
		return nil, VOk(VL())
	}
	return ds[0], VOk(VL(segDecView(ds[0])))
}

func segDecAll(secs []Val) (ds []scte35.SegmentationDescriptor, svs []Val, views []string, ok bool) {
	ok = true
	for _, v := range secs {
		if v.K != 1 {
			panic("section bytes expected")
		}
		d, sv := segDecOne(v.B)
		ds = append(ds, d)
		svs = append(svs, sv)
		if d == nil {
			ok = false
			views = append(views, "")
		} else {
			views = append(views, descView(d))
		}
	}
	return
}

func segDecChanged(ds []scte35.SegmentationDescriptor, views []string) int64 {
	for i, d := range ds {
		if d != nil && descView(d) != views[i] {
			return 1
		}
	}
	return 0
}

func segDecCloseM(secD, secO []Val) Val {
	dd, svd, vd, okd := segDecAll(secD)
	do, svo, vo, oko := segDecAll(secO)
	rows := []Val{}
	if okd && oko {
		for _, d := range dd {
			row := make([]Val, len(do))
			for j, o := range do {
				row[j] = VBool(d.CanClose(o))
			}
			rows = append(rows, Val{K: 2, L: row})
		}
	}
	changed := segDecChanged(dd, vd) | segDecChanged(do, vo)
	return VL(Val{K: 2, L: svd}, Val{K: 2, L: svo}, Val{K: 2, L: rows}, VI(changed))
}

func init() {
	register("seg.dec.close1", func(a []Val) Val {
		if len(a) != 2 || a[0].K != 1 || a[1].K != 1 {
			return VBad()
		}
		r := segDecCloseM(a[:1], a[1:])
		cc := []Val{}
		if len(r.L[2].L) == 1 {
			cc = r.L[2].L[0].L
		}
		return VL(r.L[0].L[0], r.L[1].L[0], Val{K: 2, L: cc}, r.L[3])
	})
	register("seg.dec.closem", func(a []Val) Val {
		if len(a) != 2 || a[0].K != 2 || a[1].K != 2 {
			return VBad()
		}
		for _, l := range a {
			for _, v := range l.L {
				if v.K != 1 {
					return VBad()
				}
			}
		}
		return segDecCloseM(a[0].L, a[1].L)
	})
	register("seg.dec.eqm", func(a []Val) Val {
		for _, v := range a {
			if v.K != 1 {
				return VBad()
			}
		}
		ds, svs, views, ok := segDecAll(a)
		rows := []Val{}
		if ok {
			for _, d := range ds {
				row := make([]Val, len(ds))
				for j, c := range ds {
					row[j] = VBool(d.Equal(c))
				}
				rows = append(rows, Val{K: 2, L: row})
			}
		}
		return VL(Val{K: 2, L: svs}, Val{K: 2, L: rows}, VI(segDecChanged(ds, views)))
	})
}
