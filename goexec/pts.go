package main

import gots "github.com/Comcast/gots/v2"

func init() {
	two := func(f func(a, b gots.PTS) Val) func([]Val) Val {
		return func(a []Val) Val { return f(gots.PTS(a[0].U()), gots.PTS(a[1].U())) }
	}
	register("pts.after", two(func(a, b gots.PTS) Val { return VBool(a.After(b)) }))
	register("pts.ge", two(func(a, b gots.PTS) Val { return VBool(a.GreaterOrEqual(b)) }))
	register("pts.ro", two(func(a, b gots.PTS) Val { return VBool(a.RolledOver(b)) }))
	register("pts.add", two(func(a, b gots.PTS) Val { return VU(uint64(a.Add(b))) }))
	register("pts.dur", two(func(a, b gots.PTS) Val { return VU(a.DurationFrom(b)) }))
	register("pts.get", func(a []Val) Val { return VOk(VU(gots.ExtractTime(a[0].B))) })
	register("pts.put", func(a []Val) Val {
		b := append([]byte{}, a[0].B...)
		gots.InsertPTS(b, a[1].U())
		return VOk(VB(b))
	})
}
