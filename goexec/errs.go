package main

import (
	"io"

	gots "github.com/Comcast/gots/v2"
)

// numbering mirrors Base/Prelude.v Module E
var errTable = []struct {
	e error
	c int
}{
	{gots.ErrBadSyncByte, 1}, {gots.ErrUnrecognizedEbpType, 2}, {gots.ErrNoEBP, 3}, {gots.ErrNoEBPData, 4},
	{gots.ErrInvalidEBPLength, 5}, {gots.ErrInvalidPacketLength, 6}, {gots.ErrInvalidTSCFlag, 7},
	{gots.ErrInvalidAFCFlag, 8}, {gots.ErrNoPayload, 9}, {gots.ErrNoAdaptationField, 10},
	{gots.ErrAdaptationFieldTooLarge, 11}, {gots.ErrAdaptationFieldCannotGrow, 12},
	{gots.ErrAdaptationFieldZeroLength, 13}, {gots.ErrNoPrivateTransportData, 14}, {gots.ErrNoSplicePoint, 15},
	{gots.ErrNoPCR, 16}, {gots.ErrNoOPCR, 17}, {gots.ErrNoAdaptationFieldExtension, 18}, {gots.ErrPATNotFound, 19},
	{gots.ErrPMTNotFound, 20}, {gots.ErrPMTParse, 21}, {gots.ErrParsePMTDescriptor, 22},
	{gots.ErrInvalidPATLength, 23}, {gots.ErrNoPayloadUnitStartIndicator, 24}, {gots.ErrUnknownTableID, 25},
	{gots.ErrShortPayload, 26}, {gots.ErrInvalidSCTE35Length, 27}, {gots.ErrSCTE35EncryptionUnsupported, 28},
	{gots.ErrSCTE35UnsupportedSpliceCommand, 29}, {gots.ErrSCTE35InvalidDescriptorID, 30},
	{gots.ErrSCTE35DuplicateDescriptor, 31}, {gots.ErrSCTE35InvalidDescriptor, 32}, {gots.ErrSCTE35MissingOut, 33},
	{gots.ErrSCTE35DescriptorNotFound, 34}, {gots.ErrNilPAT, 35}, {gots.ErrSyncByteNotFound, 36},
	{gots.ErrVSSSignalIdNotFound, 37}, {gots.ErrPIDNotInPMT, 38}, {gots.ErrAccumulatorDone, 39},
	{gots.ErrAccumulatorInvalidState, 40}, {io.EOF, 50}, {io.ErrUnexpectedEOF, 51},
}

func errCode(e error) int {
	for _, t := range errTable {
		if e == t.e {
			return t.c
		}
	}
	return 99
}

// ErrInvalidPacketLength and ErrInvalidAFCFlag are distinct values with the same text;
// identity (==) separates them.
