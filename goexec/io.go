package main

// Real-code side of the ops of coq/theories/Exec/IOExec.v:
//   io.sync      packet.Sync over bufio.Reader over a fragmenting underlying reader      (C16)
//   pw.write     packet.IOWriter(..).Write with a scripted packet writer                 (C18)
//   pw.readfrom  packet.IOWriter(..).(io.ReaderFrom).ReadFrom over a scripted reader     (C18)
//   acc.run      packet.NewAccumulator(pred) driven by an operation list                 (C17)

import (
	"bufio"
	"bytes"
	"errors"
	"fmt"
	"io"
	"strings"

	"github.com/Comcast/gots/v2/packet"
)

var (
	errReader = errors.New("verif: scripted reader failed")
	errWriter = errors.New("verif: scripted packet writer failed")
	errPred   = errors.New("verif: accumulator predicate failed")
)

// local extension of errCode (errs.go is shared): codes of the oracles' own errors and of the
// io/bufio errors these entry points can return.  Same numbers in Model/IO.v, Model/PacketWriter.v,
// Model/Accumulator.v.
func ioErrCode(e error) int {
	switch e {
	case io.ErrShortWrite:
		return 52
	case bufio.ErrInvalidUnreadByte:
		return 53
	case bufio.ErrBufferFull:
		return 54
	case io.ErrNoProgress:
		return 55
	case errReader:
		return 60
	case errWriter:
		return 61
	case errPred:
		return 62
	}
	return errCode(e)
}

func codeErr(c int) error {
	switch c {
	case 0:
		return nil
	case 50:
		return io.EOF
	case 51:
		return io.ErrUnexpectedEOF
	case 60:
		return errReader
	case 61:
		return errWriter
	case 62:
		return errPred
	}
	panic("bad error code in case")
}

// chunkReader: the underlying io.Reader below bufio.  mode 0: one byte per Read, 1: half of the
// requested length (at least one byte), 2: as much as requested, 3: as 2 but the last bytes are
// returned together with the terminal error.  After the data the terminal error is sticky.
type chunkReader struct {
	data []byte
	pos  int
	mode int
	terr error
}

func (c *chunkReader) Read(p []byte) (int, error) {
	if len(p) == 0 {
		return 0, nil
	}
	rem := len(c.data) - c.pos
	if rem == 0 {
		return 0, c.terr
	}
	n := len(p)
	switch c.mode {
	case 0:
		n = 1
	case 1:
		n = (len(p) + 1) / 2
	}
	if n > rem {
		n = rem
	}
	copy(p, c.data[c.pos:c.pos+n])
	c.pos += n
	if c.mode == 3 && c.pos == len(c.data) {
		return n, c.terr
	}
	return n, nil
}

func init() {
	// io.sync <data> <terminal error code> <bufio size> <mode>
	register("io.sync", func(a []Val) Val {
		data := append([]byte{}, a[0].B...)
		u := &chunkReader{data: data, mode: a[3].Int(), terr: codeErr(a[1].Int())}
		r := bufio.NewReaderSize(u, a[2].Int())
		off, err := packet.Sync(r)
		buf := make([]byte, packet.PacketSize)
		n, _ := io.ReadFull(r, buf)
		obs := VL(VI(off), VB(buf[:n]))
		if err != nil {
			return VL(VI(1), VI(int64(ioErrCode(err))), obs)
		}
		return VL(VI(0), obs)
	})

	// io.syncb <script> <bufio size>: the real Sync over the real bufio.Reader over the scripted reader
	register("io.syncb", func(a []Val) Val {
		run := func(foreign bool) Val {
			sr := &scriptReader{}
			for _, e := range a[0].L {
				sr.chunks = append(sr.chunks, append([]byte{}, e.L[0].B...))
				sr.errs = append(sr.errs, codeErr(e.L[1].Int()))
			}
			r := bufio.NewReaderSize(sr, a[1].Int())
			var ps packet.PeekScanner = r
			if foreign {
				ps = foreignPeekScanner{r}
			}
			off, err := packet.Sync(ps)
			buf := make([]byte, packet.PacketSize)
			n, _ := io.ReadFull(r, buf)
			obs := VL(VI(off), VB(buf[:n]))
			if err != nil {
				return VL(VI(1), VI(int64(ioErrCode(err))), obs)
			}
			return VL(VI(0), obs)
		}
		// PeekScanner is an interface: a caller-written implementation (here: one that forwards to a bufio.Reader) must be
		// served exactly like *bufio.Reader itself (seeded C16-u2: the offset was only counted for *bufio.Reader)
		r1 := run(false)
		if r2 := run(true); !valEq(r1, r2) {
			noteUnstable("packet.Sync answers differently through a caller-written PeekScanner than through *bufio.Reader: %s vs %s", valText(r1), valText(r2))
		}
		return r1
	})
	// bufio.ops <script> <size> <ops>: the real bufio.Reader driven call by call ([0] ReadByte, [1] UnreadByte,
	// [2 n] Peek n, [3 k] Read into k bytes)
	register("bufio.ops", func(a []Val) Val {
		sr := &scriptReader{}
		for _, e := range a[0].L {
			sr.chunks = append(sr.chunks, append([]byte{}, e.L[0].B...))
			sr.errs = append(sr.errs, codeErr(e.L[1].Int()))
		}
		r := bufio.NewReaderSize(sr, a[1].Int())
		outs := []Val{}
		ec := func(err error) Val {
			if err == nil {
				return VI(0)
			}
			return VI(int64(ioErrCode(err)))
		}
		for _, o := range a[2].L {
			switch o.L[0].Int() {
			case 0:
				c, err := r.ReadByte()
				if err != nil {
					outs = append(outs, VL(VI(1), ec(err)))
				} else {
					outs = append(outs, VL(VI(0), VI(int64(c))))
				}
			case 1:
				if err := r.UnreadByte(); err != nil {
					outs = append(outs, VL(VI(1), ec(err)))
				} else {
					outs = append(outs, VL(VI(0)))
				}
			case 2:
				b, err := r.Peek(o.L[1].Int())
				if err != nil {
					outs = append(outs, VL(VI(1), ec(err)))
				} else {
					outs = append(outs, VL(VI(0), VB(b)))
				}
			case 3:
				p := make([]byte, o.L[1].Int())
				n, err := r.Read(p)
				outs = append(outs, VL(VB(p[:n]), ec(err)))
			default:
				return VBad()
			}
		}
		return Val{K: 2, L: outs}
	})
	// pw.write <p> <k> <mfail> <mok> <adapter>
	register("pw.write", func(a []Val) Val {
		p := append([]byte{}, a[0].B...)
		snap := append([]byte{}, p...)
		// the caller REUSES its buffer: written once, scribbled on, refilled with the same bytes and written again through a
		// new adapter over a writer with the same script; nothing of the first call may show in the second (stable.go)
		run := func() Val {
			sw := newScriptedWriter(a[1].Int(), a[2].Int(), a[3].Int())
			n, err := sw.adapter(a[4].Int()).Write(p)
			return writerResult(int64(n), err, sw, string(snap) == string(p))
		}
		r1 := run()
		for i := range p {
			p[i] ^= 0x5a
		}
		copy(p, snap)
		return same2("Write with a reused buffer", r1, run())
	})
	// pw.readfrom <script> <k> <mfail> <mok> <adapter>
	register("pw.readfrom", func(a []Val) Val {
		sr := &scriptReader{}
		for _, e := range a[0].L {
			sr.chunks = append(sr.chunks, append([]byte{}, e.L[0].B...))
			sr.errs = append(sr.errs, codeErr(e.L[1].Int()))
		}
		// the same script read twice through two new adapters: the second run must not see anything of the first
		sr2 := &scriptReader{}
		for i := range sr.chunks {
			sr2.chunks = append(sr2.chunks, append([]byte{}, sr.chunks[i]...))
			sr2.errs = append(sr2.errs, sr.errs[i])
		}
		run := func(r *scriptReader) Val {
			sw := newScriptedWriter(a[1].Int(), a[2].Int(), a[3].Int())
			n, err := sw.adapter(a[4].Int()).(io.ReaderFrom).ReadFrom(r)
			return writerResult(n, err, sw, true)
		}
		return same2("ReadFrom twice on the same script", run(sr), run(sr2))
	})
	// acc.run <pred kind> <k> <ops>: ops [0 pkt] WritePacket, [1] Reset, [2] Bytes, [3] Packets
	register("acc.run", func(a []Val) Val {
		kind, k := a[0].Int(), a[1].Int()
		var acc packet.Accumulator
		pred := func(data []byte) (bool, error) {
			// "always": a predicate that looks at the accumulator while it is being consulted sees the packet that is being
			// written both in Bytes() and in Packets() (seeded C17-u2: the packet joined the list after the predicate call)
			if acc != nil {
				var cat []byte
				for _, p := range acc.Packets() {
					if pl, err := packet.Payload(p); err == nil {
						cat = append(cat, pl...)
					}
				}
				if b := acc.Bytes(); !bytes.Equal(b, data) || !bytes.Equal(cat, b) {
					noteUnstable("inside the completion predicate the accumulator is inconsistent: predicate data %d bytes, Bytes() %d bytes, payloads of Packets() %d bytes", len(data), len(b), len(cat))
				}
			}
			big := len(data) >= k
			switch kind {
			case 0:
				return big, nil
			case 1:
				return false, nil
			case 2:
				return true, nil
			case 3:
				if big {
					return false, errPred
				}
				return false, nil
			case 4:
				if big {
					return true, errPred
				}
				return false, nil
			}
			want := ((k % 256) + 256) % 256
			if kind == 5 {
				return len(data) > 0 && int(data[len(data)-1]) == want, nil
			}
			sum := 0
			for _, c := range data {
				sum += int(c)
			}
			return sum%256 == want, nil
		}
		acc = packet.NewAccumulator(pred)
		outs := []Val{}
		for step, o := range a[2].L {
			switch o.L[0].Int() {
			case 0:
				var pkt packet.Packet
				if len(o.L[1].B) != packet.PacketSize {
					return VBad()
				}
				copy(pkt[:], o.L[1].B)
				snap := pkt
				n, err := acc.WritePacket(&pkt)
				e := VI(0)
				if err != nil {
					e = VI(int64(ioErrCode(err)))
				}
				outs = append(outs, VL(VI(0), VI(int64(n)), e, VBool(pkt == snap)))
				// the accumulator must hold a copy: whatever the caller does to its packet
				// afterwards must not show in later Bytes()/Packets()
				for i := range pkt {
					pkt[i] ^= 0xa5
				}
			case 1:
				acc.Reset()
				outs = append(outs, VL(VI(1)))
			case 2:
				// a long-lived caller holds on to what Bytes() returned while the accumulator goes on (stable.go)
				keep(fmt.Sprintf("Bytes() of step %d", step), acc.Bytes())
				b := acc.Bytes()
				cp := append([]byte{}, b...)
				for i := range b {
					b[i] ^= 0xff
				}
				again := acc.Bytes()
				outs = append(outs, VL(VI(2), VB(cp), VBool(string(again) == string(cp))))
			case 3:
				// the list handed out and every packet in it must keep describing the packets accepted at that time
				keepPkts(fmt.Sprintf("Packets() of step %d", step), acc.Packets())
				ps := acc.Packets()
				vals := make([]Val, 0, len(ps))
				for _, p := range ps {
					vals = append(vals, VB(p[:]))
				}
				// the returned slice is the caller's: replacing its elements must not change the accumulator's list
				for i := range ps {
					ps[i] = &packet.Packet{}
				}
				again := acc.Packets()
				same := len(again) == len(vals)
				for i := 0; same && i < len(again); i++ {
					same = string(again[i][:]) == string(vals[i].B)
				}
				outs = append(outs, VL(VI(3), Val{K: 2, L: vals}, VBool(same)))
			default:
				return VBad()
			}
		}
		// the accumulator stays alive while OTHER accumulators are created and fed (stable.go decoy phase): what it holds
		// must not move (seeded C17-v2: one package-level packet list behind all accumulators)
		keepView("the accumulator's Bytes() and Packets() after the history", func() string {
			var sb strings.Builder
			sb.Write(acc.Bytes())
			for _, p := range acc.Packets() {
				sb.Write(p[:])
			}
			return sb.String()
		})
		return VOk(Val{K: 2, L: outs})
	})
}

// scriptReader: the reader oracle of Model/PacketWriter.v (rd_read).
type scriptReader struct {
	chunks [][]byte
	errs   []error
	i      int
	failed error
}

func (s *scriptReader) Read(p []byte) (int, error) {
	if s.failed != nil {
		return 0, s.failed
	}
	if s.i >= len(s.chunks) {
		s.failed = io.EOF
		return 0, io.EOF
	}
	c := s.chunks[s.i]
	if len(c) <= len(p) {
		n := copy(p, c)
		e := s.errs[s.i]
		s.i++
		if e != nil {
			s.failed = e
		}
		return n, e
	}
	n := copy(p, c[:len(p)])
	s.chunks[s.i] = c[len(p):]
	return n, nil
}

// scriptedWriter: the packet writer oracle (call k fails with errWriter returning mfail, all
// others return (mok, nil)); records a copy of every packet it is called with.
type scriptedWriter struct {
	k, mfail, mok int
	idx           int
	calls         [][]byte
}

func newScriptedWriter(k, mfail, mok int) *scriptedWriter {
	return &scriptedWriter{k: k, mfail: mfail, mok: mok}
}

func (s *scriptedWriter) WritePacket(p *packet.Packet) (int, error) {
	s.calls = append(s.calls, append([]byte{}, p[:]...))
	i := s.idx
	s.idx++
	if i == s.k {
		return s.mfail, errWriter
	}
	return s.mok, nil
}

// foreignPeekScanner: a caller-written packet.PeekScanner (forwards to a bufio.Reader; the library must not care)
type foreignPeekScanner struct{ r *bufio.Reader }

func (f foreignPeekScanner) ReadByte() (byte, error)    { return f.r.ReadByte() }
func (f foreignPeekScanner) UnreadByte() error          { return f.r.UnreadByte() }
func (f foreignPeekScanner) Peek(n int) ([]byte, error) { return f.r.Peek(n) }

// rawSink / rawCloserSink: a packet writer that ALSO has raw Write / ReadFrom (/ Close) methods of its own (a sink that
// embeds a buffer, a file, a connection).  The adapters must still deliver through WritePacket; a raw method being
// called is recorded as a call with the 1-byte marker 0xEE, which the model never produces (seeded C18-z1: the
// constructors returned an argument that already had a Write method as it was).
type rawSink struct{ *scriptedWriter }

func (r rawSink) Write(p []byte) (int, error) {
	r.calls = append(r.calls, []byte{0xEE})
	return len(p), nil
}
func (r rawSink) ReadFrom(rd io.Reader) (int64, error) {
	r.calls = append(r.calls, []byte{0xEE})
	return io.Copy(io.Discard, rd)
}

type rawCloserSink struct{ rawSink }

func (r rawCloserSink) Close() error { return nil }

// nestedSink: a packet writer that, before it looks at its packet, pushes a marker packet through ANOTHER adapter (a
// tee, a monitor, a logger built from the same library); the packet it was handed must not change under it (seeded
// C18-v1: one pooled scratch packet shared by the adapters that are active at the same time)
type nestedSink struct {
	*scriptedWriter
	other packet.Writer
}

func (n nestedSink) WritePacket(p *packet.Packet) (int, error) {
	var marker [packet.PacketSize]byte
	for i := range marker {
		marker[i] = 0xEE
	}
	marker[0] = 0x47
	n.other.Write(marker[:])
	n.other.(io.ReaderFrom).ReadFrom(bytes.NewReader(marker[:]))
	return n.scriptedWriter.WritePacket(p)
}

func (s *scriptedWriter) adapter(kind int) packet.Writer {
	switch kind {
	case 5:
		other := packet.IOWriter(packet.PacketWriterFunc(func(*packet.Packet) (int, error) { return packet.PacketSize, nil }))
		return packet.IOWriter(nestedSink{s, other})
	case 3:
		return packet.IOWriter(rawSink{s})
	case 4:
		return packet.IOWriteCloser(rawCloserSink{rawSink{s}})
	case 1:
		return packet.IOWriteCloser(packet.NopCloser(s))
	case 2:
		return packet.IOWriter(packet.PacketWriterFunc(s.WritePacket))
	}
	return packet.IOWriter(s)
}

func writerResult(n int64, err error, sw *scriptedWriter, unchanged bool) Val {
	calls := make([]Val, 0, len(sw.calls))
	for _, c := range sw.calls {
		calls = append(calls, VB(c))
	}
	e := VI(0)
	if err != nil {
		e = VI(int64(ioErrCode(err)))
	}
	return VOk(VL(VI(n), e, Val{K: 2, L: calls}, VBool(unchanged)))
}
