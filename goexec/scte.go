package main

// C08 / C09: the real scte35 package behind the ops of Exec/ScteExec.v.

import (
	"bytes"
	"fmt"

	gots "github.com/Comcast/gots/v2"
	"github.com/Comcast/gots/v2/scte35"
)

func scteViewCmd(c scte35.SpliceCommand) Val {
	if ins, ok := c.(scte35.SpliceInsertCommand); ok {
		comps := []Val{}
		for _, k := range ins.Components() {
			comps = append(comps, VL(VU(uint64(k.ComponentTag())), VBool(k.HasPTS()), VU(uint64(k.PTS()))))
		}
		return VL(VU(uint64(c.CommandType())), VBool(c.HasPTS()), VU(uint64(c.PTS())), VU(uint64(ins.EventID())),
			VBool(ins.IsEventCanceled()), VBool(ins.IsOut()), VBool(ins.IsProgramSplice()), VBool(ins.HasDuration()),
			VBool(ins.SpliceImmediate()), Val{K: 2, L: comps}, VBool(ins.IsAutoReturn()), VU(uint64(ins.Duration())),
			VU(uint64(ins.UniqueProgramId())), VU(uint64(ins.AvailNum())), VU(uint64(ins.AvailsExpected())))
	}
	return VL(VU(uint64(c.CommandType())), VBool(c.HasPTS()), VU(uint64(c.PTS())))
}

func scteViewDesc(s scte35.SCTE35, d scte35.SegmentationDescriptor) Val {
	comps := []Val{}
	for _, k := range d.Components() {
		comps = append(comps, VL(VU(uint64(k.ComponentTag())), VU(uint64(k.PTSOffset()))))
	}
	mid := []Val{}
	for _, u := range d.MID() {
		mid = append(mid, VL(VU(uint64(u.UPIDType())), VB(u.UPID())))
	}
	return VL(VBool(d.SCTE35() == s), VU(uint64(d.EventID())), VBool(d.IsEventCanceled()),
		VBool(d.HasProgramSegmentation()), VBool(d.HasDuration()), VU(uint64(d.Duration())),
		VBool(d.IsDeliveryNotRestricted()), VBool(d.IsWebDeliveryAllowed()), VBool(d.HasNoRegionalBlackout()),
		VBool(d.IsArchiveAllowed()), VU(uint64(d.DeviceRestrictions())), Val{K: 2, L: comps},
		VU(uint64(d.UPIDType())), VB(d.UPID()), Val{K: 2, L: mid}, VU(uint64(d.TypeID())),
		VU(uint64(d.SegmentNumber())), VU(uint64(d.SegmentsExpected())), VBool(d.HasSubSegments()),
		VU(uint64(d.SubSegmentNumber())), VU(uint64(d.SubSegmentsExpected())), VU(uint64(d.SegmentNum())))
}

func scteView(s scte35.SCTE35) Val {
	descs := []Val{}
	for _, d := range s.Descriptors() {
		descs = append(descs, scteViewDesc(s, d))
	}
	return VL(VBool(s.HasPTS()), VU(uint64(s.PTS())), VU(uint64(s.Tier())), VU(uint64(s.Command())),
		VU(uint64(s.AlignmentStuffing())), VB(s.Data()), scteViewCmd(s.CommandInfo()), Val{K: 2, L: descs})
}

func vb(v Val) bool { return v.I.Sign() != 0 }

// malformed requests (answered with the bad-request marker by both executors): a negative integer anywhere in the
// arguments, and in step 10 of scte.hist the same own descriptor listed twice
func scteHasNeg(v Val) bool {
	switch v.K {
	case 0:
		return v.I.Sign() < 0
	case 2:
		for _, x := range v.L {
			if scteHasNeg(x) {
				return true
			}
		}
	}
	return false
}

func scteDupSel(s scte35.SCTE35, o Val) bool {
	if o.K != 2 || len(o.L) != 2 || o.L[0].K != 0 || o.L[0].Int() != 10 || o.L[1].K != 2 {
		return false
	}
	n := len(s.Descriptors())
	seen := map[int]bool{}
	for _, e := range o.L[1].L {
		if e.K != 0 {
			continue
		}
		j := e.Int()
		if j >= 0 && j < n {
			if seen[j] {
				return true
			}
			seen[j] = true
		}
	}
	return false
}

func scteCompOp(c scte35.Component, o Val) {
	switch o.L[0].Int() {
	case 0:
		c.SetComponentTag(byte(o.L[1].U()))
	case 1:
		c.SetHasPTS(vb(o.L[1]))
	case 2:
		c.SetPTS(gots.PTS(o.L[1].U()))
	}
}

func scteCmdOp(c scte35.SpliceCommand, o Val) {
	k := o.L[0].Int()
	switch k {
	case 0:
		c.SetHasPTS(vb(o.L[1]))
		return
	case 1:
		c.SetPTS(gots.PTS(o.L[1].U()))
		return
	}
	ins, ok := c.(scte35.SpliceInsertCommand)
	if !ok {
		return // not callable on this command kind
	}
	switch k {
	case 2:
		ins.SetEventID(uint32(o.L[1].U()))
	case 3:
		ins.SetIsOut(vb(o.L[1]))
	case 4:
		ins.SetIsEventCanceled(vb(o.L[1]))
	case 5:
		ins.SetHasDuration(vb(o.L[1]))
	case 6:
		ins.SetDuration(gots.PTS(o.L[1].U()))
	case 7:
		ins.SetIsAutoReturn(vb(o.L[1]))
	case 8:
		ins.SetUniqueProgramId(uint16(o.L[1].U()))
	case 9:
		ins.SetAvailNum(uint8(o.L[1].U()))
	case 10:
		ins.SetAvailsExpected(uint8(o.L[1].U()))
	case 11:
		ins.SetIsProgramSplice(vb(o.L[1]))
	case 12:
		ins.SetSpliceImmediate(vb(o.L[1]))
	case 13:
		j := o.L[1].Int()
		cs := ins.Components()
		if j >= 0 && j < len(cs) {
			scteCompOp(cs[j], o.L[2])
		}
	}
}

func scteDescOp(d scte35.SegmentationDescriptor, o Val) {
	switch o.L[0].Int() {
	case 0:
		d.SetEventID(uint32(o.L[1].U()))
	case 1:
		d.SetTypeID(scte35.SegDescType(o.L[1].U()))
	case 2:
		d.SetIsEventCanceled(vb(o.L[1]))
	case 3:
		d.SetHasDuration(vb(o.L[1]))
	case 4:
		d.SetDuration(gots.PTS(o.L[1].U()))
	case 5:
		d.SetUPIDType(scte35.SegUPIDType(o.L[1].U()))
	case 6:
		d.SetUPID(append([]byte{}, o.L[1].B...))
	case 7:
		d.SetSegmentNumber(uint8(o.L[1].U()))
	case 8:
		d.SetSegmentsExpected(uint8(o.L[1].U()))
	case 9:
		d.SetSubSegmentNumber(uint8(o.L[1].U()))
	case 10:
		d.SetSubSegmentsExpected(uint8(o.L[1].U()))
	case 11:
		d.SetHasProgramSegmentation(vb(o.L[1]))
	case 12:
		d.SetIsDeliveryNotRestricted(vb(o.L[1]))
	case 13:
		d.SetIsWebDeliveryAllowed(vb(o.L[1]))
	case 14:
		d.SetIsArchiveAllowed(vb(o.L[1]))
	case 15:
		d.SetHasNoRegionalBlackout(vb(o.L[1]))
	case 16:
		d.SetDeviceRestrictions(scte35.DeviceRestrictions(o.L[1].U()))
	case 17:
		us := []scte35.UPID{}
		for _, e := range o.L[1].L {
			u := scte35.CreateUPID()
			u.SetUPIDType(scte35.SegUPIDType(e.L[0].U()))
			u.SetUPID(append([]byte{}, e.L[1].B...))
			us = append(us, maybeForeignUPID(u))
		}
		d.SetMID(us)
	case 18:
		cs := []scte35.ComponentOffset{}
		for _, e := range o.L[1].L {
			c := scte35.CreateComponentOffset()
			c.SetComponentTag(byte(e.L[0].U()))
			c.SetPTSOffset(gots.PTS(e.L[1].U()))
			cs = append(cs, c)
		}
		d.SetComponents(cs)
	case 19:
		d.SetHasSubSegments(vb(o.L[1]))
	case 20:
		j := o.L[1].Int()
		m := d.MID()
		if j >= 0 && j < len(m) {
			m[j].SetUPID(append([]byte{}, o.L[2].B...))
		}
	case 21:
		j := o.L[1].Int()
		m := d.MID()
		if j >= 0 && j < len(m) {
			m[j].SetUPIDType(scte35.SegUPIDType(o.L[2].U()))
		}
	case 22:
		j := o.L[1].Int()
		cs := d.Components()
		if j >= 0 && j < len(cs) {
			if o.L[2].L[0].Int() == 0 {
				cs[j].SetComponentTag(byte(o.L[2].L[1].U()))
			} else {
				cs[j].SetPTSOffset(gots.PTS(o.L[2].L[1].U()))
			}
		}
	// ---- arguments taken from the SAME object's getters (scte.hist only; notes/aliasing.md)
	case 32: // SetMID(list made of own MID() entries (by index) and fresh UPIDs ([ty xbytes]))
		own := d.MID()
		us := []scte35.UPID{}
		for _, e := range o.L[1].L {
			if e.K == 0 {
				if j := e.Int(); j >= 0 && j < len(own) {
					us = append(us, own[j])
				}
				continue
			}
			u := scte35.CreateUPID()
			u.SetUPIDType(scte35.SegUPIDType(e.L[0].U()))
			u.SetUPID(append([]byte{}, e.L[1].B...))
			us = append(us, u)
		}
		d.SetMID(us)
	case 33: // SetComponents(own Components() in another order / with repetitions)
		own := d.Components()
		cs := []scte35.ComponentOffset{}
		for _, e := range o.L[1].L {
			if j := e.Int(); j >= 0 && j < len(own) {
				cs = append(cs, own[j])
			}
		}
		d.SetComponents(cs)
	case 34: // SetUPID(own UPID())
		d.SetUPID(d.UPID())
	}
}

func scteSigOp(s scte35.SCTE35, o Val) {
	switch o.L[0].Int() {
	case 0:
		s.SetTier(uint16(o.L[1].U()))
	case 1:
		s.SetAdjustPTS(gots.PTS(o.L[1].U()))
	case 2:
		s.SetPTS(gots.PTS(o.L[1].U()))
	case 3:
		s.SetHasPTS(vb(o.L[1]))
	case 4:
		s.SetAlignmentStuffing(uint(o.L[1].U()))
	case 5:
		var c scte35.SpliceCommand
		switch o.L[1].L[0].Int() {
		case 1:
			c = scte35.CreateTimeSignalCommand()
		case 2:
			c = scte35.CreateSpliceInsertCommand()
		default:
			c = scte35.CreateSpliceNull()
		}
		for _, co := range o.L[1].L[1].L {
			scteCmdOp(c, co)
		}
		s.SetCommandInfo(c)
	case 6:
		ds := []scte35.SegmentationDescriptor{}
		for _, ops := range o.L[1].L {
			d := scte35.CreateSegmentationDescriptor()
			for _, do := range ops.L {
				scteDescOp(d, do)
			}
			ds = append(ds, d)
		}
		s.SetDescriptors(ds)
	case 7:
		s.UpdateData()
	case 8:
		scteCmdOp(s.CommandInfo(), o.L[1])
	case 9:
		i := o.L[1].Int()
		ds := s.Descriptors()
		if i >= 0 && i < len(ds) {
			if k := o.L[2].L[0].Int(); k == 17 || k == 20 || k == 21 || k == 32 || k == 5 {
				// these calls legitimately change what an entry of MID() handed out earlier shows
				forgetViews(fmt.Sprintf("descriptor %p MID()", ds[i]))
			}
			scteDescOp(ds[i], o.L[2])
		}
	case 10: // SetDescriptors(own Descriptors() in another order): a new slice holding the same objects
		own := s.Descriptors()
		ds := []scte35.SegmentationDescriptor{}
		for _, e := range o.L[1].L {
			if j := e.Int(); j >= 0 && j < len(own) {
				ds = append(ds, own[j])
			}
		}
		s.SetDescriptors(ds)
	case 11: // SetCommandInfo(own CommandInfo())
		s.SetCommandInfo(s.CommandInfo())
	}
}

// scteKeep records what the signal hands out at this moment: Data(), the descriptor list, each descriptor's UPID()
// and the entries of MID() (stable.go)
func scteKeep(when string, s scte35.SCTE35) {
	keep("Data() "+when, s.Data())
	ds := s.Descriptors()
	keepList("Descriptors() "+when, ds)
	for _, d := range ds {
		keep(fmt.Sprintf("descriptor %p UPID() %s", d, when), d.UPID())
		for j, u := range d.MID() {
			u := u
			keep(fmt.Sprintf("descriptor %p MID()[%d].UPID() %s", d, j, when), u.UPID())
			keepView(fmt.Sprintf("descriptor %p MID()[%d] %s", d, j, when), func() string {
				return fmt.Sprint(u.UPIDType(), u.UPID())
			})
		}
	}
}

func init() {
	register("scte.decode", func(a []Val) Val {
		in := append([]byte{}, a[0].B...)
		s, err := scte35.NewSCTE35(in)
		if err != nil {
			return VErr(errCode(err))
		}
		v := twice("SCTE35 getters", func() Val { return scteView(s) })
		// the decoded object stays in the caller's hands while other sections are decoded (stable.go decoy phase): what
		// it hands out and what its getters say must not move (seeded C08-v1: UPIDs aliasing a pooled decode buffer)
		scteKeep("after decoding", s)
		keepView("the getters of the decoded signal", func() string { return valTextFull(scteView(s)) })
		return VOk(VL(v, VBool(bytes.Equal(in, a[0].B))))
	})
	register("scte.reencode", func(a []Val) Val {
		in := append([]byte{}, a[0].B...)
		s, err := scte35.NewSCTE35(in)
		if err != nil {
			return VErr(errCode(err))
		}
		scteKeep("after decoding", s)
		out := append([]byte{}, keep("bytes returned by UpdateData", s.UpdateData())...)
		_ = s.String() // C05: a decoded object can be printed without panicking (a panic turns the reply into [2])
		return VOk(VL(VB(out), scteView(s)))
	})
	register("scte.build", func(a []Val) Val {
		if scteHasNeg(a[0]) || scteHasNeg(a[1]) {
			return VBad()
		}
		var s scte35.SCTE35
		if len(a[0].L) == 0 {
			s = scte35.CreateSCTE35()
		} else {
			var err error
			s, err = scte35.NewSCTE35(append([]byte{}, a[0].L[0].B...))
			if err != nil {
				return VErr(errCode(err))
			}
		}
		for _, o := range a[1].L {
			scteSigOp(s, o)
		}
		scteKeep("before UpdateData", s)
		before := append([]byte{}, s.Data()...)
		out := append([]byte{}, keep("bytes returned by UpdateData", s.UpdateData())...)
		view := twice("SCTE35 getters", func() Val { return scteView(s) })
		scteKeep("after UpdateData", s)
		after := append([]byte{}, s.Data()...)
		var rt Val
		if s2, err := scte35.NewSCTE35(append([]byte{0}, out...)); err != nil {
			rt = VErr(errCode(err))
		} else {
			rt = VOk(scteView(s2))
		}
		return VOk(VL(VB(out), view, VB(before), VB(after), rt))
	})
	// scte.hist <start> <ops>: ONE signal, every getter after every step (twice), everything handed out is kept
	var scteHistOnce func(a []Val) Val
	register("scte.hist", func(a []Val) Val {
		return foreignTwin("scte.hist (SetMID with caller-written UPID values)", func() Val { return scteHistOnce(a) })
	})
	scteHistOnce = func(a []Val) Val {
		if scteHasNeg(a[0]) || scteHasNeg(a[1]) {
			return VBad()
		}
		var s scte35.SCTE35
		if len(a[0].L) == 0 {
			s = scte35.CreateSCTE35()
		} else {
			var err error
			in := append([]byte{}, a[0].L[0].B...)
			s, err = scte35.NewSCTE35(keep("input of NewSCTE35", in[:len(in):len(in)]))
			if err != nil {
				return VErr(errCode(err))
			}
		}
		look := func(when string) Val {
			scteKeep(when, s)
			return twice("SCTE35 getters", func() Val { return scteView(s) })
		}
		out := []Val{look("at the start")}
		for i, o := range a[1].L {
			if scteDupSel(s, o) {
				return VBad()
			}
			scteSigOp(s, o)
			out = append(out, look(fmt.Sprintf("after step %d", i)))
		}
		return VOk(Val{K: 2, L: out})
	}
	register("scte.crc", func(a []Val) Val { return VB(gots.ComputeCRC(a[0].B)) })
}
