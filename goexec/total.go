package main

// C05: every decoding entry point on arbitrary input.  Observation of `tot.<entry> <bytes> [n]`:
//   [0 u e]    returned (value or error); u = 1 when every caller-supplied buffer a read-only
//              operation was given is byte-for-byte unchanged afterwards, 0 otherwise; e = 1 when the group's
//              PRIMARY decoder call returned a non-nil error (totE(err) marks the call; the e_* functions of
//              Exec/TotExec.v answer the same from the models), 0 for a group without one
//   [2 xSITE]  panicked; SITE = ASCII "<gots frame>|<kind>" of the innermost library frame
// A hang / heap blow-up is reported by the watchdog of main.go as [3].

import (
	"bufio"
	"bytes"
	"fmt"
	"io"
	"os"
	"runtime/debug"
	"runtime/metrics"
	"strings"

	"github.com/Comcast/gots/v2/ebp"
	"github.com/Comcast/gots/v2/packet"
	"github.com/Comcast/gots/v2/packet/adaptationfield"
	"github.com/Comcast/gots/v2/pes"
	"github.com/Comcast/gots/v2/psi"
	"github.com/Comcast/gots/v2/scte35"
)


func panicSite(msg string) string {
	kind := "index"
	switch {
	case strings.Contains(msg, "slice bounds"):
		kind = "slice"
	case strings.Contains(msg, "nil pointer"):
		kind = "nil"
	case strings.Contains(msg, "makeslice"):
		kind = "makeslice"
	case strings.Contains(msg, "index out of range"):
		kind = "index"
	default:
		kind = "other"
	}
	st := string(debug.Stack())
	for _, l := range strings.Split(st, "\n") {
		if strings.Contains(l, "github.com/Comcast/gots/v2") {
			m := strings.TrimSpace(l)
			if k := strings.LastIndex(m, "("); k > 0 {
				m = m[:k] // drop the argument list, keep receiver and method name
			}
			return strings.TrimPrefix(m, "github.com/Comcast/gots/v2") + "|" + kind
		}
	}
	return "?|" + kind
}

func totPkt(b []byte) *packet.Packet {
	var p packet.Packet
	copy(p[:], b)
	return &p
}

// totErr is the accept / reject bit of the running group: set by totE at the primary decoder call
var totErr bool

func totE(err error) {
	if err != nil {
		totErr = true
	}
}

// tot wraps an entry: f gets a private exact-capacity copy of the input and the optional integer;
// it returns false when it observed a read-only operation modifying a caller buffer.
func tot(name string, f func(b []byte, n int) bool) {
	g := totFunc(name, f)
	register("tot."+name, g)
	// the same group under a name the model executor does not have: long inputs (hundreds of packets), judged from the
	// real observation alone (bin/gen/c05.py REAL_ONLY_OPS; the extracted stream models are too slow at that size)
	register("cost."+name, g)
}

func totFunc(name string, f func(b []byte, n int) bool) func(a []Val) Val {
	return func(a []Val) (r Val) {
		in := make([]byte, len(a[0].B))
		copy(in, a[0].B)
		n := 0
		if len(a) > 1 {
			n = a[1].Int()
		}
		defer func() {
			if e := recover(); e != nil {
				r = VL(VI(2), VB([]byte(panicSite(fmt.Sprint(e)))))
			}
		}()
		totErr = false
		a0 := allocatedBytes()
		ok := f(in, n)
		cost := allocatedBytes() - a0
		if costLog != nil {
			fmt.Fprintf(costLog, "%s %d %d\n", name, len(in), cost)
		}
		if limit := costLimit(len(in)); cost > limit {
			return VL(VI(7), VB([]byte(fmt.Sprintf("tot.%s allocated %d bytes for an input of %d bytes (limit %d = %d + %d x input)",
				name, cost, len(in), limit, costBase, costPerByte))))
		}
		return VL(VI(0), VBool(ok), VBool(totErr))
	}
}

func totSame(a, b []byte) bool { return bytes.Equal(a, b) }

// ---- "memory bounded by a small multiple of the input size" ----
// The bytes allocated while the group runs (cumulative allocation, runtime/metrics /gc/heap/allocs:bytes: garbage
// counts, so repeated copying of a growing buffer shows although the live heap stays small) must stay below
// costBase + costPerByte x len(input).  The constants are several times the largest ratio observed on the
// unchanged library (thorough tier, inputs up to 1128 bytes: at most 0.33 MB per call; streams of 300 / 1000 / 3000
// packets: at most 5.5 bytes per input byte); what the harness itself allocates inside a group is linear in the
// input as well.  Reply [7 x<description>] when exceeded (bin/check: "resource bound exceeded").
const (
	costBase    = 2 << 20
	costPerByte = 32
)

func costLimit(n int) uint64 { return costBase + costPerByte*uint64(n) }

var costSample = []metrics.Sample{{Name: "/gc/heap/allocs:bytes"}}

func allocatedBytes() uint64 {
	metrics.Read(costSample)
	if costSample[0].Value.Kind() != metrics.KindUint64 {
		return 0
	}
	return costSample[0].Value.Uint64()
}

// development aid: VERIF_COST_LOG=<file> appends "<group> <input length> <allocated bytes>" per call
var costLog = func() io.Writer {
	if p := os.Getenv("VERIF_COST_LOG"); p != "" {
		if f, err := os.OpenFile(p, os.O_APPEND|os.O_CREATE|os.O_WRONLY, 0644); err == nil {
			return f
		}
	}
	return nil
}()

// ---- argument shapes derived from the input (mirrored one by one in Exec/TotExec.v) ----

// position of the transport_private_data length byte (ext = false) or of the adaptation-extension length byte
// (ext = true), computed from the flags byte as adaptationfield.go does (AF.transportPrivateDataStart /
// AF.adaptationExtensionStart in the model)
func totAFFieldPos(p *packet.Packet, ext bool) int {
	f := p[5]
	pos := 6
	if f&0x10 != 0 {
		pos += 6
	}
	if f&0x08 != 0 {
		pos += 6
	}
	if f&0x04 != 0 {
		pos += 1
	}
	if ext && f&0x02 != 0 && pos < 188 {
		pos += 1 + int(p[pos])
	}
	return pos
}

// data for SetTransportPrivateData / SetAdaptationFieldExtension: shape 0 = {1,2,3}; 1..5 = a ramp 1,2,3,.. of
// length L, L-1, L+1, "exactly the room left", 0, where L is the length byte stored at the field's position
func totAFData(p *packet.Packet, ext bool, shape int) []byte {
	if shape <= 0 || shape > 5 {
		return []byte{1, 2, 3}
	}
	pos := totAFFieldPos(p, ext)
	l := 0
	if pos < 188 {
		l = int(p[pos])
	}
	end := int(p[4]) + 5
	if end > 188 {
		end = 188
	}
	room := end - pos - 1
	if room < 0 {
		room = 0
	}
	n := 0
	switch shape {
	case 1:
		n = l
	case 2:
		n = l - 1
		if n < 0 {
			n = 0
		}
	case 3:
		n = l + 1
	case 4:
		n = room
	case 5:
		n = 0
	}
	d := make([]byte, n)
	for i := range d {
		d[i] = byte(i + 1)
	}
	return d
}

// where the stuffing starts (Packet.stuffingStart_m in the model): 188 minus this is what SetPayload calls freeSpace
func totStuffingStart(p *packet.Packet) int {
	if p[3]&0x20 == 0 {
		return 4
	}
	if p[4] == 0 {
		return 5
	}
	pos := totAFFieldPos(p, false)
	f := p[5]
	if f&0x02 != 0 && pos < 188 {
		pos += 1 + int(p[pos])
	}
	if f&0x01 != 0 && pos < 188 {
		pos += 1 + int(p[pos])
	}
	return pos
}

// payload length for pkt.setpayload: n < 256 literally; 256, 257, 258 = freeSpace, freeSpace-1, freeSpace+1 (clamped to 0..300)
func totPayloadLen(p *packet.Packet, n int) int {
	if n < 0 {
		return 0
	}
	if n < 256 || n > 258 {
		return n % 256
	}
	fs := 188 - totStuffingStart(p)
	l := fs + []int{0, -1, 1}[n-256]
	if l < 0 {
		l = 0
	}
	if l > 300 {
		l = 300
	}
	return l
}

// PID list for psi.filter: n < 10000 -> {n, 256, 257}; 10000+k -> a list derived from the packets:
// 0 {0}  1 {pid of packet 0}  2 {0, pid of packet 0}  3 {}  4 / 5 / 6 first / last / all stream PIDs of the PMT that the
// concatenated payloads parse to (none when a payload is missing or NewPMT fails)  7 {8190} (absent)
func totFilterPids(pk []*packet.Packet, n int) []int {
	if n < 10000 || n > 10007 {
		return []int{n, 256, 257}
	}
	pid0 := packet.Pid(pk[0])
	var own []int
	if n >= 10004 && n <= 10006 {
		var pay []byte
		ok := true
		for _, p := range pk {
			b, err := packet.Payload(p)
			if err != nil {
				ok = false
				break
			}
			pay = append(pay, b...)
		}
		if ok {
			if pm, err := psi.NewPMT(pay); err == nil {
				own = pm.Pids()
			}
		}
	}
	switch n - 10000 {
	case 0:
		return []int{0}
	case 1:
		return []int{pid0}
	case 2:
		return []int{0, pid0}
	case 3:
		return []int{}
	case 4:
		if len(own) > 0 {
			return []int{own[0]}
		}
		return []int{}
	case 5:
		if len(own) > 0 {
			return []int{own[len(own)-1]}
		}
		return []int{}
	case 6:
		return append([]int{}, own...)
	}
	return []int{8190}
}

func init() {
	tot("pkt.read", func(b []byte, n int) bool {
		p := totPkt(b)
		q := *p
		packet.PayloadUnitStartIndicator(p)
		packet.Pid(p)
		packet.ContainsPayload(p)
		packet.ContainsAdaptationField(p)
		packet.ContinuityCounter(p)
		packet.IsNull(p)
		packet.IsPat(p)
		_, perr := packet.Payload(p)
		totE(perr)
		packet.Header(p)
		packet.PESHeader(p)
		packet.IncrementCC(p)
		packet.ZeroCC(p)
		packet.SetCC(p, uint8(n))
		packet.Equal(p, &q)
		p.Payload()
		p.CheckErrors()
		p.PID()
		p.IsNull()
		p.IsPAT()
		p.HasPayload()
		p.HasAdaptationField()
		p.AdaptationFieldControl()
		p.TransportScramblingControl()
		p.ContinuityCounter()
		p.Equals(&q)
		pes.AlignedPUSI(p)
		packet.FromBytes(b)
		packet.CopyPackets([]*packet.Packet{p})
		return *p == q
	})
	tot("pkt.setpayload", func(b []byte, n int) bool {
		p := totPkt(b)
		d := make([]byte, totPayloadLen(p, n))
		for i := range d {
			d[i] = byte(i)
		}
		d0 := append([]byte{}, d...)
		p.SetPayload(d)
		_, perr := p.Payload()
		totE(perr)
		packet.Payload(p)
		return totSame(d, d0)
	})
	tot("pkt.setpayloadfn", func(b []byte, n int) bool {
		p := totPkt(b)
		if n < 0 {
			n = 0
		}
		d := make([]byte, n%256)
		d0 := append([]byte{}, d...)
		packet.SetPayload(p, d)
		return totSame(d, d0)
	})
	tot("pkt.setafc", func(b []byte, n int) bool {
		p := totPkt(b)
		p.SetAdaptationFieldControl(packet.AdaptationFieldControlOptions(n & 3))
		_, perr := p.Payload()
		totE(perr)
		packet.Header(p)
		return true
	})
	tot("af.getters", func(b []byte, n int) bool {
		p := totPkt(b)
		if n&1 == 1 {
			p[3] |= 0x20
		}
		q := *p
		af, err := p.AdaptationField()
		totE(err)
		if err != nil {
			return true
		}
		af.Length()
		af.Discontinuity()
		af.RandomAccess()
		af.ElementaryStreamPriority()
		af.HasPCR()
		af.PCR()
		af.HasOPCR()
		af.OPCR()
		af.HasSplicingPoint()
		af.SpliceCountdown()
		af.HasTransportPrivateData()
		af.TransportPrivateData()
		af.HasAdaptationFieldExtension()
		af.AdaptationFieldExtension()
		return *p == q
	})
	tot("af.setters", func(b []byte, n int) bool {
		// n = 40*shape + 20*flag + op: op selects the setter, flag forces the adaptation-field bit,
		// shape selects the data of ops 7 and 8 (totAFData)
		op := n % 20
		shape := n / 40
		p := totPkt(b)
		if (n/20)%2 == 1 {
			p[3] |= 0x20
		}
		af, err := p.AdaptationField()
		totE(err)
		if err != nil {
			return true
		}
		arg := []byte{1, 2, 3}
		if op == 7 || op == 8 {
			arg = totAFData(p, op == 8, shape)
		}
		arg0 := append([]byte{}, arg...)
		switch op {
		case 0:
			af.SetHasPCR(true)
		case 1:
			af.SetHasPCR(false)
		case 2:
			af.SetHasOPCR(true)
		case 3:
			af.SetHasOPCR(false)
		case 4:
			af.SetHasSplicingPoint(false)
		case 5:
			af.SetHasTransportPrivateData(true)
		case 6:
			af.SetHasTransportPrivateData(false)
		case 7:
			af.SetTransportPrivateData(arg)
		case 8:
			af.SetAdaptationFieldExtension(arg)
		case 9:
			af.SetPCR(1)
		case 10:
			af.SetSpliceCountdown(1)
		case 11:
			q := totPkt(b)
			q[3] |= 0x20
			q[4] = 183
			qa, _ := q.AdaptationField()
			p.SetAdaptationField(qa)
		case 12:
			af.SetHasSplicingPoint(true)
		case 13:
			af.SetHasAdaptationFieldExtension(true)
		case 14:
			af.SetHasAdaptationFieldExtension(false)
		case 15:
			af.SetOPCR(2)
		case 16:
			af.SetDiscontinuity(true)
		case 17:
			af.SetRandomAccess(true)
		case 18:
			af.SetElementaryStreamPriority(false)
		case 19:
			q := totPkt(b)
			qa, e2 := q.AdaptationField()
			if e2 == nil {
				p.SetAdaptationField(qa)
			}
		}
		// the result must stay queryable
		af.PCR()
		af.OPCR()
		af.SpliceCountdown()
		af.TransportPrivateData()
		af.AdaptationFieldExtension()
		p.Payload()
		return totSame(arg, arg0)
	})
	tot("affn", func(b []byte, n int) bool {
		p := totPkt(b)
		q := *p
		adaptationfield.Length(p)
		adaptationfield.IsDiscontinuous(p)
		adaptationfield.IsRandomAccess(p)
		adaptationfield.IsESHigherPriority(p)
		adaptationfield.HasPCR(p)
		adaptationfield.HasOPCR(p)
		adaptationfield.HasSplicingPoint(p)
		adaptationfield.HasTransportPrivateData(p)
		adaptationfield.HasAdaptationFieldExtension(p)
		adaptationfield.PCR(p)
		adaptationfield.OPCR(p)
		adaptationfield.SpliceCountdown(p)
		adaptationfield.TransportPrivateData(p)
		adaptationfield.EncoderBoundaryPoint(p)
		return *p == q
	})
	tot("psi.accessors", func(b []byte, n int) bool {
		b0 := append([]byte{}, b...)
		psi.PointerField(b)
		psi.TableID(b)
		psi.SectionSyntaxIndicator(b)
		psi.PrivateIndicator(b)
		psi.SectionLength(b)
		th, err := psi.TableHeaderFromBytes(b)
		totE(err)
		if err == nil {
			th.Data()
		}
		psi.CanBuildPMT(b, uint16(n))
		return totSame(b, b0)
	})
	tot("psi.pat", func(b []byte, n int) bool {
		b0 := append([]byte{}, b...)
		p, err := psi.NewPAT(b)
		totE(err)
		if err == nil {
			p.NumPrograms()
			p.ProgramMap()
			p.SPTSpmtPID()
			psi.IsPMT(totPkt(b), p)
		}
		return totSame(b, b0)
	})
	tot("psi.pmt", func(b []byte, n int) bool {
		b0 := append([]byte{}, b...)
		p, err := psi.NewPMT(b)
		totE(err)
		if err == nil {
			_ = p.String()
			p.Pids()
			p.VersionNumber()
			p.CurrentNextIndicator()
			p.PIDExists(n)
			p.IsPidForStreamWherePresentationLagsEbp(n)
			own := append([]int{}, p.Pids()...)
			for _, pid := range own {
				p.PIDExists(pid)
				p.IsPidForStreamWherePresentationLagsEbp(pid)
			}
			for _, e := range p.ElementaryStreams() {
				// fmt recovers a panic of a String() it calls itself; call the nested printers directly as well
				if sr, ok := e.(fmt.Stringer); ok {
					_ = sr.String()
				}
				if sr, ok := psi.LookupPmtStreamType(e.StreamType()).(fmt.Stringer); ok {
					_ = sr.String()
				}
				e.MaxBitRate()
				e.IsTTMLSubtitling()
				e.StreamTypeDescription()
				e.IsAudioContent()
				e.IsVideoContent()
				e.IsSCTE35Content()
				e.IsID3Content()
				for _, d := range e.Descriptors() {
					d.Format()
					if sr, ok := d.(fmt.Stringer); ok {
						_ = sr.String()
					}
					d.IsIFrameProfile()
					d.IsDolbyATMOS()
					d.IsDolbyVision()
					d.IsTTMLSubtitlingDescriptor()
					d.IsTTMLDescTagExtension()
					d.IsEBPDescriptor()
					d.Tag()
					d.IsIso639LanguageDescriptor()
					d.IsMaximumBitrateDescriptor()
					d.DecodeDolbyVisionCodec("")
					d.DecodeIso639LanguageCode()
					d.DecodeIso639AudioType()
					d.DecodeMaximumBitRate()
					d.DecodeTTMLIso639LanguageCode()
					d.DecodeTTMLSubtitlePurpose()
				}
			}
			p.RemoveElementaryStreams([]int{n, 256})
			p.Pids()
			_ = p.String()
			if len(own) > 0 {
				p.RemoveElementaryStreams(own[:1])
				p.RemoveElementaryStreams(own)
				p.Pids()
				_ = p.String()
			}
		}
		return totSame(b, b0)
	})
	tot("psi.done", func(b []byte, n int) bool {
		b0 := append([]byte{}, b...)
		_, derr := psi.PmtAccumulatorDoneFunc(b)
		totE(derr)
		return totSame(b, b0)
	})
	tot("psi.crc", func(b []byte, n int) bool {
		b0 := append([]byte{}, b...)
		_, cerr := psi.ExtractCRC(b)
		totE(cerr)
		return totSame(b, b0)
	})
	tot("psi.filter", func(b []byte, n int) bool {
		var pk []*packet.Packet
		for i := 0; i+188 <= len(b); i += 188 {
			pk = append(pk, totPkt(b[i:i+188]))
		}
		if len(pk) == 0 {
			pk = append(pk, totPkt(b))
		}
		snap := make([]packet.Packet, len(pk))
		for i := range pk {
			snap[i] = *pk[i]
		}
		pids := totFilterPids(pk, n)
		pids0 := append([]int{}, pids...)
		_, ferr := psi.FilterPMTPacketsToPids(pk, pids)
		totE(ferr)
		for i := range pk {
			if snap[i] != *pk[i] {
				return false
			}
		}
		if len(pids) != len(pids0) {
			return false
		}
		for i := range pids {
			if pids[i] != pids0[i] {
				return false
			}
		}
		return true
	})
	tot("psi.readpat", func(b []byte, n int) bool {
		b0 := append([]byte{}, b...)
		p, err := psi.ReadPAT(bytes.NewReader(b))
		totE(err)
		if err == nil && p != nil {
			p.NumPrograms()
			p.ProgramMap()
			p.SPTSpmtPID()
		}
		return totSame(b, b0)
	})
	tot("psi.readpmt", func(b []byte, n int) bool {
		b0 := append([]byte{}, b...)
		if n == -1 { // the PID of the first packet
			n = 0
			if len(b) >= 3 {
				n = int(b[1]&0x1f)<<8 | int(b[2])
			}
		}
		p, err := psi.ReadPMT(bytes.NewReader(b), n)
		totE(err)
		if err == nil && p != nil {
			_ = p.String()
			p.Pids()
		}
		return totSame(b, b0)
	})
	tot("pes.new", func(b []byte, n int) bool {
		b0 := append([]byte{}, b...)
		h, err := pes.NewPESHeader(b)
		totE(err)
		if err == nil {
			h.Data()
			h.PTS()
			h.DTS()
			h.HasPTS()
			h.HasDTS()
			h.StreamId()
			h.PacketStartCodePrefix()
			h.DataAligned()
			_ = fmt.Sprintf("%v", h)
			if f, ok := h.(interface{ Format() string }); ok {
				f.Format()
			}
		}
		if len(b) >= 5 {
			pes.ExtractTime(b)
		}
		return totSame(b, b0)
	})
	tot("ebp.read", func(b []byte, n int) bool {
		b0 := append([]byte{}, b...)
		e, err := ebp.ReadEncoderBoundaryPoint(b)
		totE(err)
		if err == nil && e != nil {
			e.Data()
			e.EBPTime()
			e.StreamSyncSignal()
			e.EBPType()
			e.EBPSuccessReadTime()
			e.FragmentFlag()
			e.SegmentFlag()
			e.SapFlag()
			e.GroupingFlag()
			e.TimeFlag()
			e.Sap()
			e.IsEmpty()
			e.ExtensionFlag()
			_ = fmt.Sprint(e)
		}
		return totSame(b, b0)
	})
	tot("scte.new", func(b []byte, n int) bool {
		b0 := append([]byte{}, b...)
		s, err := scte35.NewSCTE35(b)
		totE(err)
		if err == nil {
			_ = s.String()
			s.HasPTS()
			s.PTS()
			s.Command()
			s.Tier()
			s.AlignmentStuffing()
			s.Data()
			if ci := s.CommandInfo(); ci != nil {
				ci.CommandType()
				ci.HasPTS()
				ci.PTS()
				ci.Data()
				if si, ok := ci.(scte35.SpliceInsertCommand); ok {
					si.EventID()
					si.IsOut()
					si.IsEventCanceled()
					si.HasDuration()
					si.Duration()
					si.IsAutoReturn()
					si.UniqueProgramId()
					si.AvailNum()
					si.AvailsExpected()
					si.IsProgramSplice()
					si.SpliceImmediate()
					for _, c := range si.Components() {
						c.ComponentTag()
						c.HasPTS()
						c.PTS()
					}
				}
			}
			for _, d := range s.Descriptors() {
				d.Data()
				d.StreamSwitchSignalId()
				d.EventID()
				d.TypeID()
				d.IsEventCanceled()
				d.HasDuration()
				d.Duration()
				d.UPIDType()
				d.UPID()
				d.MID()
				d.SegmentNumber()
				d.SegmentsExpected()
				d.HasSubSegments()
				d.SubSegmentNumber()
				d.SubSegmentsExpected()
				d.Components()
				d.IsIn()
				d.IsOut()
				d.SCTE35()
				for _, o := range s.Descriptors() {
					d.CanClose(o)
					d.Equal(o)
				}
			}
			out := s.UpdateData()
			// the re-encoded section must itself be decodable without panic
			scte35.NewSCTE35(append([]byte{0}, out...))
			st := scte35.NewState()
			for _, d := range s.Descriptors() {
				st.ProcessDescriptor(d)
			}
			st.Open()
		}
		return totSame(b, b0)
	})
	tot("pkt.sync", func(b []byte, n int) bool {
		b0 := append([]byte{}, b...)
		sz := 16 + n%4096
		r := bufio.NewReaderSize(bytes.NewReader(b), sz)
		_, serr := packet.Sync(r)
		totE(serr)
		packet.IsSynced(bufio.NewReaderSize(bytes.NewReader(b), sz))
		return totSame(b, b0)
	})
	tot("pkt.acc", func(b []byte, n int) bool {
		a := packet.NewAccumulator(psi.PmtAccumulatorDoneFunc)
		ok := true
		for i := 0; i+188 <= len(b); i += 188 {
			p := totPkt(b[i : i+188])
			q := *p
			a.WritePacket(p)
			if i < 32*188 || i+376 > len(b) {
				// Bytes() / Packets() hand out independent copies of everything accumulated: on long streams they are
				// called for the first packets and the last one only, so that the group's own cost stays linear
				a.Bytes()
				a.Packets()
			}
			if *p != q {
				ok = false
			}
		}
		a.Reset()
		return ok
	})
	tot("pkt.writer", func(b []byte, n int) bool {
		b0 := append([]byte{}, b...)
		cnt := 0
		w := packet.IOWriter(packet.PacketWriterFunc(func(p *packet.Packet) (int, error) {
			cnt++
			if n > 0 && cnt == n {
				return 0, io.ErrClosedPipe
			}
			if n < 0 {
				return 0, nil // a writer that drops the packet and says so with a zero count and no error
			}
			return 188, nil
		}))
		w.Write(b)
		w.(io.ReaderFrom).ReadFrom(totOneByteReader(b))
		w.(io.ReaderFrom).ReadFrom(bytes.NewReader(b))
		return totSame(b, b0)
	})
}

// one-byte-at-a-time reader
type totOneByte struct{ b []byte }

func (o *totOneByte) Read(p []byte) (int, error) {
	if len(o.b) == 0 {
		return 0, io.EOF
	}
	if len(p) == 0 {
		return 0, nil
	}
	p[0] = o.b[0]
	o.b = o.b[1:]
	return 1, nil
}
func totOneByteReader(b []byte) io.Reader { return &totOneByte{append([]byte{}, b...)} }
