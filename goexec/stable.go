package main

// Stability of what the library hands out (notes/aliasing.md).
//
// A long-lived caller keeps the slices, packets and lists a getter returned and goes on using the
// object.  The ops record every such value with keep*() together with a private snapshot; when the
// op is about to reply, unstable() compares all of them again.  A value that changed behind the
// caller's back (an internal buffer handed out and overwritten by a later call, storage reused by a
// setter, a result that differs on the second call) turns the reply into
//
//	[6 x<ASCII description>]
//
// which the model never answers, so bin/check reports the case.  register() (main.go) wraps every
// op with stableWrap, so an op only has to call keep*() / same2() / noteUnstable().

import (
	"bytes"
	"fmt"
	"math/big"
	"os"
	"reflect"
	"strings"

	"github.com/Comcast/gots/v2/packet"
)

type keptBytes struct {
	label string
	live  []byte // the slice as handed out (shares whatever memory the library gave us)
	snap  []byte // private copy taken at that moment
}

type keptIntsT struct {
	label string
	live  []int
	snap  []int
}

type keptPacket struct {
	label string
	live  *packet.Packet
	snap  packet.Packet
}

type keptPtrs struct {
	label string
	live  reflect.Value // a slice of pointers / interfaces / funcs
	snap  []uintptr
}

type keptView struct {
	label string
	f     func() string // re-evaluates a getter view of an object that nobody touched meanwhile
	snap  string
}

var (
	keptB     []keptBytes
	keptP     []keptPacket
	keptL     []keptPtrs
	keptV     []keptView
	keptI     []keptIntsT
	firstNote string // first discrepancy noted directly (same2, noteUnstable)
)

func stableReset() {
	keptB, keptP, keptL, keptV, keptI, firstNote = keptB[:0], keptP[:0], keptL[:0], keptV[:0], keptI[:0], ""
}

// keep records a byte slice handed out by (or handed to) the library and returns it.
func keep(label string, b []byte) []byte {
	if b != nil {
		keptB = append(keptB, keptBytes{label, b, append([]byte(nil), b...)})
	}
	return b
}

// keepInts records a list of integers (a PID list) handed out by or handed to the library.
func keepInts(label string, l []int) []int {
	if l != nil {
		keptI = append(keptI, keptIntsT{label, l, append([]int(nil), l...)})
	}
	return l
}

// keepPkt records a packet the library handed out (or was given) by pointer.
func keepPkt(label string, p *packet.Packet) *packet.Packet {
	if p != nil {
		keptP = append(keptP, keptPacket{label, p, *p})
	}
	return p
}

// keepPkts records a list of packets: the list itself (which pointers, in which order) and every packet.
func keepPkts(label string, ps []*packet.Packet) []*packet.Packet {
	keepList(label, ps)
	for i, p := range ps {
		keepPkt(fmt.Sprintf("%s[%d]", label, i), p)
	}
	return ps
}

func identOf(v reflect.Value) uintptr {
	for v.Kind() == reflect.Interface {
		if v.IsNil() {
			return 0
		}
		v = v.Elem()
	}
	switch v.Kind() {
	case reflect.Ptr, reflect.Func, reflect.Map, reflect.Chan, reflect.UnsafePointer:
		return v.Pointer()
	case reflect.Slice:
		return v.Pointer() ^ uintptr(v.Len())<<1
	}
	return 0
}

// keepList records the identity of every element of a slice of pointers / interface values / funcs
// (a list of descriptors, UPIDs, packets, options): the caller's slice must keep naming the same objects.
func keepList(label string, list interface{}) {
	v := reflect.ValueOf(list)
	if v.Kind() != reflect.Slice || v.IsNil() {
		return
	}
	ids := make([]uintptr, v.Len())
	for i := range ids {
		ids[i] = identOf(v.Index(i))
	}
	keptL = append(keptL, keptPtrs{label, v, ids})
}

// keepView records a textual getter view of an object that the remaining calls of the op must not change
// (e.g. a PMT decoded earlier from bytes the library handed out).
func keepView(label string, f func() string) {
	keptV = append(keptV, keptView{label, f, f()})
}

// forget drops the kept values whose label starts with prefix (a view that is documented to follow the object).
func forget(prefix string) {
	n := 0
	for _, k := range keptB {
		if len(k.label) < len(prefix) || k.label[:len(prefix)] != prefix {
			keptB[n] = k
			n++
		}
	}
	keptB = keptB[:n]
}

// forgetViews drops the kept views whose label starts with prefix.
func forgetViews(prefix string) {
	n := 0
	for _, k := range keptV {
		if !strings.HasPrefix(k.label, prefix) {
			keptV[n] = k
			n++
		}
	}
	keptV = keptV[:n]
}

func noteUnstable(format string, a ...interface{}) {
	if firstNote == "" {
		firstNote = fmt.Sprintf(format, a...)
	}
}

// same2 compares the printed form of two observations of the same getter made in a row (a cache is
// plausible there); the first one is returned.
func same2(label string, v1, v2 Val) Val {
	if !valEq(v1, v2) {
		noteUnstable("%s differs between two calls in a row: %s then %s", label, valText(v1), valText(v2))
	}
	return v1
}

// twice calls a getter two times in a row and notes a difference.
func twice(label string, f func() Val) Val { return same2(label, f(), f()) }

func valText(v Val) string {
	var sb strings.Builder
	printVal(&sb, v)
	s := sb.String()
	if len(s) > 80 {
		s = s[:80] + "..."
	}
	return s
}

func valTextFull(v Val) string {
	var sb strings.Builder
	printVal(&sb, v)
	return sb.String()
}

func valEq(a, b Val) bool {
	if a.K != b.K {
		return false
	}
	switch a.K {
	case 0:
		return a.I.Cmp(b.I) == 0
	case 1:
		return bytes.Equal(a.B, b.B)
	}
	if len(a.L) != len(b.L) {
		return false
	}
	for i := range a.L {
		if !valEq(a.L[i], b.L[i]) {
			return false
		}
	}
	return true
}

func firstDiff(a, b []byte) int {
	for i := range a {
		if i >= len(b) || a[i] != b[i] {
			return i
		}
	}
	return len(a)
}

// decidingLabel: only values whose independence a property clause (or the Go type) states can decide a verdict
// (audit 2, finding 1): caller-supplied inputs and arguments ("never modifies a caller-supplied buffer"), the option
// slice passed to Create, the accumulator's Bytes()/Packets() ("an independent copy"), packets returned by
// Create / FromBytes (a Packet is a value).  Everything else that is kept - Data(), UPID(), MID(), Descriptors(),
// Pids(), ElementaryStreams(), descriptor bodies, closed / Open() lists, function-style views, filter outputs - may
// legitimately share storage with the object and change when the object is modified (the library promises nothing
// there, cf. notes/aliasing.md A2); those are observed only: a change is written to stderr, never into the reply.
func decidingLabel(label string) bool {
	for _, p := range []string{"input of", "argument of", "option slice", "Bytes() of step", "Packets() of step",
		"acc.Bytes()", "acc.Packets()", "packet returned by", "second packet from FromBytes"} {
		if strings.HasPrefix(label, p) {
			return true
		}
	}
	return false
}

// unstable re-compares everything kept since the op started; "" when nothing moved.
func unstable() string {
	if firstNote != "" {
		return firstNote
	}
	d := unstableAll()
	if d == "" {
		return ""
	}
	return d
}

func unstableAll() string {
	observed := ""
	report := func(label, msg string) string {
		if decidingLabel(label) {
			return msg
		}
		if observed == "" {
			observed = msg
			fmt.Fprintln(os.Stderr, "observed (not a verdict): "+msg)
		}
		return ""
	}
	for _, k := range keptB {
		if !bytes.Equal(k.live, k.snap) {
			i := firstDiff(k.snap, k.live)
			if r := report(k.label, fmt.Sprintf("%s changed after it was handed out: byte %d of %d was %02x, now %02x", k.label, i, len(k.snap), k.snap[i], k.live[i])); r != "" {
				return r
			}
		}
	}
	for _, k := range keptI {
		for i := range k.snap {
			if k.live[i] != k.snap[i] {
				if r := report(k.label, fmt.Sprintf("%s changed after it was handed out: element %d was %d, now %d", k.label, i, k.snap[i], k.live[i])); r != "" {
					return r
				}
			}
		}
	}
	for _, k := range keptP {
		if *k.live != k.snap {
			i := firstDiff(k.snap[:], k.live[:])
			if r := report(k.label, fmt.Sprintf("packet %s changed after it was handed out: byte %d was %02x, now %02x", k.label, i, k.snap[i], k.live[i])); r != "" {
				return r
			}
		}
	}
	for _, k := range keptL {
		if k.live.Len() != len(k.snap) {
			if r := report(k.label, fmt.Sprintf("list %s changed length", k.label)); r != "" {
				return r
			}
			continue
		}
		for i, id := range k.snap {
			if identOf(k.live.Index(i)) != id {
				if r := report(k.label, fmt.Sprintf("list %s: element %d was replaced after the list was handed out", k.label, i)); r != "" {
					return r
				}
			}
		}
	}
	for _, k := range keptV {
		if now := safeView(k.f); now != k.snap {
			if r := report(k.label, fmt.Sprintf("%s changed although it was not touched: was %.60s now %.60s", k.label, k.snap, now)); r != "" {
				return r
			}
		}
	}
	return ""
}

func safeView(f func() string) (s string) {
	defer func() {
		if e := recover(); e != nil {
			s = "panic"
		}
	}()
	return f()
}

// VUnstable is the reply [6 x<description>]
func VUnstable(desc string) Val { return VL(VI(6), VB([]byte(desc))) }

// ---- wave 6: history, other objects, spare capacity (notes/aliasing.md, "process-level state") ----
//
// Every request is answered from THREE runs of the op on private copies of the arguments:
//
//	r1  the run whose reply is returned (what preceded it is the previous request of the batch); after the op's
//	    function returns, everything kept is compared (verdicts as before), the snapshots are refreshed, decoys()
//	    uses OTHER objects of every package (decoys.go), and everything kept is compared again: a value or getter
//	    view that moved while only unrelated objects were in use is always a verdict
//	r2  the same call again at once (so it is preceded by itself), with every byte-string argument placed in a
//	    larger array whose spare capacity carries a canary pattern (a read-only function that appends to its
//	    argument writes into the caller's memory there)
//	    -- then the op runs on two NEIGHBOUR inputs (a few scattered bytes flipped; replies ignored, panics swallowed):
//	    a package-level cache or memo keyed by part of the input is primed with a near-identical key --
//	r3  the same call a third time
//
// r1, r2 and r3 must be equal: the library's answer may not depend on what it processed before.  A difference, a
// damaged canary or a panic in r2 / r3 is the reply [6 x<description>].  VERIF_SINGLE_RUN=1 switches this off
// (development aid).
var (
	reqCount  int
	spareMode bool
	spares    []spareRec
	singleRun = os.Getenv("VERIF_SINGLE_RUN") != ""
)

type spareRec struct {
	full []byte
	n    int
}

const spareLen = 48

func canary(i int) byte { return 0xA5 ^ byte(i*7) }

// spareCopy: a copy of b with spareLen bytes of canary-filled spare capacity behind it
func spareCopy(b []byte) []byte {
	full := make([]byte, len(b)+spareLen)
	copy(full, b)
	for i := len(b); i < len(full); i++ {
		full[i] = canary(i - len(b))
	}
	spares = append(spares, spareRec{full, len(b)})
	return full[:len(b)]
}

func sparesDamaged() string {
	for _, s := range spares {
		for i := s.n; i < len(s.full); i++ {
			if s.full[i] != canary(i-s.n) {
				return fmt.Sprintf("a byte-string argument of %d bytes was written to beyond its length (offset %d of its backing array: %02x): the callee appended to or re-sliced a caller's slice", s.n, i, s.full[i])
			}
		}
	}
	return ""
}

func cloneVal(v Val, spare bool) Val {
	switch v.K {
	case 0:
		return Val{K: 0, I: new(big.Int).Set(v.I)}
	case 1:
		if spare {
			return Val{K: 1, B: spareCopy(v.B)}
		}
		c := make([]byte, len(v.B))
		copy(c, v.B)
		return Val{K: 1, B: c[:len(c):len(c)]}
	}
	l := make([]Val, len(v.L))
	for i := range v.L {
		l[i] = cloneVal(v.L[i], spare)
	}
	return Val{K: 2, L: l}
}

func cloneVals(a []Val, spare bool) []Val {
	out := make([]Val, len(a))
	for i := range a {
		out[i] = cloneVal(a[i], spare)
	}
	return out
}

// neighbour: the arguments with a few scattered bytes flipped.  kind 0 leaves the first 16 bytes of every 188-byte
// block alone (headers, table ids, lengths stay: the same structure with other PIDs / values / data bytes), kind 1
// flips inside the first bytes (another PID, another table) as well.
func neighbourVal(v Val, kind int) Val {
	switch v.K {
	case 0:
		return Val{K: 0, I: new(big.Int).Set(v.I)}
	case 1:
		c := make([]byte, len(v.B))
		copy(c, v.B)
		pos := []int{19, 24, 29, 34, 45, 60, 100, 160}
		if kind == 1 {
			pos = []int{2, 8, 13, 19}
		}
		touched := false
		for base := 0; base < len(c); base += 188 {
			for _, p := range pos {
				if base+p < len(c) {
					c[base+p] ^= 0x01
					touched = true
				}
			}
		}
		if !touched && len(c) > 0 {
			c[len(c)-1] ^= 0x01
		}
		return Val{K: 1, B: c[:len(c):len(c)]}
	}
	l := make([]Val, len(v.L))
	for i := range v.L {
		l[i] = neighbourVal(v.L[i], kind)
	}
	return Val{K: 2, L: l}
}

// runOnce: one run of the op with fresh bookkeeping; desc != "" when something kept moved (before or during decoys)
func runOnce(f func([]Val) Val, a []Val, withDecoys bool) (r Val, desc string) {
	stableReset()
	defer stableReset()
	r = f(a)
	if d := unstable(); d != "" {
		return r, d
	}
	if d := sparesDamaged(); d != "" {
		return r, d
	}
	// the decoy phase only when the op kept something: an op that keeps nothing cannot be hurt by it, and the decoys would
	// wipe the cross-request history (a memo left behind by the previous request; seeded C15-v2 was masked by them)
	if !singleRun && withDecoys && len(keptB)+len(keptI)+len(keptP)+len(keptL)+len(keptV) > 0 {
		refreshKept()
		decoys()
		if d := movedDuringDecoys(); d != "" {
			return r, d
		}
	}
	return r, ""
}

func runQuiet(f func([]Val) Val, a []Val) (r Val, desc string, panicked string) {
	defer func() {
		if e := recover(); e != nil {
			panicked = fmt.Sprint(e)
			stableReset()
		}
	}()
	r, desc = runOnce(f, a, false)
	return
}

// stableWrap: see the comment above.
func stableWrap(f func([]Val) Val) func([]Val) Val { return stableWrapN(f, 3) }

// runs = 1: r1 only (the long cost.* streams); 2: r1 and r2 (the tot.* groups of C05, 390 k requests per quick run);
// 3: all of it
func stableWrapN(f func([]Val) Val, runs int) func([]Val) Val {
	return func(a []Val) Val {
		spareMode = false
		spares = spares[:0]
		reqCount++
		// the tot.* groups (runs == 2; 390 k requests per quick run of C05) get the decoy phase on every 8th request only
		r1, d1 := runOnce(f, cloneVals(a, false), runs >= 3 || reqCount%8 == 0) // a panic here propagates: the observation [2] as before
		if d1 != "" {
			return VUnstable(d1)
		}
		if singleRun || runs < 2 {
			return r1
		}
		spareMode = true
		r2, d2, p2 := runQuiet(f, cloneVals(a, true))
		spareMode = false
		spares = spares[:0]
		if p2 != "" {
			return VUnstable("the same call panicked when it was repeated at once (arguments with spare capacity): " + p2)
		}
		if d2 != "" {
			return VUnstable("on the repeated call: " + d2)
		}
		if !valEq(r1, r2) {
			return VUnstable(fmt.Sprintf("the same call answered differently when repeated at once (the answer depends on what was processed before, or on the capacity of an argument): %s then %s", valText(r1), valText(r2)))
		}
		if runs < 3 {
			return r1
		}
		for kind := 1; kind >= 0; kind-- { // the near-identical neighbour (kind 0) last, immediately before r3
			n := make([]Val, len(a))
			for i := range a {
				n[i] = neighbourVal(a[i], kind)
			}
			runQuiet(f, n)
		}
		r3, d3, p3 := runQuiet(f, cloneVals(a, false))
		if p3 != "" {
			return VUnstable("the same call panicked when it was repeated after neighbouring inputs: " + p3)
		}
		if d3 != "" {
			return VUnstable("on the call repeated after neighbouring inputs: " + d3)
		}
		if !valEq(r1, r3) {
			return VUnstable(fmt.Sprintf("the same call answered differently after the library had processed neighbouring inputs (package-level state): %s then %s", valText(r1), valText(r3)))
		}
		return r1
	}
}

// refreshKept: everything kept is re-snapshotted (what moved so far has been judged by unstable()).
func refreshKept() {
	for i := range keptB {
		keptB[i].snap = append(keptB[i].snap[:0], keptB[i].live...)
	}
	for i := range keptI {
		keptI[i].snap = append(keptI[i].snap[:0], keptI[i].live...)
	}
	for i := range keptP {
		keptP[i].snap = *keptP[i].live
	}
	for i := range keptL {
		k := &keptL[i]
		k.snap = k.snap[:0]
		for j := 0; j < k.live.Len(); j++ {
			k.snap = append(k.snap, identOf(k.live.Index(j)))
		}
	}
	for i := range keptV {
		keptV[i].snap = safeView(keptV[i].f)
	}
}

// movedDuringDecoys: anything kept that differs from its refreshed snapshot changed while only unrelated objects were
// in use - always a verdict, whatever the label.
func movedDuringDecoys() string {
	const why = " while only OTHER objects of the library were being used (package-level buffer, pool or cache shared between objects)"
	for _, k := range keptB {
		if !bytes.Equal(k.live, k.snap) {
			i := firstDiff(k.snap, k.live)
			return fmt.Sprintf("%s changed%s: byte %d of %d was %02x, now %02x", k.label, why, i, len(k.snap), k.snap[i], k.live[i])
		}
	}
	for _, k := range keptI {
		for i := range k.snap {
			if i >= len(k.live) || k.live[i] != k.snap[i] {
				return fmt.Sprintf("%s changed%s: element %d", k.label, why, i)
			}
		}
	}
	for _, k := range keptP {
		if *k.live != k.snap {
			return fmt.Sprintf("packet %s changed%s", k.label, why)
		}
	}
	for _, k := range keptL {
		if k.live.Len() != len(k.snap) {
			return fmt.Sprintf("list %s changed length%s", k.label, why)
		}
		for i, id := range k.snap {
			if identOf(k.live.Index(i)) != id {
				return fmt.Sprintf("list %s: element %d was replaced%s", k.label, i, why)
			}
		}
	}
	for _, k := range keptV {
		if now := safeView(k.f); now != k.snap {
			return fmt.Sprintf("%s changed%s: was %.60s now %.60s", k.label, why, k.snap, now)
		}
	}
	return ""
}

// foreignTwin: the exported interfaces (UPID, SegmentationDescriptor, PmtDescriptor, PeekScanner, ..) can be implemented by
// the caller.  run() is executed twice: with the library's own values, and (foreignMode) with the same values behind
// caller-written wrappers that forward every method (foreign.go); the library may only use the interface, so the two
// observations must be equal (seeded C09-u1, C10-u1, C19-u2, C20-u1: a type assertion to the concrete type).
var foreignMode bool

func foreignTwin(label string, run func() Val) Val {
	foreignMode = false
	r1 := run()
	foreignMode = true
	r2, panicked := func() (r Val, p string) {
		defer func() {
			if e := recover(); e != nil {
				p = fmt.Sprint(e)
			}
		}()
		return run(), ""
	}()
	foreignMode = false
	if panicked != "" {
		noteUnstable("%s: panics when it is handed a caller-written implementation of an exported interface: %s", label, panicked)
	} else if !valEq(r1, r2) {
		noteUnstable("%s: a caller-written implementation of an exported interface (forwarding every method) is treated differently from the library's own value: %s vs %s", label, valText(r1), valText(r2))
	}
	return r1
}

// nilTwin: a zero-length argument is tried both as a nil slice and as an empty non-nil slice (Go callers pass either);
// the two observations must be equal, otherwise the op answers "not stable".  run must not depend on earlier runs.
func nilTwin(label string, data []byte, run func(d []byte) Val) Val {
	if len(data) != 0 {
		return run(data)
	}
	rNil := run(nil)
	rEmpty := run([]byte{})
	if !valEq(rNil, rEmpty) {
		noteUnstable("%s: a nil and an empty non-nil slice argument behave differently: %s vs %s", label, valText(rNil), valText(rEmpty))
	}
	return rEmpty
}
