package main

// Stability of what the library hands out (notes/aliasing.md).
//
// A long-lived caller keeps the slices, packets and lists a getter returned and goes on using the
// object.  The ops record every such value with keep*() together with a private snapshot; when the
// op is about to reply, unstable() compares all of them again.  A value that changed behind the
// caller's back (an internal buffer handed out and overwritten by a later call, storage reused by a
// setter, a result that differs on the second call) turns the reply into
//
//	[6 x<ASCII description>]
//
// which the model never answers, so bin/check reports the case.  register() (main.go) wraps every
// op with stableWrap, so an op only has to call keep*() / same2() / noteUnstable().

import (
	"bytes"
	"fmt"
	"os"
	"reflect"
	"strings"

	"github.com/Comcast/gots/v2/packet"
)

type keptBytes struct {
	label string
	live  []byte // the slice as handed out (shares whatever memory the library gave us)
	snap  []byte // private copy taken at that moment
}

type keptIntsT struct {
	label string
	live  []int
	snap  []int
}

type keptPacket struct {
	label string
	live  *packet.Packet
	snap  packet.Packet
}

type keptPtrs struct {
	label string
	live  reflect.Value // a slice of pointers / interfaces / funcs
	snap  []uintptr
}

type keptView struct {
	label string
	f     func() string // re-evaluates a getter view of an object that nobody touched meanwhile
	snap  string
}

var (
	keptB     []keptBytes
	keptP     []keptPacket
	keptL     []keptPtrs
	keptV     []keptView
	keptI     []keptIntsT
	firstNote string // first discrepancy noted directly (same2, noteUnstable)
)

func stableReset() {
	keptB, keptP, keptL, keptV, keptI, firstNote = keptB[:0], keptP[:0], keptL[:0], keptV[:0], keptI[:0], ""
}

// keep records a byte slice handed out by (or handed to) the library and returns it.
func keep(label string, b []byte) []byte {
	if b != nil {
		keptB = append(keptB, keptBytes{label, b, append([]byte(nil), b...)})
	}
	return b
}

// keepInts records a list of integers (a PID list) handed out by or handed to the library.
func keepInts(label string, l []int) []int {
	if l != nil {
		keptI = append(keptI, keptIntsT{label, l, append([]int(nil), l...)})
	}
	return l
}

// keepPkt records a packet the library handed out (or was given) by pointer.
func keepPkt(label string, p *packet.Packet) *packet.Packet {
	if p != nil {
		keptP = append(keptP, keptPacket{label, p, *p})
	}
	return p
}

// keepPkts records a list of packets: the list itself (which pointers, in which order) and every packet.
func keepPkts(label string, ps []*packet.Packet) []*packet.Packet {
	keepList(label, ps)
	for i, p := range ps {
		keepPkt(fmt.Sprintf("%s[%d]", label, i), p)
	}
	return ps
}

func identOf(v reflect.Value) uintptr {
	for v.Kind() == reflect.Interface {
		if v.IsNil() {
			return 0
		}
		v = v.Elem()
	}
	switch v.Kind() {
	case reflect.Ptr, reflect.Func, reflect.Map, reflect.Chan, reflect.UnsafePointer:
		return v.Pointer()
	case reflect.Slice:
		return v.Pointer() ^ uintptr(v.Len())<<1
	}
	return 0
}

// keepList records the identity of every element of a slice of pointers / interface values / funcs
// (a list of descriptors, UPIDs, packets, options): the caller's slice must keep naming the same objects.
func keepList(label string, list interface{}) {
	v := reflect.ValueOf(list)
	if v.Kind() != reflect.Slice || v.IsNil() {
		return
	}
	ids := make([]uintptr, v.Len())
	for i := range ids {
		ids[i] = identOf(v.Index(i))
	}
	keptL = append(keptL, keptPtrs{label, v, ids})
}

// keepView records a textual getter view of an object that the remaining calls of the op must not change
// (e.g. a PMT decoded earlier from bytes the library handed out).
func keepView(label string, f func() string) {
	keptV = append(keptV, keptView{label, f, f()})
}

// forget drops the kept values whose label starts with prefix (a view that is documented to follow the object).
func forget(prefix string) {
	n := 0
	for _, k := range keptB {
		if len(k.label) < len(prefix) || k.label[:len(prefix)] != prefix {
			keptB[n] = k
			n++
		}
	}
	keptB = keptB[:n]
}

// forgetViews drops the kept views whose label starts with prefix.
func forgetViews(prefix string) {
	n := 0
	for _, k := range keptV {
		if !strings.HasPrefix(k.label, prefix) {
			keptV[n] = k
			n++
		}
	}
	keptV = keptV[:n]
}

func noteUnstable(format string, a ...interface{}) {
	if firstNote == "" {
		firstNote = fmt.Sprintf(format, a...)
	}
}

// same2 compares the printed form of two observations of the same getter made in a row (a cache is
// plausible there); the first one is returned.
func same2(label string, v1, v2 Val) Val {
	if !valEq(v1, v2) {
		noteUnstable("%s differs between two calls in a row: %s then %s", label, valText(v1), valText(v2))
	}
	return v1
}

// twice calls a getter two times in a row and notes a difference.
func twice(label string, f func() Val) Val { return same2(label, f(), f()) }

func valText(v Val) string {
	var sb strings.Builder
	printVal(&sb, v)
	s := sb.String()
	if len(s) > 80 {
		s = s[:80] + "..."
	}
	return s
}

func valEq(a, b Val) bool {
	if a.K != b.K {
		return false
	}
	switch a.K {
	case 0:
		return a.I.Cmp(b.I) == 0
	case 1:
		return bytes.Equal(a.B, b.B)
	}
	if len(a.L) != len(b.L) {
		return false
	}
	for i := range a.L {
		if !valEq(a.L[i], b.L[i]) {
			return false
		}
	}
	return true
}

func firstDiff(a, b []byte) int {
	for i := range a {
		if i >= len(b) || a[i] != b[i] {
			return i
		}
	}
	return len(a)
}

// decidingLabel: only values whose independence a property clause (or the Go type) states can decide a verdict
// (audit 2, finding 1): caller-supplied inputs and arguments ("never modifies a caller-supplied buffer"), the option
// slice passed to Create, the accumulator's Bytes()/Packets() ("an independent copy"), packets returned by
// Create / FromBytes (a Packet is a value).  Everything else that is kept - Data(), UPID(), MID(), Descriptors(),
// Pids(), ElementaryStreams(), descriptor bodies, closed / Open() lists, function-style views, filter outputs - may
// legitimately share storage with the object and change when the object is modified (the library promises nothing
// there, cf. notes/aliasing.md A2); those are observed only: a change is written to stderr, never into the reply.
func decidingLabel(label string) bool {
	for _, p := range []string{"input of", "argument of", "option slice", "Bytes() of step", "Packets() of step",
		"acc.Bytes()", "acc.Packets()", "packet returned by", "second packet from FromBytes"} {
		if strings.HasPrefix(label, p) {
			return true
		}
	}
	return false
}

// unstable re-compares everything kept since the op started; "" when nothing moved.
func unstable() string {
	if firstNote != "" {
		return firstNote
	}
	d := unstableAll()
	if d == "" {
		return ""
	}
	return d
}

func unstableAll() string {
	observed := ""
	report := func(label, msg string) string {
		if decidingLabel(label) {
			return msg
		}
		if observed == "" {
			observed = msg
			fmt.Fprintln(os.Stderr, "observed (not a verdict): "+msg)
		}
		return ""
	}
	for _, k := range keptB {
		if !bytes.Equal(k.live, k.snap) {
			i := firstDiff(k.snap, k.live)
			if r := report(k.label, fmt.Sprintf("%s changed after it was handed out: byte %d of %d was %02x, now %02x", k.label, i, len(k.snap), k.snap[i], k.live[i])); r != "" {
				return r
			}
		}
	}
	for _, k := range keptI {
		for i := range k.snap {
			if k.live[i] != k.snap[i] {
				if r := report(k.label, fmt.Sprintf("%s changed after it was handed out: element %d was %d, now %d", k.label, i, k.snap[i], k.live[i])); r != "" {
					return r
				}
			}
		}
	}
	for _, k := range keptP {
		if *k.live != k.snap {
			i := firstDiff(k.snap[:], k.live[:])
			if r := report(k.label, fmt.Sprintf("packet %s changed after it was handed out: byte %d was %02x, now %02x", k.label, i, k.snap[i], k.live[i])); r != "" {
				return r
			}
		}
	}
	for _, k := range keptL {
		if k.live.Len() != len(k.snap) {
			if r := report(k.label, fmt.Sprintf("list %s changed length", k.label)); r != "" {
				return r
			}
			continue
		}
		for i, id := range k.snap {
			if identOf(k.live.Index(i)) != id {
				if r := report(k.label, fmt.Sprintf("list %s: element %d was replaced after the list was handed out", k.label, i)); r != "" {
					return r
				}
			}
		}
	}
	for _, k := range keptV {
		if now := safeView(k.f); now != k.snap {
			if r := report(k.label, fmt.Sprintf("%s changed although it was not touched: was %.60s now %.60s", k.label, k.snap, now)); r != "" {
				return r
			}
		}
	}
	return ""
}

func safeView(f func() string) (s string) {
	defer func() {
		if e := recover(); e != nil {
			s = "panic"
		}
	}()
	return f()
}

// VUnstable is the reply [6 x<description>]
func VUnstable(desc string) Val { return VL(VI(6), VB([]byte(desc))) }

// stableWrap: fresh bookkeeping for every request; the normal reply unless something kept has changed.
func stableWrap(f func([]Val) Val) func([]Val) Val {
	return func(a []Val) Val {
		stableReset()
		r := f(a)
		if d := unstable(); d != "" {
			stableReset()
			return VUnstable(d)
		}
		stableReset()
		return r
	}
}

// nilTwin: a zero-length argument is tried both as a nil slice and as an empty non-nil slice (Go callers pass either);
// the two observations must be equal, otherwise the op answers "not stable".  run must not depend on earlier runs.
func nilTwin(label string, data []byte, run func(d []byte) Val) Val {
	if len(data) != 0 {
		return run(data)
	}
	rNil := run(nil)
	rEmpty := run([]byte{})
	if !valEq(rNil, rEmpty) {
		noteUnstable("%s: a nil and an empty non-nil slice argument behave differently: %s vs %s", label, valText(rNil), valText(rEmpty))
	}
	return rEmpty
}
