package main

import (
	"bytes"

	gots "github.com/Comcast/gots/v2"
	"github.com/Comcast/gots/v2/packet"
	"github.com/Comcast/gots/v2/pes"
)

// pesView queries every getter of a decoded header; in = the caller's buffer, orig = snapshot before the call
func codecPesView(h pes.PESHeader, in, orig []byte) Val {
	printed := int64(1)
	if f, ok := h.(interface{ Format() string }); ok {
		_ = f.Format()
	}
	data := keep("PESHeader.Data()", h.Data())
	unchanged := int64(0)
	if !bytes.Equal(in, orig) {
		unchanged = 1
	}
	scalars := func() [7]uint64 {
		b := func(x bool) uint64 {
			if x {
				return 1
			}
			return 0
		}
		return [7]uint64{uint64(h.PacketStartCodePrefix()), uint64(h.StreamId()), b(h.DataAligned()), b(h.HasPTS()), h.PTS(), b(h.HasDTS()), h.DTS()}
	}
	r := VL(VU(uint64(h.PacketStartCodePrefix())), VU(uint64(h.StreamId())), VBool(h.DataAligned()),
		VBool(h.HasPTS()), VU(h.PTS()), VBool(h.HasDTS()), VU(h.DTS()), VB(data), VI(unchanged), VI(printed))
	// a caller that reuses its buffer for the next packet: the header's decoded values (not Data(), which is documented
	// to be a view of the input) must not follow the buffer (seeded C04-v2 / C11-v2: time stamps decoded lazily from
	// slices of the input).  The buffer is restored afterwards.
	s1 := scalars()
	saved := append([]byte{}, in...)
	for i := range in {
		in[i] ^= 0x5A
	}
	s2 := scalars()
	copy(in, saved)
	if s1 != s2 {
		noteUnstable("the values of a decoded PES header (start code, stream id, flags, PTS, DTS) changed when the caller overwrote the buffer the header had been decoded from: %v then %v", s1, s2)
	}
	return r
}

func codecNewPes(in []byte) Val {
	orig := append([]byte{}, in...)
	h, err := pes.NewPESHeader(in)
	if err != nil {
		return VErr(errCode(err))
	}
	return VOk(codecPesView(h, in, orig))
}

func codecPktOf(b []byte) (*packet.Packet, bool) {
	if len(b) != packet.PacketSize {
		return nil, false
	}
	var p packet.Packet
	copy(p[:], b)
	return &p, true
}

func init() {
	register("pes.time", func(a []Val) Val {
		return codecReadOnly(a[0].B, func(b []byte) Val { return VOk(VU(pes.ExtractTime(b))) })
	})
	register("pts.rt", func(a []Val) Val {
		b := append([]byte{}, a[0].B...)
		gots.InsertPTS(b, a[1].U())
		return VOk(VL(VB(b),
			codecProtect(func() Val { return VOk(VU(gots.ExtractTime(b))) }),
			codecProtect(func() Val { return VOk(VU(pes.ExtractTime(b))) })))
	})
	register("pes.new", func(a []Val) Val {
		in := append([]byte{}, a[0].B...) // cap = len (DESIGN section 3)
		in = in[:len(in):len(in)]
		return codecNewPes(in)
	})
	register("pes.pkt", func(a []Val) Val {
		p, ok := codecPktOf(a[0].B)
		if !ok {
			return VBad()
		}
		hb, err := packet.PESHeader(p)
		if !bytes.Equal(p[:], a[0].B) {
			return VL(VI(77))
		}
		if err != nil {
			return VErr(errCode(err))
		}
		return VOk(VB(hb))
	})
	register("pes.aligned", func(a []Val) Val {
		p, ok := codecPktOf(a[0].B)
		if !ok {
			return VBad()
		}
		d, found := pes.AlignedPUSI(p)
		if !bytes.Equal(p[:], a[0].B) {
			return VL(VI(77))
		}
		return VOpt(found, VB(d))
	})
	register("pes.put", func(a []Val) Val {
		b := append([]byte{}, a[0].B...)
		gots.InsertPTS(b[9:], a[1].U())
		gots.InsertPTS(b[14:], a[2].U())
		return VOk(VL(VB(b), codecProtect(func() Val { return codecNewPes(b) })))
	})
	register("pes.withpes", func(a []Val) Val {
		p, ok := codecPktOf(a[0].B)
		if !ok {
			return VBad()
		}
		packet.WithPES(p, a[1].U())
		hdr := codecProtect(func() Val {
			hb, err := packet.PESHeader(p)
			if err != nil {
				return VErr(errCode(err))
			}
			return VOk(VB(hb))
		})
		dec := codecProtect(func() Val {
			pay, err := packet.Payload(p)
			if err != nil {
				return VErr(errCode(err))
			}
			return codecNewPes(append([]byte{}, pay...))
		})
		return VOk(VL(VB(p[:]), hdr, dec))
	})
}
