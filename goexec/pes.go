package main

import (
	gots "github.com/Comcast/gots/v2"
	"github.com/Comcast/gots/v2/pes"
)

func init() {
	register("pes.time", func(a []Val) Val {
		return readOnly(a[0].B, func(b []byte) Val { return VOk(VU(pes.ExtractTime(b))) })
	})
	register("pts.rt", func(a []Val) Val {
		b := append([]byte{}, a[0].B...)
		gots.InsertPTS(b, a[1].U())
		return VOk(VL(VB(b),
			protect(func() Val { return VOk(VU(gots.ExtractTime(b))) }),
			protect(func() Val { return VOk(VU(pes.ExtractTime(b))) })))
	})
}
