package main

import (
	"bytes"

	gots "github.com/Comcast/gots/v2"
)

func init() {
	// crc b -> the bytes returned by ComputeCRC(b) (the input must not be modified: a modified
	// input is reported by appending a marker byte, which the model never produces)
	register("crc", func(a []Val) Val {
		in := append([]byte{}, a[0].B...)
		out := gots.ComputeCRC(in)
		if !bytes.Equal(in, a[0].B) {
			return VB(append(append([]byte{}, out...), 0xEE))
		}
		return VB(out)
	})
	// crc.spec b -> the same real call; modelexec answers this op from the textbook register of
	// Spec/Crc32.v, so the real code is compared with the specification directly
	register("crc.spec", func(a []Val) Val { return VB(gots.ComputeCRC(a[0].B)) })
	register("crc.tab", func(a []Val) Val { return VB(gots.ComputeCRC(a[0].B)) })
	register("crc.singles", func(a []Val) Val {
		L := a[0].Int()
		if L < 0 || L > 4096 {
			return VBad()
		}
		out := make([]byte, 0, 32*L)
		buf := make([]byte, L)
		for i := 0; i < L; i++ {
			for j := 0; j < 8; j++ {
				buf[i] = 0x80 >> uint(j)
				out = append(out, gots.ComputeCRC(buf)...)
			}
			buf[i] = 0
		}
		return VB(out)
	})
	register("crc.residue", func(a []Val) Val {
		in := append([]byte{}, a[0].B...)
		c := gots.ComputeCRC(in)
		return VB(gots.ComputeCRC(append(in, c...)))
	})
}
