package main

// Caller-written implementations of the library's exported interfaces: each forwards every method to a value of the
// library (embedding), so any code that sticks to the interface cannot tell the difference.  Used by foreignTwin (stable.go).

import (
	"github.com/Comcast/gots/v2/psi"
	"github.com/Comcast/gots/v2/scte35"
)

type foreignUPID struct{ u scte35.UPID }

func (f foreignUPID) UPIDType() scte35.SegUPIDType         { return f.u.UPIDType() }
func (f foreignUPID) UPID() []byte                         { return f.u.UPID() }
func (f foreignUPID) SetUPIDType(value scte35.SegUPIDType) { f.u.SetUPIDType(value) }
func (f foreignUPID) SetUPID(value []byte)                 { f.u.SetUPID(value) }

type foreignSegDesc struct{ scte35.SegmentationDescriptor }
type foreignPmtDesc struct{ psi.PmtDescriptor }

func maybeForeignUPID(u scte35.UPID) scte35.UPID {
	if foreignMode {
		return foreignUPID{u}
	}
	return u
}

func maybeForeignSegDesc(d scte35.SegmentationDescriptor) scte35.SegmentationDescriptor {
	if foreignMode {
		return foreignSegDesc{d}
	}
	return d
}

func maybeForeignPmtDesc(d psi.PmtDescriptor) psi.PmtDescriptor {
	if foreignMode {
		return foreignPmtDesc{d}
	}
	return d
}
