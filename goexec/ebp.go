package main

// Ops of Exec/EbpExec.v on the REAL github.com/Comcast/gots/v2/ebp code (C12, C05).
// The concrete EBP types are unexported: methods outside the EncoderBoundaryPoint interface are
// reached through local interfaces, exported struct fields through reflection.

import (
	"bytes"
	"math/big"
	"reflect"
	"time"

	"github.com/Comcast/gots/v2/ebp"
)

const ntpToUnix = 2208988800 // seconds from 1900-01-01T00:00:00Z to 1970-01-01T00:00:00Z

var bigNS = big.NewInt(1000000000)

// nanoseconds since 1900-01-01T00:00:00Z -> time.Time (exact; floor division)
func timeOfNs(ns *big.Int) time.Time {
	sec, nsec := new(big.Int).DivMod(ns, bigNS, new(big.Int)) // Euclidean: 0 <= nsec < 1e9
	return time.Unix(sec.Int64()-ntpToUnix, nsec.Int64()).UTC()
}

// time.Time -> nanoseconds since 1900-01-01T00:00:00Z (exact)
func nsOfTime(t time.Time) Val {
	z := new(big.Int).Add(big.NewInt(t.Unix()), big.NewInt(ntpToUnix))
	z.Mul(z, bigNS)
	z.Add(z, big.NewInt(int64(t.Nanosecond())))
	return Val{K: 0, I: z}
}

type ebpDisc interface{ DiscontinuityFlag() bool }
type ebpConc interface {
	ConcealmentFlag() bool
	PartitionFlag() bool
}

func ebpField(e ebp.EncoderBoundaryPoint, name string) reflect.Value {
	return reflect.ValueOf(e).Elem().FieldByName(name)
}

func ebpU(e ebp.EncoderBoundaryPoint, name string) Val {
	f := ebpField(e, name)
	if !f.IsValid() {
		return VU(0)
	}
	return VU(f.Uint())
}

func ebpB(e ebp.EncoderBoundaryPoint, name string) Val { return VB(ebpField(e, name).Bytes()) }

// every getter, in the order of Exec/EbpExec.v `obs`
func ebpObs(e ebp.EncoderBoundaryPoint) Val {
	fl, special, part := int64(0), false, false
	switch x := e.(type) {
	case ebpDisc:
		fl, special = 0, x.DiscontinuityFlag()
	case ebpConc:
		fl, special, part = 1, x.ConcealmentFlag(), x.PartitionFlag()
	default:
		panic("unknown EBP type")
	}
	return VL(VI(fl), VU(uint64(e.EBPType())), VBool(e.IsEmpty()),
		VBool(e.FragmentFlag()), VBool(e.SegmentFlag()), VBool(e.SapFlag()), VBool(e.GroupingFlag()),
		VBool(e.TimeFlag()), VBool(e.ExtensionFlag()), VBool(special), VBool(part),
		VU(uint64(e.Sap())), ebpU(e, "ExtensionFlags"), ebpU(e, "PartitionFlags"), ebpU(e, "FormatIdentifier"),
		ebpU(e, "TimeSeconds"), ebpU(e, "TimeFraction"), nsOfTime(e.EBPTime()),
		ebpB(e, "Grouping"), ebpB(e, "ReservedBytes"), VU(uint64(e.StreamSyncSignal())), ebpU(e, "DataFieldLength"))
}

func ebpReadObs(data []byte) Val {
	snap := append([]byte{}, data...)
	e, err := ebp.ReadEncoderBoundaryPoint(data)
	if err != nil {
		return VErr(errCode(err))
	}
	o := twice("EBP getters", func() Val { return ebpObs(e) })
	d := keep("Data() of the decoded EBP", e.Data())
	keepView("the getters of the decoded EBP", func() string { return valTextFull(ebpObs(e)) }) // must survive the decoy phase
	dfl := ebpU(e, "DataFieldLength")
	return VOk(VL(o, VB(d), dfl, VBool(bytes.Equal(snap, data))))
}

func ebpCreate(fl int) ebp.EncoderBoundaryPoint {
	if fl == 0 {
		c := ebp.CreateComcastEBP()
		return &c
	}
	c := ebp.CreateCableLabsEbp()
	return &c
}

func ebpSetU(e ebp.EncoderBoundaryPoint, name string, v uint64) bool {
	f := ebpField(e, name)
	if !f.IsValid() {
		return false
	}
	f.SetUint(v)
	return true
}

func ebpBuildStep(fl int, e ebp.EncoderBoundaryPoint, s Val) bool {
	if s.K != 2 || len(s.L) != 2 || s.L[0].K != 0 {
		return false
	}
	op, arg := s.L[0].Int(), s.L[1]
	if op == 11 || op == 12 {
		if arg.K != 1 {
			return false
		}
		var b []byte // an empty assignment is the nil slice
		if len(arg.B) > 0 {
			b = append([]byte{}, arg.B...)
		}
		name := "Grouping"
		if op == 12 {
			name = "ReservedBytes"
		}
		ebpField(e, name).SetBytes(b)
		return true
	}
	if arg.K != 0 {
		return false
	}
	flag := arg.I.Sign() != 0
	low := func(bits uint) uint64 { // two's complement truncation, as Z.to_N after w8/w32 of a non-negative input
		m := new(big.Int).Lsh(big.NewInt(1), bits)
		if arg.I.Sign() < 0 {
			return 0
		}
		return new(big.Int).Mod(arg.I, m).Uint64()
	}
	switch op {
	case 0:
		e.SetFragmentFlag(flag)
	case 1:
		e.SetSegmentFlag(flag)
	case 2:
		e.SetSapFlag(flag)
	case 3:
		e.SetGroupingFlag(flag)
	case 4:
		e.SetTimeFlag(flag)
	case 5:
		e.SetExtensionFlag(flag)
	case 6:
		if fl == 0 {
			e.(interface{ SetDiscontinuityFlag(bool) }).SetDiscontinuityFlag(flag)
		} else {
			e.(interface{ SetConcealmentFlag(bool) }).SetConcealmentFlag(flag)
		}
	case 7:
		if fl == 0 {
			return false
		}
		e.(interface{ SetPartitionFlag(bool) }).SetPartitionFlag(flag)
	case 8:
		e.SetSap(byte(low(8)))
	case 9:
		e.SetEBPTime(timeOfNs(arg.I))
	case 10:
		e.SetIsEmpty(flag)
	case 13:
		return ebpSetU(e, "ExtensionFlags", low(8))
	case 14:
		return fl == 1 && ebpSetU(e, "PartitionFlags", low(8))
	case 15:
		return fl == 1 && ebpSetU(e, "FormatIdentifier", low(32))
	case 16:
		return ebpSetU(e, "DataFlags", low(8))
	case 17:
		return ebpSetU(e, "TimeSeconds", low(32))
	case 18:
		return ebpSetU(e, "TimeFraction", low(32))
	case 19:
		return ebpSetU(e, "DataFieldLength", low(8))
	case 20:
		return ebpSetU(e, "DataFieldTag", low(8))
	default:
		return false
	}
	return true
}

func init() {
	register("ebp.read", func(a []Val) Val {
		if len(a) != 1 || a[0].K != 1 {
			return VBad()
		}
		return ebpReadObs(a[0].B)
	})
	// the model op ebp.readg is the reader with notes/findings/C05-ebp.patch applied; here it is the same real function
	register("ebp.readg", func(a []Val) Val {
		if len(a) != 1 || a[0].K != 1 {
			return VBad()
		}
		return ebpReadObs(a[0].B)
	})
	build := func(a []Val) Val {
		if len(a) != 2 || a[0].K != 0 || a[1].K != 2 || (a[0].Int() != 0 && a[0].Int() != 1) {
			return VBad()
		}
		fl := a[0].Int()
		e := ebpCreate(fl)
		for _, s := range a[1].L {
			if !ebpBuildStep(fl, e, s) {
				return VBad()
			}
		}
		before := twice("EBP getters", func() Val { return ebpObs(e) })
		d := keep("Data()", e.Data())
		after := twice("EBP getters", func() Val { return ebpObs(e) })
		// decode a copy with cap == len (DESIGN section 3); a panic of the decoder is an observation of
		// that step only
		cp := make([]byte, len(d))
		copy(cp, d)
		return VL(before, VB(d), after, call(func([]Val) Val { return ebpReadObs(cp) }, nil))
	}
	register("ebp.build", build)
	register("ebp.buildg", build) // model side: decoder with the C05 guard patch
	// ebp.hist <start> <script>: ONE object, every getter after every step (each asked twice: a cache is plausible for
	// the time), Data() as a step ([21 0]); start = [fl] or [x<bytes to decode>]
	register("ebp.hist", func(a []Val) Val {
		if len(a) != 2 || a[0].K != 2 || len(a[0].L) != 1 || a[1].K != 2 {
			return VBad()
		}
		var e ebp.EncoderBoundaryPoint
		fl := 0
		decoded := a[0].L[0].K == 1
		if decoded {
			in := append([]byte{}, a[0].L[0].B...)
			in = keep("input of ReadEncoderBoundaryPoint", in[:len(in):len(in)])
			var err error
			e, err = ebp.ReadEncoderBoundaryPoint(in)
			if err != nil {
				return VErr(errCode(err))
			}
			if _, ok := e.(ebpConc); ok {
				fl = 1
			}
		} else {
			fl = a[0].L[0].Int()
			if fl != 0 && fl != 1 {
				return VBad()
			}
			e = ebpCreate(fl)
		}
		look := func() Val { return twice("EBP getters", func() Val { return ebpObs(e) }) }
		out := []Val{look()}
		for _, s := range a[1].L {
			extra := VL()
			if s.K == 2 && len(s.L) == 2 && s.L[0].K == 0 && s.L[0].Int() == 21 {
				extra = VB(keep("Data()", e.Data()))
			} else if !ebpBuildStep(fl, e, s) {
				return VBad()
			}
			out = append(out, VL(look(), extra))
		}
		r := Val{K: 2, L: out}
		if decoded {
			return VOk(r)
		}
		return r
	})
	register("ebp.time", func(a []Val) Val {
		if len(a) != 2 || a[0].K != 0 || a[1].K != 0 || (a[0].Int() != 0 && a[0].Int() != 1) {
			return VBad()
		}
		e := ebpCreate(a[0].Int())
		e.SetEBPTime(timeOfNs(a[1].I))
		return VL(ebpU(e, "TimeSeconds"), ebpU(e, "TimeFraction"), nsOfTime(e.EBPTime()))
	})
	register("ebp.ntp", func(a []Val) Val {
		if len(a) != 2 || a[0].K != 0 || a[1].K != 0 || a[0].I.Sign() < 0 || a[1].I.Sign() < 0 {
			return VBad()
		}
		e := ebpCreate(0)
		m := new(big.Int).Lsh(big.NewInt(1), 32)
		ebpSetU(e, "TimeSeconds", new(big.Int).Mod(a[0].I, m).Uint64())
		ebpSetU(e, "TimeFraction", new(big.Int).Mod(a[1].I, m).Uint64())
		return nsOfTime(e.EBPTime())
	})
}
