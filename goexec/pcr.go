package main

import (
	"bytes"

	gots "github.com/Comcast/gots/v2"
)

// protect runs f and turns a panic into the observation [2] (used for nested results)
func codecProtect(f func() Val) (r Val) {
	defer func() {
		if recover() != nil {
			r = VPanic()
		}
	}()
	return f()
}

// readOnly runs a decoder on a private copy of in and fails loudly when the decoder wrote to it
func codecReadOnly(in []byte, f func(b []byte) Val) Val {
	b := append([]byte{}, in...)
	r := f(b)
	if !bytes.Equal(b, in) {
		return VL(VI(77), r) // a read-only operation modified its input: never produced by the model
	}
	return r
}

func init() {
	register("pcr.get", func(a []Val) Val {
		return codecReadOnly(a[0].B, func(b []byte) Val { return VOk(VU(gots.ExtractPCR(b))) })
	})
	register("pcr.put", func(a []Val) Val {
		b := append([]byte{}, a[0].B...)
		gots.InsertPCR(b, a[1].U())
		return VOk(VB(b))
	})
	register("pcr.rt", func(a []Val) Val {
		b := append([]byte{}, a[0].B...)
		gots.InsertPCR(b, a[1].U())
		return VOk(VL(VB(b), codecProtect(func() Val { return VOk(VU(gots.ExtractPCR(b))) })))
	})
}
