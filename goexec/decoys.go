package main

// decoys(): calls on OTHER objects of every package, run between the op and the final comparison of everything the
// op kept (stable.go runOnce).  Nothing here touches an object of the op, so a kept value or getter view that moves
// while decoys() runs is shared package-level state (a pooled buffer handed out twice, a scratch array, one backing
// array behind all objects, a memo that answers for the wrong key).  The decoys are deterministic, cheap, and use
// inputs unlike the generators' (so that a cache primed by them holds a different key than the op's next run).
// A panic inside a decoy is swallowed: the decoys' inputs are the generators' business elsewhere.

import (
	"bufio"
	"bytes"
	"fmt"
	"io"
	"os"

	gots "github.com/Comcast/gots/v2"
	"github.com/Comcast/gots/v2/ebp"
	"github.com/Comcast/gots/v2/packet"
	"github.com/Comcast/gots/v2/packet/adaptationfield"
	"github.com/Comcast/gots/v2/pes"
	"github.com/Comcast/gots/v2/psi"
	"github.com/Comcast/gots/v2/scte35"
)

var (
	decoySections [][]byte // two SCTE-35 sections (pointer field first) with UPID / MID / components
	decoyPMT      []byte
	decoyPAT      []byte
	decoyPES      []byte
	decoyRound    int
)

func decoyInit() {
	mk := func(k int) []byte {
		sig := scte35.CreateSCTE35()
		cmd := scte35.CreateTimeSignalCommand()
		cmd.SetHasPTS(true)
		sig.SetCommandInfo(cmd)
		sig.SetPTS(gots.PTS(777000 + k))
		d := scte35.CreateSegmentationDescriptor()
		d.SetTypeID(scte35.SegDescType(0x34 + k))
		d.SetEventID(uint32(0xD0D0 + k))
		d.SetIsDeliveryNotRestricted(true)
		d.SetUPIDType(scte35.SegUPIDMID)
		u0, u1 := scte35.CreateUPID(), scte35.CreateUPID()
		u0.SetUPIDType(scte35.SegUPIDADI)
		u0.SetUPID(bytes.Repeat([]byte{byte(0xD1 + k)}, 21+k))
		u1.SetUPIDType(scte35.SegUPADSINFO)
		u1.SetUPID(bytes.Repeat([]byte{byte(0xE1 + k)}, 9+3*k))
		d.SetMID([]scte35.UPID{u0, u1})
		d2 := scte35.CreateSegmentationDescriptor()
		d2.SetTypeID(scte35.SegDescType(0x10))
		d2.SetEventID(uint32(0xDEC0 + k))
		d2.SetIsDeliveryNotRestricted(true)
		d2.SetUPIDType(scte35.SegUPIDURN)
		d2.SetUPID(bytes.Repeat([]byte{byte(0xC3 + k)}, 33-k))
		d2.SetHasProgramSegmentation(false)
		c1, c2 := scte35.CreateComponentOffset(), scte35.CreateComponentOffset()
		c1.SetComponentTag(0xAA)
		c1.SetPTSOffset(gots.PTS(12345 + k))
		c2.SetComponentTag(0xBB)
		c2.SetPTSOffset(gots.PTS(54321 + k))
		d2.SetComponents([]scte35.ComponentOffset{c1, c2})
		sig.SetDescriptors([]scte35.SegmentationDescriptor{d, d2})
		return append([]byte{0x00}, sig.UpdateData()...)
	}
	decoySections = [][]byte{mk(0), mk(1)}
	decoyPMT = pmtSectionOf([]Val{VL(VI(0x1D01), VI(0x21)), VL(VI(0x1D02), VI(0x24)), VL(VI(0x1D03), VI(0x86)), VL(VI(0x1D04), VI(0xC5))})
	decoyPAT = []byte{0x00, 0x00, 0xB0, 0x11, 0x0D, 0xEC, 0xC1, 0x00, 0x00, 0x00, 0x07, 0xFD, 0x01, 0x00, 0x09, 0xFD, 0x02, 0x01, 0x02, 0x03, 0x04}
	decoyPES = []byte{0x00, 0x00, 0x01, 0xE0, 0x00, 0x00, 0x84, 0xC0, 0x0A,
		0x31, 0x00, 0x0B, 0xB8, 0x01, 0x11, 0x00, 0x07, 0xD8, 0x61, 0xDE, 0xC0, 0xDE, 0xC0}
}

var decoyDebug = os.Getenv("VERIF_DECOY_DEBUG") != ""

func quiet(f func()) {
	defer func() {
		if e := recover(); e != nil && decoyDebug {
			fmt.Fprintln(os.Stderr, "decoy panicked:", e)
		}
	}()
	f()
}

func decoys() {
	if decoySections == nil {
		quiet(decoyInit)
		if decoySections == nil {
			decoySections = [][]byte{{}}
		}
	}
	decoyRound++
	k := decoyRound & 1
	// SCTE-35: decode two sections, read the variable-length parts, re-encode, feed a fresh tracker
	quiet(func() {
		for i := 0; i < 2; i++ {
			s, err := scte35.NewSCTE35(append([]byte{}, decoySections[(k+i)&1%len(decoySections)]...))
			if err != nil {
				continue
			}
			st := scte35.NewState()
			for _, d := range s.Descriptors() {
				_ = d.UPID()
				for _, u := range d.MID() {
					_ = u.UPID()
				}
				_ = d.Components()
				_ = d.Data()
				d.CanClose(d)
				d.Equal(d)
				st.ProcessDescriptor(d)
			}
			st.Open()
			s.SetTier(uint16(0x123 + k))
			_ = s.UpdateData()
			_ = s.Data()
			_ = s.String()
		}
	})
	// EBP: build one of each kind, encode, decode
	quiet(func() {
		c := ebp.CreateComcastEBP()
		c.SetSegmentFlag(true)
		c.SetSapFlag(true)
		c.SetSap(uint8(3 + k))
		c.SetGroupingFlag(true)
		c.Grouping = []byte{0x1D}
		c.SetDiscontinuityFlag(k == 1)
		_ = c.Data()
		l := ebp.CreateCableLabsEbp()
		l.SetFragmentFlag(true)
		l.SetGroupingFlag(true)
		l.Grouping = []byte{0x9D, uint8(5 + k)}
		l.SetPartitionFlag(true)
		l.PartitionFlags = uint8(5 + k)
		_ = l.Data()
		for _, d := range [][]byte{c.Data(), l.Data()} {
			ebp.ReadEncoderBoundaryPoint(d)
		}
	})
	// PES header, PAT, PMT, stream types, descriptors
	quiet(func() {
		h, err := pes.NewPESHeader(append([]byte{}, decoyPES...))
		if err == nil {
			h.PTS()
			h.DTS()
			_ = h.Data()
		}
		if pat, err := psi.NewPAT(append([]byte{}, decoyPAT...)); err == nil {
			pat.ProgramMap()
			pat.NumPrograms()
			pat.SPTSpmtPID()
			pk := packet.Create(0x1D09, packet.WithHasPayloadFlag)
			psi.IsPMT(pk, pat)
		}
		if p, err := psi.NewPMT(append([]byte{}, decoyPMT...)); err == nil {
			p.Pids()
			for _, es := range p.ElementaryStreams() {
				es.StreamType()
				es.MaxBitRate()
			}
			_ = p.String()
		}
		for _, c := range []uint8{0x21, 0x24, 0xC5, 0x86, uint8(0x30 + k)} {
			st := psi.LookupPmtStreamType(c)
			st.StreamType()
			st.IsVideoContent()
		}
		d := psi.NewPmtDescriptor(0x0A, []byte{'d', 'c', byte('y' + k), 0x01})
		d.DecodeIso639LanguageCode()
		_ = d.Format()
		psi.PmtAccumulatorDoneFunc(append([]byte{}, decoyPMT...))
		pkts := []*packet.Packet{packet.Create(0x1D00, packet.WithPUSI, packet.WithHasPayloadFlag)}
		copy(pkts[0][4:], decoyPMT)
		for i := 4 + len(decoyPMT); i < 188; i++ {
			pkts[0][i] = 0xFF
		}
		psi.FilterPMTPacketsToPids(pkts, []int{0x1D01 + k})
		gots.ComputeCRC(decoyPMT[1 : len(decoyPMT)-4])
	})
	// packets, adaptation fields, accumulator, sync, writer adapters, time arithmetic
	quiet(func() {
		p := packet.Create(0x1D0A+k, packet.WithHasPayloadFlag, packet.WithHasAdaptationFieldFlag)
		if af, err := p.AdaptationField(); err == nil && af != nil {
			af.SetHasTransportPrivateData(true)
			af.SetTransportPrivateData(bytes.Repeat([]byte{0xD7}, 40+k))
			af.SetTransportPrivateData(bytes.Repeat([]byte{0xD8}, 3))
			af.SetTransportPrivateData(bytes.Repeat([]byte{0xD9}, 17+k))
			af.SetHasPCR(true)
			af.SetPCR(uint64(27000000*3 + k))
			af.PCR()
			af.TransportPrivateData()
		}
		adaptationfield.Length(p)
		p.SetPayload(bytes.Repeat([]byte{0xDA}, 30+k))
		p.CheckErrors()
		packet.Equal(p, p)
		q := packet.IncrementCC(p)
		packet.Payload(q)
		acc := packet.NewAccumulator(func(b []byte) (bool, error) { return len(b) > 400, nil })
		for i := 0; i < 4; i++ {
			x := packet.Create(0x1D0C, packet.WithHasPayloadFlag)
			if i == 0 {
				packet.WithPUSI(x)
			}
			for j := 4; j < 188; j++ {
				x[j] = byte(0xD0 + i + k)
			}
			acc.WritePacket(x)
		}
		acc.Bytes()
		acc.Packets()
		stream := append(bytes.Repeat([]byte{0x00, 0x47, 0xDD}, 5+k), p[:]...)
		stream = append(stream, q[:]...)
		packet.Sync(bufio.NewReader(bytes.NewReader(stream)))
		n := 0
		w := packet.IOWriter(packet.PacketWriterFunc(func(*packet.Packet) (int, error) {
			n++
			if n == 2 {
				return 0, io.ErrClosedPipe
			}
			return 188, nil
		}))
		w.Write(append(append([]byte{}, p[:]...), q[:]...))
		n = 0
		w.(io.ReaderFrom).ReadFrom(bytes.NewReader(append(append([]byte{}, q[:]...), p[:]...)))
		a, b := gots.PTS(8589934000+uint64(k)), gots.PTS(1234+uint64(k))
		a.After(b)
		b.After(a)
		a.DurationFrom(b)
		b.DurationFrom(b)
		a.Add(b)
		a.RolledOver(b)
		a.GreaterOrEqual(b)
		var tb [5]byte
		gots.InsertPTS(tb[:], uint64(a))
		gots.ExtractTime(tb[:])
	})
}
