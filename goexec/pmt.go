package main

// C06 / C14: PMT parsing, completion predicate, stream reader, CRC accessor, PSI accessors,
// table header codec, PMT filtering.  Same op names and reply shapes as Exec/PmtExec.v.

import (
	"bytes"
	"fmt"
	"reflect"
	"regexp"
	"strconv"
	"strings"

	gots "github.com/Comcast/gots/v2"
	"github.com/Comcast/gots/v2/packet"
	"github.com/Comcast/gots/v2/psi"
)

// try runs f and turns a panic into the observation [2]
func try(f func() Val) (r Val) {
	defer func() {
		if e := recover(); e != nil {
			lastPanic = "panic"
			r = VPanic()
		}
	}()
	return f()
}

func changed(before, after []byte) Val {
	if bytes.Equal(before, after) {
		return VI(0)
	}
	return VI(1)
}

// descriptor body: the interface has no accessor for the raw bytes; read the []byte field of the
// concrete struct through reflection (read-only; works on unexported fields)
func descBody(d psi.PmtDescriptor) []byte {
	v := reflect.ValueOf(d)
	for v.Kind() == reflect.Ptr || v.Kind() == reflect.Interface {
		v = v.Elem()
	}
	if v.Kind() != reflect.Struct {
		return nil
	}
	if f := v.FieldByName("data"); f.IsValid() && f.Kind() == reflect.Slice && f.Type().Elem().Kind() == reflect.Uint8 {
		return f.Bytes()
	}
	for i := 0; i < v.NumField(); i++ {
		f := v.Field(i)
		if f.Kind() == reflect.Slice && f.Type().Elem().Kind() == reflect.Uint8 {
			return f.Bytes()
		}
	}
	return nil
}

func vpmt(p psi.PMT) Val {
	pids := []Val{}
	for _, x := range p.Pids() {
		pids = append(pids, VI(int64(x)))
	}
	ess := []Val{}
	for _, e := range p.ElementaryStreams() {
		ds := []Val{}
		for _, d := range e.Descriptors() {
			ds = append(ds, VL(VI(int64(d.Tag())), VB(descBody(d))))
		}
		ess = append(ess, VL(VI(int64(e.StreamType())), VI(int64(e.ElementaryPid())), Val{K: 2, L: ds}))
	}
	return VL(Val{K: 2, L: pids}, Val{K: 2, L: ess}, VI(int64(p.VersionNumber())), VBool(p.CurrentNextIndicator()))
}

func resPMT(p psi.PMT, err error) Val {
	if err != nil {
		return VErr(errCode(err))
	}
	// what the decoded PMT hands out is kept until the op replies, and its getters are asked twice (stable.go)
	keepPMT("decoded PMT", p)
	keepView("the getters of the decoded PMT", func() string { return valTextFull(vpmt(p)) }) // must survive the decoy phase
	return VOk(twice("PMT getters", func() Val { return vpmt(p) }))
}

var pidListRe = regexp.MustCompile(`\[([0-9 -]*)\]`)

func init() {
	register("pmt.parse", func(a []Val) Val {
		in := append([]byte{}, a[0].B...)
		in = in[:len(in):len(in)]
		r := try(func() Val { return resPMT(psi.NewPMT(in)) })
		return VL(r, changed(a[0].B, in))
	})
	register("pmt.done", func(a []Val) Val {
		in := append([]byte{}, a[0].B...)
		in = in[:len(in):len(in)]
		r := try(func() Val {
			d, err := psi.PmtAccumulatorDoneFunc(in)
			if err != nil {
				return VErr(errCode(err))
			}
			return VOk(VBool(d))
		})
		return VL(r, changed(a[0].B, in))
	})
	register("pmt.doneall", func(a []Val) Val {
		out := []Val{}
		for k := 0; k <= len(a[0].B); k++ {
			q := append([]byte{}, a[0].B[:k]...)
			q = q[:len(q):len(q)]
			out = append(out, try(func() Val {
				d, err := psi.PmtAccumulatorDoneFunc(q)
				if err != nil {
					return VI(4)
				}
				return VBool(d)
			}))
		}
		for i, v := range out { // a panic inside is the code 2
			if v.K == 2 {
				out[i] = VI(2)
			}
		}
		return Val{K: 2, L: out}
	})
	register("pmt.read", func(a []Val) Val {
		rd := bytes.NewReader(a[0].B)
		p, err := psi.ReadPMT(rd, a[1].Int())
		if err == nil {
			// the reader is the caller's: it goes on reading the stream after the table.  ReadPMT may consume whole packets up to
			// the one that completes the table and nothing more (seeded C06-u1: a private read-ahead buffer swallowed the
			// packets behind the PMT).  Checked without the model: the consumed length is a multiple of 188, and the stream cut
			// one packet earlier no longer yields a PMT.
			consumed := len(a[0].B) - rd.Len()
			if consumed%188 != 0 || consumed < 188 {
				noteUnstable("ReadPMT consumed %d bytes of the caller's reader: not a whole number of packets", consumed)
			} else if _, err2 := psi.ReadPMT(bytes.NewReader(a[0].B[:consumed-188]), a[1].Int()); err2 == nil {
				noteUnstable("ReadPMT consumed %d bytes of the caller's reader although the table is complete %d bytes earlier: it reads ahead of the PMT, a caller that goes on reading the stream loses packets", consumed, 188)
			}
		}
		return resPMT(p, err)
	})
	register("pmt.crc", func(a []Val) Val {
		in := append([]byte{}, a[0].B...)
		in = in[:len(in):len(in)]
		r := try(func() Val {
			c, err := psi.ExtractCRC(in)
			if err != nil {
				return VErr(errCode(err))
			}
			return VOk(VU(uint64(c)))
		})
		return VL(r, changed(a[0].B, in))
	})
	register("psi.acc", func(a []Val) Val {
		in := append([]byte{}, a[0].B...)
		in = in[:len(in):len(in)]
		return VL(
			try(func() Val { return VOk(VI(int64(psi.PointerField(in)))) }),
			try(func() Val { return VOk(VI(int64(psi.TableID(in)))) }),
			try(func() Val { return VOk(VBool(psi.SectionSyntaxIndicator(in))) }),
			try(func() Val { return VOk(VBool(psi.PrivateIndicator(in))) }),
			try(func() Val { return VOk(VI(int64(psi.SectionLength(in)))) }),
			changed(a[0].B, in))
	})
	register("psi.th", func(a []Val) Val {
		in := append([]byte{}, a[0].B...)
		in = in[:len(in):len(in)]
		th, err := psi.TableHeaderFromBytes(in)
		if err != nil {
			return VErr(errCode(err))
		}
		return VOk(VL(VI(int64(th.TableID)), VBool(th.SectionSyntaxIndicator), VBool(th.PrivateIndicator),
			VI(int64(th.SectionLength)), VB(th.Data())))
	})
	register("psi.thdata", func(a []Val) Val {
		th := psi.TableHeader{TableID: uint8(a[0].U()), SectionSyntaxIndicator: a[1].Int() != 0,
			PrivateIndicator: a[2].Int() != 0, SectionLength: uint16(a[3].U())}
		return VB(th.Data())
	})
	register("psi.npf", func(a []Val) Val {
		return VOk(VB(psi.NewPointerField(a[0].Int())))
	})
	register("pmt.filter", func(a []Val) Val {
		var pkts []*packet.Packet
		var snap [][]byte
		for _, v := range a[0].L {
			if v.K != 1 || len(v.B) != packet.PacketSize {
				return VBad()
			}
			var p packet.Packet
			copy(p[:], v.B)
			pkts = append(pkts, &p)
			snap = append(snap, v.B)
		}
		pids := []int{}
		for _, v := range a[1].L {
			pids = append(pids, v.Int())
		}
		pidsBefore := append([]int{}, pids...)
		call := 0
		run := func() Val {
			call++
			out, err := psi.FilterPMTPacketsToPids(pkts, pids)
			// what the first call returned is kept while the same input packets are filtered again (stable.go)
			keepPkts(fmt.Sprintf("packets returned by FilterPMTPacketsToPids call %d", call), out)
			ev := VL()
			if err != nil {
				if c := errCode(err); c != 99 {
					return VErr(c)
				}
				// "PID(s) [1 2] not found in PMT." : class = PIDNotInPMT, payload = the list
				txt := err.Error()
				m := pidListRe.FindStringSubmatch(txt)
				if m == nil || !strings.HasPrefix(txt, "PID(s) ") {
					return VErr(99)
				}
				l := []Val{}
				for _, f := range strings.Fields(m[1]) {
					n, _ := strconv.Atoi(f)
					l = append(l, VI(int64(n)))
				}
				ev = VL(Val{K: 2, L: l})
			}
			pv := VL()
			if out != nil {
				l := []Val{}
				for _, p := range out {
					l = append(l, VB(p[:]))
				}
				pv = VL(Val{K: 2, L: l})
			}
			return VOk(VL(pv, ev))
		}
		r := same2("FilterPMTPacketsToPids on the same input packets", try(run), try(run))
		ch := 0
		for i, p := range pkts {
			if !bytes.Equal(p[:], snap[i]) {
				ch = 1
			}
		}
		for i := range pids {
			if pids[i] != pidsBefore[i] {
				ch = 1
			}
		}
		return VL(r, VI(int64(ch)))
	})
	register("pmt.remove", func(a []Val) Val {
		p, err := psi.NewPMT(keep("input of NewPMT", append([]byte{}, a[0].B...)))
		if err != nil {
			return VErr(errCode(err))
		}
		keepPMT("decoded PMT", p)
		rm := []int{}
		for _, v := range a[1].L {
			rm = append(rm, v.Int())
		}
		p.RemoveElementaryStreams(keepInts("argument of RemoveElementaryStreams", rm))
		q := []Val{}
		for _, v := range a[2].L {
			q = append(q, VBool(p.PIDExists(v.Int())))
		}
		// the same removal with an argument that is a PART OF THE PMT'S OWN Pids() (pm.RemoveElementaryStreams(pm.Pids()[i:j])):
		// when the request is a contiguous run of the PID list, a second PMT decoded from the same bytes is handed that very
		// sub-slice; the result must be the same (seeded C14-u2: the PID list was edited in place while it was ranged over)
		if p2, err2 := psi.NewPMT(append([]byte{}, a[0].B...)); err2 == nil && len(rm) > 0 {
			own := p2.Pids()
			for i := 0; i+len(rm) <= len(own); i++ {
				match := true
				for j := range rm {
					if own[i+j] != rm[j] {
						match = false
						break
					}
				}
				if match {
					p2.RemoveElementaryStreams(own[i : i+len(rm)])
					if !valEq(vpmt(p), vpmt(p2)) {
						noteUnstable("RemoveElementaryStreams gives a different PMT when its argument is a part of the PMT's own Pids(): %s vs %s", valText(vpmt(p)), valText(vpmt(p2)))
					}
					break
				}
			}
		}
		return VOk(VL(vpmt(p), Val{K: 2, L: q}))
	})
	register("pmt.lagshist", func(a []Val) Val {
		p, err := psi.NewPMT(a[0].B)
		if err != nil {
			return VErr(errCode(err))
		}
		rm := []int{}
		for _, v := range a[1].L {
			rm = append(rm, v.Int())
		}
		q1, q2, q3, q4 := []Val{}, []Val{}, []Val{}, []Val{}
		for _, v := range a[2].L {
			q1 = append(q1, VBool(p.IsPidForStreamWherePresentationLagsEbp(v.Int())))
		}
		p.RemoveElementaryStreams(rm)
		for _, v := range a[2].L {
			q2 = append(q2, VBool(p.IsPidForStreamWherePresentationLagsEbp(v.Int())))
		}
		for _, v := range a[2].L {
			q3 = append(q3, VBool(p.PIDExists(v.Int())))
		}
		for _, v := range a[2].L {
			q4 = append(q4, VBool(p.IsPidForStreamWherePresentationLagsEbp(v.Int())))
		}
		return VOk(VL(Val{K: 2, L: q1}, Val{K: 2, L: q2}, Val{K: 2, L: q3}, Val{K: 2, L: q4}))
	})
	register("pmt.computecrc", func(a []Val) Val { return VB(gots.ComputeCRC(a[0].B)) })
}

// keepPMT records what a decoded PMT handed out: the PID list and every descriptor body (they alias the bytes
// the PMT was decoded from), so that a later call on ANY object that rewrites them is noticed (stable.go)
func keepPMT(label string, p psi.PMT) {
	keepInts(label+".Pids()", p.Pids())
	for i, e := range p.ElementaryStreams() {
		for j, d := range e.Descriptors() {
			keep(fmt.Sprintf("%s stream %d descriptor %d body", label, i, j), descBody(d))
		}
	}
}

func pidsOf(v Val) []int {
	out := []int{}
	for _, x := range v.L {
		out = append(out, x.Int())
	}
	return out
}

func init() {
	// pmt.hist <payload> <script>: ONE decoded PMT object observed the way a long-lived caller does.
	//   [0 [pid*]]  PIDExists and IsPidForStreamWherePresentationLagsEbp of every pid (each asked twice)
	//   [1 [pid*]]  RemoveElementaryStreams
	//   [2]         the caller keeps the list returned by ElementaryStreams() (replay aid, see notes/aliasing.md A2)
	// reply [0 [view0 [stepresult view]*]]: every getter after every step
	register("pmt.hist", func(a []Val) Val {
		in := append([]byte{}, a[0].B...)
		in = in[:len(in):len(in)]
		keep("input of NewPMT", in)
		p, err := psi.NewPMT(in)
		if err != nil {
			return VErr(errCode(err))
		}
		keepPMT("decoded PMT", p)
		out := []Val{twice("PMT getters", func() Val { return vpmt(p) })}
		for _, st := range a[1].L {
			var r Val
			switch st.L[0].Int() {
			case 0:
				ex, lg := []Val{}, []Val{}
				for _, pid := range pidsOf(st.L[1]) {
					pid := pid
					ex = append(ex, twice("PIDExists", func() Val { return VBool(p.PIDExists(pid)) }))
					lg = append(lg, twice("IsPidForStreamWherePresentationLagsEbp", func() Val {
						return VBool(p.IsPidForStreamWherePresentationLagsEbp(pid))
					}))
				}
				r = VL(Val{K: 2, L: ex}, Val{K: 2, L: lg})
			case 1:
				rm := pidsOf(st.L[1])
				held := keepInts("argument of RemoveElementaryStreams", rm)
				p.RemoveElementaryStreams(held)
				keepInts("Pids() after RemoveElementaryStreams", p.Pids())
				r = VL()
			case 2:
				// hold the list ElementaryStreams() returns from now on.  NOT generated: on the unchanged tree the getter
				// returns the internal slice and RemoveElementaryStreams shifts it in place (notes/aliasing.md, A2)
				keepList("ElementaryStreams()", p.ElementaryStreams())
				r = VL()
			default:
				return VBad()
			}
			out = append(out, VL(r, twice("PMT getters", func() Val { return vpmt(p) })))
		}
		return VOk(Val{K: 2, L: out})
	})
	// pmt.acchist [ [pkt*]* ]: several PMTs gathered one after the other through ONE accumulator
	// (NewAccumulator(PmtAccumulatorDoneFunc); Reset between tables), each decoded from acc.Bytes() and KEPT while the
	// accumulator is reused.  reply [ [ [errcode*] respmt ]* [respmt*] ]: per table the WritePacket outcomes and the
	// decoded PMT right away, then every PMT once more at the end.
	register("pmt.acchist", func(a []Val) Val {
		acc := packet.NewAccumulator(psi.PmtAccumulatorDoneFunc)
		var pmts []psi.PMT
		out := []Val{}
		for ti, tv := range a[0].L {
			if ti > 0 {
				acc.Reset()
			}
			codes := []Val{}
			for _, pv := range tv.L {
				if pv.K != 1 || len(pv.B) != packet.PacketSize {
					return VBad()
				}
				var pkt packet.Packet
				copy(pkt[:], pv.B)
				_, err := acc.WritePacket(&pkt)
				c := 0
				if err != nil {
					c = ioErrCode(err)
				}
				codes = append(codes, VI(int64(c)))
			}
			b := keep(fmt.Sprintf("acc.Bytes() of table %d", ti), acc.Bytes())
			keepPkts(fmt.Sprintf("acc.Packets() of table %d", ti), acc.Packets())
			p, err := psi.NewPMT(b)
			if err == nil {
				keepPMT(fmt.Sprintf("PMT %d decoded from acc.Bytes()", ti), p)
			} else {
				p = nil
			}
			pmts = append(pmts, p)
			out = append(out, VL(Val{K: 2, L: codes}, resPMT(p, err)))
		}
		final := []Val{}
		for _, p := range pmts {
			if p == nil {
				final = append(final, VL())
			} else {
				final = append(final, VL(vpmt(p)))
			}
		}
		out = append(out, Val{K: 2, L: final})
		return Val{K: 2, L: out}
	})
}
