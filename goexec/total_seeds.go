package main

// valid vectors for the C05 malformed-input stream, built through the library's own API
// (and its exported test vectors) so that they are well-formed by construction.

import (
	"github.com/Comcast/gots/v2/ebp"
	"github.com/Comcast/gots/v2/packet"
	"github.com/Comcast/gots/v2/scte35"
)

func seedVectors() [][]byte {
	var seeds [][]byte
	add := func(b []byte) { seeds = append(seeds, append([]byte{}, b...)) }
	add(packet.TestPatPacket[:])
	add(packet.TestPmtPacket[:])
	add(packet.TestPatPacket[4:])
	add(packet.TestPmtPacket[4:])
	{
		s := scte35.CreateSCTE35()
		c := scte35.CreateTimeSignalCommand()
		c.SetHasPTS(true)
		c.SetPTS(12345)
		s.SetCommandInfo(c)
		d := scte35.CreateSegmentationDescriptor()
		d.SetTypeID(0x34)
		d.SetHasDuration(true)
		d.SetDuration(900000)
		d.SetUPIDType(scte35.SegUPIDMID)
		u := scte35.CreateUPID()
		u.SetUPIDType(9)
		u.SetUPID([]byte("BLACKOUT:x"))
		d.SetMID([]scte35.UPID{u, u})
		d2 := scte35.CreateSegmentationDescriptor()
		d2.SetHasProgramSegmentation(false)
		co := scte35.CreateComponentOffset()
		d2.SetComponents([]scte35.ComponentOffset{co, co})
		d2.SetTypeID(0x10)
		s.SetDescriptors([]scte35.SegmentationDescriptor{d, d2})
		add(append([]byte{0}, s.UpdateData()...))

		s2 := scte35.CreateSCTE35()
		si := scte35.CreateSpliceInsertCommand()
		si.SetEventID(7)
		si.SetIsOut(true)
		si.SetHasPTS(true)
		si.SetPTS(900000)
		si.SetHasDuration(true)
		si.SetDuration(2700000)
		s2.SetCommandInfo(si)
		add(append([]byte{0}, s2.UpdateData()...))

		s3 := scte35.CreateSCTE35()
		s3.SetCommandInfo(scte35.CreateSpliceNull())
		d3 := scte35.CreateSegmentationDescriptor()
		d3.SetTypeID(0x36)
		d3.SetUPIDType(8)
		d3.SetUPID([]byte{1, 2, 3, 4, 5, 6, 7, 8})
		d3.SetHasSubSegments(true)
		s3.SetDescriptors([]scte35.SegmentationDescriptor{d3})
		add(append([]byte{0}, s3.UpdateData()...))
	}
	{
		e := ebp.CreateCableLabsEbp()
		e.SetGroupingFlag(true)
		e.Grouping = []byte{1, 2, 0x1d}
		e.SetTimeFlag(true)
		e.SetSapFlag(true)
		e.SetExtensionFlag(true)
		add(e.Data())
		e2 := ebp.CreateComcastEBP()
		e2.SetGroupingFlag(true)
		e2.Grouping = []byte{1}
		e2.SetTimeFlag(true)
		add(e2.Data())
		add([]byte{0, 0, 1, 0xE0, 0, 0, 0x84, 0xC0, 10, 0x31, 0, 1, 0, 1, 0x11, 0, 1, 0, 1, 9, 9, 9})
		add([]byte{0, 0, 1, 0xBE, 0, 4, 1, 2, 3, 4})
		p := packet.New()
		p.SetAdaptationFieldControl(packet.AdaptationFieldFlag)
		af, _ := p.AdaptationField()
		af.SetHasPCR(true)
		af.SetHasOPCR(true)
		af.SetHasSplicingPoint(true)
		af.SetHasTransportPrivateData(true)
		af.SetTransportPrivateData(e2.Data())
		af.SetHasAdaptationFieldExtension(true)
		af.SetAdaptationFieldExtension([]byte{9, 8, 7})
		add(p[:])
		q := packet.New()
		q.SetPID(0x101)
		q.SetPayloadUnitStartIndicator(true)
		q.SetAdaptationFieldControl(packet.PayloadAndAdaptationFieldFlag)
		q.SetPayload([]byte{0, 0, 1, 0xE0, 0, 0, 0x84, 0x80, 5, 0x21, 0, 1, 0, 1, 7, 7})
		add(q[:])
		two := append(append([]byte{}, packet.TestPatPacket[:]...), packet.TestPmtPacket[:]...)
		add(two)
		add(append([]byte{1, 2, 3}, two...))
	}
	return seeds
}

func init() {
	register("tot.seeds", func(a []Val) Val {
		var out []Val
		for _, s := range seedVectors() {
			out = append(out, VB(s))
		}
		return VL(out...)
	})
}
