package main

// C10: the real scte35.State driven by a script over a pool of descriptors (built by mkDesc of seg.go).
// trk.hist <pool> <script>; reply format documented in Exec/StateExec.v.

import (
	"fmt"

	"github.com/Comcast/gots/v2/scte35"
)

func init() {
	var trkHistOnce func(a []Val) Val
	register("trk.hist", func(a []Val) Val {
		// the tracker takes SegmentationDescriptor VALUES OF THE INTERFACE: in the second run every other descriptor of the
		// pool is the caller's own implementation forwarding to the library's (foreign.go); the observations must agree
		return foreignTwin("trk.hist (tracker fed caller-written SegmentationDescriptor values)", func() Val { return trkHistOnce(a) })
	})
	trkHistOnce = func(a []Val) Val {
		poolV, script := a[0].L, a[1].L
		pool := make([]scte35.SegmentationDescriptor, len(poolV))
		idOf := map[scte35.SegmentationDescriptor]int{}
		for i := range poolV {
			pool[i] = mkDesc(specOfVal(poolV[i]))
			if i%2 == 1 {
				pool[i] = maybeForeignSegDesc(pool[i])
			}
			idOf[pool[i]] = i
		}
		ids := func(l []scte35.SegmentationDescriptor) Val {
			out := make([]Val, len(l))
			for i, d := range l {
				if k, ok := idOf[d]; ok {
					out[i] = VI(int64(k))
				} else {
					out[i] = VI(-1) // nil or a descriptor that is not from the pool
				}
			}
			return VL(out...)
		}
		// the tracker must not modify the descriptors it is handed: snapshot every getter the model reads
		views := make([]string, len(pool))
		for i := range pool {
			views[i] = descView(pool[i])
		}
		poolChanged := func() int64 {
			for i := range pool {
				if descView(pool[i]) != views[i] {
					return 1
				}
			}
			return 0
		}
		st := scte35.NewState()
		openObs := func() (v Val, panicked bool) {
			defer func() {
				if e := recover(); e != nil {
					lastPanic = "Open: " + sprint(e)
					v, panicked = VPanic(), true
				}
			}()
			o := st.Open()
			v = VOk(ids(o))
			// Open() must hand out a copy: scribbling on it must not reach the tracker
			for i := range o {
				o[i] = nil
			}
			return v, false
		}
		var out []Val
		for step, c := range script {
			kind := c.L[0].Int()
			var closed []scte35.SegmentationDescriptor
			var err error
			panicked := false
			func() {
				defer func() {
					if e := recover(); e != nil {
						lastPanic = sprint(e)
						panicked = true
					}
				}()
				switch kind {
				case 0:
					closed, err = st.ProcessDescriptor(pool[c.L[1].Int()])
				case 1:
					closed, err = st.Close(pool[c.L[1].Int()])
				}
			}()
			if panicked {
				out = append(out, VPanic())
				break
			}
			code := 0
			if err != nil {
				code = errCode(err)
			}
			// the caller keeps the closed list and a list obtained from Open() while the tracker goes on (stable.go)
			keepList(fmt.Sprintf("closed list of call %d", step), closed)
			if !panicked {
				func() {
					defer func() { recover() }()
					keepList(fmt.Sprintf("Open() after call %d", step), st.Open())
				}()
			}
			ov, op := openObs()
			out = append(out, VL(ids(closed), VI(int64(code)), ov, VI(poolChanged())))
			if op {
				break
			}
		}
		// the tracker stays alive while OTHER trackers process descriptors (stable.go decoy phase)
		keepView("Open() of the tracker after the history", func() string { return valTextFull(ids(st.Open())) })
		return VL(out...)
	}
}

func sprint(e interface{}) string {
	if s, ok := e.(interface{ Error() string }); ok {
		return s.Error()
	}
	if s, ok := e.(string); ok {
		return s
	}
	return "panic"
}
