package main

// C07 (PAT) and the PAT/psi part of C05, run on the real psi and packet packages.

import (
	"bytes"
	"errors"
	"io"
	"sort"

	"github.com/Comcast/gots/v2/packet"
	"github.com/Comcast/gots/v2/psi"
)

var errScriptedReader = errors.New("scripted reader failure")

// patScriptReader delivers data in fragments of at most frag bytes, then ends with io.EOF
// (tail 0 and 1; for tail 1 the data ends inside a packet) or with a reader error (tail 2).
type patScriptReader struct {
	data []byte
	pos  int
	frag int
	tail int
}

func (r *patScriptReader) Read(p []byte) (int, error) {
	if r.pos >= len(r.data) {
		if r.tail == 2 {
			return 0, errScriptedReader
		}
		return 0, io.EOF
	}
	n := len(p)
	if r.frag > 0 && n > r.frag {
		n = r.frag
	}
	if n > len(r.data)-r.pos {
		n = len(r.data) - r.pos
	}
	copy(p, r.data[r.pos:r.pos+n])
	r.pos += n
	return n, nil
}

func patView(p psi.PAT, unchanged func() bool) Val {
	// asked twice in a row: the answers of a PAT must not depend on having been asked before (stable.go)
	return twice("PAT getters", func() Val { return patView1(p, unchanged) })
}

func patView1(p psi.PAT, unchanged func() bool) Val {
	num := guarded(func() Val { return VOk(VI(int64(p.NumPrograms()))) })
	pm := guarded(func() Val {
		m := p.ProgramMap()
		keys := make([]int, 0, len(m))
		for k := range m {
			keys = append(keys, k)
		}
		sort.Ints(keys)
		out := make([]Val, 0, len(keys))
		for _, k := range keys {
			out = append(out, VL(VI(int64(k)), VI(int64(m[k]))))
		}
		return VOk(VL(out...))
	})
	spts := guarded(func() Val {
		pid, err := p.SPTSpmtPID()
		if err != nil {
			return VErr(errCode(err))
		}
		return VOk(VI(int64(pid)))
	})
	return VL(num, pm, spts, VBool(unchanged()))
}

func asPacket(b []byte) (*packet.Packet, bool) {
	if len(b) != packet.PacketSize {
		return nil, false
	}
	var pkt packet.Packet
	copy(pkt[:], b)
	return &pkt, true
}

func init() {
	register("pat.new", func(a []Val) Val {
		b := exact(a[0].B)
		before := exact(b)
		p, err := psi.NewPAT(b)
		if err != nil {
			return VErr(errCode(err))
		}
		return VOk(patView(p, func() bool { return bytes.Equal(b, before) }))
	})
	register("pat.read", func(a []Val) Val {
		var data []byte
		for _, p := range a[0].L {
			if len(p.B) != packet.PacketSize {
				return VBad()
			}
			data = append(data, p.B...)
		}
		tail := a[1].Int()
		if tail == 1 { // the stream ends inside a packet that would have been a PAT packet
			part := make([]byte, 100)
			part[0] = 0x47
			part[1] = 0x40
			part[3] = 0x10
			data = append(data, part...)
		}
		before := exact(data)
		r := &patScriptReader{data: data, frag: a[2].Int(), tail: tail}
		p, err := psi.ReadPAT(r)
		if err != nil {
			return VErr(errCode(err))
		}
		return VOk(patView(p, func() bool { return bytes.Equal(data, before) }))
	})
	register("pat.ispmt", func(a []Val) Val {
		pkt, ok := asPacket(a[0].B)
		if !ok {
			return VBad()
		}
		var pat psi.PAT
		if len(a[1].L) == 1 {
			var err error
			pat, err = psi.NewPAT(exact(a[1].L[0].B))
			if err != nil {
				return VErr(errCode(err))
			}
		}
		r, err := psi.IsPMT(pkt, pat)
		if err != nil {
			return VErr(errCode(err))
		}
		return VOk(VBool(r))
	})
	register("pat.psi", func(a []Val) Val {
		b := exact(a[0].B)
		return VL(
			guarded(func() Val { return VOk(VU(uint64(psi.PointerField(b)))) }),
			guarded(func() Val { return VOk(VU(uint64(psi.TableID(b)))) }),
			guarded(func() Val { return VOk(VBool(psi.SectionSyntaxIndicator(b))) }),
			guarded(func() Val { return VOk(VBool(psi.PrivateIndicator(b))) }),
			guarded(func() Val { return VOk(VU(uint64(psi.SectionLength(b)))) }))
	})
	register("pat.pkt", func(a []Val) Val {
		pkt, ok := asPacket(a[0].B)
		if !ok {
			return VBad()
		}
		return VL(VOk(VI(int64(packet.Pid(pkt)))), guarded(func() Val {
			pay, err := packet.Payload(pkt)
			if err != nil {
				return VErr(errCode(err))
			}
			return VOk(VB(pay))
		}))
	})
}
