// Ops added by the coverage round (notes/coverage.md): exported functions and constant tables that no op of the
// twenty properties called in a deciding case.  Model side: coq/theories/Exec/CoverageExec.v (same op names).
package main

import (
	"bufio"
	"errors"
	"io"
	"sort"

	gots "github.com/Comcast/gots/v2"
	"github.com/Comcast/gots/v2/ebp"
	"github.com/Comcast/gots/v2/packet"
	"github.com/Comcast/gots/v2/pes"
	"github.com/Comcast/gots/v2/psi"
	"github.com/Comcast/gots/v2/scte35"
)

// cu prints any integer constant (typed or untyped, all are non-negative and fit uint64)
func cu[T ~int | ~uint8 | ~uint16 | ~uint32 | ~uint64 | ~int64](v T) Val { return VU(uint64(v)) }

type covCloser struct {
	packet.PacketWriter
	err error
}

func (c covCloser) Close() error { return c.err }

func covErr(err error) Val {
	if err == nil {
		return VI(0)
	}
	return VI(int64(ioErrCode(err)))
}

func sortedKeys[K ~uint8 | ~uint16](m map[K]string) Val {
	ks := make([]int, 0, len(m))
	for k := range m {
		ks = append(ks, int(k))
	}
	sort.Ints(ks)
	out := make([]Val, 0, len(ks))
	for _, k := range ks {
		out = append(out, VI(int64(k)))
	}
	return Val{K: 2, L: out}
}

func init() {
	// io.issynced <data> <terminal error code> <bufio size> <mode>
	register("io.issynced", func(a []Val) Val {
		data := append([]byte{}, a[0].B...)
		u := &chunkReader{data: data, mode: a[3].Int(), terr: codeErr(a[1].Int())}
		r := bufio.NewReaderSize(u, a[2].Int())
		ok, err := packet.IsSynced(r)
		buf := make([]byte, packet.PacketSize)
		n, _ := io.ReadFull(r, buf)
		return VOk(VL(VBool(ok), covErr(err), VB(buf[:n])))
	})
	register("psi.canbuild", func(a []Val) Val {
		in := append([]byte{}, a[0].B...)
		r := psi.CanBuildPMT(in, uint16(a[1].U()))
		if string(in) != string(a[0].B) {
			return VL(VI(6))
		}
		return VBool(r)
	})
	register("psi.newth", func(a []Val) Val {
		h := psi.NewTableHeader()
		return VL(VU(uint64(h.TableID)), VBool(h.SectionSyntaxIndicator), VBool(h.PrivateIndicator), VU(uint64(h.SectionLength)), VB(h.Data()))
	})
	register("pkt.newaf", func(a []Val) Val {
		af := packet.NewAdaptationField()
		if af == nil {
			return VErr(errCode(gots.ErrNoAdaptationField))
		}
		return VOk(VB(af[:]))
	})
	register("pkt.af", func(a []Val) Val {
		if len(a[0].B) != packet.PacketSize {
			return VBad()
		}
		var p packet.Packet
		copy(p[:], a[0].B)
		af, err := p.AdaptationField()
		if err != nil {
			if af != nil {
				return VL(VI(6))
			}
			return VErr(errCode(err))
		}
		// the view must be the packet's own memory: a write through it shows in the packet
		same := (*packet.Packet)(af) == &p
		return VOk(VL(VB(af[:]), VBool(same)))
	})
	register("pw.close", func(a []Val) Val {
		w := newScriptedWriter(-1, 0, packet.PacketSize)
		var err error
		switch a[0].Int() {
		case 0:
			err = packet.NopCloser(w).Close()
		case 1:
			var ce error
			if c := a[1].Int(); c != 0 {
				ce = codeErr(c)
			}
			err = packet.IOWriteCloser(covCloser{w, ce}).Close()
		default:
			err = packet.IOWriteCloser(packet.NopCloser(w)).Close()
		}
		if len(w.calls) != 0 {
			return VL(VI(6))
		}
		return covErr(err)
	})
	register("pw.func", func(a []Val) Val {
		if len(a[0].B) != packet.PacketSize {
			return VBad()
		}
		var p packet.Packet
		copy(p[:], a[0].B)
		var ce error
		if c := a[2].Int(); c != 0 {
			ce = codeErr(c)
		}
		var seen []byte
		calls := 0
		f := packet.PacketWriterFunc(func(q *packet.Packet) (int, error) {
			calls++
			seen = append([]byte{}, q[:]...)
			return a[1].Int(), ce
		})
		var w packet.PacketWriter = f
		if a[3].Int() != 0 {
			w = packet.NopCloser(f)
		}
		n, err := w.WritePacket(&p)
		return VL(VI(int64(n)), covErr(err), VB(seen), VI(int64(calls)))
	})
	register("pes.checklen", func(a []Val) Val {
		return VBool(pes.CheckLength(append([]byte{}, a[0].B...), "coverage", a[1].Int()))
	})
	register("scte.component", func(a []Val) Val {
		c := scte35.CreateComponent()
		for _, o := range a[0].L {
			scteCompOp(c, o)
		}
		return VL(VU(uint64(c.ComponentTag())), VBool(c.HasPTS()), VU(uint64(c.PTS())))
	})
	register("scte.fresh", func(a []Val) Val {
		u := scte35.CreateUPID()
		c := scte35.CreateComponentOffset()
		return VL(VL(VU(uint64(u.UPIDType())), VB(u.UPID())), VL(VU(uint64(c.ComponentTag())), VU(uint64(c.PTSOffset()))))
	})
	register("scte.done", func(a []Val) Val {
		in := append([]byte{}, a[0].B...)
		in = in[:len(in):len(in)]
		d, err := scte35.SCTE35AccumulatorDoneFunc(in)
		if string(in) != string(a[0].B) {
			return VL(VI(6))
		}
		if err != nil {
			return VErr(errCode(err))
		}
		return VOk(VBool(d))
	})
	register("scte.parts", func(a []Val) Val {
		var s scte35.SCTE35
		if len(a[0].L) == 0 {
			s = scte35.CreateSCTE35()
		} else {
			var err error
			s, err = scte35.NewSCTE35(append([]byte{}, a[0].L[0].B...))
			if err != nil {
				return VErr(errCode(err))
			}
		}
		for _, o := range a[1].L {
			scteSigOp(s, o)
		}
		ds := []Val{}
		for _, d := range s.Descriptors() {
			ds = append(ds, VB(d.Data()))
		}
		return VOk(VL(VB(s.CommandInfo().Data()), Val{K: 2, L: ds}))
	})
	register("const.gots", func(a []Val) Val {
		return VL(cu(gots.PTS_DTS_INDICATOR_BOTH), cu(gots.PTS_DTS_INDICATOR_ONLY_PTS), cu(gots.PTS_DTS_INDICATOR_NONE),
			VU(gots.MaxPtsValue), VU(gots.MaxPtsTicks), VU(uint64(gots.PtsNegativeInfinity)), VU(uint64(gots.PtsPositiveInfinity)),
			cu(gots.PtsClockRate), VU(gots.UpperPtsRolloverThreshold), VU(gots.LowerPtsRolloverThreshold))
	})
	// const.errors: per exported error value, in source order of errors.go: [code class]; code = its number found by
	// identity (errCode), class = the code of the first value in the list whose Error() text is the same
	register("const.errors", func(a []Val) Val {
		out := []Val{}
		for i, t := range covErrors {
			class := errCode(t)
			for _, u := range covErrors[:i] {
				if u.Error() == t.Error() {
					class = errCode(u)
					break
				}
			}
			// identity: errors.Is must separate every pair of different values
			for j, u := range covErrors {
				if (i == j) != errors.Is(t, u) {
					return VL(VI(6))
				}
			}
			out = append(out, VL(VI(int64(errCode(t))), VI(int64(class))))
		}
		return Val{K: 2, L: out}
	})
	register("const.packet", func(a []Val) Val {
		return VL(VL(cu(packet.PayloadFlag), cu(packet.AdaptationFieldFlag), cu(packet.PayloadAndAdaptationFieldFlag), cu(packet.PacketSize), cu(packet.SyncByte), cu(packet.NullPacketPid), cu(packet.NoScrambleFlag), cu(packet.ScrambleEvenKeyFlag), cu(packet.ScrambleOddKeyFlag)), VB(packet.TestPatPacket[:]), VB(packet.TestPmtPacket[:]))
	})
	register("const.psi", func(a []Val) Val {
		return VL(VL(cu(psi.PatPid), cu(psi.PidNotFound), cu(psi.PSIHeaderLen), cu(psi.CrcLen)),
			VL(cu(psi.VIDEO_STREAM), cu(psi.AUDIO_STREAM), cu(psi.REGISTRATION), cu(psi.CONDITIONAL_ACCESS), cu(psi.LANGUAGE), cu(psi.SYSTEM_CLOCK), cu(psi.DOLBY_DIGITAL), cu(psi.COPYRIGHT), cu(psi.MAXIMUM_BITRATE), cu(psi.AVC_VIDEO), cu(psi.STREAM_IDENTIFIER), cu(psi.EXTENSION), cu(psi.SCTE_ADAPTATION), cu(psi.DOLBY_VISION), cu(psi.EBP), cu(psi.EC3), cu(psi.AUDIO_UNDEFINED), cu(psi.AUDIO_CLEAN_EFFECTS), cu(psi.AUDIO_HEARING_IMPAIRED), cu(psi.AUDIO_DESCRIPTION), cu(psi.AUDIO_PRIMARY), cu(psi.AUDIO_NATIVE), cu(psi.TTML_DESC_TAG_EXTENSION), cu(psi.TTML_PURPOSE_SAME_LANG_DIALOGUE), cu(psi.TTML_PURPOSE_OTHER_LANG_DIALOGUE), cu(psi.TTML_PURPOSE_ALL_DIALOGUE), cu(psi.TTML_PURPOSE_HARD_OF_HEARING), cu(psi.TTML_PURPOSE_OTHER_LANG_DIALOGUE_WITH_HARD_OF_HEARING), cu(psi.TTML_PURPOSE_ALL_DIALOGUE_WITH_HARD_OF_HEARING), cu(psi.TTML_PURPOSE_AUDIO_DESCRIPTION), cu(psi.TTML_PURPOSE_CONTENT_RELATED_COMMENTARY), cu(psi.BitsPerByte), cu(psi.MaxBitRateBytesPerSecond)),
			VL(cu(psi.PmtStreamTypeMpeg2VideoH262), cu(psi.PmtStreamTypeMpeg4Video), cu(psi.PmtStreamTypeMpeg4VideoH264), cu(psi.PmtStreamTypeMpeg4VideoH265), cu(psi.PmtStreamTypeAac), cu(psi.PmtStreamTypeAc3), cu(psi.PmtStreamTypeEc3), cu(psi.PmtStreamTypeScte35), cu(psi.PmtStreamTypeID3), cu(psi.PmtStreamTypePrivateContent)))
	})
	register("const.pes", func(a []Val) Val {
		return VL(cu(pes.STREAM_ID_ALL_AUDIO_STREAMS), cu(pes.STREAM_ID_ALL_VIDEO_STREAMS), cu(pes.STREAM_ID_PROGRAM_STREAM_MAP), cu(pes.STREAM_ID_PRIVATE_STREAM_1), cu(pes.STREAM_ID_PADDNG_STREAM), cu(pes.STREAM_ID_PRIVATE_STREAM_2), cu(pes.STREAM_ID_ECM_STREAM), cu(pes.STREAM_ID_EMM_STREAM), cu(pes.STREAM_ID_DSM_CC_STREAM), cu(pes.STREAM_ID_ISO_IEC_13552_STREAM), cu(pes.STREAM_ID_ITU_T_H222_1_TYPE_A), cu(pes.STREAM_ID_ITU_T_H222_1_TYPE_B), cu(pes.STREAM_ID_ITU_T_H222_1_TYPE_C), cu(pes.STREAM_ID_ITU_T_H222_1_TYPE_D), cu(pes.STREAM_ID_ITU_T_H222_1_TYPE_E), cu(pes.STREAM_ID_ANCILLARY_STREAM), cu(pes.STREAM_ID_MPEG_4_SL_PACKETIZED_STREAM), cu(pes.STREAM_ID_MPEG_4_FLEXMUX_STREAM), cu(pes.STREAM_ID_METADATA_STREAM), cu(pes.STREAM_ID_EXTENDED_STREAM_ID), cu(pes.STREAM_ID_RESERVED), cu(pes.STREAM_ID_PROGRAM_STREAM_DIRECTORY))
	})
	register("const.ebp", func(a []Val) Val {
		return VL(cu(ebp.ComcastEbpTag), cu(ebp.CableLabsEbpTag), cu(ebp.CableLabsFormatIdentifier), cu(ebp.InvalidStreamSyncSignal), cu(ebp.StreamNotSynchronized), cu(ebp.StreamSynchronized))
	})
	register("const.scte35", func(a []Val) Val {
		return VL(VL(cu(scte35.SpliceNull), cu(scte35.SpliceSchedule), cu(scte35.SpliceInsert), cu(scte35.TimeSignal), cu(scte35.BandwidthReservation), cu(scte35.PrivateCommand)),
			VL(cu(scte35.RestrictGroup0), cu(scte35.RestrictGroup1), cu(scte35.RestrictGroup2), cu(scte35.RestrictNone)),
			VL(cu(scte35.SegDescNotIndicated), cu(scte35.SegDescContentIdentification), cu(scte35.SegDescProgramStart), cu(scte35.SegDescProgramEnd), cu(scte35.SegDescProgramEarlyTermination), cu(scte35.SegDescProgramBreakaway), cu(scte35.SegDescProgramResumption), cu(scte35.SegDescProgramRunoverPlanned), cu(scte35.SegDescProgramRunoverUnplanned), cu(scte35.SegDescProgramOverlapStart), cu(scte35.SegDescProgramBlackoutOverride), cu(scte35.SegDescProgramStartInProgress), cu(scte35.SegDescChapterStart), cu(scte35.SegDescChapterEnd), cu(scte35.SegDescBreakStart), cu(scte35.SegDescBreakEnd), cu(scte35.SegDescOpeningCreditStart), cu(scte35.SegDescOpeningCreditEnd), cu(scte35.SegDescClosingCreditStart), cu(scte35.SegDescClosingCreditEnd), cu(scte35.SegDescProviderAdvertisementStart), cu(scte35.SegDescProviderAdvertisementEnd), cu(scte35.SegDescDistributorAdvertisementStart), cu(scte35.SegDescDistributorAdvertisementEnd), cu(scte35.SegDescProviderPOStart), cu(scte35.SegDescProviderPOEnd), cu(scte35.SegDescDistributorPOStart), cu(scte35.SegDescDistributorPOEnd), cu(scte35.SegDescProviderPromoStart), cu(scte35.SegDescProviderPromoEnd), cu(scte35.SegDescUnscheduledEventStart), cu(scte35.SegDescUnscheduledEventEnd), cu(scte35.SegDescAlternateContentOpportunityStart), cu(scte35.SegDescAlternateContentOpportunityEnd), cu(scte35.SegDescProviderAdBlockStart), cu(scte35.SegDescProviderAdBlockEnd), cu(scte35.SegDescNetworkStart), cu(scte35.SegDescNetworkEnd)),
			VL(cu(scte35.SegUPIDNotUsed), cu(scte35.SegUPIDUserDefined), cu(scte35.SegUPIDISCI), cu(scte35.SegUPIDAdID), cu(scte35.SegUPIDUMID), cu(scte35.SegUPIDISAN), cu(scte35.SegUPIDVISAN), cu(scte35.SegUPIDTID), cu(scte35.SegUPIDTI), cu(scte35.SegUPIDADI), cu(scte35.SegUPIDEIDR), cu(scte35.SegUPIDATSCID), cu(scte35.SegUPIDMPU), cu(scte35.SegUPIDMID), cu(scte35.SegUPADSINFO), cu(scte35.SegUPIDURN)))
	})
	register("const.scte35.names", func(a []Val) Val {
		return VL(sortedKeys(scte35.SpliceCommandTypeNames), sortedKeys(scte35.DeviceRestrictionsNames),
			sortedKeys(scte35.SegDescTypeNames), sortedKeys(scte35.SegUPIDTypeNames))
	})
}

// the exported error values in source order of errors.go
var covErrors = []error{
	gots.ErrBadSyncByte,
	gots.ErrUnrecognizedEbpType,
	gots.ErrNoEBP,
	gots.ErrNoEBPData,
	gots.ErrInvalidEBPLength,
	gots.ErrInvalidPacketLength,
	gots.ErrInvalidTSCFlag,
	gots.ErrInvalidAFCFlag,
	gots.ErrNoPayload,
	gots.ErrNoAdaptationField,
	gots.ErrAdaptationFieldTooLarge,
	gots.ErrAdaptationFieldCannotGrow,
	gots.ErrAdaptationFieldZeroLength,
	gots.ErrNoPrivateTransportData,
	gots.ErrNoSplicePoint,
	gots.ErrNoPCR,
	gots.ErrNoOPCR,
	gots.ErrNoAdaptationFieldExtension,
	gots.ErrPATNotFound,
	gots.ErrPMTNotFound,
	gots.ErrPMTParse,
	gots.ErrParsePMTDescriptor,
	gots.ErrInvalidPATLength,
	gots.ErrNoPayloadUnitStartIndicator,
	gots.ErrUnknownTableID,
	gots.ErrShortPayload,
	gots.ErrInvalidSCTE35Length,
	gots.ErrSCTE35EncryptionUnsupported,
	gots.ErrSCTE35UnsupportedSpliceCommand,
	gots.ErrSCTE35InvalidDescriptorID,
	gots.ErrSCTE35DuplicateDescriptor,
	gots.ErrSCTE35InvalidDescriptor,
	gots.ErrSCTE35MissingOut,
	gots.ErrSCTE35DescriptorNotFound,
	gots.ErrNilPAT,
	gots.ErrSyncByteNotFound,
	gots.ErrVSSSignalIdNotFound,
	gots.ErrPIDNotInPMT,
	gots.ErrAccumulatorDone,
	gots.ErrAccumulatorInvalidState,
}
