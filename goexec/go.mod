module verif/goexec

go 1.18

require github.com/Comcast/gots/v2 v2.0.0

replace github.com/Comcast/gots/v2 => /repo
