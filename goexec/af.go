package main

// C03: af.hist runs a whole edit history of adaptation-field setters on the REAL code and reports,
// after every call, the error, the 188 bytes and every getter of both APIs.

import (
	"bytes"

	"github.com/Comcast/gots/v2/packet"
	"github.com/Comcast/gots/v2/packet/adaptationfield"
)

func afGuard(f func() Val) (r Val) {
	defer func() {
		if e := recover(); e != nil {
			r = VPanic()
		}
	}()
	return f()
}

func resBool(b bool, err error) Val {
	if err != nil {
		return VErr(errCode(err))
	}
	return VOk(VBool(b))
}
func resBytes(b []byte, err error) Val {
	if err != nil {
		return VErr(errCode(err))
	}
	return VOk(VB(b))
}

func afGetters(p *packet.Packet) Val {
	before := *p
	af := (*packet.AdaptationField)(p)
	g := func(f func() Val) Val { return afGuard(f) }
	l := []Val{
		g(func() Val { return VI(int64(af.Length())) }),
		g(func() Val { return resBool(af.Discontinuity()) }),
		g(func() Val { return resBool(af.RandomAccess()) }),
		g(func() Val { return resBool(af.ElementaryStreamPriority()) }),
		g(func() Val { return resBool(af.HasPCR()) }),
		g(func() Val {
			v, err := af.PCR()
			if err != nil {
				return VErr(errCode(err))
			}
			return VOk(VU(v))
		}),
		g(func() Val { return resBool(af.HasOPCR()) }),
		g(func() Val {
			v, err := af.OPCR()
			if err != nil {
				return VErr(errCode(err))
			}
			return VOk(VU(v))
		}),
		g(func() Val { return resBool(af.HasSplicingPoint()) }),
		g(func() Val {
			v, err := af.SpliceCountdown()
			if err != nil {
				return VErr(errCode(err))
			}
			return VOk(VI(int64(v)))
		}),
		g(func() Val { return resBool(af.HasTransportPrivateData()) }),
		g(func() Val { return resBytes(af.TransportPrivateData()) }),
		g(func() Val { return resBool(af.HasAdaptationFieldExtension()) }),
		g(func() Val { return resBytes(af.AdaptationFieldExtension()) }),
		g(func() Val { return VI(int64(adaptationfield.Length(p))) }),
		g(func() Val { return VBool(adaptationfield.IsDiscontinuous(p)) }),
		g(func() Val { return VBool(adaptationfield.IsRandomAccess(p)) }),
		g(func() Val { return VBool(adaptationfield.IsESHigherPriority(p)) }),
		g(func() Val { return VBool(adaptationfield.HasPCR(p)) }),
		g(func() Val { return VBool(adaptationfield.HasOPCR(p)) }),
		g(func() Val { return VBool(adaptationfield.HasSplicingPoint(p)) }),
		g(func() Val { return VBool(adaptationfield.HasTransportPrivateData(p)) }),
		g(func() Val { return VBool(adaptationfield.HasAdaptationFieldExtension(p)) }),
		g(func() Val { return resBytes(adaptationfield.PCR(p)) }),
		g(func() Val { return resBytes(adaptationfield.OPCR(p)) }),
		g(func() Val {
			v, err := adaptationfield.SpliceCountdown(p)
			if err != nil {
				return VErr(errCode(err))
			}
			return VOk(VI(int64(v)))
		}),
		g(func() Val { return resBytes(adaptationfield.TransportPrivateData(p)) }),
		g(func() Val { return resBytes(adaptationfield.EncoderBoundaryPoint(p)) }),
	}
	l = append(l, VBool(before != *p))
	return VL(l...)
}

// set when a setter wrote into its argument (data slice or source packet): an input must stay untouched
var argWritten bool

// one setter call; returns the error and whether it panicked
func afApply(p *packet.Packet, op Val) (err error, panicked bool, bad bool) {
	defer func() {
		if e := recover(); e != nil {
			panicked = true
		}
	}()
	if op.K != 2 || len(op.L) != 2 || op.L[0].K != 0 {
		return nil, false, true
	}
	af := (*packet.AdaptationField)(p)
	code := op.L[0].Int()
	arg := op.L[1]
	if (code <= 10 || code == 14) && arg.K != 0 || code > 10 && code != 14 && arg.K != 1 {
		return nil, false, true
	}
	flag := func() bool { return arg.I.Sign() != 0 }
	switch code {
	case 0:
		err = af.SetDiscontinuity(flag())
	case 1:
		err = af.SetRandomAccess(flag())
	case 2:
		err = af.SetElementaryStreamPriority(flag())
	case 3:
		err = af.SetHasPCR(flag())
	case 4:
		err = af.SetHasOPCR(flag())
	case 5:
		err = af.SetHasSplicingPoint(flag())
	case 6:
		err = af.SetHasTransportPrivateData(flag())
	case 7:
		err = af.SetHasAdaptationFieldExtension(flag())
	case 8:
		err = af.SetPCR(arg.U())
	case 9:
		err = af.SetOPCR(arg.U())
	case 10:
		err = af.SetSpliceCountdown(byte(arg.U()))
	case 11:
		d := append([]byte{}, arg.B...)
		if len(d) == 0 && nilArgs {
			d = nil // zero-length data as a nil slice on every second run of the history (see af.hist)
		}
		err = af.SetTransportPrivateData(d)
		argWritten = argWritten || !bytes.Equal(d, arg.B)
	case 12:
		d := append([]byte{}, arg.B...)
		if len(d) == 0 && nilArgs {
			d = nil
		}
		err = af.SetAdaptationFieldExtension(d)
		argWritten = argWritten || !bytes.Equal(d, arg.B)
	case 13:
		if len(arg.B) != 188 {
			return nil, false, true
		}
		var src packet.Packet
		copy(src[:], arg.B)
		err = p.SetAdaptationField((*packet.AdaptationField)(&src))
		argWritten = argWritten || !bytes.Equal(src[:], arg.B)
	case 14: // the packet itself as the source: exercises the aliasing of copy()
		err = p.SetAdaptationField((*packet.AdaptationField)(p))
	default:
		return nil, false, true
	}
	return err, false, false
}

func init() {
	var afHistOnce func(a []Val) Val
	register("af.hist", func(a []Val) Val {
		// the history is run twice: with zero-length data arguments as empty non-nil slices, and as nil slices
		nilArgs = false
		r1 := afHistOnce(a)
		nilArgs = true
		r2 := afHistOnce(a)
		nilArgs = false
		if !valEq(r1, r2) {
			noteUnstable("af.hist: nil and empty non-nil data arguments behave differently")
		}
		return r1
	})
	afHistOnce = func(a []Val) Val {
		if len(a) != 2 || a[0].K != 1 || a[1].K != 2 || len(a[0].B) != 188 {
			return VBad()
		}
		var p packet.Packet
		copy(p[:], a[0].B)
		out := []Val{afGetters(&p)}
		for _, op := range a[1].L {
			err, panicked, bad := afApply(&p, op)
			if bad {
				out = append(out, VBad())
				break
			}
			if panicked {
				out = append(out, VL(VL(VI(2))))
				break
			}
			st := VL(VI(0))
			if err != nil {
				st = VL(VI(1), VI(int64(errCode(err))))
			}
			if argWritten { // never produced by the model
				st = VL(VI(7))
				argWritten = false
			}
			out = append(out, VL(st, VB(p[:]), afGetters(&p)))
		}
		return VL(out...)
	}
}

var nilArgs bool
