From Coq Require Import NArith ZArith List Bool Lia ZifyN ZifyNat ZifyBool.
Import ListNotations.
Open Scope N_scope.
Ltac Zify.zify_post_hook ::= Z.div_mod_to_equations.

Lemma lor_shiftl_add a b k : b < 2^k -> N.lor (N.shiftl a k) b = a * 2^k + b.
Proof. intros H. rewrite <- N.shiftl_mul_pow2. rewrite <- N.lxor_lor, <- N.add_nocarry_lxor; try reflexivity;
  apply N.bits_inj; intro n; rewrite N.land_spec, N.bits_0;
  (destruct (N.lt_ge_cases n k) as [Hn|Hn];
   [rewrite N.shiftl_spec_low by assumption; reflexivity|
    replace (N.testbit b n) with false; [apply andb_false_r|];
    symmetry; destruct (N.eq_dec b 0) as [->|Hb]; [apply N.bits_0|];
    apply N.bits_above_log2; apply N.log2_lt_pow2; [lia|];
    eapply N.lt_le_trans; [exact H|]; apply N.pow_le_mono_r; lia]). Qed.

Lemma lor_mult_add a b k : a mod 2^k = 0 -> b < 2^k -> N.lor a b = a + b.
Proof. intros Ha Hb. assert (E: a = N.shiftl (a / 2^k) k).
  { rewrite N.shiftl_mul_pow2. pose proof (N.div_mod a (2^k)) as D.
    assert (2^k <> 0) by (apply N.pow_nonzero; lia). specialize (D H). rewrite Ha in D. lia. }
  rewrite E at 1. rewrite lor_shiftl_add by assumption. rewrite <- N.shiftl_mul_pow2, <- E. reflexivity. Qed.

Definition w8 x := x mod 256.
Definition w64 x := x mod 18446744073709551616.
(* pcr.go *)
Definition insert_pcr (pcr : N) : list N :=
  let base := pcr / 300 in
  let ext := N.land (pcr - base * 300) 511 in
  [ w8 (N.shiftr base 25); w8 (N.shiftr base 17); w8 (N.shiftr base 9); w8 (N.shiftr base 1);
    w8 (N.lor (N.lor (w64 (N.shiftl base 7)) (N.shiftr ext 8)) 126); w8 (N.land ext 255) ].
Definition extract_pcr (b : list N) : N :=
  match b with
  | [a; b; c; d; e; f] =>
    let base := N.lor (N.lor (N.lor (N.lor (N.shiftl a 25) (N.shiftl b 17)) (N.shiftl c 9)) (N.shiftl d 1)) (N.shiftr e 7) in
    let ext := N.lor (N.shiftl (N.land e 1) 8) f in
    base * 300 + ext
  | _ => 0 end.

(* byte 4 = base[0] | 111111 | ext[8] : proved by a finite sweep over (base mod 2, ext >> 8) *)
Lemma byte4 base ext : ext < 512 ->
  w8 (N.lor (N.lor (w64 (N.shiftl base 7)) (N.shiftr ext 8)) 126) = (base mod 2) * 128 + 126 + ext / 256.
Proof. intros He. unfold w8.
  replace (N.lor (N.lor (w64 (N.shiftl base 7)) (N.shiftr ext 8)) 126 mod 256)
    with (N.land (N.lor (N.lor (w64 (N.shiftl base 7)) (N.shiftr ext 8)) 126) (N.ones 8))
    by (rewrite N.land_ones; reflexivity).
  rewrite !N.land_lor_distr_l, !N.land_ones. unfold w64.
  rewrite N.shiftl_mul_pow2, N.shiftr_div_pow2. change (2^7) with 128. change (2^8) with 256.
  assert (E1: (base * 128) mod 18446744073709551616 mod 256 = (base mod 2) * 128) by lia.
  assert (E2: (ext / 256) mod 256 = ext / 256) by lia.
  rewrite E1, E2. change (126 mod 256) with 126.
  assert (Hb: base mod 2 < 2) by lia. assert (Hx: ext / 256 < 2) by lia.
  destruct (N.eq_dec (base mod 2) 0) as [->|?], (N.eq_dec (ext / 256) 0) as [->|?];
    try (replace (base mod 2) with 1 by lia); try (replace (ext / 256) with 1 by lia); reflexivity. Qed.

Lemma land255 x : N.land x 255 = x mod 256. Proof. change 255 with (N.ones 8). apply N.land_ones. Qed.
Lemma land1 x : N.land x 1 = x mod 2. Proof. change 1 with (N.ones 1). apply N.land_ones. Qed.

Theorem pcr_roundtrip pcr : pcr < 8589934592 * 300 -> extract_pcr (insert_pcr pcr) = pcr.
Proof. intros H. unfold insert_pcr, extract_pcr.
  set (base := pcr / 300). assert (Hb: base < 8589934592) by (unfold base; lia).
  assert (Hext: pcr - base * 300 < 300) by (unfold base; lia).
  assert (Eext: N.land (pcr - base * 300) 511 = pcr - base * 300).
  { change 511 with (N.ones 9). rewrite N.land_ones. change (2^9) with 512. apply N.mod_small. lia. }
  rewrite Eext. set (ext := pcr - base * 300) in *.
  rewrite byte4 by lia.
  unfold w8. rewrite !N.shiftr_div_pow2. change (2^25) with 33554432. change (2^17) with 131072. change (2^9) with 512. change (2^1) with 2. change (2^7) with 128.
  rewrite land255, land1.
  rewrite !N.shiftl_mul_pow2. change (2^25) with 33554432. change (2^17) with 131072. change (2^9) with 512. change (2^1) with 2. change (2^8) with 256.
  set (a := (base / 33554432) mod 256). set (b := (base / 131072) mod 256). set (c := (base / 512) mod 256). set (d := (base / 2) mod 256).
  set (e := base mod 2 * 128 + 126 + ext / 256).
  assert (Ha: a < 256) by (unfold a; lia). assert (Hbb: b < 256) by (unfold b; lia).
  assert (Hc: c < 256) by (unfold c; lia). assert (Hd: d < 256) by (unfold d; lia).
  assert (He7: e / 128 = base mod 2) by (unfold e; lia).
  assert (He1: e mod 2 = ext / 256) by (unfold e; lia).
  rewrite (lor_mult_add (a * 33554432) (b * 131072) 25) by (change (2^25) with 33554432; lia).
  rewrite (lor_mult_add (a * 33554432 + b * 131072) (c * 512) 17) by (change (2^17) with 131072; lia).
  rewrite (lor_mult_add (a * 33554432 + b * 131072 + c * 512) (d * 2) 9) by (change (2^9) with 512; lia).
  rewrite (lor_mult_add (a * 33554432 + b * 131072 + c * 512 + d * 2) (e / 128) 1) by (change (2^1) with 2; lia).
  rewrite N.mod_mod by lia.
  rewrite (lor_mult_add (e mod 2 * 256) (ext mod 256) 8) by (change (2^8) with 256; lia).
  rewrite He7, He1. unfold a, b, c, d. lia.
Qed.
Print Assumptions pcr_roundtrip.
