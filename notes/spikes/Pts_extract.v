From Coq Require Import NArith Bool Lia ZifyN ZifyBool.
Open Scope N_scope.
Definition w64 (x : N) : N := x mod 18446744073709551616.
Definition MaxPtsValue : N := 8589934591.
Definition MaxPtsTicks : N := 8589934592.
Definition NegInf : N := 18446744073709551614.
Definition PosInf : N := 18446744073709551615.
Definition Upper : N := 8427934591.
Definition Lower : N := 162000000.
Definition rolled_over (p other : N) : bool :=
  if (other =? NegInf) || (other =? PosInf) then false
  else (p <? Lower) && (Upper <? other).
Definition after (p other : N) : bool :=
  if other =? PosInf then false else
  if other =? NegInf then true else
  if rolled_over p other then true else
  if rolled_over other p then false else other <? p.
Definition add (p x : N) : N := N.land (w64 (p + x)) MaxPtsValue.
Definition duration_from (p from : N) : N :=
  if rolled_over p from then w64 (w64 (MaxPtsTicks + 18446744073709551616 - from) + p) else
  if rolled_over from p then w64 (w64 (MaxPtsTicks + 18446744073709551616 - p) + from) else
  if p <? from then from - p else p - from.

Lemma land_max x : N.land x MaxPtsValue = x mod 8589934592.
Proof. change MaxPtsValue with (N.ones 33). rewrite N.land_ones. reflexivity. Qed.

Theorem add_mod p d : p < 8589934592 -> d <= Lower -> add p d = (p + d) mod 8589934592.
Proof. intros Hp Hd. unfold add, w64, Lower in *. rewrite land_max.
  rewrite (N.mod_small (p+d)) by lia. reflexivity. Qed.

Lemma ro33 p q : q < 8589934592 -> rolled_over p q = (p <? Lower) && (Upper <? q).
Proof. intros H. unfold rolled_over, NegInf, PosInf.
  assert (E1: (q =? 18446744073709551614) = false) by (apply N.eqb_neq; lia).
  assert (E2: (q =? 18446744073709551615) = false) by (apply N.eqb_neq; lia).
  rewrite E1, E2. reflexivity. Qed.
Lemma after33 p q : p < 8589934592 -> q < 8589934592 ->
  after p q = if (p <? Lower) && (Upper <? q) then true else if (q <? Lower) && (Upper <? p) then false else q <? p.
Proof. intros Hp Hq. unfold after. rewrite !ro33 by assumption. unfold NegInf, PosInf.
  assert (E1: (q =? 18446744073709551614) = false) by (apply N.eqb_neq; lia).
  assert (E2: (q =? 18446744073709551615) = false) by (apply N.eqb_neq; lia).
  rewrite E1, E2. reflexivity. Qed.
Theorem after_total p q : p < 8589934592 -> q < 8589934592 ->
  (after p q = true /\ after q p = false /\ p <> q) \/
  (after p q = false /\ after q p = true /\ p <> q) \/
  (after p q = false /\ after q p = false /\ p = q).
Proof. intros Hp Hq. rewrite (after33 p q), (after33 q p) by assumption. unfold Lower, Upper.
  destruct (N.ltb_spec p 162000000), (N.ltb_spec 8427934591 q), (N.ltb_spec q 162000000), (N.ltb_spec 8427934591 p); cbn [andb];
  destruct (N.ltb_spec q p), (N.ltb_spec p q); lia. Qed.
Print Assumptions after_total.

Require Extraction. Require Import ExtrOcamlBasic.
Extraction "../ml/model.ml" rolled_over after add duration_from.
