(* Design-phase spike for C13: the augmented bit-serial register of tsutils.go:ComputeCRC
   (initial value 0x46AF6449, 32 trailing zero bits) equals the textbook CRC-32/MPEG-2
   register (initial value 0xFFFFFFFF) on every bit string. *)
From Coq Require Import NArith List Lia Bool.
Import ListNotations.
Open Scope N_scope.

Definition mask : N := 4294967295.
Definition poly : N := 79764919.   (* 0x04C11DB7 *)
Definition msb (r : N) : bool := N.testbit r 31.

(* one inner-loop iteration of ComputeCRC *)
Definition astep (r : N) (b : bool) : N :=
  let r' := N.lor (N.land (N.shiftl r 1) mask) (N.b2n b) in
  if msb r then N.lxor r' poly else r'.
(* textbook step *)
Definition dstep (r : N) (b : bool) : N :=
  let r' := N.land (N.shiftl r 1) mask in
  if xorb (msb r) b then N.lxor r' poly else r'.
Definition a0 (r : N) := astep r false.

Lemma land_lxor_distr_l a b c : N.land (N.lxor a b) c = N.lxor (N.land a c) (N.land b c).
Proof. apply N.bits_inj; intro n. rewrite !N.land_spec, !N.lxor_spec, !N.land_spec.
  destruct (N.testbit a n), (N.testbit b n), (N.testbit c n); reflexivity. Qed.

Lemma a0_lin r s : a0 (N.lxor r s) = N.lxor (a0 r) (a0 s).
Proof.
  unfold a0, astep, msb. cbn [N.b2n]. rewrite !N.lor_0_r.
  rewrite N.shiftl_lxor, land_lxor_distr_l, N.lxor_spec.
  destruct (N.testbit r 31), (N.testbit s 31); cbn [xorb].
  - rewrite N.lxor_assoc, (N.lxor_comm poly), <- !N.lxor_assoc.
    rewrite (N.lxor_assoc _ poly poly), N.lxor_nilpotent, N.lxor_0_r. reflexivity.
  - rewrite !N.lxor_assoc. f_equal. apply N.lxor_comm.
  - rewrite !N.lxor_assoc. reflexivity.
  - reflexivity.
Qed.

Fixpoint iter (n : nat) (f : N -> N) (x : N) := match n with O => x | S k => iter k f (f x) end.
Definition z32 := iter 32 a0.

Lemma iter_lin n : forall r s, iter n a0 (N.lxor r s) = N.lxor (iter n a0 r) (iter n a0 s).
Proof. induction n as [|n IH]; intros; cbn [iter]; [reflexivity|]. rewrite a0_lin. apply IH. Qed.
Lemma iter_comm n f x : iter n f (f x) = f (iter n f x).
Proof. revert x; induction n as [|n IH]; intros; cbn [iter]; [reflexivity|]. apply IH. Qed.

(* the low bit of the shifted register is clear, so OR-ing the message bit is XOR-ing it *)
Lemma shl_low_clear r : N.testbit (N.land (N.shiftl r 1) mask) 0 = false.
Proof. rewrite N.land_spec, N.shiftl_spec_low by lia. reflexivity. Qed.
Lemma lor_bit x b : N.testbit x 0 = false -> N.lor x (N.b2n b) = N.lxor x (N.b2n b).
Proof. intros H. symmetry. apply N.lxor_lor. apply N.bits_inj; intro n.
  rewrite N.land_spec, N.bits_0. destruct b; cbn [N.b2n].
  - destruct (N.eq_dec n 0) as [->|Hn]; [rewrite H; reflexivity|].
    replace (N.testbit 1 n) with false; [apply andb_false_r|].
    symmetry. apply (N.bits_above_log2 1 n). cbn. lia.
  - rewrite N.bits_0. apply andb_false_r. Qed.

Lemma astep_split r b : astep r b = N.lxor (a0 r) (N.b2n b).
Proof. unfold a0, astep. cbn [N.b2n]. rewrite N.lor_0_r, (lor_bit _ b (shl_low_clear r)).
  destruct (msb r); [|reflexivity].
  rewrite !N.lxor_assoc. f_equal. apply N.lxor_comm. Qed.

Lemma z32_one : z32 1 = poly. Proof. vm_compute. reflexivity. Qed.
Lemma z32_zero : z32 0 = 0. Proof. vm_compute. reflexivity. Qed.

Lemma dstep_a0 s b : dstep s b = N.lxor (a0 s) (if b then poly else 0).
Proof. unfold dstep, a0, astep. cbn [N.b2n]. rewrite N.lor_0_r.
  destruct (msb s), b; cbn [xorb]; rewrite ?N.lxor_0_r; try reflexivity.
  rewrite N.lxor_assoc, N.lxor_nilpotent, N.lxor_0_r. reflexivity. Qed.

(* the crux: 32 zero-steps of the augmented register turn an augmented step into a textbook step *)
Lemma commute r b : z32 (astep r b) = dstep (z32 r) b.
Proof. rewrite astep_split. unfold z32. rewrite iter_lin, iter_comm, dstep_a0.
  f_equal. destruct b; cbn [N.b2n]; [apply z32_one | apply z32_zero]. Qed.

Definition afold (r : N) (bits : list bool) := fold_left astep bits r.
Definition dfold (r : N) (bits : list bool) := fold_left dstep bits r.

(* stated for an abstract Z so that the kernel never unfolds the 32-fold iterate on a variable
   (doing so made Qed diverge in the first version of this spike) *)
Section Simulation.
  Variable Z : N -> N.
  Hypothesis Zc : forall r b, Z (astep r b) = dstep (Z r) b.
  Lemma simulation bits : forall r, Z (fold_left astep bits r) = fold_left dstep bits (Z r).
  Proof. induction bits as [|b bits IH]; intro r; [reflexivity|].
    cbn [fold_left]. rewrite IH, Zc. reflexivity. Qed.
End Simulation.

Theorem augmented_is_textbook bits r : z32 (afold r bits) = dfold (z32 r) bits.
Proof. exact (simulation z32 commute bits r). Qed.

Lemma init_ok : z32 1185899593 = mask.   (* 0x46AF6449 |-> 0xFFFFFFFF *)
Proof. vm_compute. reflexivity. Qed.

Corollary compute_crc_register bits : z32 (afold 1185899593 bits) = dfold mask bits.
Proof. rewrite augmented_is_textbook, init_ok. reflexivity. Qed.
Print Assumptions compute_crc_register.
