From Coq Require Import NArith ZArith List Bool Lia ZifyN ZifyNat ZifyBool.
Import ListNotations.
Open Scope N_scope.

(* ---- packets ---- *)
Definition byte_ok (b : N) := b < 256.
Definition is_pkt (p : list N) := length p = 188%nat /\ Forall byte_ok p.
Definition get (p : list N) (i : nat) : N := nth i p 0.
Fixpoint upd (p : list N) (i : nat) (v : N) : list N :=
  match p, i with [], _ => [] | _ :: t, O => v :: t | h :: t, S k => h :: upd t k v end.
Lemma upd_same p i v : (i < length p)%nat -> get (upd p i v) i = v.
Proof. revert i; induction p as [|h t IH]; intros [|i] H; cbn in *; try lia; try reflexivity. apply IH; lia. Qed.
Lemma upd_other p i j v : i <> j -> get (upd p i v) j = get p j.
Proof. revert i j; induction p as [|h t IH]; intros [|i] [|j] H; cbn; try reflexivity; try lia. apply IH; lia. Qed.
Lemma upd_length p i v : length (upd p i v) = length p.
Proof. revert i; induction p as [|h t IH]; intros [|i]; cbn; auto. Qed.
Lemma get_byte p i : Forall byte_ok p -> byte_ok (get p i).
Proof. intros H. unfold get. destruct (nth_in_or_default i p 0) as [Hin| ->]; [|unfold byte_ok; lia].
  rewrite Forall_forall in H. auto. Qed.

(* ---- model of modify.go: SetPID / PID, packet.go: Pid ---- *)
Definition w8 x := x mod 256.
Definition set_pid (p : list N) (pid : N) : list N :=
  let b1 := get p 1 in
  let p1 := upd p 1 (N.lor (N.land b1 (N.lxor 255 31)) (N.land (w8 (N.shiftr pid 8)) 31)) in
  upd p1 2 (w8 pid).
Definition pid_m (p : list N) : N := N.lor (N.shiftl (N.land (get p 1) 31) 8) (get p 2).
Definition pusi (p : list N) : bool := negb (N.land (get p 1) 64 =? 0).

(* ---- finite sweep: all 256 prior bytes x all 8192 pids, split as 32 high x 256 low ---- *)
Fixpoint nrange (fuel : nat) (s : N) : list N := match fuel with O => [] | S f => s :: nrange f (N.succ s) end.
Lemma nrange_in fuel s x : s <= x < s + N.of_nat fuel -> In x (nrange fuel s).
Proof. revert s; induction fuel as [|f IH]; intros s H; cbn; [lia|].
  destruct (N.eq_dec s x); [left; assumption|right; apply IH; lia]. Qed.

Definition byte1_ok (b1 hi : N) : bool :=
  let b1' := N.lor (N.land b1 (N.lxor 255 31)) (N.land hi 31) in
  (N.land b1' 31 =? hi) && (N.land b1' 224 =? N.land b1 224) && (b1' <? 256).
Definition sweep := forallb (fun b1 => forallb (byte1_ok b1) (nrange 32 0)) (nrange 256 0).
Lemma sweep_ok : sweep = true. Proof. vm_compute. reflexivity. Qed.
Lemma byte1_fact b1 hi : b1 < 256 -> hi < 32 -> byte1_ok b1 hi = true.
Proof. intros H1 H2. pose proof sweep_ok as S. unfold sweep in S. rewrite forallb_forall in S.
  specialize (S b1 (nrange_in 256 0 b1 ltac:(lia))). rewrite forallb_forall in S.
  exact (S hi (nrange_in 32 0 hi ltac:(lia))). Qed.

Ltac Zify.zify_post_hook ::= Z.div_mod_to_equations.
Lemma hi_lo pid : pid < 8192 -> N.shiftl (N.shiftr pid 8) 8 + pid mod 256 = pid /\ N.shiftr pid 8 < 32.
Proof. intros H. rewrite N.shiftl_mul_pow2, N.shiftr_div_pow2. change (2^8) with 256. lia. Qed.

Theorem set_pid_get p v : is_pkt p -> v < 8192 -> pid_m (set_pid p v) = v.
Proof. intros [L F] Hv. unfold pid_m, set_pid.
  rewrite (upd_other _ 2 1) by lia. rewrite upd_same by (rewrite ?upd_length; lia).
  rewrite upd_same by (rewrite upd_length; lia).
  destruct (hi_lo v Hv) as [E Hhi]. unfold w8. rewrite (N.mod_small (N.shiftr v 8)) by lia.
  pose proof (byte1_fact (get p 1) (N.shiftr v 8) (get_byte p 1 F) Hhi) as B.
  unfold byte1_ok in B. apply andb_prop in B as [B _]. apply andb_prop in B as [B _].
  apply N.eqb_eq in B. rewrite B.
  rewrite <- N.lxor_lor, <- N.add_nocarry_lxor.
  - lia.
  - apply N.bits_inj; intro n. rewrite N.land_spec, N.bits_0.
    destruct (N.lt_ge_cases n 8) as [Hn|Hn].
    + rewrite N.shiftl_spec_low by assumption. reflexivity.
    + replace (N.testbit (v mod 256) n) with false; [apply andb_false_r|].
      symmetry. apply N.mod_pow2_bits_high with (n := 8). assumption.
  - apply N.bits_inj; intro n. rewrite N.land_spec, N.bits_0.
    destruct (N.lt_ge_cases n 8) as [Hn|Hn].
    + rewrite N.shiftl_spec_low by assumption. reflexivity.
    + replace (N.testbit (v mod 256) n) with false; [apply andb_false_r|].
      symmetry. apply N.mod_pow2_bits_high with (n := 8). assumption.
Qed.

Theorem set_pid_frame_bytes p v i : i <> 1%nat -> i <> 2%nat -> get (set_pid p v) i = get p i.
Proof. intros H1 H2. unfold set_pid. rewrite !upd_other by lia. reflexivity. Qed.

Theorem set_pid_frame_flags p v : is_pkt p -> v < 8192 ->
  N.land (get (set_pid p v) 1) 224 = N.land (get p 1) 224.
Proof. intros [L F] Hv. unfold set_pid. rewrite (upd_other _ 2 1) by lia. rewrite upd_same by lia.
  destruct (hi_lo v Hv) as [_ Hhi]. unfold w8. rewrite (N.mod_small (N.shiftr v 8)) by lia.
  pose proof (byte1_fact (get p 1) (N.shiftr v 8) (get_byte p 1 F) Hhi) as B.
  unfold byte1_ok in B. apply andb_prop in B as [B _]. apply andb_prop in B as [_ B].
  apply N.eqb_eq in B. exact B. Qed.
Print Assumptions set_pid_get.
