(* line protocol: "<op> <dec> <dec>" -> "<result>" *)
open Model
let rec pos_of_z z = if Z.equal z Z.one then XH else if Z.is_even z then XO (pos_of_z (Z.shift_right z 1)) else XI (pos_of_z (Z.shift_right z 1))
let pos_of_string_bits s = let z = Z.of_string s in if Z.equal z Z.zero then N0 else Npos (pos_of_z z)
let rec string_of_pos p = match p with
  | XH -> Z.one | XO q -> Z.mul (Z.of_int 2) (string_of_pos q) | XI q -> Z.succ (Z.mul (Z.of_int 2) (string_of_pos q))
let string_of_n = function N0 -> "0" | Npos p -> Z.to_string (string_of_pos p)
let () =
  try while true do
    let line = input_line stdin in
    (match String.split_on_char ' ' line with
     | [op; a; b] ->
       let a = pos_of_string_bits a and b = pos_of_string_bits b in
       let r = match op with
         | "after" -> if after a b then "true" else "false"
         | "ro" -> if rolled_over a b then "true" else "false"
         | "add" -> string_of_n (add0 a b)
         | "dur" -> string_of_n (duration_from a b)
         | _ -> "?" in
       print_string r; print_newline ()
     | _ -> print_endline "?")
  done with End_of_file -> ()
