From Coq Require Import ZArith Lia.
Open Scope Z_scope.
Ltac Zify.zify_post_hook ::= Z.div_mod_to_equations.

(* insertUtcTime / extractUtcTime on the sub-second part, after the clamp repair *)
Definition enc (n : Z) : Z := Z.min ((n + 1) * 4294967296 / 1000000000) 4294967295.
Definition dec (f : Z) : Z := f * 1000000000 / 4294967296.

Theorem frac_roundtrip n : 0 <= n < 1000000000 -> n <= dec (enc n) <= n + 1 /\ dec (enc n) < 1000000000.
Proof. intros H. unfold enc, dec. Time lia. Qed.

(* whole conversion: t in ns since 1900; E = 2^32 s *)
Definition E : Z := 4294967296 * 1000000000.
Definition w32 (x : Z) := x mod 4294967296.
Definition insert (t : Z) : Z * Z :=
  let nanos := if t <? E then t else t - E in
  (w32 (nanos / 1000000000), enc (nanos mod 1000000000)).
Definition extract (sf : Z * Z) : Z :=
  let '(s, f) := sf in
  let nanos := s * 1000000000 + dec f in
  if 2147483648 <=? s then nanos else E + nanos.

Theorem time_roundtrip t :
  2147483648 * 1000000000 <= t < (4294967296 + 2147483648) * 1000000000 ->
  t <= extract (insert t) <= t + 1.
Proof. intros H. unfold extract, insert, E, w32.
  pose proof (frac_roundtrip ((if t <? 4294967296 * 1000000000 then t else t - 4294967296 * 1000000000) mod 1000000000)) as F.
  destruct (Z.ltb_spec t (4294967296 * 1000000000)) as [Ht|Ht];
  match goal with |- context [dec (enc ?n)] => set (d := dec (enc n)) in * end;
  match goal with |- context [if ?c then _ else _] => destruct c eqn:Hc end; lia. Qed.
Print Assumptions time_roundtrip.
