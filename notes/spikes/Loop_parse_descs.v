From Coq Require Import NArith ZArith List Bool Lia ZifyN ZifyNat ZifyBool.
Import ListNotations.
Open Scope N_scope.
Ltac Zify.zify_post_hook ::= Z.div_mod_to_equations.

(* ---------- Res monad ---------- *)
Inductive res (A : Type) := Ok (a : A) | Err (e : nat) | Panic | Diverge.
Arguments Ok {A} a. Arguments Err {A} e. Arguments Panic {A}. Arguments Diverge {A}.
Definition bind {A B} (r : res A) (f : A -> res B) : res B :=
  match r with Ok a => f a | Err e => Err e | Panic => Panic | Diverge => Diverge end.
Notation "x <- r ;; k" := (bind r (fun x => k)) (at level 61, r at next level, right associativity).

Definition len (l : list N) : N := N.of_nat (length l).
Definition idx (l : list N) (i : N) : res N :=
  match nth_error l (N.to_nat i) with Some b => Ok b | None => Panic end.
Definition slice (l : list N) (i j : N) : res (list N) :=
  if (i <=? j) && (j <=? len l) then Ok (firstn (N.to_nat (j - i)) (skipn (N.to_nat i) l)) else Panic.
Definition w16 (x : N) := x mod 65536.

(* ---------- model: mirrors parsePMTSection's stream loop ---------- *)
Record es := { st : N; epid : N; descs : list (N * list N) }.

Fixpoint parse_descs (fuel : nat) (bs : list N) (offset il doff : N) (acc : list (N * list N)) : res (list (N * list N)) :=
  match fuel with O => Diverge | S f =>
  if doff <? il then
    tag <- idx bs (w16 (offset + doff)) ;;
    let doff := w16 (doff + 1) in
    dl <- idx bs (w16 (offset + doff)) ;;
    let doff := w16 (doff + 1) in
    let startp := w16 (offset + doff) in
    let endp := w16 (offset + doff + dl) in
    if endp <? len bs then
      data <- slice bs startp endp ;;
      parse_descs f bs offset il (w16 (doff + dl)) (acc ++ [(tag, data)])
    else Err 1
  else Ok acc end.

Fixpoint parse_streams (fuel : nat) (bs : list N) (offset bound : N) (acc : list es) : res (list es) :=
  match fuel with O => Diverge | S f =>
  if offset <? bound then
    t <- idx bs offset ;;
    b1 <- idx bs (offset + 1) ;; b2 <- idx bs (offset + 2) ;;
    b3 <- idx bs (offset + 3) ;; b4 <- idx bs (offset + 4) ;;
    let pid := N.lor (N.shiftl (N.land b1 31) 8) b2 in
    let il := N.lor (N.shiftl (N.land b3 15) 8) b4 in
    let offset := w16 (offset + 5) in
    if negb (il =? 0) && (w16 (il + offset) <? len bs) then
      ds <- parse_descs (length bs) bs offset il 0 [] ;;
      parse_streams f bs (w16 (offset + il)) bound (acc ++ [{| st := t; epid := pid; descs := ds |}])
    else parse_streams f bs offset bound (acc ++ [{| st := t; epid := pid; descs := [] |}])
  else Ok acc end.

(* ---------- spec: serialiser ---------- *)
Definition ser_desc (d : N * list N) : list N := fst d :: len (snd d) :: snd d.
Definition ser_descs (ds : list (N * list N)) : list N := flat_map ser_desc ds.
Definition ser_es (e : es) : list N :=
  let il := len (ser_descs (descs e)) in
  [st e; 224 + epid e / 256; epid e mod 256; 240 + il / 256; il mod 256] ++ ser_descs (descs e).
Definition ser_streams (l : list es) : list N := flat_map ser_es l.

Definition byte (b : N) := b < 256.
Definition wf_desc (d : N * list N) := byte (fst d) /\ len (snd d) < 256 /\ Forall byte (snd d).
Definition wf_es (e : es) := byte (st e) /\ epid e < 8192 /\ Forall wf_desc (descs e) /\ len (ser_descs (descs e)) < 1024.

(* ---------- list/index lemmas ---------- *)
Lemma len_app a b : len (a ++ b) = len a + len b.
Proof. unfold len. rewrite app_length. lia. Qed.
Lemma idx_app_r pre x post i : i = len pre -> idx (pre ++ x :: post) i = Ok x.
Proof. intros ->. unfold idx, len. rewrite Nat2N.id, nth_error_app2 by lia. rewrite Nat.sub_diag. reflexivity. Qed.
Lemma slice_mid pre mid post i j : i = len pre -> j = len pre + len mid ->
  slice (pre ++ mid ++ post) i j = Ok mid.
Proof. intros -> ->. unfold slice. rewrite !len_app.
  replace (len pre <=? len pre + len mid) with true by lia.
  replace (len pre + len mid <=? len pre + (len mid + len post)) with true by lia. cbn [andb]. f_equal.
  unfold len. rewrite Nat2N.id, skipn_app, skipn_all, Nat.sub_diag. cbn [skipn app].
  replace (N.to_nat (N.of_nat (length pre) + N.of_nat (length mid) - N.of_nat (length pre))) with (length mid + 0)%nat by lia.
  rewrite firstn_app_2. cbn. apply app_nil_r. Qed.

(* ---------- inner loop ---------- *)
Lemma len_cons x l : len (x :: l) = 1 + len l.
Proof. unfold len. cbn [length]. lia. Qed.
Lemma len_nil : len [] = 0. Proof. reflexivity. Qed.

Lemma parse_descs_ok : forall ds fuel pre done post acc,
  Forall wf_desc ds ->
  len (pre ++ done ++ ser_descs ds ++ post) < 65536 -> 0 < len post ->
  (length ds < fuel)%nat ->
  parse_descs fuel (pre ++ done ++ ser_descs ds ++ post) (len pre) (len done + len (ser_descs ds)) (len done) acc = Ok (acc ++ ds).
Proof.
  induction ds as [|[tag data] ds IH]; intros fuel pre done post acc Hwf Hlen Hpost Hfuel;
    (destruct fuel as [|fuel]; [cbn in Hfuel; lia|]); cbn [parse_descs].
  - cbn [ser_descs flat_map]. rewrite len_nil.
    replace (len done <? len done + 0) with false by lia.
    rewrite app_nil_r. reflexivity.
  - inversion Hwf as [|? ? [Ht [Hl Hd]] Hwf']; subst. cbn [fst snd] in *.
    cbn [ser_descs flat_map ser_desc fst snd] in *. fold (ser_descs ds) in *.
    cbn [app] in *.
    unfold ser_desc in *. cbn [fst snd app] in *. rewrite !len_app, !len_cons, !len_app in Hlen.
    set (BS := pre ++ done ++ tag :: len data :: (data ++ ser_descs ds) ++ post).
    rewrite !len_cons, !len_app.
    replace (len done <? len done + (1 + (1 + (len data + len (ser_descs ds))))) with true by lia.
    assert (LB: len BS = len pre + (len done + (2 + len data + len (ser_descs ds) + len post))).
    { unfold BS. rewrite !len_app, !len_cons, !len_app. lia. }
    assert (B1: idx BS (w16 (len pre + len done)) = Ok tag).
    { unfold BS, w16. rewrite N.mod_small by lia. rewrite app_assoc. apply idx_app_r. rewrite len_app. reflexivity. }
    rewrite B1. cbn [bind].
    assert (B2: idx BS (w16 (len pre + w16 (len done + 1))) = Ok (len data)).
    { unfold BS, w16. rewrite !N.mod_small by lia.
      replace (pre ++ done ++ tag :: len data :: (data ++ ser_descs ds) ++ post) with ((pre ++ done ++ [tag]) ++ len data :: (data ++ ser_descs ds) ++ post)
        by (rewrite <- !app_assoc; reflexivity).
      apply idx_app_r. rewrite !len_app, len_cons, len_nil. lia. }
    rewrite B2. cbn [bind].
    unfold w16. rewrite !N.mod_small by lia.
    replace (len pre + (len done + 1 + 1) + len data <? len BS) with true by lia.
    assert (B3: slice BS (len pre + (len done + 1 + 1)) (len pre + (len done + 1 + 1) + len data) = Ok data).
    { unfold BS.
      replace (pre ++ done ++ tag :: len data :: (data ++ ser_descs ds) ++ post) with ((pre ++ done ++ [tag; len data]) ++ data ++ (ser_descs ds ++ post))
        by (rewrite <- !app_assoc; reflexivity).
      apply slice_mid; rewrite !len_app, !len_cons, len_nil; lia. }
    rewrite B3. cbn [bind].
    replace (acc ++ (tag, data) :: ds) with ((acc ++ [(tag, data)]) ++ ds) by (rewrite <- app_assoc; reflexivity).
    unfold BS.
    replace (pre ++ done ++ tag :: len data :: (data ++ ser_descs ds) ++ post) with (pre ++ (done ++ tag :: len data :: data) ++ ser_descs ds ++ post)
      by (rewrite <- !app_assoc; reflexivity).
    replace (len done + 1 + 1 + len data) with (len (done ++ tag :: len data :: data))
      by (rewrite len_app, !len_cons; lia).
    replace (len done + (1 + (1 + (len data + len (ser_descs ds))))) with (len (done ++ tag :: len data :: data) + len (ser_descs ds))
      by (rewrite len_app, !len_cons; lia).
    apply IH; try assumption.
    + rewrite ?len_app, ?len_cons, ?len_app. lia.
    + cbn in Hfuel. lia.
Qed.
