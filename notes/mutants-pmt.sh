#!/bin/bash
# Development aid: re-run the hand mutants of notes/mutants-pmt.md.  Usage: notes/mutants-pmt.sh [scratch-dir]
# Each mutant is one sed edit on a scratch copy of /root/work/repo-fixed; expected verdict in the third column
# (red = VIOLATION line printed, green = none).  The scratch copy is deleted after every run.
export GOFLAGS=-mod=mod GOPROXY=off GOSUMDB=off GOTOOLCHAIN=local VERIF_JOBS=${VERIF_JOBS:-4}
HERE=$(cd "$(dirname "$0")/.." && pwd)
BASE=${VERIF_FIXED:-/root/work/repo-fixed}
SCR=${1:-/root/work/pmt-mut}
run() { # prop expect file sed-expr
  rm -rf "$SCR"; cp -r "$BASE" "$SCR"; sed -i "$4" "$SCR/$3"
  if diff -q "$BASE/$3" "$SCR/$3" >/dev/null; then echo "NOT-APPLIED $1 $4"; rm -rf "$SCR"; return; fi
  out=$(cd "$HERE" && VERIF_REPO="$SCR" timeout 900 bin/check $1 --no-proofs 2>&1)
  if echo "$out" | grep -q '^VIOLATION'; then got=red; else got=green; fi
  echo "$got (expected $2) $1 $3 :: $4"
  rm -rf "$SCR"; rm -f "$HERE"/out/$1-*
}
run C06 red psi/pmt.go 's/if len(sectionBytes) < int(tableLength)+3 {/if len(sectionBytes) < int(tableLength)+2 {/'
run C06 red psi/psi.go 's/return uint16(psi\[1\]&3)<<8/return uint16(psi[1]\&1)<<8/'
run C06 red psi/psi.go 's/psi\[5\]&0x3E) >> 1/psi[5]\&0x3E) >> 2/'
run C06 red psi/pmt.go 's/elementaryPid := int(pmtBytes\[offset+1\]&0x1f)<<8/elementaryPid := int(pmtBytes[offset+1]\&0x0f)<<8/'
run C06 red psi/pmt.go 's/data := payload\[end-4 : end\]/data := payload[end-5 : end-1]/'
run C06 red psi/psi.go 's/return psi\[offset\]&0x40 != 0/return psi[offset]\&0x20 != 0/'
run C06 red psi/psi.go 's/data\[1\] |= 0x30/data[1] |= 0x20/'
run C06 red psi/pmt.go '0,/offset < PSIHeaderLen+sectionLength-pmtEsDescriptorStaticLen-CrcLen/s//offset <= PSIHeaderLen+sectionLength-pmtEsDescriptorStaticLen-CrcLen/'
run C06 red psi/pmt.go 's/if endPos < len(pmtBytes) {/if endPos <= len(pmtBytes) {/'
run C06 red psi/pmt.go 's/if infoLength != 0 \&\& int(infoLength+offset) < len(pmtBytes) {/if infoLength > 1 \&\& int(infoLength+offset) < len(pmtBytes) {/'
run C14 red psi/pmt.go 's/newSectionLength := uint16(len(fPMT) - (pointerField - 1))/newSectionLength := uint16(len(fPMT) - (pointerField - 1)) + 1/'
run C14 red psi/pmt.go 's/if pidIn(pids, elementaryPid) {/if !pidIn(pids, elementaryPid) {/'
run C14 red psi/pmt.go 's/gots.ComputeCRC(fPMT\[pointerField:\])/gots.ComputeCRC(fPMT[pointerField+1:])/'
run C14 red psi/pmt.go 's/pkt\[i\] = 0xff/pkt[i] = 0x00/'
run C14 red psi/pmt.go 's/pid != PatPid \&\& pid != pmtPid/pid != pmtPid/'
run C14 red psi/pmt.go 's/if len(missingPids) == len(pids) {/if len(missingPids) > 0 {/'
run C14 red psi/pmt.go 's/toWrite := safeSlice(fPMT, 0, packet.PacketSize-len(header))/toWrite := safeSlice(fPMT, 0, packet.PacketSize-4)/'
run C14 red psi/pmt.go '/p.elementaryStreams = append(p.elementaryStreams\[:j\], p.elementaryStreams\[j+1:\]...)/{n;s/break/continue/}'
