#!/bin/bash
export GOFLAGS=-mod=mod GOPROXY=off GOSUMDB=off GOTOOLCHAIN=local VERIF_JOBS=4
name=$1; file=$2; old=$3; new=$4
rm -rf /root/work/ebp-mut; cp -r /root/work/repo-fixed /root/work/ebp-mut
python3 - "$file" "$old" "$new" <<'PY'
import sys
p='/root/work/ebp-mut/'+sys.argv[1]; s=open(p).read()
assert s.count(sys.argv[2])>=1, "pattern not found"
s=s.replace(sys.argv[2],sys.argv[3],1); open(p,'w').write(s)
PY
[ $? -eq 0 ] || exit 1
echo "=== mutant $name"
(cd /root/work/ebp-mut && timeout 600 go test ./ebp/ 2>&1 | tail -1)
cd /root/work/ebp && rm -f out/C12-*
VERIF_REPO=/root/work/ebp-mut timeout 900 bin/check C12 --no-proofs 2>&1 | tail -4
for f in out/C12-1-*.json; do [ -f "$f" ] && python3 -c "
import json; d=json.load(open('$f')); print('  replay:', d['line'][:160]); print('   real :', d['observed_real'][:200]); print('   model:', d['required_model'][:200]); print('   why  :', d['why'][:200])"; done
[ -f out/C12-1-correspondence.txt ] && head -6 out/C12-1-correspondence.txt | cut -c1-300
rm -rf /root/work/ebp-mut
