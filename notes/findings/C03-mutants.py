#!/usr/bin/env python3
"""Development aid for C03 (not a check): applies single-edit mutants and harmless rewrites to a scratch copy of
the repaired tree and runs `bin/check C03 --no-proofs` against it.
usage: notes/findings/C03-mutants.py [/root/work/repo-fixed] [scratch dir]     (run from the worktree root)"""
import os, shutil, subprocess, sys
BASE = sys.argv[1] if len(sys.argv) > 1 else "/root/work/repo-fixed"
SCRATCH = sys.argv[2] if len(sys.argv) > 2 else "/root/work/af-mut"
AF = "packet/adaptationfield.go"; FN = "packet/adaptationfield/adaptationfield.go"
MUTANTS = [  # (name, file, old, new, expected: True = must be killed)
 ("opcrStart-omits-pcrLength", AF, "\treturn pcrStart + af.pcrLength()\n}\n\n// spliceCountdownLength", "\treturn pcrStart\n}\n\n// spliceCountdownLength", True),
 ("resize-end-minus-delta", AF, "end := endRight + delta", "end := endRight - delta", True),
 ("SetHasPCR-delta-5", AF, "delta := 6 * af.bitDelta(5, 0x10, value)", "delta := 5 * af.bitDelta(5, 0x10, value)", True),
 ("SetSpliceCountdown-at-opcrStart", AF, "af[af.spliceCountdownStart()] = value", "af[af.opcrStart()] = value", True),
 ("shrink-fill-zero", AF, "af[i] = 0xFF // fill in the gap with stuffing", "af[i] = 0x00 // fill in the gap with stuffing", True),
 ("fn-TPD-omits-OPCR-offset", FN, "\tif HasOPCR(pkt) {\n\t\toffset += 6\n\t}\n\tif HasSplicingPoint(pkt) {\n\t\toffset++\n\t}\n\tdataLength", "\tif HasSplicingPoint(pkt) {\n\t\toffset++\n\t}\n\tdataLength", True),
 ("SetAdaptationField-le", "packet/modify.go", "if oldAF.stuffingEnd() < af.stuffingStart() {", "if oldAF.stuffingEnd() <= af.stuffingStart() {", True),
 ("ext-shrink-keeps-one-byte", AF, "delta = -af.adaptationExtensionLength() // remove", "delta = -(af.adaptationExtensionLength() - 1) // remove", True),
 ("InsertPCR-reserved-7c", "pcr.go", "0x7e", "0x7c", True),
 ("SpliceCountdown-no-int8", AF, "return int(int8(af[af.spliceCountdownStart()])), nil", "return int(af[af.spliceCountdownStart()]), nil", True),
 ("SetHasSplicingPoint-delta-2", AF, "delta := 1 * af.bitDelta(5, 0x04, value)", "delta := 2 * af.bitDelta(5, 0x04, value)", True),
 ("PCR-getter-off-by-one", AF, "return gots.ExtractPCR(af[pcrStart:af.opcrStart()]), nil", "return gots.ExtractPCR(af[pcrStart+1:af.opcrStart()+1]), nil", True),
 ("stuffingEnd-pinned (F6 back)", AF, "\tif stuffingEnd > PacketSize {\n\t\treturn PacketSize\n\t}", "\tif stuffingEnd >= PacketSize {\n\t\treturn PacketSize - 1\n\t}", True),
 ("SetTPD-length-byte-plus-one", AF, "\taf[start-1] = byte(len(data))\n\treturn nil\n}\n\n// TransportPrivateData returns", "\taf[start-1] = byte(len(data) + 1)\n\treturn nil\n}\n\n// TransportPrivateData returns", True),
 ("harmless: hoist stuffingStart", AF, "\t\tend := af.stuffingStart()\n\t\tstartRight := start + delta\n\t\tendRight := af.stuffingStart() + delta", "\t\tss := af.stuffingStart()\n\t\tend := ss\n\t\tstartRight := start + delta\n\t\tendRight := ss + delta", False),
 ("harmless: hasPCR by shift", AF, "\treturn af.getBit(5, 0x10)", "\treturn (af[5]>>4)&1 == 1", False),
 ("harmless: stuffAF from the end", AF, "\tfor i := af.stuffingStart(); i < af.stuffingEnd(); i++ {\n\t\taf[i] = 0xFF // stuffing byte must be 0xFF\n\t}", "\ts, e := af.stuffingStart(), af.stuffingEnd()\n\tfor s < e {\n\t\te--\n\t\taf[e] = 0xFF\n\t}", False),
 ("harmless: new PCR zeroed", AF, "\taf.setBit(5, 0x10, value)\n\treturn nil\n}", "\taf.setBit(5, 0x10, value)\n\tif delta > 0 {\n\t\tfor i := pcrStart; i < pcrStart+6; i++ {\n\t\t\taf[i] = 0\n\t\t}\n\t}\n\treturn nil\n}", False),
]
env = dict(os.environ, GOFLAGS="-mod=mod", GOPROXY="off", GOSUMDB="off", GOTOOLCHAIN="local", VERIF_REPO=SCRATCH,
           VERIF_JOBS=os.environ.get("VERIF_JOBS", "4"))
bad = 0
for name, f, old, new, killed in MUTANTS:
    shutil.rmtree(SCRATCH, ignore_errors=True); shutil.copytree(BASE, SCRATCH)
    p = os.path.join(SCRATCH, f); s = open(p).read()
    assert s.count(old) >= 1, "pattern not found: " + name
    open(p, "w").write(s.replace(old, new, 1))
    r = subprocess.run("timeout 900 bin/check C03 --no-proofs", shell=True, env=env, stdout=subprocess.PIPE, stderr=subprocess.STDOUT, text=True)
    viol = r.stdout.count("VIOLATION")
    verdict = ("killed" if viol else "SURVIVED") if killed else ("green" if not viol and r.returncode == 0 else "FALSE ALARM")
    if verdict in ("SURVIVED", "FALSE ALARM"): bad += 1
    print("%-40s %-12s (%d violation lines, exit %d)" % (name, verdict, viol, r.returncode), flush=True)
shutil.rmtree(SCRATCH, ignore_errors=True)
sys.exit(1 if bad else 0)
