"""C18 — writer adapters: Write delivers every 188-byte packet once, in order, unmodified; ReadFrom does so for
every fragmentation of the reader.
Cases: pw.write <p> <k> <mfail> <mok> <adapter>      pw.readfrom <script> <k> <mfail> <mok> <adapter>
  k = index of the failing WritePacket call (-1: none), mfail = its n, mok = n of the successful calls,
  script = [ [chunk errcode] ... ] with errcode 0 (nil) / 50 (io.EOF) / 60 (reader error) / 51 (io.ErrUnexpectedEOF),
  adapter 0 IOWriter(w) / 1 IOWriteCloser(NopCloser(w)) / 2 IOWriter(PacketWriterFunc(f)) / 3 IOWriter(w') and
  4 IOWriteCloser(w'') where w' / w'' are packet writers that also have raw Write / ReadFrom (/ Close) methods of their own;
  5 IOWriter(w''') where w''' pushes a marker packet through another adapter before it looks at its packet (nested use)."""
from vlib import Case, hx, parse_val, fmt_val

PROP = "C18"
PROOF_FILES = ["Properties/C18.v"]
PS = 188
RULE = ("Write: slices of 0..6 packets (distinct contents) x failing call position (none, every index) x n returned by the "
        "failing call, lengths 188m+-1 and other non-multiples; ReadFrom: data of 0..5 packets + tail of 0/1/94/187 bytes under "
        "every fragmentation class (one chunk, per packet, one byte, halves, 4096/512/189/187/47-byte blocks, random cuts, "
        "interleaved zero-length reads) x terminal condition (script ends, io.EOF with the last data, reader error with or after "
        "the last data) x failing write position; non-trivial = at least one packet and (for ReadFrom) a fragmentation that is "
        "not one-read-per-packet, or a failing write, or a bad length")
EXHAUSTIVE = False
EXHAUSTIVE_NOTE = ("the grid fragmentation class x tail x terminal condition x failing position (for 3 packets) is enumerated "
                   "completely on every run; all scripts are covered by the theorems")
ASSUMPTIONS = [
    "packet writer oracle: a function from call index and packet to (n, err); goexec: call k fails with a fixed error returning "
    "mfail, all other calls return (mok, nil); the writer does not modify or retain the packet (PacketWriter contract)",
    "reader oracle: a finite script of (chunk, optional error) results; a Read delivers the next chunk or as much of it as fits "
    "(the rest, with its error, on the next call); an error is returned with the last bytes of its chunk and is sticky (every "
    "later Read returns (0, err)); after the script every Read returns (0, io.EOF); zero-length chunks are (0, nil) reads; a Read "
    "never returns more than len(p) bytes (io.Reader contract)",
    "the script is finite: only finitely many zero-length reads before data or an error (a reader returning (0, nil) for "
    "ever makes ReadFrom's fill loop spin, as it would io.ReadFull; ReadFrom has no cap on consecutive empty reads, so "
    "finiteness is the whole hypothesis); the reader's error may be any value, io.ErrUnexpectedEOF included",
    "int does not overflow: lengths < 2^31",
]


def proj_write(reply):
    v = parse_val(reply)
    if isinstance(v, list) and len(v) == 2 and v[0] == 0 and len(v[1]) == 4:
        n, err, calls, unch = v[1]
        if err == 61:      # the wrapped writer failed: the count is not fixed by the property
            return ["fail", err, calls, unch]
    return v


def packets(rng, m, seedbyte=None):
    out = bytearray()
    for i in range(m):
        out += bytes([0x47, rng.randrange(256), i & 0xff, 0x10 | (i & 0xf)]) + bytes(rng.randrange(256) for _ in range(184))
    return bytes(out)


def mk_write(p, k, mfail, mok, ad, kind, decides=True):
    m, t = divmod(len(p), PS)
    th = "C18_write_bad_len" if t else ("C18_write_ok" if (k < 0 or k >= m) else "C18_write_fail_stops")
    nt = decides and (m >= 1)
    return Case("pw.write %s %d %d %d %d" % (hx(p), k, mfail, mok, ad), kind=kind, decides=decides, nontrivial=nt,
                theorem=th, proj=proj_write if decides else None)


def fmt_script(sc):
    return "[ " + " ".join("[ %s %d ]" % (hx(c), e) for c, e in sc) + " ]"


def mk_rf(sc, k, mfail, mok, ad, kind, decides=True, trivial=False):
    th = "C18_read_from_any_fragmentation" if k < 0 else "C18_read_from_fail_stops"
    return Case("pw.readfrom %s %d %d %d %d" % (fmt_script(sc), k, mfail, mok, ad), kind=kind, decides=decides,
                nontrivial=decides and not trivial, theorem=th, proj=proj_write if decides else None)


FRAGS = ["whole", "packet", "byte", "half", "b4096", "b512", "b189", "b187", "b47", "random", "zeros"]


def fragment(rng, data, frag):
    """list of chunks whose concatenation is data"""
    n = len(data)
    if frag == "whole":
        return [data] if n else []
    size = {"packet": PS, "byte": 1, "half": PS // 2, "b4096": 4096, "b512": 512, "b189": 189, "b187": 187, "b47": 47}.get(frag)
    if size:
        return [data[i:i + size] for i in range(0, n, size)]
    cuts = sorted(rng.randrange(n + 1) for _ in range(rng.randrange(1, 12))) if n else []
    pts = [0] + cuts + [n]
    chunks = [data[a:b] for a, b in zip(pts, pts[1:])]
    if frag == "zeros":
        out = []
        for c in chunks:
            out.append(b"")
            out.append(c)
            if rng.random() < 0.3:
                out.append(b"")
        return out
    return chunks


TERMS = ["end", "eof-with-data", "err-with-data", "err-after", "eof-explicit"]


def script(rng, data, frag, term):
    chunks = fragment(rng, data, frag)
    sc = [(c, 0) for c in chunks]
    if term == "eof-with-data" and sc:
        sc[-1] = (sc[-1][0], 50)
    elif term == "err-with-data" and sc:
        sc[-1] = (sc[-1][0], 60)
    elif term == "err-after" or (term == "err-with-data" and not sc):
        sc.append((b"", 60))
    elif term == "eof-explicit" or (term == "eof-with-data" and not sc):
        sc.append((b"", 50))
    return sc


def gen(rng, tier):
    out = []
    # ---------------- Write
    for m in range(0, 7):
        p = packets(rng, m)
        for ad in (0, 1, 2, 3, 4, 5):
            out.append(mk_write(p, -1, 0, PS, ad, "write-ok"))
        for k in range(m):
            for mfail in (0, PS, 100):
                out.append(mk_write(p, k, mfail, PS, (k + m) % 3, "write-fail"))
        for d in (1, -1, 94):
            if len(p) + d > 0:
                q = (p + bytes([0x47]) * 200)[:len(p) + d]
                out.append(mk_write(q, -1, 0, PS, m % 3, "write-badlen"))
        # fidelity: a writer that reports short / long / zero counts without an error
        for mok in (0, 100, 187, 189, -5):
            out.append(mk_write(p, -1, 0, mok, 0, "fidelity-write-count", decides=False))
            if m >= 2:
                out.append(mk_write(p, 1, 7, mok, 0, "fidelity-write-count", decides=False))
    for _ in range(100 if tier == "quick" else 5000):
        m = rng.randrange(0, 12)
        p = packets(rng, m)
        if rng.random() < 0.3:
            p = p + bytes(rng.randrange(256) for _ in range(rng.randrange(1, PS)))
            out.append(mk_write(p, rng.randrange(-1, m + 1), 0, PS, rng.randrange(6), "write-badlen"))
        else:
            k = rng.randrange(-1, m + 1)
            out.append(mk_write(p, k, rng.choice([0, PS, rng.randrange(0, 189)]), PS, rng.randrange(6),
                                "write-ok" if (k < 0 or k >= m) else "write-fail"))
    # ---------------- ReadFrom: complete grid for three packets
    for frag in FRAGS:
        for t in (0, 1, 94, 187):
            for term in TERMS:
                data = packets(rng, 3) + bytes(rng.randrange(256) for _ in range(t))
                sc = script(rng, data, frag, term)
                for k in (-1, 0, 1, 2):
                    out.append(mk_rf(sc, k, rng.choice([0, PS, 100]), PS, (k + t) % 3,
                                     "rf-%s-%s" % (frag, "tail" if t else "exact") + ("-wfail" if k >= 0 else ""),
                                     trivial=(frag == "packet" and k < 0)))
    # the probes of DESIGN section 7 (F2): three packets through a one-byte and a half reader, and data together with EOF
    d3 = packets(rng, 3)
    out.append(mk_rf(script(rng, d3, "byte", "end"), -1, 0, PS, 0, "f2-probe"))
    out.append(mk_rf(script(rng, d3, "half", "end"), -1, 0, PS, 0, "f2-probe"))
    out.append(mk_rf(script(rng, d3, "packet", "eof-with-data"), -1, 0, PS, 0, "f2-probe"))
    # random
    for _ in range(400 if tier == "quick" else 20000):
        m = rng.randrange(0, 6)
        t = rng.choice([0, 0, 1, 94, 187, rng.randrange(1, PS)])
        data = packets(rng, m) + bytes(rng.randrange(256) for _ in range(t))
        frag = rng.choice(FRAGS); term = rng.choice(TERMS)
        sc = script(rng, data, frag, term)
        if rng.random() < 0.2 and sc:
            # an error in the middle of the script: what follows is never delivered
            j = rng.randrange(len(sc))
            sc[j] = (sc[j][0], rng.choice([50, 60]))
        k = rng.choice([-1, -1, rng.randrange(0, m + 1)])
        out.append(mk_rf(sc, k, rng.choice([0, PS, 100]), PS, rng.randrange(6), "rf-random-%s" % frag,
                         trivial=(m == 0)))
    # fidelity: writer counts other than 188 (io.ErrShortWrite path)
    for mok in (0, 100, 189, -1):
        for frag in ("whole", "byte", "random"):
            out.append(mk_rf(script(rng, packets(rng, 2), frag, "end"), -1, 0, mok, 0, "fidelity-rf-count", decides=False))
    # the reader's OWN error is io.ErrUnexpectedEOF (deciding since the F2 repair no longer maps it): on a packet
    # boundary, after a partial tail, together with the last data, under every fragmentation
    for frag in FRAGS:
        for t in (0, 5, 187):
            data = packets(rng, 2) + bytes(rng.randrange(256) for _ in range(t))
            sc = script(rng, data, frag, "end")
            out.append(mk_rf(sc + [(b"", 51)], -1, 0, PS, 0, "rf-unexpected-eof"))
            if sc:
                sc2 = sc[:-1] + [(sc[-1][0], 51)]
                out.append(mk_rf(sc2, -1, 0, PS, 0, "rf-unexpected-eof"))
    # long runs of zero-length reads (ReadFrom has no cap on them, unlike bufio)
    for m in (99, 100, 150, 400):
        d = packets(rng, 2)
        sc = [(d[:100], 0)] + [(b"", 0)] * m + [(d[100:], 0)] + [(b"", 0)] * m
        out.append(mk_rf(sc, -1, 0, PS, 0, "rf-many-empty-reads"))
    return out


def _parse(c):
    op, _, rest = c.line.partition(" ")
    v = parse_val("[" + rest + "]")
    return op, v


def shrink(c):
    op, v = _parse(c)
    if op == "pw.write":
        p, k, mfail, mok, ad = v
        for q in (p[PS:], p[:-PS], p[:len(p) // 2], p[:-1]):
            if len(q) < len(p):
                yield mk_write(bytes(q), min(k, len(q) // PS), mfail, mok, ad, c.kind, c.decides)
        if ad:
            yield mk_write(bytes(p), k, mfail, mok, 0, c.kind, c.decides)
        return
    sc, k, mfail, mok, ad = v
    sc = [(bytes(ch), e) for ch, e in sc]
    cands = []
    # drop a group of leading / trailing chunks that make up exactly one packet (keeps the alignment)
    tot = 0
    for i, (ch, e) in enumerate(sc):
        tot += len(ch)
        if tot == PS and i + 1 < len(sc):
            cands.append(sc[i + 1:])
        if tot >= PS:
            break
    tot = 0
    for i in range(len(sc) - 1, -1, -1):
        tot += len(sc[i][0])
        if tot == PS and i > 0 and all(e == 0 for _, e in sc[i:]):
            cands.append(sc[:i])
        if tot >= PS:
            break
    for i in range(min(len(sc), 30)):
        cands.append(sc[:i] + sc[i + 1:])                       # drop a chunk
    for i in range(min(len(sc) - 1, 30)):
        if sc[i][1] == 0:
            cands.append(sc[:i] + [(sc[i][0] + sc[i + 1][0], sc[i + 1][1])] + sc[i + 2:])   # merge two chunks
    if len(sc) > 2:
        cands.append(sc[:len(sc) // 2]); cands.append(sc[len(sc) // 2:])
    for s2 in cands:
        yield mk_rf(s2, k, mfail, mok, ad, c.kind, c.decides)
    if ad:
        yield mk_rf(sc, k, mfail, mok, 0, c.kind, c.decides)
    if k >= 0:
        yield mk_rf(sc, -1, mfail, mok, ad, c.kind, c.decides)


def search(c, rng):
    for frag in FRAGS:
        for term in TERMS:
            for t in (0, 1):
                yield mk_rf(script(rng, packets(rng, 2) + bytes(t), frag, term), -1, 0, PS, 0, "search")
    for m in range(4):
        for k in range(-1, m):
            yield mk_write(packets(rng, m), k, 0, PS, 0, "search")


def case_of_line(line, kind):
    c = Case(line, kind=kind or "replay")
    op, v = _parse(c)
    dec = not (kind or "").startswith("fidelity")
    if op == "pw.write":
        p, k, mfail, mok, ad = v
        return mk_write(bytes(p), k, mfail, mok, ad, kind or "replay", dec)
    sc, k, mfail, mok, ad = v
    return mk_rf([(bytes(ch), e) for ch, e in sc], k, mfail, mok, ad, kind or "replay", dec)


LEVEL_TEXT = ("Proof: Coq theorems (Properties/C18.v) over a model of packetWriter.Write and the repaired ReadFrom with the wrapped "
              "writer and the reader as oracles: for ALL slices, ALL read scripts (any fragmentation, zero-length reads, data "
              "together with EOF or an error) and all failing positions, the delivered packets are exactly the complete 188-byte "
              "chunks in order, the count is 188 x delivered, invalid-length iff a partial tail, the reader's or writer's error "
              "otherwise, nothing delivered after a failure; never Panic/Diverge. By induction over chunks / scripts, no axioms. "
              "Tied to /repo on every run by executing model and real adapters on the fragmentation grid.")
LEVEL_NOTE = ("Trusted: Coq kernel; the transcription Model/PacketWriter.v; the oracle contracts (finite script, sticky reader "
              "error); extraction and glue. Not covered: retention/aliasing of the "
              "packet pointer by the wrapped writer (goexec copies at call time).")
TECHNIQUE = "Coq proof by induction over chunks and read scripts with writer/reader oracles + model/implementation correspondence over fragmentation classes"


# coverage round (notes/coverage.md): cases and support theorems for exported identifiers outside the property text
from gen import covlib
covlib.install(globals())
