"""C11 — PES header decoding (NewPESHeader, packet.PESHeader, pes.AlignedPUSI) for every header shape.
Logical records are serialised by the Coq Spec serialiser (modelexec op ser.pes, Spec/PesSpec.v) and, independently,
by ser_py below (the two are compared while generating); the expected getters are computed from the logical record."""
import sys
import vlib
from vlib import Case, hx, unhx, parse_val

PROP = "C11"
PROOF_FILES = ["Properties/C11.v", "Properties/ModelTie.v"]
PLAIN = (0xBE, 0xBF, 0xF0, 0xF1, 0xF2, 0xF8, 0xFF)
M33 = 1 << 33
RULE = ("well-formed PES starts from logical records: all 256 stream ids x PTS_DTS {00,10,11} x header_data_length {min, min+1, "
        "255, random} x alignment {0,1}, other flag bits / PES_packet_length / payloads cycling through boundary values, "
        "timestamps from the slice-boundary grid; the same starts inside transport packets with every adaptation_field_length "
        "0..183 (and garbage lengths), PUSI on/off, all four adaptation_field_control values, near-miss start codes; "
        "InsertPTS into header bytes then NewPESHeader (end to end); truncations / length-field perturbations / bit flips / "
        "random bytes as malformed stream (outcome class only). Non-trivial = distinct request inside the property's hypotheses")
EXHAUSTIVE = True
EXHAUSTIVE_NOTE = ("the grid stream_id (256) x PTS_DTS_flags (3) x header_data_length class (4) x data_alignment_indicator (2) is "
                   "enumerated completely on every run, as is every header_data_length 0..255 (for each PTS_DTS shape, one stream id "
                   "in quick, eight in thorough), and every adaptation_field_length 0..255 is used for packets; the remaining "
                   "fields are sampled; the unbounded domain is covered by theorem C11_decode_ser")
ASSUMPTIONS = ["a Go nil slice and an empty slice are the same observation (Data() is nil or non-empty in the code)",
               "callers pass slices with cap = len (DESIGN section 3)"]

TS_GRID = [0, 1, M33 - 1, M33 - 2, 1 << 32, (1 << 32) - 1, 1 << 30, (1 << 30) - 1, 1 << 29, 1 << 22, (1 << 22) - 1,
           1 << 15, (1 << 15) - 1, 1 << 14, 1 << 7, (1 << 7) - 1, 0x155555555, 0x0AAAAAAAA, 0x1FFFF8000, 0x000007FFF]
FLAGS6 = [0x80, 0x84, 0x00, 0xFF, 0x04, 0x8B, 0xFB, 0x7F]
FLAGS7 = [0x00, 0x3F, 0x01, 0x20, 0x15]
EXPECT = {}


def ser_ts_py(prefix, v):
    s = format(v, "033b")
    bits = format(prefix, "04b") + s[0:3] + "1" + s[3:18] + "1" + s[18:33] + "1"
    return int(bits, 2).to_bytes(5, "big")


def ser_py(r):
    """independent Python serialiser of the logical record (ISO 13818-1 2.4.3.6)"""
    out = bytes([0, 0, 1, r["id"], r["plen"] >> 8, r["plen"] & 0xff])
    if r["id"] in PLAIN:
        return out + r["data"]
    if r["mode"] == 0:
        ts = b""
    elif r["mode"] == 2:
        ts = ser_ts_py(2, r["pts"])
    else:
        ts = ser_ts_py(3, r["pts"]) + ser_ts_py(1, r["dts"])
    return out + bytes([r["f6"], (r["mode"] << 6) | r["f7"], len(ts) + len(r["extra"])]) + ts + r["extra"] + r["data"]


def ser_line(r):
    return "ser.pes %d %d %d %d %d %d %d %s %s" % (r["id"], r["plen"], r["f6"], r["f7"], r["mode"], r["pts"], r["dts"],
                                                   hx(r["extra"]), hx(r["data"]))


def expected_view(r):
    """the getters the property determines, in the projected form of proj_new"""
    if r["id"] in PLAIN:
        return (1, r["id"], r["data"], 0, 1)
    al = 1 if r["f6"] & 4 else 0
    hp = 1 if r["mode"] in (2, 3) else 0
    hd = 1 if r["mode"] == 3 else 0
    return (1, r["id"], al, hp, r["pts"] if hp else None, hd, r["dts"] if hd else None, r["data"], 0, 1)


def proj_view(g):
    if g[1] in PLAIN:
        return (g[0], g[1], g[7], g[8], g[9])
    return (g[0], g[1], g[2], g[3], g[4] if g[3] else None, g[5], g[6] if g[5] else None, g[7], g[8], g[9])


def proj_new(reply):
    v = parse_val(reply)
    if not isinstance(v, list) or not v or v[0] != 0:
        return ("class", klass(reply))
    return proj_view(v[1])


def proj_put(reply):
    v = parse_val(reply)
    if not isinstance(v, list) or not v or v[0] != 0:
        return ("class", klass(reply))
    b2, inner = v[1][0], v[1][1]
    if inner[0] != 0:
        return (b2, "class", inner[0])
    return (b2, proj_view(inner[1]))


def klass(reply):
    if reply.startswith("[0"): return "ok"
    if reply.startswith("[1"): return "err"
    if reply == "[2]": return "panic"
    if reply == "[3]": return "hang"
    if reply == "[4]": return "crash"
    return "value" if reply != "[-9999]" else "bad"


def proj_pkt(reply):
    """packet.PESHeader: the bytes when present, otherwise only 'error' (the property does not name the error)"""
    return reply if reply.startswith("[0") else klass(reply)


def proj_withpes(reply):
    """WithPES then decode: only what the end-to-end clause determines (prefix, id, HasPTS, PTS, HasDTS; PESHeader class)"""
    v = parse_val(reply)
    if not isinstance(v, list) or not v or v[0] != 0:
        return ("class", klass(reply))
    pkt2, hdr, dec = v[1]
    if dec[0] != 0:
        return ("hdr", hdr[0], "dec-class", dec[0])
    g = dec[1]
    return ("hdr", hdr[0], g[0], g[1], g[3], g[4] if g[3] else None, g[5])


def proj_class(reply):
    return klass(reply)


def proj_returns(reply):
    """C05 projection: does the call return (value or error) or does it panic / hang / kill the process"""
    k = klass(reply)
    return k if k in ("panic", "hang", "crash", "bad") else "returns"


def mk_pkt(pusi, afc, aflen, payload, rng, pid=0x100, cc=5):
    """188-byte transport packet: header, adaptation field of aflen bytes when afc has bit 2, then the payload bytes"""
    p = bytearray([0x47, (0x40 if pusi else 0) | (pid >> 8), pid & 0xff, (afc << 4) | cc])
    if afc & 2:
        p.append(aflen & 0xff)
        n = min(aflen, 183)
        if n > 0:
            p.append(0x00)
            p += b"\xff" * (n - 1)
    p += payload
    while len(p) < 188:
        p.append(rng.randrange(256))
    return bytes(p[:188])


def payload_room(afc, aflen):
    if afc & 2:
        return max(0, 183 - aflen)
    return 184


def expected_pkt(pusi, afc, aflen, pkt):
    if not pusi or not (afc & 1):
        return "err"
    start = 4 + (1 + aflen if afc & 2 else 0)
    if start > 188:
        return "err"
    pay = pkt[start:]
    if len(pay) > 3 and pay[:3] == b"\x00\x00\x01":
        return "[0 %s]" % hx(pay)
    return "err"


def records(rng, tier):
    recs = []
    k = 0
    reps = 1 if tier == "quick" else 12
    for rep in range(reps):
        for sid in range(256):
            for mode in (0, 2, 3):
                tslen = {0: 0, 2: 5, 3: 10}[mode]
                for hclass in range(4):
                    for al in (0, 1):
                        k += 1
                        if hclass == 0: nex = 0
                        elif hclass == 1: nex = 1
                        elif hclass == 2: nex = 255 - tslen
                        else: nex = rng.randrange(2, 255 - tslen)
                        f6 = FLAGS6[k % len(FLAGS6)]
                        f6 = (f6 | 4) if al else (f6 & ~4 & 0xff)
                        if rep > 0:
                            f6 = (rng.randrange(256) | 4) if al else (rng.randrange(256) & ~4 & 0xff)
                        f7 = FLAGS7[(k // 3) % len(FLAGS7)] if rep == 0 else rng.randrange(64)
                        pts = TS_GRID[k % len(TS_GRID)] if rng.random() < 0.7 else rng.randrange(M33)
                        dts = TS_GRID[(k * 7 + 3) % len(TS_GRID)] if rng.random() < 0.7 else rng.randrange(M33)
                        dl = rng.choice((0, 1, 2, 3, 4, 16, rng.randrange(0, 64)))
                        data = bytes(rng.randrange(256) for _ in range(dl))
                        if rng.random() < 0.15:
                            data = b"\x00\x00\x01" + data
                        if sid in PLAIN and dl == 0:
                            data = bytes([rng.randrange(256)])      # |ser| >= 7 is the documented minimum
                        extra = bytes(rng.choice((0xff, 0xff, rng.randrange(256))) for _ in range(nex))
                        plen = rng.choice((0, 1, 0xffff, 0x0100, 0x00ff, (3 + tslen + nex + dl) & 0xffff, rng.randrange(65536)))
                        recs.append(dict(id=sid, plen=plen, f6=f6, f7=f7, mode=mode, pts=pts if mode else 0,
                                         dts=dts if mode == 3 else 0, extra=extra, data=data))
    # every header_data_length 0..255 that the PTS_DTS shape allows, for a few ids (all of them with optional header)
    ids = [0xE0] if tier == "quick" else [0xE0, 0xC0, 0xBD, 0x00, 0xBC, 0xFE, 0xFD, rng.randrange(256)]
    for sid in ids:
        if sid in PLAIN:
            continue
        for mode in (0, 2, 3):
            tslen = {0: 0, 2: 5, 3: 10}[mode]
            for hdl in range(tslen, 256):
                k += 1
                dl = rng.choice((0, 1, 5, 20))
                recs.append(dict(id=sid, plen=rng.randrange(65536), f6=0x80 | (4 if k % 2 else 0), f7=FLAGS7[k % len(FLAGS7)],
                                 mode=mode, pts=TS_GRID[k % len(TS_GRID)] if mode else 0,
                                 dts=TS_GRID[(k * 3 + 1) % len(TS_GRID)] if mode == 3 else 0,
                                 extra=bytes(rng.choice((0xff, rng.randrange(256))) for _ in range(hdl - tslen)),
                                 data=bytes(rng.randrange(256) for _ in range(dl))))
    return recs


def gen(rng, tier):
    EXPECT.clear()
    out = []
    recs = records(rng, tier)
    sers = vlib.run_model([ser_line(r) for r in recs])
    specs = vlib.run_model(["spec.pes" + ser_line(r)[len("ser.pes"):] for r in recs])
    for r, s, sp in zip(recs, sers, specs):
        b = unhx(s)
        if b != ser_py(r):
            print("ERROR C11 generator: Coq serialiser and Python serialiser disagree on %r: %s vs %s" % (r, s, hx(ser_py(r))))
            sys.exit(2)
        r["ser"] = b
        # required getters: from the Coq-extracted Spec (spec.pes); the Python copy is only a cross-check
        r["view"] = proj_view(parse_val(sp))
        if r["view"] != expected_view(r):
            print("ERROR C11 generator: Spec/PesSpec.v and the Python expectation disagree on %r: %r vs %r" % (r, r["view"], expected_view(r)))
            sys.exit(2)
    # 1. NewPESHeader on every well-formed start
    for r in recs:
        line = "pes.new " + hx(r["ser"])
        EXPECT[line] = r["view"]
        out.append(Case(line, kind="wf-plain-id" if r["id"] in PLAIN else "wf-mode%d" % r["mode"], theorem="C11_decode_ser", proj=proj_new))
    # 2. the same starts inside transport packets
    step = 7 if tier == "quick" else 1
    for i, r in enumerate(recs[:: step]):
        for _ in range(2):
            afc = rng.choice((1, 3, 3, 3))
            aflen = rng.randrange(0, 184) if afc & 2 else 0
            room = payload_room(afc, aflen)
            filler = bytes(rng.randrange(256) for _ in range(200))
            body = r["ser"] + filler
            # the logical packet carries a PES start whose data continues to the end of the packet
            pay = body[:room]
            hdrlen = 6 if r["id"] in PLAIN else 9 + r["ser"][8]
            complete = room >= max(hdrlen, 7)
            pusi = 0 if rng.random() < 0.1 else 1
            pkt = mk_pkt(pusi, afc, aflen, pay, rng)
            if rng.random() < 0.12:
                # a packet value that does not carry the sync byte (zero value / struct literal filled in by the setters, none of
                # which writes byte 0): the accessors do not look at byte 0 (seeded C11-u1: a sync-byte guard in packet.PESHeader)
                pkt = bytes([rng.choice([0x00, 0x00, 0xFF, 0x46])]) + bytes(pkt[1:])
            l1 = "pes.pkt " + hx(pkt)
            EXPECT[l1] = expected_pkt(pusi, afc, aflen, pkt)
            out.append(Case(l1, kind="pkt-pes-header", theorem="C11_pkt_pes_header_iff", proj=proj_pkt))
            l2 = "pes.aligned " + hx(pkt)
            if complete and r["id"] not in PLAIN:
                if pusi and room > 3 and (r["f6"] & 4):
                    EXPECT[l2] = "[%s]" % hx(pay[hdrlen:])
                else:
                    EXPECT[l2] = "[]"
                out.append(Case(l2, kind="aligned-pusi", theorem="C11_aligned_pusi_ser"))
            else:
                out.append(Case(l2, kind="aligned-pusi-truncated-or-plain", decides=False, nontrivial=False, theorem="C11_aligned_pusi_iff"))
    # 3. packets: every adaptation_field_length (incl. garbage), all afc values, PUSI, near-miss start codes
    starts = [b"\x00\x00\x01", b"\x00\x00\x00", b"\x00\x01\x01", b"\x01\x00\x01", b"\x00\x00\x02", b"\x00\x00\x01"]
    for aflen in range(256):
        for afc in (0, 1, 2, 3):
            for pusi in (0, 1):
                st = starts[(aflen + afc + pusi) % len(starts)]
                r = recs[rng.randrange(len(recs))]
                pay = (st + r["ser"][3:] + bytes(rng.randrange(256) for _ in range(190)))[:payload_room(afc, aflen)]
                pkt = mk_pkt(pusi, afc, aflen, pay, rng)
                l1 = "pes.pkt " + hx(pkt)
                EXPECT[l1] = expected_pkt(pusi, afc, aflen, pkt)
                out.append(Case(l1, kind="pkt-af-lengths", theorem="C11_pkt_pes_header_iff", proj=proj_pkt))
                out.append(Case("pes.aligned " + hx(pkt), kind="aligned-af-lengths", decides=False, nontrivial=False,
                                theorem="C11_aligned_pusi_iff"))
    # 4. end to end (C04): InsertPTS into the header bytes at offsets 9 and 14, then NewPESHeader
    both = [r for r in recs if r["mode"] == 3 and r["id"] not in PLAIN]
    for i in range(300 if tier == "quick" else 6000):
        r = both[rng.randrange(len(both))]
        v1 = TS_GRID[i % len(TS_GRID)] if i % 3 else rng.randrange(M33)
        v2 = TS_GRID[(i * 5 + 1) % len(TS_GRID)] if i % 2 else rng.randrange(M33)
        line = "pes.put %s %d %d" % (hx(r["ser"]), v1, v2)
        b2 = r["ser"][:9] + ser_ts_py(2, v1) + ser_ts_py(2, v2) + r["ser"][19:]
        r2 = dict(r, pts=v1, dts=v2)
        EXPECT[line] = (b2, expected_view(r2))
        out.append(Case(line, kind="insert-then-decode", theorem="C11_pes_pts_dts_readback", proj=proj_put))
    # 4b. the library's own builder packet.WithPES, then packet.PESHeader / NewPESHeader (end to end through the library)
    afs = [None, None, None, None] + list(range(0, 256))   # no adaptation field, and every adaptation_field_length
    for i, af in enumerate(afs * (8 if tier == "thorough" else 1)):
        pk = bytearray(rng.randrange(256) for _ in range(188)); pk[0] = 0x47
        if rng.random() < 0.3:
            pk = bytearray(188); pk[0] = 0x47; pk[1] = 0x41
        if af is None:
            pk[3] &= 0xdf
            start = 4
        else:
            pk[3] |= 0x20; pk[4] = af
            start = 5 + af
        pts = TS_GRID[i % len(TS_GRID)] if i % 4 else rng.randrange(M33)
        line = "pes.withpes %s %d" % (hx(pk), pts)
        if start + 14 <= 188:
            EXPECT[line] = ("hdr", 0 if pk[1] & 0x40 else 1, 1, 184, 1, pts, 0)
            out.append(Case(line, kind="withpes-readback", theorem="C11_with_pes_readback", proj=proj_withpes))
        else:
            out.append(Case(line, kind="withpes-no-room", decides=False, nontrivial=False, proj=proj_class, theorem="C11_with_pes_readback"))
    # 5. malformed stream (C05): outcome class only
    n = 0
    for r in recs[:: (97 if tier == "quick" else 11)]:
        s = r["ser"]
        for cut in range(0, min(len(s), 24) + 1):
            out.append(Case("pes.new " + hx(s[:cut]), kind="malformed-truncated", decides=False, nontrivial=False, proj=proj_class,
                            theorem="new_pes_header_total"))
        if r["id"] not in PLAIN:
            for newhdl in (0, (s[8] + 1) & 0xff, (s[8] - 1) & 0xff, (2 * s[8]) & 0xff, 255):
                m = bytearray(s); m[8] = newhdl
                out.append(Case("pes.new " + hx(m), kind="malformed-length-field", decides=False, nontrivial=False, proj=proj_class,
                                theorem="new_pes_header_total"))
            m = bytearray(s); m[7] = (m[7] & 0x3f) | 0x40      # forbidden PTS_DTS_flags '01'
            out.append(Case("pes.new " + hx(m), kind="malformed-flags01", decides=False, nontrivial=False, proj=proj_class,
                            theorem="new_pes_header_total"))
        for _ in range(8):
            m = bytearray(s[:40]); i = rng.randrange(len(m)); m[i] ^= 1 << rng.randrange(8)
            out.append(Case("pes.new " + hx(m), kind="malformed-bitflip", decides=False, nontrivial=False, proj=proj_class,
                            theorem="new_pes_header_total"))
    # the same malformed inputs decide the C05 clause "returns a value or an error, never panics" (proved of the model:
    # C11_new_pes_header_total), so a panic of the real code is reported with that input as the replay
    for c in [c for c in out if c.kind.startswith("malformed")]:
        out.append(Case(c.line, kind=c.kind + "-c05", theorem="C11_new_pes_header_total", proj=proj_returns, nontrivial=False))
    for _ in range(300 if tier == "quick" else 20000):
        m = bytes(rng.randrange(256) for _ in range(rng.randrange(0, 40)))
        out.append(Case("pes.new " + hx(m), kind="malformed-random", decides=False, nontrivial=False, proj=proj_class,
                        theorem="new_pes_header_total"))
        pk = bytearray(rng.randrange(256) for _ in range(188)); pk[0] = 0x47
        out.append(Case("pes.aligned " + hx(pk), kind="malformed-random-packet", decides=False, nontrivial=False, proj=proj_class,
                        theorem="aligned_pusi_total"))
        out.append(Case("pes.new " + hx(m), kind="malformed-random-c05", theorem="C11_new_pes_header_total", proj=proj_returns, nontrivial=False))
        out.append(Case("pes.aligned " + hx(pk), kind="malformed-random-packet-c05", theorem="C11_pkt_pes_header_no_panic", proj=proj_returns,
                        nontrivial=False))
        out.append(Case("pes.pkt " + hx(pk), kind="random-packet", theorem="C11_pkt_pes_header_iff", proj=proj_pkt))
    crosscheck_pkt(out)
    return out


def crosscheck_pkt(cases):
    """expected_pkt (Python) against the Coq-extracted Spec (spec.pkt) on every pes.pkt case of this run"""
    lines = [c.line for c in cases if c.line.startswith("pes.pkt ")]
    got = vlib.run_model(["spec.pkt" + l[len("pes.pkt"):] for l in lines])
    for l, g in zip(lines, got):
        g = g if g.startswith("[0") else "err"
        if l not in EXPECT:
            EXPECT[l] = g          # random packets: the requirement comes from the Coq Spec alone
        elif g != EXPECT[l]:
            print("ERROR C11 generator: Spec/PesSpec.v and the Python expectation disagree on %s: %s vs %s" % (l[:80], g[:80], EXPECT[l][:80]))
            sys.exit(2)


def oracle(c, real, model):
    want = EXPECT.get(c.line)
    if want is None or not c.decides or c.kind.endswith("-c05"):
        return None
    proj = c.proj or (lambda x: x)
    try:
        pr, pm = proj(real), proj(model)
    except Exception:
        return "reply cannot be read: %s" % real[:200]
    if pr != want:
        return "observed %r, required (from the logical record) %r" % (pr, want)
    if pm != want:
        return "Coq model differs from the expectation computed from the logical record: %r vs %r" % (pm, want)
    return ""


def shrink(c):
    f = c.line.split(" ")
    if f[0] != "pes.new":
        return
    b = unhx(f[1])
    hdr = 7 if (len(b) > 3 and b[3] in PLAIN) or len(b) < 9 else 9 + b[8]
    for n in (hdr, hdr + 1, (hdr + len(b)) // 2, len(b) - 1):
        if hdr <= n < len(b) and n >= 7:
            yield Case("pes.new " + hx(b[:n]), kind=c.kind, theorem=c.theorem, proj=proj_new)


def search(c, rng):
    recs = records(rng, "quick")[::13]
    sers = vlib.run_model([ser_line(r) for r in recs])
    for r, s in zip(recs, sers):
        line = "pes.new " + s
        EXPECT[line] = expected_view(r)
        yield Case(line, kind="search", theorem="C11_decode_ser", proj=proj_new)


def case_of_line(line, kind):
    op = line.split(" ")[0]
    if kind.endswith("-c05"):
        return Case(line, kind=kind, proj=proj_returns)
    if kind.startswith("malformed") or kind.startswith("aligned-pusi-truncated") or kind == "aligned-af-lengths":
        return Case(line, kind=kind, decides=False, proj=proj_class if kind.startswith("malformed") else None)
    if kind == "withpes-no-room":
        return Case(line, kind=kind, decides=False, proj=proj_class)
    proj = {"pes.new": proj_new, "pes.pkt": proj_pkt, "pes.put": proj_put, "pes.withpes": proj_withpes}.get(op)
    return Case(line, kind=kind, proj=proj)


LEVEL_TEXT = ("Proof: Properties/C11.v states, for ALL well-formed logical PES starts (any stream id, length, flag bits, "
              "PTS/DTS shape, header_data_length, extra bytes, payload), that NewPESHeader applied to the ISO serialisation returns "
              "prefix, id, alignment, HasPTS/HasDTS, the exact 33-bit values and Data = the payload (offset 6 for the seven ids "
              "without optional header), also when a transport packet carries only a prefix of the PES packet; packet.PESHeader = Ok "
              "iff PUSI and payload >= 4 bytes starting 00 00 01; AlignedPUSI iff additionally the alignment flag; InsertPTS-then-decode "
              "and packet.WithPES-then-decode end to end; totality of the decoders on arbitrary bytes (no panic, Data a suffix of the "
              "input). The model is tied to /repo on every run over the complete grid ids x PTS_DTS x header-length class x alignment, "
              "every header_data_length and every adaptation_field_length; expectations come from the Coq-extracted Spec.")
LEVEL_NOTE = ("Trusted: Coq kernel; Spec/PesSpec.v + Spec/TimestampSpec.v as the reading of ISO 13818-1 2.4.3.6/2.4.3.7 (the Python "
              "serialiser in the generator is compared with the extracted one on every record); the transcription Model/Pes.v; "
              "extraction and glue. ISO also lists program_stream_map (0xBC) without optional header; the property and the code list seven ids.")
TECHNIQUE = "Coq proof (parser inverts serialiser; lor-as-add + lia for the timestamps) + correspondence, exhaustive on the id x flag x length-class grid"


# coverage round (notes/coverage.md): cases and support theorems for exported identifiers outside the property text
from gen import covlib
covlib.install(globals())
