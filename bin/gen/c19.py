"""C19 — closing relation / in-out classification / Equal: exhaustive grids through the real API, on descriptors
built with the setters (seg.row / seg.close1 / seg.eqm / seg.inout) AND on descriptors decoded from section bytes
(seg.dec.closem / seg.dec.close1 / seg.dec.eqm; sections serialised from logical values by the Coq serialiser `ser.scte`)."""
import vlib
from vlib import Case, hx
from gen import sctelib as L

PROP = "C19"
PROOF_FILES = ["Properties/C19.v"]
RULE = ("seg.row tin ...: one line per incoming type (all 256), each line = 256 open types x 24 condition combinations "
        "(event ids equal/different x PTS values equal/different x segment_num equal/different from segments_expected x "
        "{no sub-segments, sub_num = sub_expected, sub_num <> sub_expected}) through the real CanClose on descriptors built "
        "with the public API; the canonical value set plus value sets that differ only in high bits and signals without "
        "PTS; seg.close1: random descriptor pairs (rule types, random field values, equal/near-equal event ids and PTS); seg.inout: IsIn/IsOut of all 256 types; seg.eqm: Equal on every ordered pair of a family made of a base "
        "descriptor and all its single-field variants (also checks symmetry data and that Equal does not modify its "
        "arguments). A line is non-trivial when its incoming type has at least one rule (seg.row), always for the others. "
        "DECODED descriptors (kinds dec-*): every descriptor is Descriptors()[0] of scte35.NewSCTE35(section bytes), the sections "
        "being serialised from logical values by the Coq Spec serialiser (ser.scte, cross-checked by a Python bit writer); the "
        "model decodes the same bytes with Model/Scte.v, maps the result to the abstract record (Exec/SegDecExec.v "
        "desc_of_decoded) and runs Model/SegDesc.v; the getter view of every decoded descriptor is compared as well. "
        "seg.dec.closem [D sections] [O sections]: dec-close-grid = per value set all 256 incoming types x {segnum =/<> "
        "segments_expected} (x {no sub-segment fields, sub_num = sub_expected, sub_num <> sub_expected} for types 0x34/0x36, the "
        "only ones that carry them on the wire) against all 256 open types x event ids equal/different x PTS equal/different, "
        "i.e. the 256x256x8 grid, once with minimal sections (time_signal, pts_adjustment 0) and once with randomised sections "
        "(time_signal / splice_insert, pts_time + pts_adjustment wrapping to the wanted PTS, components, duration, UPID/MID, "
        "restriction flags, foreign descriptors in front, a second segmentation descriptor behind, pointer_field, stuffing); "
        "dec-close-nopts = the same for signals without a time (splice_null, immediate / cancelled / component splice_insert: "
        "PTS() is then the pts_adjustment) on either or both sides; dec-close-random = seg.dec.close1 on random pairs; "
        "dec-equal = seg.dec.eqm on a base section and its single-field variants (sub-segment fields varied only for "
        "0x34/0x36) plus re-encodings of the base that differ only in fields Equal must ignore; dec-fidelity-* (not deciding) = "
        "sections outside the serialiser's well-formedness (sub-segment bytes after another type) or without a descriptor. "
        "A seg.dec.closem line is non-trivial when it contains an incoming type with rules.")
EXHAUSTIVE = True
EXHAUSTIVE_WHOLE = True   # the quantifier of C19 is the finite abstraction (type x type x conditions), enumerated completely
EXHAUSTIVE_NOTE = ("256 x 256 types x 2 x 2 x 2 (x 3 sub-segment shapes) = 1 572 864 CanClose calls per value set, all 256 types "
                   "through IsIn/IsOut, and the complete single-field-difference grid of Equal are enumerated on every run; "
                   "the dependence on the field VALUES only through their equalities is the theorem C19_can_close_abstraction. "
                   "Decoded descriptors: the same 256 x 256 x 2 x 2 x 2 type/condition grid (x 3 sub-segment shapes for 0x34/0x36) is "
                   "enumerated on every run for two value sets, but the SECTIONS around the descriptor (command kind, pts_time / "
                   "pts_adjustment split, other descriptor fields, neighbouring descriptors, pointer field) are a random SAMPLE: the "
                   "tie 'decoder output = abstract record' is sampled, and is otherwise the theorem C08_decode_ser + the C08 correspondence")
TRUSTED_EXTRA = ["Spec/SegRules.v: the golden table (193 entries incl. the 4 breakaway additions) and the in/out lists, transcribed once from the pinned literal"]
ASSUMPTIONS = ["descriptors are built through CreateSCTE35/CreateSegmentationDescriptor and the setters; a signal 'without PTS' is a "
               "splice_null or a time_signal with the time flag off (its stored pts field still exists and CanClose reads it)",
               "dec-* cases: the sections are 'supported' sections of C08 (Spec/Scte35Spec.v wf_splice_info, table_id 0xFC, clear, "
               "splice_null / time_signal with time / splice_insert, pointer_field < 255); the descriptor judged is the FIRST "
               "segmentation descriptor of the section; the abstract record of a decoded descriptor is Exec/SegDecExec.v "
               "desc_of_decoded (executor glue, trusted; vss is not derived, CanClose/Equal do not read it); a time_signal without a "
               "time is rejected by the decoder, so decoded signals 'without PTS' are splice_null and time-less splice_insert"]

RULE_TYPES = {0x10, 0x11, 0x12, 0x13, 0x14, 0x19, 0x20, 0x21, 0x22, 0x23, 0x24, 0x25, 0x26, 0x27, 0x30, 0x31, 0x32, 0x33, 0x34,
              0x35, 0x36, 0x37, 0x3C, 0x3D, 0x40, 0x41, 0x42, 0x43, 0x44, 0x45, 0x50, 0x51}

FIELDS = ["id", "ty", "event", "haspts", "ptsv", "segnum", "segexp", "hassub", "subnum", "subexp"]


def dline(d):
    return "[ %d %d %d %d %d %d %d %d %d %d %s ]" % (d["id"], d["ty"], d["event"], d["haspts"], d["ptsv"], d["segnum"], d["segexp"],
                                                     d["hassub"], d["subnum"], d["subexp"], "[ %d ]" % d["vss"] if d.get("vss") is not None else "[ ]")


def row(tin, e1, e2, p1, p2, s1, s2, hpd, hpo, kind):
    return Case("seg.row %d %d %d %d %d %d %d %d %d" % (tin, e1, e2, p1, p2, s1, s2, hpd, hpo), kind=kind,
                nontrivial=tin in RULE_TYPES, theorem="C19_can_close_abstraction")


def family(base, rng):
    """base descriptor and every single-field variant (several alternative values per field)"""
    fam = [dict(base)]
    alts = {
        "ty": [base["ty"] ^ 1, base["ty"] ^ 2, 0x34, 0x36, 0x10, (base["ty"] + 0x80) % 256],
        "event": [base["event"] + 1, base["event"] ^ 0x80000000, base["event"] ^ 0x100, rng.randrange(2 ** 32)],
        "haspts": [1 - base["haspts"]],
        "ptsv": [(base["ptsv"] + 1) % 2 ** 33, base["ptsv"] ^ (1 << 32), base["ptsv"] ^ (1 << 31), rng.randrange(2 ** 33)],
        "segnum": [(base["segnum"] + 1) % 256, base["segnum"] ^ 0x80],
        "segexp": [(base["segexp"] + 1) % 256, base["segexp"] ^ 0x80],
        "hassub": [1 - base["hassub"]],
        "subnum": [(base["subnum"] + 1) % 256, base["subnum"] ^ 0x80],
        "subexp": [(base["subexp"] + 1) % 256, base["subexp"] ^ 0x80],
    }
    for f, vs in alts.items():
        for v in vs:
            d = dict(base); d[f] = v
            if d != base:
                fam.append(d)
    # a second copy of the base (a different object with the same fields) and two two-field variants
    fam.append(dict(base))
    d = dict(base); d["hassub"] = 1 - base["hassub"]; d["subnum"] = (base["subnum"] + 1) % 256; fam.append(d)
    d = dict(base); d["haspts"] = 0; d["ptsv"] = base["ptsv"] + 1; fam.append(d)
    for i, d in enumerate(fam):
        d["id"] = i
    return fam


# ------------------------------------------------------------------ decoded descriptors (seg.dec.*)
SUB_TYPES = (0x34, 0x36)     # the only types whose sub_segment_num / sub_segments_expected exist on the wire
IN_TYPES = {0x11, 0x12, 0x13, 0x15, 0x16, 0x18, 0x21, 0x23, 0x31, 0x33, 0x35, 0x37, 0x41, 0x45, 0x51}
OUT_TYPES = {0x10, 0x14, 0x17, 0x19, 0x20, 0x22, 0x30, 0x32, 0x34, 0x36, 0x40, 0x44, 0x50}
VIEW_NAMES = ["TypeID", "EventID", "SCTE35().HasPTS", "SCTE35().PTS", "SegmentNumber", "SegmentsExpected", "HasSubSegments",
              "SubSegmentNumber", "SubSegmentsExpected", "IsIn", "IsOut"]
_expect = {}   # request line -> expected getter views (from the logical values the sections were serialised from)


def norm(d):
    """what a section can carry: sub-segment fields only for 0x34/0x36 (absent -> HasSubSegments false, numbers 0)"""
    d = dict(d)
    if d["ty"] not in SUB_TYPES:
        d["hassub"] = 0
    if not d["hassub"]:
        d["subnum"] = d["subexp"] = 0
    return d


def view_of(d):
    d = norm(d)
    return [d["ty"], d["event"], d["haspts"], d["ptsv"], d["segnum"], d["segexp"], d["hassub"], d["subnum"], d["subexp"],
            int(d["ty"] in IN_TYPES), int(d["ty"] in OUT_TYPES)]


def section_of(d, rng, rich, raw_sub=None):
    """logical splice_info (wire shape of ser.scte) whose first segmentation descriptor is d and whose PTS() is d.ptsv;
    rich=False: time_signal / splice_null, pts_adjustment 0 unless there is no time, bare descriptor;
    raw_sub: sub-segment bytes forced on the wire whatever the type (fidelity only)"""
    d = norm(d)
    P = d["ptsv"]
    sub = [[d["subnum"], d["subexp"]]] if d["hassub"] else []
    if raw_sub is not None:
        sub = [list(raw_sub)]
    for attempt in range(8):
        r = rich and attempt < 6
        if r:
            restr = [] if rng.random() < 0.4 else [[rng.randrange(2), rng.randrange(2), rng.randrange(2), rng.randrange(4)]]
            body = L.g_segbody(rng, rng.choice([0, 0, 1, 2, 3]), rng.randrange(2), restr, rng.randrange(4), d["ty"], 0)
            body[5], body[6], body[7] = d["segnum"], d["segexp"], sub
        else:
            body = [[], [], [], [0, 0, b""], d["ty"], d["segnum"], d["segexp"], sub]
        descs = [[0, d["event"], [body]]]
        if r and rng.random() < 0.3:
            descs = [L.g_foreign(rng) for _ in range(rng.choice([1, 1, 2]))] + descs
        if r and rng.random() < 0.3:
            descs = descs + [L.g_seg(rng) if rng.random() < 0.7 else L.g_foreign(rng)]
        ins = lambda mode: [2, rng.randrange(1 << 32), [[rng.randrange(2), mode, L.g_break(rng, rng.randrange(3)),
                                                          rng.randrange(65536), rng.randrange(256), rng.randrange(256)]]]
        if d["haspts"]:
            t = rng.choice([P, rng.randrange(L.T33), L.T33 - 1, 0]) if r else P
            adj = (P - t) % L.T33
            cmd = ins([1, [t]]) if r and rng.random() < 0.35 else [1, [t]]
        else:
            adj = P        # no command time: PTS() is the pts_adjustment
            k = rng.randrange(5) if r else 0
            cmd = [[0], ins([0]), [2, rng.randrange(1 << 32), []], ins(L.g_mode(rng, 2)), ins(L.g_mode(rng, 3))][k]
        if r:
            s = L.g_signal(rng, cmd=cmd, descs=descs)
            s[8] = adj
        else:
            s = [b"", 0xFC, 0, 0, 3, 0, 0, 0, adj, 0, 0xFFF, 0, cmd, descs, b"", 0]
        if L.fits(s):
            return s
    raise RuntimeError("cannot build a section for %r" % d)


def serialise(signals):
    """bytes of each logical signal through the Coq serialiser ser.scte; the independent Python bit writer must agree
    (as sctelib.serialise)"""
    rep = vlib.run_model(["ser.scte " + L.fmt_val(s) for s in signals])
    out = []
    for s, r in zip(signals, rep):
        if not r.startswith("x"):
            raise RuntimeError("ser.scte rejected a generated logical signal: %s -> %s" % (L.fmt_val(s), r))
        b = bytes.fromhex(r[1:])
        if L.py_ser(s) != b:
            raise RuntimeError("Python and Coq SCTE-35 serialisers disagree on %s" % L.fmt_val(s))
        out.append(b)
    return out


class Pool:
    """collects logical sections, serialises them in one ser.scte batch"""
    def __init__(self):
        self.sigs = []; self.views = []; self.data = None

    def add(self, d, rng, rich, raw_sub=None, view=True):
        self.sigs.append(section_of(d, rng, rich, raw_sub)); self.views.append(view_of(d) if view else None)
        return len(self.sigs) - 1

    def add_logical(self, s):
        self.sigs.append(s); self.views.append(None)
        return len(self.sigs) - 1

    def serialise(self):
        self.data = serialise(self.sigs)

    def hx(self, i):
        return hx(self.data[i])


def d_variants(tin, e1, p1, s1, s2, hp):
    """incoming descriptors of type tin: segnum <> / = segments_expected (x the three sub-segment shapes where they exist)"""
    out = []
    for se in (0, 1):
        for hs, bn, be in ([(0, 0, 0), (1, 7, 7), (1, 8, 7)] if tin in SUB_TYPES else [(0, 0, 0)]):
            out.append(dict(ty=tin, event=e1, haspts=hp, ptsv=p1, segnum=s1 if se else s2, segexp=s1, hassub=hs, subnum=bn, subexp=be))
    return out


def o_variants(tout, e1, e2, p1, p2, s2, hp):
    """open descriptors of type tout: event id equal/different x PTS equal/different (sub-segment fields on some 0x34/0x36)"""
    return [dict(ty=tout, event=e1 if ee else e2, haspts=hp, ptsv=p1 if pe else p2, segnum=s2, segexp=(s2 + 1) % 256,
                 hassub=int(ee != pe), subnum=3, subexp=4) for ee in (0, 1) for pe in (0, 1)]


def chunks(l, n):
    return [l[i:i + n] for i in range(0, len(l), n)]


def dec_grids(rng, tier):
    """-> (pool, [(kind, tins, [D indices], [O indices])]) : the type/condition grid on decoded descriptors"""
    pool = Pool()
    plans = []
    rule = sorted(RULE_TYPES)
    rest = [t for t in range(256) if t not in RULE_TYPES]
    def value_set():
        e1 = rng.randrange(2 ** 32); p1 = rng.randrange(2 ** 33); s1 = rng.randrange(256)
        e2 = e1 ^ (1 << rng.randrange(32)); p2 = p1 ^ (1 << rng.randrange(33)); s2 = s1 ^ (1 << rng.randrange(8))
        return e1, e2, p1, p2, s1, s2
    full = chunks(rule, 8) + chunks(rest, 32)
    def olist(vals, rich, hp):
        e1, e2, p1, p2, s1, s2 = vals
        return [pool.add(o, rng, rich) for tout in range(256) for o in o_variants(tout, e1, e2, p1, p2, s2, hp)]
    def dlists(vals, rich, hp, tin_chunks):
        e1, e2, p1, p2, s1, s2 = vals
        return [(tins, [pool.add(d, rng, rich) for tin in tins for d in d_variants(tin, e1, p1, s1, s2, hp)]) for tins in tin_chunks]
    def grid(kind, DL, O):
        for tins, D in DL:
            plans.append((kind, tins, D, O))
    # minimal sections (time_signal, pts_adjustment 0, bare descriptor), canonical values: the whole grid
    vals = (5, 6, 1000, 2000, 2, 1)
    grid("dec-close-grid", dlists(vals, False, 1, full), olist(vals, False, 1))
    # randomised sections: the whole grid with a time on both sides; signals without a time on either / both sides
    for _ in range(1 if tier == "quick" else 6):
        vals = value_set()
        d_pts, o_pts, o_no = dlists(vals, True, 1, full), olist(vals, True, 1), olist(vals, True, 0)
        nopts_chunks = chunks(rule, 8) if tier == "quick" else full
        d_no = dlists(vals, True, 0, nopts_chunks)
        grid("dec-close-grid", d_pts, o_pts)
        grid("dec-close-nopts", d_no, o_pts)
        grid("dec-close-nopts", d_pts[:len(nopts_chunks)], o_no)
        grid("dec-close-nopts", d_no, o_no)
    return pool, plans


def rand_desc(rng, ty=None):
    ty = rng.choice(sorted(RULE_TYPES)) if ty is None else ty
    return dict(ty=ty, event=rng.randrange(2 ** 32), haspts=rng.choice([1, 1, 0]), ptsv=rng.randrange(2 ** 33), segnum=rng.randrange(256),
                segexp=rng.randrange(256), hassub=rng.randrange(2), subnum=rng.randrange(256), subexp=rng.randrange(256))


def dec_family(base, rng):
    """base descriptor and its single-field variants, restricted to what sections can carry"""
    base = norm(base)
    fam = [dict(base)]
    alts = {
        "ty": [base["ty"] ^ 1, base["ty"] ^ 2, 0x34, 0x36, 0x10, (base["ty"] + 0x80) % 256],
        "event": [(base["event"] + 1) % 2 ** 32, base["event"] ^ 0x80000000, base["event"] ^ 0x100, base["event"] ^ 0x10000, rng.randrange(2 ** 32)],
        "haspts": [1 - base["haspts"]],
        "ptsv": [(base["ptsv"] + 1) % 2 ** 33, base["ptsv"] ^ (1 << 32), base["ptsv"] ^ (1 << 31), base["ptsv"] ^ (1 << 8), rng.randrange(2 ** 33)],
        "segnum": [(base["segnum"] + 1) % 256, base["segnum"] ^ 0x80],
        "segexp": [(base["segexp"] + 1) % 256, base["segexp"] ^ 0x80],
    }
    if base["ty"] in SUB_TYPES:
        alts["hassub"] = [1 - base["hassub"]]
        if base["hassub"]:
            alts["subnum"] = [(base["subnum"] + 1) % 256, base["subnum"] ^ 0x80]
            alts["subexp"] = [(base["subexp"] + 1) % 256, base["subexp"] ^ 0x80]
    for f, vs in alts.items():
        for v in vs:
            d = dict(base); d[f] = v
            d = norm(d)     # a type change away from 0x34/0x36 also drops the sub-segment fields (they leave the wire)
            if d != base:
                fam.append(d)
    # two more encodings of the base itself (other command kind / pts split / neighbouring fields): Equal must not see them
    fam.append(dict(base)); fam.append(dict(base))
    if base["ty"] in SUB_TYPES:
        d = dict(base); d["hassub"] = 1 - base["hassub"]; d["subnum"] = (base["subnum"] + 1) % 256; d["subexp"] = 9; fam.append(norm(d))
    d = dict(base); d["haspts"] = 0; d["ptsv"] = (base["ptsv"] + 1) % 2 ** 33; fam.append(d)
    return fam


def gen_decoded(rng, tier):
    out = []
    pool, plans = dec_grids(rng, tier)
    # random pairs: clusters of four random sections whose event ids / PTS values are equal or one bit apart, every
    # ordered pair inside a cluster (incl. a descriptor against itself), plus pairs across clusters
    pairs = []
    prev = None
    for _ in range(200 if tier == "quick" else 5000):
        a = rand_desc(rng)
        if rng.random() < 0.5:
            a["segexp"] = a["segnum"]
        cl = [a]
        for _ in range(3):
            b = rand_desc(rng)
            b["event"] = rng.choice([a["event"], a["event"], b["event"], a["event"] ^ (1 << rng.randrange(32))])
            b["ptsv"] = rng.choice([a["ptsv"], a["ptsv"], b["ptsv"], a["ptsv"] ^ (1 << rng.randrange(33))])
            cl.append(b)
        idx = [pool.add(d, rng, True) for d in cl]
        pairs += [(i, j) for i in idx for j in idx]
        if prev:
            pairs += [(idx[0], prev[1]), (prev[2], idx[3])]
        prev = idx
    # Equal families
    bases = [
        dict(ty=0x34, event=77, haspts=1, ptsv=123456, segnum=2, segexp=3, hassub=1, subnum=1, subexp=2),
        dict(ty=0x10, event=1, haspts=1, ptsv=0, segnum=0, segexp=0, hassub=0, subnum=0, subexp=0),
        dict(ty=0x36, event=0xFFFFFFFF, haspts=1, ptsv=2 ** 33 - 1, segnum=255, segexp=255, hassub=0, subnum=0, subexp=0),
        dict(ty=0x36, event=0x01020304, haspts=1, ptsv=0x1A2B3C4D5, segnum=6, segexp=7, hassub=1, subnum=8, subexp=9),
        dict(ty=0x35, event=9, haspts=0, ptsv=500, segnum=1, segexp=1, hassub=0, subnum=0, subexp=0),
        dict(ty=0x40, event=3, haspts=1, ptsv=501, segnum=1, segexp=1, hassub=0, subnum=0, subexp=0),
    ]
    for _ in range(6 if tier == "quick" else 120):
        bases.append(rand_desc(rng, ty=rng.choice(sorted(RULE_TYPES) + [0x34, 0x36, 0x34, 0x36, 0, 1, 0xFF])))
    fams = []
    for i, b in enumerate(bases):
        fam = dec_family(b, rng)
        fams.append([pool.add(d, rng, rich=(i != 1) and not (k == 0 and i < 3)) for k, d in enumerate(fam)])
    # fidelity: sub-segment bytes behind a type that has none (outside wf_seg_body: the decoder must ignore them),
    # a section without a segmentation descriptor, a section the decoder refuses
    fid = []
    for ty in [0x30, 0x35, 0x37, 0x10, 0x00, 0xFF] + [rng.randrange(256) for _ in range(6 if tier == "quick" else 100)]:
        if ty in SUB_TYPES:
            continue
        a = rand_desc(rng, ty=ty)
        fid.append(("dec-fidelity-sub-on-other-type", pool.add(a, rng, True, raw_sub=(rng.randrange(256), rng.randrange(256))),
                    pool.add(rand_desc(rng, ty=rng.choice([0x34, 0x36, 0x30])), rng, True)))
    nodesc = pool.add_logical(L.g_signal(rng, cmd=[0], descs=[]))
    foreign_only = pool.add_logical(L.g_signal(rng, cmd=[1, [5]], descs=[L.g_foreign(rng)]))
    refused = pool.add_logical(L.g_signal(rng, cmd=[1, []], descs=[L.g_seg(rng)]))
    good = pool.add(rand_desc(rng), rng, True)
    for x in (nodesc, foreign_only, refused):
        fid.append(("dec-fidelity-no-descriptor", x, good)); fid.append(("dec-fidelity-no-descriptor", good, x))
    pool.serialise()

    for kind, tins, D, O in plans:
        line = "seg.dec.closem [ %s ] [ %s ]" % (" ".join(pool.hx(i) for i in D), " ".join(pool.hx(i) for i in O))
        _expect[line] = ([pool.views[i] for i in D], [pool.views[i] for i in O])
        out.append(Case(line, kind=kind, nontrivial=any(t in RULE_TYPES for t in tins), theorem="C19_can_close_abstraction"))
    for i, j in pairs:
        line = "seg.dec.close1 %s %s" % (pool.hx(i), pool.hx(j))
        _expect[line] = ([pool.views[i]], [pool.views[j]])
        out.append(Case(line, kind="dec-close-random", theorem="C19_can_close_abstraction"))
    for fam in fams:
        line = "seg.dec.eqm " + " ".join(pool.hx(i) for i in fam)
        _expect[line] = ([pool.views[i] for i in fam],)
        out.append(Case(line, kind="dec-equal", theorem="C19_equal_spec"))
    for kind, i, j in fid:
        out.append(Case("seg.dec.close1 %s %s" % (pool.hx(i), pool.hx(j)), kind=kind, decides=False, nontrivial=False,
                        theorem="Scte.new_scte35 + SegDecExec.desc_of_decoded vs scte35.NewSCTE35"))
        out.append(Case("seg.dec.eqm %s %s %s" % (pool.hx(i), pool.hx(j), pool.hx(i)), kind=kind, decides=False, nontrivial=False,
                        theorem="Scte.new_scte35 + SegDecExec.desc_of_decoded vs scte35.NewSCTE35"))
    return out


def case_of_line(line, kind):
    dec = not kind.startswith("dec-fidelity")
    return Case(line, kind=kind, decides=dec, nontrivial=dec)


def gen(rng, tier):
    out = []
    # 1. the closing relation, exhaustively
    for tin in range(256):
        out.append(row(tin, 5, 6, 1000, 2000, 2, 1, 1, 1, "row-canonical"))
    sets = 1 if tier == "quick" else 6
    for _ in range(sets):
        e1 = rng.randrange(2 ** 32); p1 = rng.randrange(2 ** 33); s1 = rng.randrange(255)
        e2 = e1 ^ (1 << rng.randrange(32)); p2 = p1 ^ (1 << rng.randrange(34)); s2 = (s1 ^ (1 << rng.randrange(8))) % 255
        if s2 == s1:
            s2 = (s1 + 1) % 255
        for tin in range(256):
            out.append(row(tin, e1, e2, p1, p2, s1, s2, 1, 1, "row-random-values"))
    for tin in sorted(RULE_TYPES) if tier == "quick" else range(256):
        out.append(row(tin, 7, 0x80000007, 0, 1 << 32, 0, 128, 0, 1, "row-nopts-incoming"))
        out.append(row(tin, 7, 0x107, 90001, 90000, 254, 0, 1, 0, "row-nopts-open"))
        out.append(row(tin, 7, 8, 0, 2, 1, 3, 0, 0, "row-nopts-both"))
    # 1b. random descriptor pairs through single CanClose calls (values not tied to the grid's representatives)
    rt = sorted(RULE_TYPES)
    for _ in range(3000 if tier == "quick" else 100000):
        a = dict(id=0, ty=rng.choice(rt), event=rng.randrange(2 ** 32), haspts=rng.choice([1, 1, 0]), ptsv=rng.randrange(2 ** 33),
                 segnum=rng.randrange(256), segexp=rng.randrange(256), hassub=rng.randrange(2), subnum=rng.randrange(256), subexp=rng.randrange(256))
        b = dict(id=1, ty=rng.choice(rt), event=rng.choice([a["event"], a["event"], rng.randrange(2 ** 32), a["event"] ^ (1 << rng.randrange(32))]),
                 haspts=rng.choice([1, 1, 0]), ptsv=rng.choice([a["ptsv"], a["ptsv"], rng.randrange(2 ** 33), a["ptsv"] ^ (1 << rng.randrange(33))]),
                 segnum=rng.randrange(256), segexp=rng.randrange(256), hassub=rng.randrange(2), subnum=rng.randrange(256), subexp=rng.randrange(256))
        if rng.random() < 0.5:
            a["segexp"] = a["segnum"]
        out.append(Case("seg.close1 %s %s" % (dline(a), dline(b)), kind="close-random", theorem="C19_can_close_abstraction"))
    # 1c. the relation must not depend on anything else: the same random pairs with "noise" (cancel indicator, duration, UPID,
    # components, restriction flags, tier / stuffing of the signal, neighbouring descriptors) set through the public setters
    # on either descriptor; the model ignores the noise (seeded C19-z2: CanClose false once a cancel indicator is set)
    for k in range(1500 if tier == "quick" else 60000):
        a = dict(id=0, ty=rng.choice(rt), event=rng.randrange(2 ** 32), haspts=rng.choice([1, 1, 0]), ptsv=rng.randrange(2 ** 33),
                 segnum=rng.randrange(256), segexp=rng.randrange(256), hassub=rng.randrange(2), subnum=rng.randrange(256), subexp=rng.randrange(256))
        b = dict(id=1, ty=rng.choice(rt), event=rng.choice([a["event"], a["event"], a["event"], rng.randrange(2 ** 32)]),
                 haspts=rng.choice([1, 1, 0]), ptsv=rng.choice([a["ptsv"], rng.randrange(2 ** 33), a["ptsv"] ^ (1 << rng.randrange(33))]),
                 segnum=rng.randrange(256), segexp=rng.randrange(256), hassub=rng.randrange(2), subnum=rng.randrange(256), subexp=rng.randrange(256))
        if rng.random() < 0.6:
            a["segexp"] = a["segnum"]
        if rng.random() < 0.5:
            a["subexp"] = a["subnum"]
        na = 1 << (k % 10) if k < 20 else rng.randrange(1 << 11)
        nb = 1 << ((k + 5) % 10) if 10 <= k < 30 else rng.choice([0, rng.randrange(1 << 11)])
        if k % 3 == 0:
            na, nb = nb, na
        out.append(Case("seg.close1n %s %s %d %d" % (dline(a), dline(b), na, nb), kind="close-noise", theorem="C19_can_close_abstraction"))
    # 1d. descriptors not (yet) attached to a signal: every rule that does not compare signal times answers as for attached
    # descriptors (seeded C19-v2: a guard made detached descriptors close nothing); all rule-type pairs x the condition grid
    for tin in rt:
        for tout in rt:
            for ee in (0, 1):
                for se in (0, 1):
                    a = dict(id=0, ty=tin, event=7, haspts=1, ptsv=1000, segnum=2 if se else 1, segexp=2, hassub=0, subnum=0, subexp=0)
                    b = dict(id=1, ty=tout, event=7 if ee else 8, haspts=1, ptsv=1000, segnum=1, segexp=2, hassub=0, subnum=0, subexp=0)
                    k = 1 + (tin + tout + ee + se) % 3
                    out.append(Case("seg.closedet %s %s %d" % (dline(a), dline(b), k), kind="close-detached", theorem="C19_can_close_abstraction"))
    # 2. classification
    out.append(Case("seg.inout", kind="inout", theorem="C19_in_out_lists"))
    # 3. Equal grid
    bases = [
        dict(ty=0x34, event=77, haspts=1, ptsv=123456, segnum=2, segexp=3, hassub=1, subnum=1, subexp=2),
        dict(ty=0x10, event=1, haspts=1, ptsv=0, segnum=0, segexp=0, hassub=0, subnum=0, subexp=0),
        dict(ty=0x36, event=0xFFFFFFFF, haspts=1, ptsv=2 ** 33 - 1, segnum=255, segexp=255, hassub=0, subnum=4, subexp=9),
        dict(ty=0x35, event=9, haspts=0, ptsv=500, segnum=1, segexp=1, hassub=0, subnum=0, subexp=0),
        dict(ty=0x40, event=3, haspts=0, ptsv=501, segnum=1, segexp=1, hassub=1, subnum=3, subexp=3),
    ]
    for _ in range(3 if tier == "quick" else 60):
        bases.append(dict(ty=rng.choice(sorted(RULE_TYPES) + [0, 1, 0xFF]), event=rng.randrange(2 ** 32), haspts=rng.choice([1, 1, 1, 0]),
                          ptsv=rng.randrange(2 ** 33), segnum=rng.randrange(256), segexp=rng.randrange(256), hassub=rng.randrange(2),
                          subnum=rng.randrange(256), subexp=rng.randrange(256)))
    for b in bases:
        fam = family(b, rng)
        out.append(Case("seg.eqm " + " ".join(dline(d) for d in fam), kind="equal-grid", theorem="C19_equal_sym"))
    # 3b. Equal with noise: each base, the base again with different noise, and two single-field variants
    for bi, b in enumerate(bases):
        fam = family(b, rng)
        pick = [fam[0], fam[0]] + [fam[i] for i in sorted(rng.sample(range(1, len(fam)), min(3, len(fam) - 1)))] + [fam[0]]
        for rep in range(2 if tier == "quick" else 8):
            ns = [rng.randrange(1 << 11) for _ in pick]
            if rep == 0:
                ns[0] = 0
                ns[1] = 1 << (bi % 10)
            out.append(Case("seg.eqn [ %s ] %s" % (" ".join(map(str, ns)), " ".join(dline(d) for d in pick)), kind="equal-noise",
                            theorem="C19_equal_sym"))
    # 4. the same relations on descriptors DECODED from section bytes
    out += gen_decoded(rng, tier)
    return out


def _delta(xs):
    """delta debugging candidates (lazy): xs with one chunk removed, chunk sizes n/2, n/4, .., 1"""
    n = len(xs)
    size = n // 2
    while size >= 1:
        for start in range(0, n, size):
            rest = xs[:start] + xs[start + size:]
            if len(rest) >= 1:
                yield rest
        size //= 2


def shrink(c):
    """seg.eqm / seg.dec.eqm: drop chunks of the family (delta debugging); seg.dec.closem: drop chunks of either section
    list, down to one pair (then restated as seg.dec.close1); the rows and the single pairs are already minimal"""
    import re
    if c.line.startswith("seg.eqm "):
        ds = re.findall(r"\[ [^\[\]]*\[ [^\[\]]*\] \]", c.line)
        for rest in _delta(ds):
            yield Case("seg.eqm " + " ".join(rest), kind=c.kind, theorem=c.theorem)
    elif c.line.startswith("seg.dec.eqm "):
        secs = c.line.split()[1:]
        for rest in _delta(secs):
            yield Case("seg.dec.eqm " + " ".join(rest), kind=c.kind, decides=c.decides, theorem=c.theorem)
    elif c.line.startswith("seg.dec.closem "):
        m = re.match(r"seg\.dec\.closem \[([^\]]*)\] \[([^\]]*)\]\s*$", c.line)
        if not m:
            return
        D, O = m.group(1).split(), m.group(2).split()
        if len(D) == 1 and len(O) == 1:
            yield Case("seg.dec.close1 %s %s" % (D[0], O[0]), kind=c.kind, decides=c.decides, theorem=c.theorem)
            return
        mk = lambda d, o: Case("seg.dec.closem [ %s ] [ %s ]" % (" ".join(d), " ".join(o)), kind=c.kind, decides=c.decides, theorem=c.theorem)
        # halves of either list first (bin/check adopts the first candidate that still fails), then finer chunks
        import itertools
        co = [mk(D, rest) for rest in itertools.islice(_delta(O), 14)]
        cd = [mk(rest, O) for rest in itertools.islice(_delta(D), 14)]
        for a, b in itertools.zip_longest(chunks(co, 2), chunks(cd, 2)):
            for x in (a or []) + (b or []):
                yield x


def search(c, rng):
    for tin in range(256):
        yield row(tin, 5, 6, 1000, 2000, 2, 1, 1, 1, "search")


def _sv(v):
    """sview -> readable"""
    if v and v[0] == 0:
        if not v[1]:
            return "decoded, no segmentation descriptor"
        return "[" + ", ".join("%s=%s" % (n, ("0x%02x" % x) if n == "TypeID" else x) for n, x in zip(VIEW_NAMES, v[1][0])) + "]"
    if v and v[0] == 1:
        return "decoder error %s" % v[1]
    return {2: "decoder panicked", 3: "decoder did not terminate"}.get(v[0] if v else None, str(v))


def _view_diff(what, r, m):
    for i in range(max(len(r), len(m))):
        a = r[i] if i < len(r) else None
        b = m[i] if i < len(m) else None
        if a != b:
            field = ""
            try:
                if a[0] == 0 and b[0] == 0 and a[1] and b[1]:
                    k = [x != y for x, y in zip(a[1][0], b[1][0])].index(True)
                    field = " (first differing getter: %s real %s, required %s)" % (VIEW_NAMES[k], a[1][0][k], b[1][0][k])
            except Exception:
                pass
            return "%s section #%d decodes to a descriptor whose getters differ from the abstract record%s: real %s, required %s" % (what, i, field, _sv(a), _sv(b))
    return None


def dec_oracle(case, real, model):
    """seg.dec.*: (0) the model's decoded views must be the logical values the generator serialised (else the generator or the
    glue is wrong: not a verdict about gots), (1) real == model, with a message naming the first difference"""
    from vlib import parse_val
    try:
        m = parse_val(model)
        op = case.line.split(" ", 1)[0]
        exp = _expect.get(case.line)
        if exp is not None:
            got = (m[0], m[1]) if op == "seg.dec.closem" else ([m[0]], [m[1]]) if op == "seg.dec.close1" else (m[0],)
            for g, e in zip(got, exp):
                for i, (gv, ev) in enumerate(zip(g, e)):
                    if ev is not None and gv != [0, [ev]]:
                        return ("generator/glue defect (not a verdict): the MODEL decodes section #%d to %s but it was serialised from %s"
                                % (i, _sv(gv), ev))
        if real == model:
            return ""
        r = parse_val(real)
        if not isinstance(r, list) or len(r) != len(m):
            return "real code answered %s where the model answers %s" % (real[:200], model[:200])
        if op == "seg.dec.eqm":
            msg = _view_diff("the", r[0], m[0])
            if msg:
                return msg
            for i in range(len(m[1])):
                for j in range(len(m[1][i])):
                    if r[1][i][j] != m[1][i][j]:
                        return ("Equal(decoded #%d, decoded #%d): real %d, required %d; #%d = %s, #%d = %s"
                                % (i, j, r[1][i][j], m[1][i][j], i, _sv(m[0][i]), j, _sv(m[0][j])))
            if r[2] != m[2]:
                return "Equal modified one of its (decoded) arguments"
        else:
            vd, vo = (r[0], r[1]), (m[0], m[1])
            if op == "seg.dec.close1":
                rd, ro, md, mo = [r[0]], [r[1]], [m[0]], [m[1]]
                rrows, mrows = ([r[2]] if r[2] else []), ([m[2]] if m[2] else [])
            else:
                rd, ro, md, mo = r[0], r[1], m[0], m[1]
                rrows, mrows = r[2], m[2]
            msg = _view_diff("incoming (D)", rd, md) or _view_diff("open (O)", ro, mo)
            if msg:
                return msg
            for i in range(len(mrows)):
                for j in range(len(mrows[i])):
                    if rrows[i][j] != mrows[i][j]:
                        return ("CanClose(decoded incoming #%d, decoded open #%d): real %d, rule table requires %d; incoming = %s, open = %s"
                                % (i, j, rrows[i][j], mrows[i][j], _sv(md[i]), _sv(mo[j])))
            if r[3] != m[3]:
                return "CanClose modified one of its (decoded) arguments"
    except Exception as e:
        return "observed differs from required (%s)" % e
    return "observed differs from required"


def oracle(case, real, model):
    """projected equality, with a readable message naming the first differing cell"""
    if model in ("[8]", "[9]") or real in ("[8]", "[9]"):
        return "an executor rejected the request line (generator defect, not a verdict): real %s model %s" % (real, model)
    if case.line.startswith("seg.dec."):
        return dec_oracle(case, real, model)
    if real == model:
        return ""
    if case.line.startswith("seg.closedet ") and real == "[2]":
        return ""   # the signal-time rule on a descriptor without a signal: nil dereference, outside the property (see goexec/seg.go)
    try:
        from vlib import parse_val
        r, m = parse_val(real), parse_val(model)
        f = case.line.split()
        if f[0] == "seg.row":
            for tout in range(256):
                if r[tout] != m[tout]:
                    k = 0
                    while ((r[tout] >> k) & 1) == ((m[tout] >> k) & 1):
                        k += 1
                    return ("CanClose(incoming type 0x%02x, open type 0x%02x) with event ids %s, PTS values %s, segnum %s segexp, "
                            "sub-segment shape %d: real %d, rule table requires %d"
                            % (int(f[1]), tout, "equal" if (k // 12) % 2 else "different", "equal" if (k // 6) % 2 else "different",
                               "=" if (k // 3) % 2 else "<>", k % 3, (r[tout] >> k) & 1, (m[tout] >> k) & 1))
        if f[0] == "seg.inout":
            for t in range(256):
                if r[t] != m[t]:
                    return "type 0x%02x: real (IsIn, IsOut) = %s, documented lists require %s" % (t, r[t], m[t])
        if f[0] == "seg.eqm":
            n = len(m) - 1
            for i in range(n):
                for j in range(n):
                    if r[i][j] != m[i][j]:
                        return "Equal(descriptor %d, descriptor %d) of the family: real %d, required %d" % (i, j, r[i][j], m[i][j])
            if r[n] != m[n]:
                return "Equal(nil) returned true" if r[n] == 2 else "Equal modified one of its arguments"
        if f[0] == "seg.close1n":
            names = ["CanClose(d, o)", "d.IsIn()", "d.IsOut()", "o.IsIn()", "o.IsOut()"]
            for k in range(5):
                if r[k] != m[k]:
                    return ("%s = %d, required %d: the relation depends on a field outside (type, event id, PTS, segment numbers) - "
                            "noise masks d=%s o=%s (goexec/seg.go mkDescN)" % (names[k], r[k], m[k], f[-2], f[-1]))
        if f[0] == "seg.closedet":
            names = ["CanClose(d, o)", "d.IsIn()", "d.IsOut()", "o.IsIn()", "o.IsOut()"]
            for k in range(5):
                if r[k] != m[k]:
                    return "%s = %d, required %d on descriptors not attached to a signal (mode %s)" % (names[k], r[k], m[k], f[-1])
        if f[0] == "seg.eqn":
            for i in range(len(m)):
                for j in range(len(m)):
                    if r[i][j] != m[i][j]:
                        return "Equal(descriptor %d, descriptor %d) built with noise: real %d, required %d" % (i, j, r[i][j], m[i][j])
    except Exception as e:
        return "observed differs from required (%s)" % e
    return "observed differs from required"


LEVEL_TEXT = ("Proof: Coq theorems (Properties/C19.v) over a model of CanClose/Equal/IsIn/IsOut and the segCloseRules literal: the closing "
              "relation equals the golden table of Spec/SegRules.v as a function of (type, type, event-equal, pts-equal, segnum=segexp) for "
              "ALL descriptor pairs (finite reflection over 256x256x8 plus record reasoning), the classification lists, and Equal as an "
              "equivalence on descriptors with a PTS and a congruence for CanClose. The model is tied to the code exhaustively on every run, "
              "on descriptors built with the setters and on descriptors decoded from section bytes (the decoder model of C08 followed by "
              "the glue desc_of_decoded; the sections themselves are a sample).")
LEVEL_NOTE = ("Trusted: Coq kernel; Spec/SegRules.v as the reading of the documented table (transcribed once from the pinned literal); "
              "Model/SegDesc.v (checked exhaustively by the correspondence); extraction and executor glue, including "
              "Exec/SegDecExec.v desc_of_decoded (which getter of a decoded descriptor is which field of the abstract record; every "
              "such getter is compared on every decoded case).")
TECHNIQUE = "Coq proof (finite reflection over the type grid + record reasoning) + exhaustive model/implementation correspondence through the public API (setter-built and decoded descriptors)"


# coverage round (notes/coverage.md): cases and support theorems for exported identifiers outside the property text
from gen import covlib
covlib.install(globals())
