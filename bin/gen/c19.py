"""C19 — closing relation / in-out classification / Equal: exhaustive grids through the real API."""
from vlib import Case

PROP = "C19"
PROOF_FILES = ["Properties/C19.v"]
RULE = ("seg.row tin ...: one line per incoming type (all 256), each line = 256 open types x 24 condition combinations "
        "(event ids equal/different x PTS values equal/different x segment_num equal/different from segments_expected x "
        "{no sub-segments, sub_num = sub_expected, sub_num <> sub_expected}) through the real CanClose on descriptors built "
        "with the public API; the canonical value set plus value sets that differ only in high bits and signals without "
        "PTS; seg.close1: random descriptor pairs (rule types, random field values, equal/near-equal event ids and PTS); seg.inout: IsIn/IsOut of all 256 types; seg.eqm: Equal on every ordered pair of a family made of a base "
        "descriptor and all its single-field variants (also checks symmetry data and that Equal does not modify its "
        "arguments). A line is non-trivial when its incoming type has at least one rule (seg.row), always for the others.")
EXHAUSTIVE = True
EXHAUSTIVE_NOTE = ("256 x 256 types x 2 x 2 x 2 (x 3 sub-segment shapes) = 1 572 864 CanClose calls per value set, all 256 types "
                   "through IsIn/IsOut, and the complete single-field-difference grid of Equal are enumerated on every run; "
                   "the dependence on the field VALUES only through their equalities is the theorem C19_can_close_abstraction")
TRUSTED_EXTRA = ["Spec/SegRules.v: the golden table (193 entries incl. the 4 breakaway additions) and the in/out lists, transcribed once from the pinned literal"]
ASSUMPTIONS = ["descriptors are built through CreateSCTE35/CreateSegmentationDescriptor and the setters; a signal 'without PTS' is a "
               "splice_null or a time_signal with the time flag off (its stored pts field still exists and CanClose reads it)"]

RULE_TYPES = {0x10, 0x11, 0x12, 0x13, 0x14, 0x19, 0x20, 0x21, 0x22, 0x23, 0x24, 0x25, 0x26, 0x27, 0x30, 0x31, 0x32, 0x33, 0x34,
              0x35, 0x36, 0x37, 0x3C, 0x3D, 0x40, 0x41, 0x42, 0x43, 0x44, 0x45, 0x50, 0x51}

FIELDS = ["id", "ty", "event", "haspts", "ptsv", "segnum", "segexp", "hassub", "subnum", "subexp"]


def dline(d):
    return "[ %d %d %d %d %d %d %d %d %d %d %s ]" % (d["id"], d["ty"], d["event"], d["haspts"], d["ptsv"], d["segnum"], d["segexp"],
                                                     d["hassub"], d["subnum"], d["subexp"], "[ %d ]" % d["vss"] if d.get("vss") is not None else "[ ]")


def row(tin, e1, e2, p1, p2, s1, s2, hpd, hpo, kind):
    return Case("seg.row %d %d %d %d %d %d %d %d %d" % (tin, e1, e2, p1, p2, s1, s2, hpd, hpo), kind=kind,
                nontrivial=tin in RULE_TYPES, theorem="C19_can_close_abstraction")


def family(base, rng):
    """base descriptor and every single-field variant (several alternative values per field)"""
    fam = [dict(base)]
    alts = {
        "ty": [base["ty"] ^ 1, base["ty"] ^ 2, 0x34, 0x36, 0x10, (base["ty"] + 0x80) % 256],
        "event": [base["event"] + 1, base["event"] ^ 0x80000000, base["event"] ^ 0x100, rng.randrange(2 ** 32)],
        "haspts": [1 - base["haspts"]],
        "ptsv": [base["ptsv"] + 1, base["ptsv"] ^ (1 << 32), base["ptsv"] ^ (1 << 33), rng.randrange(2 ** 33)],
        "segnum": [(base["segnum"] + 1) % 256, base["segnum"] ^ 0x80],
        "segexp": [(base["segexp"] + 1) % 256, base["segexp"] ^ 0x80],
        "hassub": [1 - base["hassub"]],
        "subnum": [(base["subnum"] + 1) % 256, base["subnum"] ^ 0x80],
        "subexp": [(base["subexp"] + 1) % 256, base["subexp"] ^ 0x80],
    }
    for f, vs in alts.items():
        for v in vs:
            d = dict(base); d[f] = v
            if d != base:
                fam.append(d)
    # a second copy of the base (a different object with the same fields) and two two-field variants
    fam.append(dict(base))
    d = dict(base); d["hassub"] = 1 - base["hassub"]; d["subnum"] = (base["subnum"] + 1) % 256; fam.append(d)
    d = dict(base); d["haspts"] = 0; d["ptsv"] = base["ptsv"] + 1; fam.append(d)
    for i, d in enumerate(fam):
        d["id"] = i
    return fam


def gen(rng, tier):
    out = []
    # 1. the closing relation, exhaustively
    for tin in range(256):
        out.append(row(tin, 5, 6, 1000, 2000, 2, 1, 1, 1, "row-canonical"))
    sets = 1 if tier == "quick" else 6
    for _ in range(sets):
        e1 = rng.randrange(2 ** 32); p1 = rng.randrange(2 ** 33); s1 = rng.randrange(255)
        e2 = e1 ^ (1 << rng.randrange(32)); p2 = p1 ^ (1 << rng.randrange(34)); s2 = (s1 ^ (1 << rng.randrange(8))) % 255
        if s2 == s1:
            s2 = (s1 + 1) % 255
        for tin in range(256):
            out.append(row(tin, e1, e2, p1, p2, s1, s2, 1, 1, "row-random-values"))
    for tin in sorted(RULE_TYPES) if tier == "quick" else range(256):
        out.append(row(tin, 7, 0x80000007, 0, 1 << 32, 0, 128, 0, 1, "row-nopts-incoming"))
        out.append(row(tin, 7, 0x107, 90001, 90000, 254, 0, 1, 0, "row-nopts-open"))
        out.append(row(tin, 7, 8, 0, 2, 1, 3, 0, 0, "row-nopts-both"))
    # 1b. random descriptor pairs through single CanClose calls (values not tied to the grid's representatives)
    rt = sorted(RULE_TYPES)
    for _ in range(3000 if tier == "quick" else 100000):
        a = dict(id=0, ty=rng.choice(rt), event=rng.randrange(2 ** 32), haspts=rng.choice([1, 1, 0]), ptsv=rng.randrange(2 ** 33),
                 segnum=rng.randrange(256), segexp=rng.randrange(256), hassub=rng.randrange(2), subnum=rng.randrange(256), subexp=rng.randrange(256))
        b = dict(id=1, ty=rng.choice(rt), event=rng.choice([a["event"], a["event"], rng.randrange(2 ** 32), a["event"] ^ (1 << rng.randrange(32))]),
                 haspts=rng.choice([1, 1, 0]), ptsv=rng.choice([a["ptsv"], a["ptsv"], rng.randrange(2 ** 33), a["ptsv"] ^ (1 << rng.randrange(33))]),
                 segnum=rng.randrange(256), segexp=rng.randrange(256), hassub=rng.randrange(2), subnum=rng.randrange(256), subexp=rng.randrange(256))
        if rng.random() < 0.5:
            a["segexp"] = a["segnum"]
        out.append(Case("seg.close1 %s %s" % (dline(a), dline(b)), kind="close-random", theorem="C19_can_close_abstraction"))
    # 2. classification
    out.append(Case("seg.inout", kind="inout", theorem="C19_in_out_lists"))
    # 3. Equal grid
    bases = [
        dict(ty=0x34, event=77, haspts=1, ptsv=123456, segnum=2, segexp=3, hassub=1, subnum=1, subexp=2),
        dict(ty=0x10, event=1, haspts=1, ptsv=0, segnum=0, segexp=0, hassub=0, subnum=0, subexp=0),
        dict(ty=0x36, event=0xFFFFFFFF, haspts=1, ptsv=2 ** 33 - 1, segnum=255, segexp=255, hassub=0, subnum=4, subexp=9),
        dict(ty=0x35, event=9, haspts=0, ptsv=500, segnum=1, segexp=1, hassub=0, subnum=0, subexp=0),
        dict(ty=0x40, event=3, haspts=0, ptsv=501, segnum=1, segexp=1, hassub=1, subnum=3, subexp=3),
    ]
    for _ in range(3 if tier == "quick" else 60):
        bases.append(dict(ty=rng.choice(sorted(RULE_TYPES) + [0, 1, 0xFF]), event=rng.randrange(2 ** 32), haspts=rng.choice([1, 1, 1, 0]),
                          ptsv=rng.randrange(2 ** 33), segnum=rng.randrange(256), segexp=rng.randrange(256), hassub=rng.randrange(2),
                          subnum=rng.randrange(256), subexp=rng.randrange(256)))
    for b in bases:
        fam = family(b, rng)
        out.append(Case("seg.eqm " + " ".join(dline(d) for d in fam), kind="equal-grid", theorem="C19_equal_sym"))
    return out


def shrink(c):
    """seg.eqm: drop chunks of the family (delta debugging); the rows are already minimal"""
    if not c.line.startswith("seg.eqm "):
        return
    import re
    ds = re.findall(r"\[ [^\[\]]*\[ [^\[\]]*\] \]", c.line)
    n = len(ds)
    size = n // 2
    while size >= 1:
        for start in range(0, n, size):
            rest = ds[:start] + ds[start + size:]
            if len(rest) >= 1:
                yield Case("seg.eqm " + " ".join(rest), kind=c.kind, theorem=c.theorem)
        size //= 2


def search(c, rng):
    for tin in range(256):
        yield row(tin, 5, 6, 1000, 2000, 2, 1, 1, 1, "search")


def oracle(case, real, model):
    """projected equality, with a readable message naming the first differing cell"""
    if model in ("[8]", "[9]") or real in ("[8]", "[9]"):
        return "an executor rejected the request line (generator defect, not a verdict): real %s model %s" % (real, model)
    if real == model:
        return ""
    try:
        from vlib import parse_val
        r, m = parse_val(real), parse_val(model)
        f = case.line.split()
        if f[0] == "seg.row":
            for tout in range(256):
                if r[tout] != m[tout]:
                    k = 0
                    while ((r[tout] >> k) & 1) == ((m[tout] >> k) & 1):
                        k += 1
                    return ("CanClose(incoming type 0x%02x, open type 0x%02x) with event ids %s, PTS values %s, segnum %s segexp, "
                            "sub-segment shape %d: real %d, rule table requires %d"
                            % (int(f[1]), tout, "equal" if (k // 12) % 2 else "different", "equal" if (k // 6) % 2 else "different",
                               "=" if (k // 3) % 2 else "<>", k % 3, (r[tout] >> k) & 1, (m[tout] >> k) & 1))
        if f[0] == "seg.inout":
            for t in range(256):
                if r[t] != m[t]:
                    return "type 0x%02x: real (IsIn, IsOut) = %s, documented lists require %s" % (t, r[t], m[t])
        if f[0] == "seg.eqm":
            n = len(m) - 1
            for i in range(n):
                for j in range(n):
                    if r[i][j] != m[i][j]:
                        return "Equal(descriptor %d, descriptor %d) of the family: real %d, required %d" % (i, j, r[i][j], m[i][j])
            if r[n] != m[n]:
                return "Equal modified one of its arguments"
    except Exception as e:
        return "observed differs from required (%s)" % e
    return "observed differs from required"


LEVEL_TEXT = ("Proof: Coq theorems (Properties/C19.v) over a model of CanClose/Equal/IsIn/IsOut and the segCloseRules literal: the closing "
              "relation equals the golden table of Spec/SegRules.v as a function of (type, type, event-equal, pts-equal, segnum=segexp) for "
              "ALL descriptor pairs (finite reflection over 256x256x8 plus record reasoning), the classification lists, and Equal as an "
              "equivalence on descriptors with a PTS and a congruence for CanClose. The model is tied to the code exhaustively on every run.")
LEVEL_NOTE = ("Trusted: Coq kernel; Spec/SegRules.v as the reading of the documented table (transcribed once from the pinned literal); "
              "Model/SegDesc.v (checked exhaustively by the correspondence); extraction and executor glue.")
TECHNIQUE = "Coq proof (finite reflection over the type grid + record reasoning) + exhaustive model/implementation correspondence through the public API"
