"""C14 — PMT filtering emits exactly the well-formed PMT of the selected streams; error contract;
RemoveElementaryStreams / Pids / PIDExists."""
import vlib
from vlib import Case, hx
import gen.pmtlib as L
from gen.pmtlib import fmt_val

PROP = "C14"
PROOF_FILES = ["Properties/C14.v", "Properties/C13tie.v", "Properties/ModelTie.v"]
RULE = ("the C06 carrier generator restricted to pointer_field + one PMT section (CRC computed by the Coq model of "
        "ComputeCRC) + stuffing, packetised by the Coq spec (ser.pkts: full / random / tiny chunks, adaptation-field "
        "stuffing, empty-payload packets, trailing all-stuffing packets), crossed with requested PID lists: every subset "
        "shape (all, one, some, none), reordered, duplicated, absent PIDs, PAT PID 0, the PMT PID (alone and mixed with absent / "
        "present / duplicated PIDs: kinds ign-*, pat-and-missing, always generated), the empty list, the empty "
        "packet list; through FilterPMTPacketsToPids (packets, error class, missing-PID list, inputs after the call) and "
        "through NewPMT + RemoveElementaryStreams + Pids + PIDExists. Non-trivial = distinct request on a well-formed "
        "carrier. Carriers with a preceding section, corrupted payloads and packets without payload are fidelity cases.")
EXHAUSTIVE = False
EXHAUSTIVE_NOTE = ""
ASSUMPTIONS = ["caller slices have cap = len", "the text of the fmt.Errorf error is only compared through its PID list",
               "ComputeCRC is compared through the executable model Pmt.crc_model (its equality with CRC-32/MPEG-2 is C13)"]
PARTIAL = ("no clause is partial; the CRC clause is relative to the executable model of gots.ComputeCRC (C13 proves that function), "
           "the error is compared by class and PID list, not by text; 'inputs not modified' is a goexec snapshot check only (aliasing)")


EXPECT = {}


def oracle(c, real, model):
    exp = EXPECT.get(c.line)
    if exp is not None and real != exp:
        return "observed differs from what the Spec-side oracle (spec.filter: missing_of / filtered_sec / spec_repack) requires: " + exp[:300]
    return None


def pid_lists(rng, c, pmt_pid):
    have = [pid for _, pid, _ in c["sec"]["streams"]]
    # 8 and 9 are never requested: bin/check used to treat a reply containing "[8]" / "[9]" (now the markers are [-8888] / [-9999]), hence historically (here: a one-element missing-PID list) as a protocol error
    absent = [p for p in (5, 17, 8000, 8191, 70000, rng.randrange(10, 8192)) if p not in have and p != pmt_pid]
    out = [("empty", []), ("all", list(have)), ("all-reversed", list(reversed(have)))]
    if have:
        out.append(("one", [rng.choice(have)]))
        k = rng.randrange(1, len(have) + 1)
        sub = rng.sample(have, k)
        out.append(("subset", sub))
        out.append(("subset-dup", sub + [sub[0]]))
        out.append(("some-missing", sub + absent[:rng.randrange(1, 3)]))
        out.append(("some-missing-first", absent[:1] + sub))
        out.append(("with-pat-pmt", [0] + sub + [pmt_pid]))
    out.append(("none", absent[:rng.randrange(1, 4)]))
    out.append(("none-dup", [absent[0], absent[0]]))
    out.append(("only-pat", [0]))
    out.append(("only-pmt-pid", [pmt_pid]))
    out.append(("pat-and-missing", [0, absent[0]]))
    out.append(("pat-pmt-dup", [0, 0, pmt_pid]))
    # the PAT / PMT PID mixed with absent, present and duplicated PIDs (audit 1 item 3; /repo 4841ed3): the ignored PIDs must
    # not count when deciding "none of the requested PIDs is in the PMT"
    out.append(("ign-pmt-and-absent", [pmt_pid, absent[0]]))
    out.append(("ign-absent-then-pat", [absent[0], 0]))
    out.append(("ign-both-and-absent-dup", [0, absent[0], pmt_pid, absent[0]]))
    out.append(("ign-both-and-two-absent", [pmt_pid, absent[0], 0, absent[-1]]))
    if have:
        out.append(("ign-pat-present-absent", [0, have[0], absent[0]]))
        out.append(("ign-pmt-present-dup", [pmt_pid, have[-1], have[-1], pmt_pid]))
        out.append(("ign-pat-dup-present-absent-dup", [0, 0, have[0], absent[0], absent[0], have[0]]))
        # requested PIDs beyond 13 bits whose low 13 bits are a stream's PID are NOT that stream (seeded C14-u1: a lookup table
        # indexed by pid & 0x1fff)
        out.append(("oor-some", [have[0], have[-1] + 8192]))
        out.append(("oor-none", [have[0] + 8192, have[-1] + 0x10000]))
        if len(have) >= 2:
            out.append(("oor-mixed", [have[1] + 8192, have[0], have[1] + 16384]))
    return out


def gen(rng, tier):
    out = []
    quick = tier == "quick"
    n = 160 if quick else 2000
    carriers = [L.rand_carrier(rng, crc="computed", allow_pre=False, small=(i % 5 == 4)) for i in range(n)]
    for c in carriers:
        style = rng.choice(["none", "few", "fill", "many"])
        c["stuffing"] = {"none": 0, "few": rng.randrange(1, 5), "fill": (184 - c["unit_len"] % 184) % 184,
                         "many": rng.randrange(1, 300)}[style]
    payloads = L.ser_payloads(carriers)
    EXPECT.clear()
    lines, pids, itemss, spec_req = [], [], [], []
    for c, p in zip(carriers, payloads):
        pid = rng.choice(L.PMT_PID_CHOICES + [rng.randrange(1, 8191)])
        cuts = L.rand_cuts(rng, len(p), set())
        items = L.items_for(rng, p, cuts, pid, interleave=False, tail_other=False)
        lines.append(L.stream_line(pid, items, "ser.pkts"))
        pids.append(pid); itemss.append(items)
    pkt_lists = vlib.run_model(lines)
    hyps = vlib.run_model(["spec.hyp.filter %d %s %d %d %s" % (c["pf"], fmt_val(L.fmt_section(c["sec"])), c["stuffing"], pid, fmt_val(items))
                           for c, pid, items in zip(carriers, pids, itemss)])
    out.append(Case("pmt.filter [ ] [ 1 2 ]", kind="no-packets", theorem="C14_filter_no_packets"))
    for c, p, pl, pid, items, h in zip(carriers, payloads, pkt_lists, pids, itemss, hyps):
        pl_req = pl.replace("[", "[ ").replace("]", " ]")
        if h != "1":    # hyp_filterb of the Coq spec rejects the case: generator drift, nothing decided here
            out.append(Case("pmt.filter %s [ 0 ]" % pl_req, kind="hyp-false", decides=False, nontrivial=False))
            continue
        choices = pid_lists(rng, c, pid)
        if quick:
            keep = [x for x in choices if x[0] in ("empty", "all", "pat-and-missing") or x[0].startswith("ign-") or x[0].startswith("oor-")] + \
                   rng.sample(choices, min(6, len(choices)))
        else:
            keep = choices
        for kind, want in keep:
            th = "C14_filter_spec" if kind in ("all", "all-reversed", "one", "subset", "subset-dup", "with-pat-pmt") else \
                 "C14_filter_empty_pids" if kind == "empty" else \
                 "C14_filter_errors_only_pat_pmt_pid" if kind in ("only-pat", "only-pmt-pid", "pat-pmt-dup") else \
                 "C14_filter_errors_none_present" if kind in ("none", "none-dup", "pat-and-missing", "ign-pmt-and-absent",
                                                              "ign-absent-then-pat", "ign-both-and-absent-dup",
                                                              "ign-both-and-two-absent") else "C14_filter_errors_some_present"
            line = "pmt.filter %s %s" % (pl_req, fmt_val(want))
            spec_req.append((line, "spec.filter %d %s %d %s %s" % (c["pf"], fmt_val(L.fmt_section(c["sec"])), pid,
                                                                  fmt_val(items), fmt_val(want))))
            out.append(Case(line, kind="filter-" + kind, theorem=th))
        have = [x for _, x, _ in c["sec"]["streams"]]
        for k in range(4):
            rm = [rng.choice(have + [7, 8000]) for _ in range(rng.randrange(0, 4))]
            if k >= 2 and have:
                i = rng.randrange(len(have)); j = rng.randrange(i + 1, len(have) + 1)
                rm = have[i:j]          # a contiguous run of the PID list (goexec also passes the PMT's own Pids()[i:j])
            qs = have + [7, 0, 8000]
            out.append(Case("pmt.remove %s %s %s" % (hx(p), fmt_val(rm), fmt_val(qs)), kind="remove",
                            theorem="C14_remove_streams"))
    for (line, _), exp in zip(spec_req, vlib.run_model([r for _, r in spec_req])):
        EXPECT[line] = exp
    # ---- the executable model of gots.ComputeCRC against the real function (C14's CRC clause is stated relative to it)
    for n in [0, 1, 2, 3, 4, 5, 16, 183, 184, 1024] + [rng.randrange(0, 1200) for _ in range(40 if quick else 400)]:
        out.append(Case("pmt.computecrc %s" % hx(L.rand_bytes(rng, n)), kind="crc-model", theorem="C14_filter_spec",
                        note="Pmt.crc_model = gots.ComputeCRC on this input"))
    # ---- fidelity: outside the hypotheses
    nf = 25 if quick else 400
    fc = [L.rand_carrier(rng, crc="computed", allow_pre=True) for _ in range(nf)]
    for c in fc:
        c["stuffing"] = rng.randrange(0, 30)
    fp = L.ser_payloads(fc)
    flines, fmeta = [], []
    for c, p in zip(fc, fp):
        q = bytearray(p)
        mode = rng.choice(["pre", "flip", "len", "trunc"])
        base = 1 + c["pf"] + sum(3 + len(b) for _, _, b in c["pre"])
        if mode == "flip":
            i = rng.randrange(len(q)); q[i] ^= 1 << rng.randrange(8)
        elif mode == "len":
            off = rng.choice([1, 2, 10, 11]); q[base + off] = (q[base + off] + rng.choice([1, 255, 16])) % 256
        elif mode == "trunc":
            q = q[:rng.randrange(1, len(q))]
        q = bytes(q)
        cuts = L.rand_cuts(rng, len(q), set())
        items = L.items_for(rng, q, cuts, 256, interleave=False, tail_other=False)
        flines.append(L.stream_line(256, items, "ser.pkts"))
        fmeta.append((c, mode))
    for (c, mode), pl in zip(fmeta, vlib.run_model(flines)):
        pl_req = pl.replace("[", "[ ").replace("]", " ]")
        have = [x for _, x, _ in c["sec"]["streams"]]
        want = have[:2] + [0] if rng.random() < 0.7 else [7]
        out.append(Case("pmt.filter %s %s" % (pl_req, fmt_val(want)), kind="fid-" + mode, decides=False, nontrivial=False))
        # a packet of another PID inside the list (the filter concatenates every payload it is given)
        toks = pl_req.split()
        if len(toks) > 2:
            toks.insert(2, hx(L.other_packet(rng, 256)))
            out.append(Case("pmt.filter %s %s" % (" ".join(toks), fmt_val(want)), kind="fid-mixed-pids", decides=False, nontrivial=False))
        # a packet without the payload flag in the list
        toks = pl_req.split()
        if len(toks) > 2:
            b = bytearray(vlib.unhx(toks[1])); b[3] &= 0xEF
            toks[1] = hx(b)
            out.append(Case("pmt.filter %s %s" % (" ".join(toks), fmt_val(want)), kind="fid-nopayload", decides=False, nontrivial=False))
    out += gen_alias(rng, tier, [(c, p) for c, p, h in zip(carriers, payloads, hyps) if h == "1"])
    return out


def gen_alias(rng, tier, wf):
    """one PMT object the way a long-lived caller uses it (pmt.hist, notes/aliasing.md): query, remove, query, remove again,
    query; every getter after every step, every query asked twice"""
    out = []
    for c, p in wf:
        have = [x for _, x, _ in c["sec"]["streams"]]
        for _ in range(2):
            qs = have + [9, 0, 8000]
            script = []
            for _ in range(rng.randrange(2, 6)):
                if rng.random() < 0.5:
                    script.append([0, rng.sample(qs, rng.randrange(1, len(qs) + 1))])
                else:
                    script.append([1, [rng.choice(have + [9, 8000]) for _ in range(rng.randrange(0, 3))]])
            script = [[0, qs]] + script + [[0, qs]]
            out.append(Case("pmt.hist %s %s" % (hx(p), fmt_val(script)), kind="hist", theorem="C14_remove_streams"))
    return out


def shrink(c):
    """smaller requests: drop one requested PID at a time (the packets are kept: they are one logical PMT)"""
    if not c.line.startswith("pmt.filter "):
        return
    head, _, tail = c.line.rpartition(" ] [")
    want = tail.replace("]", " ").split()
    for i in range(len(want)):
        w2 = want[:i] + want[i + 1:]
        if w2:
            yield Case("%s ] [ %s ]" % (head, " ".join(w2)), kind=c.kind, decides=c.decides, theorem=c.theorem)


def case_of_line(line, kind):
    return Case(line, kind=kind, decides=not kind.startswith("fid-"))


LEVEL_TEXT = ("Proof: Coq theorems in Properties/C14.v over the model of FilterPMTPacketsToPids / RemoveElementaryStreams state that "
              "the filter's output is the packetisation (original headers, 0xFF padding) of the serialised section of the kept "
              "streams with recomputed section_length and CRC field = ComputeCRC of the section bytes, the three-way error "
              "contract, and the list properties of removal; tied to the real code on every run on Coq-serialised PMTs.")
LEVEL_NOTE = ("Trusted: Coq kernel; transcription Model/Pmt.v; Spec/PmtSpec.v; extraction and executor glue; "
              "ComputeCRC correctness is C13's theorem, here only 'CRC field = compute_crc of the section bytes'.")
TECHNIQUE = "Coq proof (filter = serialiser of the filtered record) + model/implementation correspondence"
