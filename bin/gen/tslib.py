"""Transport-stream building blocks for the C05 generators (bin/gen/c05.py, bin/gen/c05cli.py), plain Python.

* builders: PAT / PMT sections with a correct CRC, payload -> packets, packets with an adaptation field;
* walkers: for a WELL-FORMED structure the list of its length fields
      Field(name, off, bits, start, ends)   value = the low `bits` bits of the big-endian bytes at `off`
                                            (8 bits: one byte, 10/12/16 bits: two bytes);
                                            the counted content starts at `start`;
                                            `ends` = the offsets at which an enclosing container ends
* length_mutations: every length field set to 0, max, +-1, doubled, and to the values that make its content end
  exactly AT, one BEFORE and one PAST each enclosing end (and the end of the whole input), each combined with a
  few re-fillings of the tail bytes that then get reinterpreted (tag/length pairs of every small shape).
Nothing here decides a verdict: the structures only have to be plausible inputs for the C05 run."""
import collections

Field = collections.namedtuple("Field", "name off bits start ends")


def crc32_mpeg2(b):
    c = 0xFFFFFFFF
    for x in b:
        c ^= x << 24
        for _ in range(8):
            c = ((c << 1) ^ 0x04C11DB7) & 0xFFFFFFFF if c & 0x80000000 else (c << 1) & 0xFFFFFFFF
    return c


def descs_bytes(ds):
    return b"".join(bytes([t, len(b)]) + bytes(b) for t, b in ds)


def pat_section(programs, tsid=1, version=5):
    body = bytes([tsid >> 8, tsid & 255, 0xC1 | (version << 1), 0, 0])
    for pn, pid in programs:
        body += bytes([pn >> 8, pn & 255, 0xE0 | (pid >> 8), pid & 255])
    sl = len(body) + 4
    sec = bytes([0x00, 0xB0 | (sl >> 8), sl & 255]) + body
    return sec + crc32_mpeg2(sec).to_bytes(4, "big")


def pmt_section(streams, prog=1, version=5, pcr_pid=0x65, pinfo=()):
    """streams: [(stream_type, pid, [(tag, body)..])..]"""
    pi = descs_bytes(pinfo)
    body = bytes([prog >> 8, prog & 255, 0xC1 | (version << 1), 0, 0, 0xE0 | (pcr_pid >> 8), pcr_pid & 255,
                  0xF0 | (len(pi) >> 8), len(pi) & 255]) + pi
    for st, pid, ds in streams:
        d = descs_bytes(ds)
        body += bytes([st, 0xE0 | (pid >> 8), pid & 255, 0xF0 | (len(d) >> 8), len(d) & 255]) + d
    sl = len(body) + 4
    sec = bytes([0x02, 0xB0 | (sl >> 8), sl & 255]) + body
    return sec + crc32_mpeg2(sec).to_bytes(4, "big")


def packets(pid, payload, cc=0, pusi=True, stuff=0xFF):
    """a PSI payload (pointer field included) cut into 184-byte payloads; the last packet is padded"""
    out = []
    for i in range(0, max(len(payload), 1), 184):
        chunk = payload[i:i + 184]
        chunk = chunk + bytes([stuff]) * (184 - len(chunk))
        out.append(bytes([0x47, (0x40 if (pusi and i == 0) else 0) | (pid >> 8), pid & 255, 0x10 | ((cc + len(out)) & 15)]) + chunk)
    return out


def af_packet(pid, af_body, payload=b"", cc=0, pusi=False):
    """packet with an adaptation field: af_body = flags byte + optional fields; stuffed to fill the packet"""
    room = 188 - 4 - 1 - len(payload)
    af = bytes(af_body) + b"\xff" * (room - len(af_body))
    afc = 0x30 if payload else 0x20
    return bytes([0x47, (0x40 if pusi else 0) | (pid >> 8), pid & 255, afc | (cc & 15), len(af)]) + af + bytes(payload)


def set_pid(pkt, pid):
    return bytes([pkt[0], (pkt[1] & 0xE0) | (pid >> 8), pid & 255]) + pkt[3:]


# ----------------------------------------------------------------------------- walkers (well-formed input only)

def walk_descs(b, off, end, name, ends, out):
    while off + 2 <= end:
        out.append(Field(name + ".descriptor_length", off + 1, 8, off + 2, [end] + ends))
        off += 2 + b[off + 1]


def walk_pmt(b, base=0):
    """b[base:] = table_id ... CRC of one PMT section"""
    out = []
    sl = ((b[base + 1] & 3) << 8) | b[base + 2]
    end = base + 3 + sl
    crc = end - 4
    out.append(Field("pmt.section_length", base + 1, 10, base + 3, [len(b)]))
    pil = ((b[base + 10] & 15) << 8) | b[base + 11]
    out.append(Field("pmt.program_info_length", base + 10, 12, base + 12, [crc, end]))
    walk_descs(b, base + 12, base + 12 + pil, "pmt.program_info", [crc, end], out)
    off = base + 12 + pil
    while off + 5 <= crc:
        il = ((b[off + 3] & 15) << 8) | b[off + 4]
        out.append(Field("pmt.ES_info_length", off + 3, 12, off + 5, [crc, end]))
        walk_descs(b, off + 5, off + 5 + il, "pmt.ES_info", [crc, end], out)
        off += 5 + il
    return out


def walk_pat(b, base=0):
    return [Field("pat.section_length", base + 1, 10, base + 3, [len(b)])]


def walk_scte(b, base=0):
    """b[base:] = table_id ... of one splice_info_section (unencrypted)"""
    out = []
    sl = ((b[base + 1] & 15) << 8) | b[base + 2]
    end = base + 3 + sl
    crc = end - 4
    out.append(Field("scte.section_length", base + 1, 12, base + 3, [len(b)]))
    scl = ((b[base + 11] & 15) << 8) | b[base + 12]
    ctype = b[base + 13]
    out.append(Field("scte.splice_command_length", base + 11, 12, base + 14, [crc, end]))
    cstart = base + 14
    if scl == 0xFFF:   # legacy: length derived from the command
        scl = {0: 0, 6: (5 if b[cstart] & 0x80 else 1)}.get(ctype)
        if scl is None:
            return out
    if ctype == 5 and not (b[cstart + 4] & 0x80):
        fl = b[cstart + 5]
        if not fl & 0x40:
            out.append(Field("scte.insert.component_count", cstart + 6, 8, cstart + 7, [cstart + scl, crc, end]))
    dl_off = cstart + scl
    if dl_off + 2 > crc:
        return out
    dll = (b[dl_off] << 8) | b[dl_off + 1]
    out.append(Field("scte.descriptor_loop_length", dl_off, 16, dl_off + 2, [crc, end]))
    off, dend = dl_off + 2, dl_off + 2 + dll
    while off + 2 <= dend:
        dlen = b[off + 1]
        out.append(Field("scte.descriptor_length", off + 1, 8, off + 2, [dend, crc, end]))
        if b[off] == 2 and dlen >= 11 and not (b[off + 10] & 0x80):
            p = off + 11
            fl = b[p]; p += 1
            if not fl & 0x80:
                out.append(Field("scte.seg.component_count", p, 8, p + 1, [off + 2 + dlen, dend]))
                p += 1 + 6 * b[p]
            if fl & 0x40:
                p += 5
            if p + 2 <= off + 2 + dlen:
                out.append(Field("scte.seg.upid_length", p + 1, 8, p + 2, [off + 2 + dlen, dend, crc]))
                if b[p] == 0x0D:
                    q, qe = p + 2, p + 2 + b[p + 1]
                    while q + 2 <= qe:
                        out.append(Field("scte.seg.mid.upid_length", q + 1, 8, q + 2, [qe, off + 2 + dlen]))
                        q += 2 + b[q + 1]
        off += 2 + dlen
    return out


def walk_ebp(b):
    return [Field("ebp.data_field_length", 1, 8, 2, [len(b)])]


def walk_pes(b):
    out = [Field("pes.packet_length", 4, 16, 6, [len(b)])]
    if len(b) > 8:
        out.append(Field("pes.header_data_length", 8, 8, 9, [len(b)]))
    return out


def walk_af(pkt):
    """adaptation_field_length and the inner transport_private_data_length / extension length of a 188-byte packet"""
    out = [Field("af.adaptation_field_length", 4, 8, 5, [188])]
    if not pkt[3] & 0x20 or pkt[4] == 0:
        return out
    fl = pkt[5]
    p = 6 + (6 if fl & 0x10 else 0) + (6 if fl & 0x08 else 0) + (1 if fl & 0x04 else 0)
    end = 5 + pkt[4]
    if fl & 0x02 and p < 188:
        out.append(Field("af.transport_private_data_length", p, 8, p + 1, [end, 188]))
        p += 1 + pkt[p]
    if fl & 0x01 and p < 188:
        out.append(Field("af.extension_length", p, 8, p + 1, [end, 188]))
    return out


# ----------------------------------------------------------------------------- mutations

def get_field(b, f):
    if f.bits == 8:
        return b[f.off]
    return ((b[f.off] << 8) | b[f.off + 1]) & ((1 << f.bits) - 1)


def set_field(b, f, v):
    b = bytearray(b)
    m = (1 << f.bits) - 1
    v &= m
    if f.bits == 8:
        b[f.off] = v
    else:
        w = (b[f.off] << 8) | b[f.off + 1]
        w = (w & ~m & 0xFFFF) | v
        b[f.off] = w >> 8; b[f.off + 1] = w & 255
    return bytes(b)


# what the bytes swallowed by an enlarged length get refilled with: descriptor-like shapes whose last tag / length
# lands on the last byte(s) of the container
def tail_fills(rng, n):
    shapes = [b"", bytes([0x8C, 0x01, 0xB5, 0x27]), bytes([0x05, 0x00, 0x0A, 0x00]), bytes([0x0A, 0x02, 0x65, 0x6E]),
              bytes([0xE9, 0x01, 0x00, 0xE9]), bytes([0xFF, 0xFF, 0xFF, 0xFF]), bytes([0x00, 0x00, 0x00, 0x00]),
              bytes([0x02, 0x03, 0x43, 0x55]), bytes([0x0E, 0x01, 0x0E]), bytes([0x7F, 0x00]), bytes([0x28])]
    out = shapes[:n]
    while len(out) < n:
        out.append(bytes(rng.randrange(256) for _ in range(rng.randrange(1, 9))))
    return out


def length_mutations(b, fields, rng, nfill=3, whole=None):
    """yield (kind, bytes): every length field of b (a well-formed structure) perturbed; `whole` = length of the
    complete input when b is embedded in something longer (defaults to len(b))"""
    whole = len(b) if whole is None else whole
    seen = set()
    for f in fields:
        cur = get_field(b, f)
        m = (1 << f.bits) - 1
        vals = [("0", 0), ("max", m), ("+1", cur + 1), ("-1", cur - 1), ("x2", cur * 2), ("+4", cur + 4), ("-4", cur - 4)]
        # small absolute values: around the sizes of the fixed parts (a section shorter than its fixed part + CRC, a
        # descriptor loop shorter than one header; bin/gocover: the section_length 10..12 guard of psi/pmt.go was never reached)
        vals += [("abs%d" % k, k) for k in range(1, 17)]
        ends = sorted(set(list(f.ends) + [len(b), whole]))
        for e in ends:
            for d, nm in ((-1, "before"), (0, "at"), (1, "past")):
                vals.append(("%s-end%d" % (nm, e), e + d - f.start))
        for nm, v in vals:
            if v < 0 or v > m or v == cur:
                continue
            mb = set_field(b, f, v)
            fills = tail_fills(rng, nfill) if v > cur else [b""]
            for fill in fills:
                x = mb
                if fill:
                    # refill the bytes just before the new end of the field's content (clipped to the input)
                    e = min(f.start + v, len(x))
                    s = max(e - len(fill), f.start)
                    x = x[:s] + fill[len(fill) - (e - s):] + x[e:]
                key = x
                if key in seen:
                    continue
                seen.add(key)
                yield f.name + ":" + nm.split("-")[0], x
