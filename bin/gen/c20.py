"""C20 — stream-type classification and PMT descriptor decoders.
Exhaustive over the 256 stream types (lookup, elementary stream, PMT-level query) and over
256 descriptor tags x body-length classes x boundary patterns; structured bodies come from the
Coq Spec serialisers (st.ser.* ops of modelexec)."""
import vlib
from vlib import Case, hx, unhx

PROP = "C20"
PROOF_FILES = ["Properties/C20.v"]
LENS = [0, 1, 2, 3, 4, 5, 6, 8]
RULE = ("st.row / st.es for every code 0..255 (complete); st.pmtlags for every code as first, later and absent "
        "stream of a PMT built through psi.NewPMT; st.desc for every tag 0..255 x body lengths %s x patterns "
        "{00.., ff.., ramp, 'DOVI'.., 20 'eng'.., random}; bodies of the five decoded kinds generated from logical "
        "values through the Coq serialisers (all 4 x boundary rates, all 256 audio types, all 64x4 purpose/suitability, "
        "all 128x32 profile/level, DOVI and its 32 one-bit neighbours); a case is non-trivial when it is a distinct "
        "request inside the property's hypotheses (well-formed body for the tag's own decoder, or another tag); bodies "
        "too short for their own decoder, maximum_bitrate >= 2^21, dv_level >= 32, IsIFrameProfile/IsDolbyATMOS are "
        "fidelity cases" % LENS)
EXHAUSTIVE = True
EXHAUSTIVE_NOTE = ("all 256 stream types through LookupPmtStreamType, NewPmtElementaryStream and the PMT query; all 256 "
                   "descriptor tags x length classes x boundary patterns; all profile/level, purpose/suitability and "
                   "audio_type values; the unbounded body space is covered by the theorems")
ASSUMPTIONS = ["Go strings are compared as their bytes; fmt's %02d is re-implemented over decimal digits in Model/PmtDesc.v",
               "descriptor bodies are Go slices with cap = len (goexec copies every body)"]


def wire(v):
    """request syntax: every bracket is a token of its own"""
    if isinstance(v, int):
        return str(v)
    if isinstance(v, (bytes, bytearray)):
        return hx(v)
    return "[ " + " ".join(wire(x) for x in v) + " ]" if v else "[ ]"


def desc_decides(tag, body):
    """inside the property's hypotheses: another tag (wrong_tag_neutral, any body) or a well-formed body"""
    n = len(body)
    if tag == 14:
        return n >= 3 and body[0] & 0x20 == 0        # maximum_bitrate < 2^21
    if tag == 10:
        return n >= 4                                # at least one (language, audio_type) entry
    if tag == 127:
        return n >= 5                                # tag extension, language, purpose byte
    if tag == 5:
        return n >= 4                                # format_identifier
    if tag == 176:
        return n >= 4 and body[2] & 1 == 0           # dv_level < 32
    return True


def desc_theorem(tag):
    return {14: "C20_max_bitrate", 10: "C20_iso639_any_tail", 127: "C20_ttml", 5: "C20_is_dovi_iff",
            176: "C20_dv_codec"}.get(tag, "C20_wrong_tag_neutral")


def desc_case(tag, body, kind):
    d = desc_decides(tag, body)
    return Case("st.desc %d %s" % (tag, hx(body)), kind=kind if d else kind + "-malformed", decides=d, nontrivial=d,
                theorem=desc_theorem(tag))


def esq_case(descs, kind):
    # MaxBitRate looks at the first tag-14 descriptor only; IsTTMLSubtitling never panics
    first = next((b for t, b in descs if t == 14), None)
    d = first is None or (len(first) >= 3 and first[0] & 0x20 == 0)
    line = "st.esq " + wire([[t, b] for t, b in descs])
    return Case(line, kind=kind if d else kind + "-malformed", decides=d, nontrivial=d,
                theorem="C20_stream_max_bit_rate" if first is not None else "C20_stream_ttml_iff / C20_stream_without_descriptor")


def patterns(n, rng, nrand):
    ps = [bytes(n), bytes([0xFF] * n), bytes((i + 1) & 0xFF for i in range(n)),
          (b"DOVI" + bytes([1, 0, 0x10, 0x48]))[:n], (b"\x20eng" + bytes([0x44, 0x01, 0x01]) + bytes(8))[:n],
          (bytes([0x1F, 0xFF, 0xFF, 0x03, 0xFC]) + bytes(8))[:n], (bytes([0x20, 0, 0, 0x80, 0x07]) + bytes(8))[:n]]
    for _ in range(nrand):
        ps.append(bytes(rng.randrange(256) for _ in range(n)))
    seen, out = set(), []
    for p in ps:
        if p not in seen:
            seen.add(p); out.append(p)
    return out


def ser(lines):
    """ask the Coq Spec serialisers (modelexec) for the bodies"""
    return [unhx(r) for r in vlib.run_model(lines)]


def gen(rng, tier):
    out = []
    thorough = tier == "thorough"
    # ---- 1. the 256 stream types
    for c in range(256):
        out.append(Case("st.row %d" % c, kind="type-lookup", theorem="C20_lookup_code"))
        out.append(Case("st.es %d" % c, kind="type-stream", theorem="C20_lookup_code"))
    # ---- 2. PMT-level query by PID
    for c in range(256):
        others = [(0x100 + i, rng.randrange(256)) for i in range(rng.randrange(4))]
        pid = rng.choice([0x21, 0x1E1, 0x1FFE, 0x1000 + c])
        for streams, q, kind in (
                (others + [(pid, c)], pid, "pmt-present"),
                ([(pid, c)] + others, pid, "pmt-present"),
                (others + [(pid, c), (pid, c ^ 0x80), (pid, 0x0F)], pid, "pmt-duplicate-pid"),
                (others + [(pid, c)], pid + 1, "pmt-absent")):
            out.append(Case("st.pmtlags %s %d" % (wire([list(s) for s in streams]), q), kind=kind,
                            theorem="C20_pmt_lags_by_pid"))
    for q in (-1, 0, 8191, 8192, 65536 + 0x21, 2 ** 31 - 1):
        out.append(Case("st.pmtlags [ [ 33 15 ] [ 34 129 ] ] %d" % q, kind="pmt-odd-pid",
                        theorem="C20_pmt_lags_by_pid_negative" if q < 0 else "C20_pmt_lags_by_pid_absent"))
    out.append(Case("st.pmtlags [ ] 33", kind="pmt-empty", theorem="C20_pmt_lags_by_pid", nontrivial=False))
    # ---- 2b. the PMT-level query on a real PMT object across a stream removal: query, RemoveElementaryStreams, query
    # again (twice) - "which is also what the PMT-level query by PID reports" must hold of the object's CURRENT stream
    # list (C20_pmt_lags_by_pid over the stream list that C14_remove_streams leaves)
    import gen.pmtlib as PL
    LAGS = [0x03, 0x04, 0x0F, 0x11, 0x81, 0x87, 0x88]
    carriers = []
    for _ in range(120 if not thorough else 1500):
        c = PL.rand_carrier(rng, allow_pre=False, small=True, nstreams=rng.choice([1, 2, 3, 4, 6]))
        c["pf"] = 0; c["pre"] = []
        c["sec"]["streams"] = [(rng.choice(LAGS) if rng.random() < 0.6 else st, pid, ds) for st, pid, ds in c["sec"]["streams"]]
        c["stuffing"] = 0
        carriers.append(c)
    payloads = vlib.run_model([PL.payload_line(c) for c in carriers])
    for c, r in zip(carriers, payloads):
        have = [pid for _, pid, _ in c["sec"]["streams"]]
        if not have:
            continue
        for _ in range(2):
            rm = [rng.choice(have + [9]) for _ in range(rng.randrange(1, 4))]
            out.append(Case("pmt.lagshist %s %s %s" % (r, vlib.fmt_val(rm), vlib.fmt_val(have + [9, 8190])),
                            kind="pmt-query-remove-query", theorem="C20_pmt_lags_by_pid + C14_remove_streams"))
    # ---- 3. all tags x length classes x boundary patterns
    lens = LENS + ([16, 255] if thorough else [])
    for tag in range(256):
        for n in lens:
            for p in patterns(n, rng, 6 if thorough else 1):
                out.append(desc_case(tag, p, "grid"))
    # ---- 4. structured bodies from the Spec serialisers
    reqs = []   # (ser line, tag)
    rates = [0, 1, 255, 256, 257, 65535, 65536, 2 ** 20 - 1, 2 ** 20, 2 ** 21 - 2, 2 ** 21 - 1]
    rates += [rng.randrange(2 ** 21) for _ in range(400 if thorough else 40)]
    for r in rates:
        for res in range(4):
            reqs.append(("st.ser.maxbr %d %d" % (res, r), 14))
    n_rate = len(reqs)
    langs = [b"eng", b"spa", b"\x00\x00\x00", b"\xff\xff\xff", b"fra"]
    for a in range(256):
        l = langs[a % len(langs)] if a % 7 else bytes(rng.randrange(256) for _ in range(3))
        more = [[bytes(rng.randrange(256) for _ in range(3)), rng.randrange(256)] for _ in range(rng.randrange(3))]
        reqs.append(("st.ser.iso639 " + wire([[l, a]] + more), 10))
    for purpose in range(64):
        for suit in range(4):
            l = rng.choice(langs) if purpose % 5 else bytes(rng.randrange(256) for _ in range(3))
            rest = bytes(rng.randrange(256) for _ in range(rng.randrange(5)))
            reqs.append(("st.ser.ttml %s %d %d %s" % (hx(l), purpose, suit, hx(rest)), 127))
    for prof in range(128):
        for lvl in range(32):
            rest = bytes(rng.randrange(256) for _ in range(rng.choice([0, 1, 1, 5])))
            reqs.append(("st.ser.dv %d %d %d %d %d %s" % (rng.choice([0, 1, 255]), rng.randrange(256), prof, lvl,
                                                          rng.randrange(8), hx(rest)), 176))
    bodies = ser([r for r, _ in reqs])
    for i, ((_, tag), body) in enumerate(zip(reqs, bodies)):
        out.append(desc_case(tag, body, "wf-%d" % tag))
        if tag == 14:
            front = [(rng.choice([2, 5, 10, 82, 127]), bytes(rng.randrange(256) for _ in range(rng.randrange(6))))
                     for _ in range(rng.randrange(3))]
            back = [(14, bytes([0, 0, 1]))] if i % 2 else []
            out.append(esq_case(front + [(14, body)] + back, "stream-maxbr"))
    # registration: DOVI, every one-bit neighbour, random identifiers
    dovi = b"DOVI"
    regs = [dovi, dovi + b"\x00", dovi + bytes(5)]
    for bit in range(32):
        b = bytearray(dovi); b[bit // 8] ^= 1 << (bit % 8); regs.append(bytes(b) + bytes(rng.randrange(3)))
    regs += [b"IVOD", b"dovi", b"CUEI", b"AC-3", b"HEVC"] + [bytes(rng.randrange(256) for _ in range(4)) for _ in range(20)]
    for b in regs:
        out.append(desc_case(5, b, "wf-5"))
        out.append(desc_case(rng.choice([4, 6, 176, 0]), b, "dovi-other-tag"))
    # streams without / with TTML descriptors
    for _ in range(300 if thorough else 60):
        ds = []
        for _ in range(rng.randrange(5)):
            t = rng.choice([127, 127, 10, 5, 82, 126, 128])
            b = bytes([rng.choice([0x20, 0x20, 0x21, 0x00, 0x7F])] * rng.randrange(2)) + bytes(rng.randrange(256) for _ in range(rng.randrange(5)))
            ds.append((t, b))
        out.append(esq_case(ds, "stream-ttml"))
    out.append(esq_case([], "stream-empty"))
    # ---- 5. fidelity only (C05 side): IsIFrameProfile / IsDolbyATMOS on arbitrary bodies
    for _ in range(6000 if thorough else 600):
        tag = rng.choice([233, 204, 233, 204, rng.randrange(256)])
        n = rng.choice([0, 1, 2, 3, 4, 5, 8, 12, 24, 30, 40, 255, 256, 257, 300])
        b = bytearray(rng.choice([0, 1, 0x80, 0xFF, rng.randrange(256)]) for _ in range(n))
        if n and rng.random() < 0.7:
            b[0] = rng.choice([0x08, 0x10, 0xF8, 0x0C, 0x40, 0x7F, 0x77, 0x00, rng.randrange(256)])
        out.append(Case("st.desctot %d %s" % (tag, hx(b)), kind="fidelity-total", decides=False, nontrivial=False,
                        theorem="is_iframe_profile_total / is_dolby_atmos_total"))
    return out


_SPEC_ROWS = {}


def oracle(c, real, model):
    """stream-type rows are judged against the Spec code lists (st.spec.row, Coq-extracted), not against the model;
    everything else: projected equality with the model"""
    f = c.line.split()
    if f[0] in ("st.row", "st.es") and c.decides:
        if not _SPEC_ROWS:
            for code, r in enumerate(vlib.run_model(["st.spec.row %d" % k for k in range(256)])):
                _SPEC_ROWS[code] = r
        want = _SPEC_ROWS.get(int(f[1]))
        if real != want:
            return "row %s differs from the property's code lists %s" % (real, want)
        if model != want:
            return "MODEL row %s differs from the Spec %s (theorems C20_*_iff no longer transport)" % (model, want)
        return ""
    return None


def case_of_line(line, kind):
    f = line.split()
    if f[0] == "st.desc":
        return desc_case(int(f[1]), unhx(f[2]), kind or "replay")
    if f[0] == "st.esq":
        v = vlib.parse_val(line[len("st.esq "):])
        return esq_case([(t, b) for t, b in v], kind or "replay")
    if f[0] == "st.desctot":
        return Case(line, kind=kind or "replay", decides=False, nontrivial=False)
    return Case(line, kind=kind or "replay")


def shrink(c):
    f = c.line.split()
    if f[0] != "st.desc":
        return
    tag, body = int(f[1]), unhx(f[2])
    cands = []
    if len(body) > 0:
        cands.append(body[:-1])
    for i, x in enumerate(body):
        for y in (0, 1):
            if x > y:
                cands.append(body[:i] + bytes([y]) + body[i + 1:])
    for b in cands:
        n = desc_case(tag, b, c.kind)
        if n.decides:
            yield n


def search(c, rng):
    """a fidelity case disagrees: look for a deciding case nearby"""
    f = c.line.split()
    if f[0] == "st.desctot":
        tag, body = int(f[1]), unhx(f[2])
        for n in (0, 3, 4, 5, 6):
            yield desc_case(tag, body[:n], "search")
    elif f[0] == "st.desc":
        tag, body = int(f[1]), unhx(f[2])
        for t in (tag, 10, 14, 127, 5, 176, 0):
            for n in range(0, 9):
                b = (body + bytes(8))[:n]
                if desc_decides(t, b):
                    yield desc_case(t, b, "search")
    for cc in range(256):
        yield Case("st.row %d" % cc, kind="search")


LEVEL_TEXT = ("Proof: Coq theorems in Properties/C20.v state, for ALL 256 stream types (finite reflection over the complete "
              "domain) that lookup returns the code with a non-empty description and that each predicate holds exactly on the "
              "code list of the property, that the PMT-level query answers with the first stream of that PID, and for ALL "
              "well-formed descriptor bodies (any language bytes, any trailing bytes) that each decoder returns the logical "
              "field the Spec serialiser put there (maximum bitrate < 2^21 and x400, language and audio type, TTML language and "
              "purpose, DOVI test, dvhe.PP.LL with %02d rendering) and its neutral value on every other tag. The model is tied "
              "to /repo on every run exhaustively over the 256 types and over tags x length classes x boundary values.")
LEVEL_NOTE = ("Trusted: Coq kernel and VM; the transcription Model/StreamType.v, Model/PmtDesc.v (the correspondence is "
              "exhaustive on the finite part); extraction and executor glue; fmt's %02d as re-implemented in the model; the "
              "harness builds the PMT for the PID query through psi.NewPMT. Description texts are not compared, only non-emptiness.")
TECHNIQUE = "Coq proof (finite reflection over 256 codes; list/arithmetical reasoning for descriptor bodies) + exhaustive model/implementation correspondence"


# coverage round (notes/coverage.md): cases and support theorems for exported identifiers outside the property text
from gen import covlib
covlib.install(globals())
