"""C02 — header/payload partition, SetPayload, SetAdaptationFieldControl, creation helpers.

Packets are generated from LOGICAL values (header fields, optional adaptation-field fields with
contents, stuffing, payload) and serialised by the Coq-extracted Spec serialiser (`ser.pkt` of
modelexec, Spec/Iso13818Pkt.v), so "well-formed" is exactly the wf_lpkt of the theorems."""
import atexit
import subprocess
import vlib
from vlib import Case, hx

PROP = "C02"
PROOF_FILES = ["Properties/C02.v", "Properties/ModelTie.v"]
RULE = ("well-formed packets from logical records (adaptation_field_control 1/2/3; adaptation field length 0..183 with every "
        "subset of PCR/OPCR/splice/private-data/extension, random contents, 0xFF or arbitrary stuffing) serialised by the "
        "extracted Coq serialiser; on each: Payload (function and method), Header, PESHeader; SetPayload with lengths "
        "0,1,cap-1,cap,cap+1,183,184,200 and random 0..200; SetAdaptationFieldControl for all 4 x 4 (control bits before, "
        "requested value) pairs (00 before = a well-formed packet with the control bits cleared); Create(pid, options...) for "
        "every subset of the six exported options, WithPES closures at every position relative to the flag options (several "
        "WithPES per list, PTS up to 2^64-1), any Go int as pid; the named creation helpers over flag grids and payload "
        "lengths 0..200.  Non-trivial = distinct request on a well-formed packet (for "
        "SetPayload: one that carries payload).  Malformed packets (length byte > 183, optional fields overflowing the "
        "field, reserved control 00) are fidelity cases")
EXHAUSTIVE = False
ASSUMPTIONS = ["a Packet is a [188]byte value; data slices have cap = len",
               "K2 (known finding): SetPayload with empty data leaves control 11 / length 183, which is not a well-formed packet "
               "(C02_set_payload_result_wf_refuted); every deciding pay.set result is judged by spec.pkt.wf on the real bytes, the "
               "set-empty kind fails that judge and is matched by the K2 entry of known_findings.json",
               "views vs copies (aliasing) are observed by goexec only: function Payload/Header return views, method Payload a copy",
               "the model follows /root/work/repo-fixed (F6, F7 repaired, C05 guards)"]
PARTIAL = ("Create with option lists that contain a SetPayload closure (other than the CreatePacketWithPayload shape): only the header "
           "is proved (C02_create_any_header), the body is tied by the correspondence only (fidelity cases)")

FLAG_PCR, FLAG_OPCR, FLAG_SPLICE, FLAG_TPD, FLAG_EXT = 0x10, 0x08, 0x04, 0x02, 0x01


def rb(rng, n):
    return bytes(rng.randrange(256) for _ in range(n))


def rpay(rng, n):
    """payload bytes; one in four starts with the PES start code prefix (PESHeader branch)"""
    b = rb(rng, n)
    if n >= 3 and rng.random() < 0.25:
        b = b"\x00\x00\x01" + b[3:]
    return b


def logical(rng, afc=None, want_len=None):
    """a logical packet: dict(hdr=[sync tei pusi tp pid tsc afc cc], af=None | ('empty',) | (flags3, pcr, opcr, splice, tpd, ext, stuffing), payload)"""
    afc = afc if afc is not None else rng.choice([1, 3, 3, 3, 2])
    hdr = [0x47, rng.randrange(2), rng.randrange(2), rng.randrange(2), rng.choice([0, 0x1fff, 0x100, rng.randrange(8192)]),
           rng.choice([0, 0, 2, 3]), afc, rng.randrange(16)]
    if afc == 1:
        return dict(hdr=hdr, af=None, payload=rpay(rng, 184))
    total = 183 if afc == 2 else (want_len if want_len is not None else rng.choice([0, 1, 2, 7, 182, 181, rng.randrange(183), rng.randrange(183)]))
    if total == 0:
        return dict(hdr=hdr, af=("empty",), payload=rpay(rng, 183))
    # choose optional fields that fit into total-1 bytes
    room = total - 1
    fl = 0; pcr = opcr = splice = tpd = ext = None
    order = [FLAG_PCR, FLAG_OPCR, FLAG_SPLICE, FLAG_TPD, FLAG_EXT]
    rng.shuffle(order)
    for f in order:
        if rng.random() < 0.5:
            continue
        if f in (FLAG_PCR, FLAG_OPCR) and room >= 6:
            room -= 6; fl |= f
            if f == FLAG_PCR: pcr = rb(rng, 6)
            else: opcr = rb(rng, 6)
        elif f == FLAG_SPLICE and room >= 1:
            room -= 1; fl |= f; splice = rng.randrange(256)
        elif f in (FLAG_TPD, FLAG_EXT) and room >= 1:
            n = min(room - 1, rng.choice([0, 1, 3, rng.randrange(room), room - 1]))
            room -= 1 + n; fl |= f
            if f == FLAG_TPD: tpd = rb(rng, n)
            else: ext = rb(rng, n)
    top = rng.randrange(8)                      # discontinuity, random access, ES priority
    stuffing = bytes([0xff]) * room if rng.random() < 0.7 else rb(rng, room)
    return dict(hdr=hdr, af=(top, pcr, opcr, splice, tpd, ext, stuffing), payload=rpay(rng, 188 - 5 - total))


def ser_line(l):
    def opt(b):
        return "[ ]" if b is None else "[ %s ]" % hx(b)
    if l["af"] is None:
        af = "[ ]"
    elif l["af"] == ("empty",):
        af = "[ [ ] ]"
    else:
        top, pcr, opcr, splice, tpd, ext, st = l["af"]
        af = "[ [ %d %s %s %s %s %s %s ] ]" % (top, opt(pcr), opt(opcr), "[ ]" if splice is None else "[ %d ]" % splice, opt(tpd), opt(ext), hx(st))
    return "ser.pkt [ %s ] %s %s" % (" ".join(str(x) for x in l["hdr"]), af, hx(l["payload"]))


def serialise(ls):
    """logical packets -> bytes through the Coq-extracted serialiser; returns list of (bytes, wf flag)"""
    out = []
    for r in vlib.run_model([ser_line(l) for l in ls]):
        v = vlib.parse_val(r)
        out.append((v[0], v[1] == 1))
    return out


def afc_theorem(afc, v):
    """the theorem of Properties/C02.v that determines SetAdaptationFieldControl(v) on a packet whose control bits are afc"""
    if v < 2:
        return "C02_set_afc_drops_field"
    if afc in (0, 1):
        return "C02_set_afc_creates_any" if afc == 0 else "C02_set_afc_creates"
    if v == 2:
        return "C02_set_afc2_keeps_field"
    return "C02_set_afc3_on_af_only" if afc == 2 else "C02_set_afc3_noop"


def opt_wire(o):
    return str(o) if isinstance(o, int) else ("[ 6 %s ]" % hx(o[1]) if o[0] == 6 else "[ 7 %d ]" % o[1])


def create_case(pid, opts):
    """Create(pid, opts...): deciding when every option is one of the six exported flag options or a WithPES closure
    (C02_create_flag_options / C02_create_with_pes give all 188 bytes, for any Go int pid); lists containing a
    SetPayload closure are fidelity cases (only the header is proved for them: C02_create_any_header)"""
    line = "pay.create %d [ %s ]" % (pid, " ".join(opt_wire(o) for o in opts))
    if any(not isinstance(o, int) and o[0] == 6 for o in opts):
        return Case(line, kind="fidelity-create-closure", decides=False, nontrivial=False, theorem="C02_create_any_header (header only)")
    if any(not isinstance(o, int) for o in opts):
        return Case(line, kind="create-pes", theorem="C02_create_with_pes")
    return Case(line, kind="create-flags", theorem="C02_create_flag_options")


def cap_of(l):
    if l["af"] is None: return 184
    if l["af"] == ("empty",): return 183
    return len(l["payload"]) + len(l["af"][6])


def set_lengths(rng, cap):
    s = {0, 1, 2, cap - 1, cap, cap + 1, 183, 184, 185, 200, rng.randrange(201), rng.randrange(201)}
    return sorted(x for x in s if 0 <= x <= 200)


def gen(rng, tier):
    out = []
    thorough = tier == "thorough"
    n = 350 if not thorough else 12000
    ls = [logical(rng) for _ in range(n)]
    # every AF length 0..183 at least once with payload, and the F7 shape (length 0) several times
    for L in range(0, 183):
        ls.append(logical(rng, afc=3, want_len=L))
    for _ in range(6):
        ls.append(logical(rng, afc=3, want_len=0))
    # adaptation-field-only packets without any stuffing (SetAdaptationFieldControl(11) must fail on them)
    for _ in range(3):
        hdr = [0x47, 0, 0, 0, rng.randrange(8192), 0, 2, rng.randrange(16)]
        ls.append(dict(hdr=hdr, af=(rng.randrange(8), None, None, None, rb(rng, 181), None, b""), payload=b""))
        ls.append(dict(hdr=hdr, af=(rng.randrange(8), rb(rng, 6), None, 7, rb(rng, 100), rb(rng, 73), b""), payload=b""))
    pk = serialise(ls)
    for l, (p, wf) in zip(ls, pk):
        assert wf and len(p) == 188, (l, p)
        assert is_wf_packet(p), ("the byte-level judge spec.pkt.wf rejects a packet serialised from a well-formed logical packet", l, p)
        afc = l["hdr"][6]
        out.append(Case("pay.view %s" % hx(p), kind="view-afc%d" % afc, theorem="C02_partition"))
        if afc == 2:
            for ln in (0, 1, 50, 184):
                out.append(Case("pay.set %s %s" % (hx(p), hx(rb(rng, ln))), kind="set-af-only", theorem="C02_set_payload_af_only"))
        else:
            cap = cap_of(l)
            lens = set_lengths(rng, cap) if (thorough or rng.random() < 0.4) else sorted({cap, rng.randrange(201), rng.choice([1, cap - 1, cap + 1, 3])} & set(range(201)))
            for ln in lens:
                d = rb(rng, ln)
                kind = "set-empty" if ln == 0 else ("set-fill" if ln >= cap else "set-short")
                if l["af"] == ("empty",) and 0 < ln < 183:
                    kind = "set-short-af0"      # defect F7 shape
                if l["af"] is None and ln < 184:
                    kind += "-creates-af"
                out.append(Case("pay.set %s %s" % (hx(p), hx(d)), kind=kind, theorem="C02_set_payload_ok" if ln > 0 else "C02_set_payload_empty"))
        for v in (0, 1, 2, 3):
            if rng.random() < 0.5 or thorough:
                out.append(Case("pay.set_afc %s %d" % (hx(p), v), kind="set-afc-%d%d" % (afc, v), theorem=afc_theorem(afc, v)))
        # the same packet with the control bits cleared to the reserved value 00 (from 00 the call behaves as from 01)
        if rng.random() < 0.15 or thorough:
            q = bytearray(p); q[3] &= 0xCF
            for v in (0, 1, 2, 3):
                out.append(Case("pay.set_afc %s %d" % (hx(bytes(q)), v), kind="set-afc-0%d" % v, theorem=afc_theorem(0, v)))
        if rng.random() < 0.3:
            out.append(Case("pay.set_fn %s %s" % (hx(p), hx(rb(rng, rng.randrange(201)))), kind="set-fn", theorem="C02_set_payload_fn"))
    # ---- malformed packets: fidelity only
    mal = []
    base = [x for x, _ in pk]
    for _ in range(300 if not thorough else 10000):
        p = bytearray(rng.choice(base))
        k = rng.randrange(6)
        if k == 0: p[4] = rng.choice([183, 184, 185, 200, 255, rng.randrange(256)])
        elif k == 1: p[5] = rng.randrange(256)
        elif k == 2: p[3] = (p[3] & 0xcf) | (rng.randrange(4) << 4)
        elif k == 3: p[rng.randrange(4, 30)] = rng.choice([0, 255, rng.randrange(256)])
        elif k == 4: p = bytearray(rb(rng, 188))
        else:
            p[3] |= 0x20; p[4] = rng.randrange(256); p[5] = rng.randrange(256)
        mal.append(bytes(p))
    for p in mal:
        out.append(Case("pay.view %s" % hx(p), kind="fidelity-view", decides=False, nontrivial=False))
        out.append(Case("pay.set %s %s" % (hx(p), hx(rb(rng, rng.choice([0, 1, 3, 100, 183, 184, 200])))), kind="fidelity-set",
                        decides=False, nontrivial=False))
        out.append(Case("pay.set_afc %s %d" % (hx(p), rng.randrange(4)), kind="fidelity-set-afc", decides=False, nontrivial=False))
    # ---- creation helpers
    for pid in [0, 1, 0x100, 0x1fff, rng.randrange(8192)]:
        for cc in [0, 15, rng.randrange(16)]:
            for pusi in (0, 1):
                for hp in (0, 1):
                    out.append(Case("pay.create_test %d %d %d %d" % (pid, cc, pusi, hp), kind="create-test", theorem="C02_create_test_packet"))
            out.append(Case("pay.create_dc %d %d" % (pid, cc), kind="create-dc", theorem="C02_create_dc_packet"))
    for ln in list(range(0, 201, 1 if thorough else 7)) + [183, 184, 185]:
        out.append(Case("pay.create_pwp %d %d %s" % (rng.randrange(8192), rng.randrange(16), hx(rb(rng, ln))),
                        kind="create-with-payload", theorem="C02_create_packet_with_payload"))
    pids = lambda: rng.choice([0, 1, 0x100, 8191, rng.randrange(8192), rng.randrange(8192), 8192, 65535, -1, -8192, (1 << 40) + 7])
    ptss = lambda: rng.choice([0, 1, 2 ** 33 - 1, 2 ** 32, 900000, rng.randrange(2 ** 33), rng.randrange(2 ** 33), 2 ** 33, 2 ** 64 - 1])
    # every subset of the six exported options once (in random order, some repeated)
    for mask in range(64):
        opts = [k for k in range(6) if mask >> k & 1]
        rng.shuffle(opts)
        if opts and rng.random() < 0.3:
            opts.append(rng.choice(opts))
        out.append(create_case(pids(), opts))
    # WithPES at every position relative to the adaptation-field flag and the byte-5 options
    for _ in range(200 if not thorough else 6000):
        opts = [rng.randrange(6) for _ in range(rng.randrange(0, 5))]
        for _ in range(rng.choice([1, 1, 1, 2, 3])):
            opts.insert(rng.randrange(len(opts) + 1), (7, ptss()))
        out.append(create_case(pids(), opts))
    for _ in range(100 if not thorough else 3000):
        opts = []
        for _ in range(rng.randrange(0, 7)):
            k = rng.randrange(8)
            if k < 6: opts.append(k)
            elif k == 6: opts.append((6, rb(rng, rng.choice([0, 1, 10, 184, 200]))))
            else: opts.append((7, ptss()))
        out.append(create_case(pids(), opts))
    # out-of-range pid / cc for the helpers: fidelity
    for _ in range(40):
        out.append(Case("pay.create_test %d %d 1 1" % (rng.choice([8192, 65535, -1, 1 << 20]), rng.randrange(16, 256)),
                        kind="fidelity-create", decides=False, nontrivial=False))
    out += gen_alias(rng, thorough, list(zip(ls, pk)), pids, ptss)
    return out


def gen_alias(rng, thorough, packets, pids, ptss):
    """arguments that share memory with the object or with an earlier call (notes/aliasing.md)"""
    out = []
    # SetPayload with a view of the packet's OWN payload as argument: the whole payload (nothing may change) and, on a
    # packet that already has an adaptation field, a suffix of it (the stuffing grows in front, the bytes stay where
    # they are).  NOT generated, because the unchanged tree destroys the argument before copying it (notes/aliasing.md,
    # A1): a proper prefix, and any shorter part on a payload-only packet (initAdaptationField fills the packet).
    for l, (p, wf) in packets:
        afc = l["hdr"][6]
        if afc != 2 and (rng.random() < 0.3 or thorough):
            n = len(l["payload"])
            out.append(Case("pay.setown %s 0 %d" % (hx(p), n), kind="set-own-whole", theorem="C02_set_payload_ok" if n else "C02_set_payload_empty"))
            if n > 1 and afc == 3:
                j = rng.randrange(1, n)
                out.append(Case("pay.setown %s %d %d" % (hx(p), j, n), kind="set-own-suffix", theorem="C02_set_payload_ok"))
    # ONE option slice with spare capacity used for Create(pid, opts[:k]...), Create(pid, opts...), Create(pid, opts[:k]...):
    # a caller that builds variants of a packet from a common option list (pay.create2)
    for _ in range(150 if not thorough else 3000):
        n = rng.randrange(1, 6)
        opts = [rng.randrange(6) for _ in range(n)]
        if rng.random() < 0.4:
            opts.insert(rng.randrange(n + 1), (7, ptss()))
        k = rng.randrange(0, len(opts) + 1)
        line = "pay.create2 %d [ %s ] %d" % (pids(), " ".join(opt_wire(o) for o in opts), k)
        pes = any(not isinstance(o, int) for o in opts)
        out.append(Case(line, kind="create-twice-pes" if pes else "create-twice", theorem="C02_create_with_pes" if pes else "C02_create_flag_options"))
    return out


# ---- the judge "is a well-formed packet" (Coq: Spec/Iso13818Recog.v wf_pktb, op spec.pkt.wf of modelexec, sound by
#      C02_wf_recogniser_sound), asked through one persistent modelexec coprocess
_judge = None
_judge_cache = {}


def is_wf_packet(b):
    global _judge
    key = bytes(b)
    if key in _judge_cache:
        return _judge_cache[key]
    if _judge is None or _judge.poll() is not None:
        _judge = subprocess.Popen([vlib.MODELEXEC], stdin=subprocess.PIPE, stdout=subprocess.PIPE, text=True, bufsize=1)
        atexit.register(lambda p=_judge: p.kill())
    _judge.stdin.write("spec.pkt.wf %s\n" % hx(key))
    _judge.stdin.flush()
    r = _judge.stdout.readline().strip()
    if r not in ("0", "1"):
        raise RuntimeError("spec.pkt.wf answered %r" % r)
    if len(_judge_cache) > 200000:
        _judge_cache.clear()
    _judge_cache[key] = r == "1"
    return r == "1"


def result_packet(reply):
    """the 188 bytes after the call, from a pay.set reply  [ x<packet> (count|error) getters flag ]"""
    try:
        v = vlib.parse_val(reply)
        return v[0] if isinstance(v[0], (bytes, bytearray)) and len(v[0]) == 188 else None
    except Exception:
        return None


def oracle(case, real, model):
    if real in ("[-8888]", "[-9999]") or model in ("[-8888]", "[-9999]"):
        return "executor rejected the request (malformed case line): real %s model %s" % (real, model)
    # "... so the packet stays well-formed": judged on the REAL bytes of every deciding SetPayload case
    # (the replay of the fixed finding F6 is an empty-data call: its bytes are compared, its well-formedness is K2's business)
    if case.decides and case.line.startswith("pay.set ") and case.kind != "F6-set-empty-bytes":
        p = result_packet(real)
        if p is None:
            return "SetPayload on a well-formed packet: the reply carries no 188-byte packet: %s" % real[:120]
        if not is_wf_packet(p):
            return ("the packet SetPayload leaves is NOT a well-formed transport packet (judge spec.pkt.wf = Spec/Iso13818Recog.v wf_pktb: "
                    "adaptation_field_control %d%d, adaptation_field_length %d)" % (p[3] >> 5 & 1, p[3] >> 4 & 1, p[4]))
    return None


def known_match(entry, case, real, model):
    """K2 and nothing else: SetPayload with EMPTY data, the real result is exactly what the model requires (C02_set_payload_empty),
    it is control 11 with adaptation_field_length 183, and its SOLE defect is the payload flag: the same bytes with control 10
    are a well-formed packet"""
    if entry.get("id") != "K2":
        return False
    f = case.line.split()
    if len(f) != 3 or f[0] != "pay.set" or f[2] != "x" or real != model:
        return False
    p = result_packet(real)
    if p is None or (p[3] & 0x30) != 0x30 or p[4] != 183 or is_wf_packet(p):
        return False
    q = bytearray(p); q[3] &= 0xEF
    return is_wf_packet(bytes(q))


def shrink(c):
    f = c.line.split()
    if f[0] == "pay.set" and len(f) == 3:
        d = bytes.fromhex(f[2][1:])
        if len(d) > 1:
            for nd in (d[:len(d) // 2], d[:-1], bytes(len(d))):
                if nd != d:
                    yield Case("pay.set %s %s" % (f[1], hx(nd)), kind=c.kind, decides=c.decides, theorem=c.theorem)
        p = bytearray(bytes.fromhex(f[1][1:]))
        if p[1] or p[2]:
            q = bytearray(p); q[1] = 0; q[2] = 0
            yield Case("pay.set %s %s" % (hx(bytes(q)), f[2]), kind=c.kind, decides=c.decides, theorem=c.theorem)


    if f[0] == "pay.create":
        v = vlib.parse_val("[ " + c.line[len("pay.create "):] + " ]")
        pid, raw = v[0], v[1]
        opts = [o if isinstance(o, int) else (o[0], o[1]) for o in raw]
        for i in range(len(opts)):
            yield create_case(pid, opts[:i] + opts[i + 1:])
        if not 0 <= pid < 8192:
            yield create_case(pid % 8192, opts)
        for i, o in enumerate(opts):
            if not isinstance(o, int) and o[0] == 7 and o[1] != 0:
                yield create_case(pid, opts[:i] + [(7, 0)] + opts[i + 1:])


def case_of_line(line, kind):
    f = line.split()
    if f and f[0] == "pay.create":
        v = vlib.parse_val("[ " + line[len("pay.create "):] + " ]")
        return create_case(v[0], [o if isinstance(o, int) else (o[0], o[1]) for o in v[1]])
    return Case(line, kind=kind or "replay", decides=not (kind or "").startswith("fidelity"))


def search(c, rng):
    f = c.line.split()
    if len(f) >= 2 and f[1].startswith("x") and len(f[1]) == 377:
        p = bytearray(bytes.fromhex(f[1][1:]))
        # repair the packet towards well-formedness and retry the deciding ops
        for L in (0, 1, 7, 100, 182):
            q = bytearray(p); q[0] = 0x47; q[3] = (q[3] & 0xcf) | 0x30; q[4] = L; q[5] = 0
            for ln in (1, 3, 183 - L, 200):
                if ln > 0:
                    yield Case("pay.set %s %s" % (hx(bytes(q)), hx(rb(rng, ln))), kind="search")
            yield Case("pay.view %s" % hx(bytes(q)), kind="search")


LEVEL_TEXT = ("Proof: Properties/C02.v states the partition (Header ++ payload = packet, both payload accessors, error for "
              "adaptation-field-only), SetPayload (count = min(n, capacity), read-back, header and adaptation-field content "
              "preserved, gap stuffed with 0xFF, well-formedness kept (for n >= 1 payload bytes; for n = 0 no well-formed result exists that keeps the payload flag: known finding K2, C02_set_payload_result_wf_refuted), refusal on adaptation-field-only packets) for ALL "
              "well-formed packets and ALL payloads, and the creation helpers, over a model of packet.go/modify.go/create.go and "
              "the adaptation-field primitives they use; no axioms.  The model is tied to the code by running both on "
              "packets serialised from logical records by the extracted Coq serialiser.")
LEVEL_NOTE = "Trusted: Coq kernel; the transcription Model/Packet.v, Model/Create.v (checked by the correspondence); extraction and executor glue."
TECHNIQUE = "Coq proof (refinement to a logical packet, list reasoning + lia) + structured model/implementation correspondence"
