"""Shared by the C06 / C14 generators: random LOGICAL program map sections, carriers and packetisations.
Python only chooses the logical values; the bytes come from the Coq serialisers of Spec/PmtSpec.v
through modelexec (`ser.payload`, `ser.stream`, `ser.pkts`)."""
import vlib
from vlib import hx


def fmt_val(v):
    """request syntax: every token separated by a space"""
    if isinstance(v, bool):
        return "1" if v else "0"
    if isinstance(v, int):
        return str(v)
    if isinstance(v, (bytes, bytearray)):
        return hx(v)
    return " ".join(["["] + [fmt_val(x) for x in v] + ["]"])

PMT_PID_CHOICES = [32, 256, 481, 4096, 8190]


def rand_bytes(rng, n):
    return bytes(rng.randrange(256) for _ in range(n))


def desc_len(ds):
    return sum(2 + len(b) for _, b in ds)


def rand_descs(rng, budget, shape=None):
    """list of (tag, body); total serialised length <= min(budget, 1023)"""
    budget = min(budget, 1023)
    shape = shape or rng.choice(["none", "none", "few", "few", "empty", "big255", "many-small", "mixed"])
    ds = []
    def add(n):
        nonlocal budget
        if n + 2 > budget:
            return False
        tag = rng.choice([rng.randrange(256), rng.choice([5, 10, 14, 0x7f, 0x86, 0xb0, 0xe9, 0xff, 0])])
        ds.append((tag, rand_bytes(rng, n)))
        budget -= n + 2
        return True
    if shape == "none":
        pass
    elif shape == "few":
        for _ in range(rng.randrange(1, 4)):
            add(rng.randrange(0, 7))
    elif shape == "empty":
        for _ in range(rng.randrange(1, 4)):
            add(0)
    elif shape == "big255":
        add(255)
        if rng.random() < 0.3:
            add(rng.randrange(0, 5))
    elif shape == "many-small":
        for _ in range(rng.randrange(5, 40)):
            if not add(rng.randrange(0, 4)):
                break
    else:
        for _ in range(rng.randrange(1, 6)):
            add(rng.choice([0, 1, 3, 4, rng.randrange(0, 60), rng.randrange(0, 256)]))
    return ds


def rand_section(rng, nstreams=None, crc="random", big=False):
    """logical section as a python dict; section_length <= 1021 guaranteed"""
    budget = 1008                       # bytes available for program descriptors + streams
    if nstreams is None:
        nstreams = rng.choice([0, 1, 1, 2, 2, 3, 3, 4, 5, 6, 8, 10, 12])
    pd = rand_descs(rng, min(budget, 200 if not big else 1023))
    budget -= desc_len(pd)
    streams, used = [], set()
    dup = rng.random() < 0.04           # duplicate PIDs are legal bytes; the filter treats them by position
    for _ in range(nstreams):
        if budget < 5:
            break
        pid = rng.choice([rng.randrange(16, 8191), rng.randrange(256, 272), 8191 if rng.random() < 0.05 else 33])
        while pid in used and not dup:
            pid = 16 + (pid + 1 - 16) % 8175
        used.add(pid)
        ds = rand_descs(rng, budget - 5, "big255" if big and rng.random() < 0.5 else None)
        budget -= 5 + desc_len(ds)
        st = rng.choice([rng.randrange(256), rng.choice([2, 3, 4, 15, 27, 36, 0x81, 0x86, 0x87, 0])])
        streams.append((st, pid, ds))
    s = {"prog": rng.choice([1, rng.randrange(65536)]), "ver": rng.randrange(32), "cni": rng.randrange(2),
         "secno": rng.choice([0, rng.randrange(256)]), "last": rng.choice([0, rng.randrange(256)]),
         "pcr": rng.choice([8191, rng.randrange(8192)]), "pdescs": pd, "streams": streams,
         "crc": rand_bytes(rng, 4) if crc == "random" else b""}
    return s


def section_length(s):
    return 9 + desc_len(s["pdescs"]) + sum(5 + desc_len(ds) for _, _, ds in s["streams"]) + 4


def fmt_descs(ds):
    return [[t, b] for t, b in ds]


def fmt_section(s):
    return [s["prog"], s["ver"], s["cni"], s["secno"], s["last"], s["pcr"], fmt_descs(s["pdescs"]),
            [[st, pid, fmt_descs(ds)] for st, pid, ds in s["streams"]], s["crc"]]


def rand_other(rng):
    n = rng.choice([0, 1, 2, rng.randrange(0, 30), rng.randrange(0, 30), rng.randrange(0, 200), rng.choice([1021, 1020, 255, 256])])
    tid = rng.choice([0, 1, 3, 0x42, 0xc0, 0xfc, 0xfe, rng.randrange(256)])
    if tid in (2, 255):
        tid = 0x42
    return (tid, rng.randrange(16), rand_bytes(rng, n))


def rand_carrier(rng, crc="random", allow_pre=True, small=False, nstreams=None):
    """dict with pf, pre, sec, stuffing (stuffing filled in later); plus derived lengths"""
    if small:
        s = rand_section(rng, nstreams=rng.choice([0, 1, 1, 2]) if nstreams is None else nstreams, crc=crc)
        s["pdescs"] = s["pdescs"][:1] if desc_len(s["pdescs"][:1]) < 8 else []
        s["streams"] = [(st, pid, ds[:1] if desc_len(ds[:1]) < 6 else []) for st, pid, ds in s["streams"]]
        pf = rng.choice([0, 0, 1, 2])
        pre = [(0x42, rng.randrange(16), rand_bytes(rng, rng.randrange(0, 3)))] if allow_pre and rng.random() < 0.3 else []
    else:
        s = rand_section(rng, nstreams=nstreams, crc=crc, big=rng.random() < 0.15)
        pf = rng.choice([0, 0, 0, 1, 2, 3, rng.randrange(183), 182, 181])
        pre = [rand_other(rng) for _ in range(rng.choice([0, 0, 0, 1, 1, 2]))] if allow_pre else []
    c = {"pf": pf, "pre": pre, "sec": s, "stuffing": 0}
    ends, pos = [], 1 + pf
    for _, _, b in pre:
        pos += 3 + len(b)
        ends.append(pos)
    c["inner_ends"] = ends
    c["unit_len"] = pos + 3 + section_length(s)
    return c


def payload_line(c):
    return "ser.payload %d %s %s %d" % (c["pf"], fmt_val([[t, h, b] for t, h, b in c["pre"]]),
                                        fmt_val(fmt_section(c["sec"])), c["stuffing"])


def ser_payloads(carriers):
    out = vlib.run_model([payload_line(c) for c in carriers])
    res = []
    for c, r in zip(carriers, out):
        b = vlib.unhx(r)
        assert len(b) == c["unit_len"] + c["stuffing"], "serialiser length differs from the generator's arithmetic"
        res.append(b)
    return res


def rand_cuts(rng, n, forbidden, style=None):
    """cut points 0 < c1 < ... < n with chunk sizes <= 184, none at a forbidden offset"""
    style = style or rng.choice(["full", "full", "random", "random", "tiny-first", "tiny", "one"])
    cuts, pos = [], 0
    while True:
        if style == "full":
            step = 184
        elif style == "tiny":
            step = rng.randrange(1, 6)
        elif style == "tiny-first":
            step = rng.randrange(1, 5) if pos == 0 else rng.choice([184, rng.randrange(1, 185)])
        elif style == "one":
            step = 184 if n - pos > 184 else n - pos
        else:
            step = rng.choice([184, rng.randrange(1, 185), rng.randrange(1, 185), rng.randrange(1, 4)])
        if style == "tiny" and len(cuts) > 60:
            step = 184
        pos += step
        if pos >= n:
            break
        while pos in forbidden and pos < n:
            pos += 1
        if pos >= n:
            break
        cuts.append(pos)
    # chunks must be <= 184
    fixed, prev = [], 0
    for c in cuts + [n]:
        while c - prev > 184:
            prev += 184
            while prev in forbidden:
                prev -= 1
            fixed.append(prev)
        if c < n:
            fixed.append(c)
        prev = c
    return sorted(set(fixed))


def misc(rng):
    return [rng.randrange(2) if rng.random() < 0.1 else 0, rng.randrange(2), rng.randrange(4) if rng.random() < 0.2 else 0,
            rng.randrange(16)]


def other_packet(rng, pmt_pid):
    p = bytearray(rand_bytes(rng, 188))
    p[0] = 0x47
    pid = rng.choice([0, 8191, pmt_pid ^ 1, pmt_pid + 1 if pmt_pid < 8191 else 17, rng.randrange(8192)])
    if pid == pmt_pid:
        pid = (pid + 7) % 8192
    p[1] = (p[1] & 0xE0) | (pid >> 8)
    p[2] = pid & 0xFF
    return bytes(p)


def items_for(rng, payload, cuts, pmt_pid, interleave=True, tail_other=True):
    """wire form of the item list of Spec.packetise: PMT-PID packets carrying the chunks (adaptation-field
    stuffing whenever a chunk is shorter than 184), other PIDs in between"""
    items = []
    prev = 0
    for c in list(cuts) + [len(payload)]:
        while interleave and rng.random() < 0.25:
            items.append([0, other_packet(rng, pmt_pid)])
        if rng.random() < 0.03:     # a PMT-PID packet with a 183-byte adaptation field and an empty payload
            items.append([1] + misc(rng) + [[bytes([0]) + b"\xff" * 182], b""])
        chunk = payload[prev:c]
        prev = c
        assert len(chunk) <= 184
        if len(chunk) == 184:
            af = []
        else:
            aflen = 183 - len(chunk)
            if aflen == 0:
                af = [b""]
            else:
                flags = rng.choice([0, 0, 0x40, 0x80]) if rng.random() < 0.3 else 0
                af = [bytes([flags]) + b"\xff" * (aflen - 1)]
        items.append([1] + misc(rng) + [af, chunk])
    if tail_other and rng.random() < 0.3:
        items.append([0, other_packet(rng, pmt_pid)])
    return items


def stream_line(pid, items, op="ser.stream"):
    return "%s %d %s" % (op, pid, fmt_val(items))


def carrier_args(c):
    return "%d %s %s" % (c["pf"], fmt_val([[t, h, b] for t, h, b in c["pre"]]), fmt_val(fmt_section(c["sec"])))


def check_carriers(carriers):
    """wf_carrierb of the Coq spec on every generated carrier; returns the list of booleans"""
    return [r == "1" for r in vlib.run_model(["spec.hyp.carrier " + carrier_args(c) for c in carriers])]
