"""C06 — PMT decoding exact and independent of packetisation; completion predicate; ExtractCRC;
PSI header accessors; table header codec."""
import vlib
from vlib import Case, hx
import gen.pmtlib as L
from gen.pmtlib import fmt_val

PROP = "C06"
PROOF_FILES = ["Properties/C06.v", "Properties/ModelTie.v", "Properties/C17.v"]
BORROWS = ["C17"]
RULE = ("random LOGICAL program map sections (0-12 streams; descriptor shapes none/few/empty/255-byte/many-small/mixed; "
        "section_length up to 1021) serialised by the Coq spec (ser.payload) in carriers with pointer_field 0..182, 0-2 "
        "preceding other sections, trailing 0xFF stuffing; through NewPMT, PmtAccumulatorDoneFunc on EVERY prefix, ExtractCRC, "
        "the five PSI accessors, and ReadPMT over Coq-built packetisations (ser.stream: full/random/tiny chunks, "
        "adaptation-field stuffing or payload stuffing, interleaved other PIDs, empty-payload packets); for small carriers "
        "every single cut point (quick) / every pair of cut points (thorough); table header: all 256 flag bytes x boundary "
        "lengths, Data() for all section lengths 0..1023 and boundary 16-bit values. Non-trivial = a distinct request inside "
        "the hypotheses of the named theorem (well-formed carrier; for ReadPMT non-empty stream list and no cut at an inner "
        "section end). Malformed inputs (truncations, perturbed length fields, bit flips) are fidelity cases.")
EXHAUSTIVE = False
EXHAUSTIVE_NOTE = "exhaustive parts: every prefix of every generated payload for the done predicate; every single cut of the small carriers; TableHeader flag byte"
ASSUMPTIONS = ["caller slices have cap = len", "io.ReadFull / bytes.Reader deliver 188-byte blocks then EOF",
               "descriptor bodies are observed through reflection on the []byte field of the concrete descriptor struct"]
PARTIAL = ("no clause is partial. K1: ReadPMT never returns a PMT with an empty stream list (C06_L4_empty_streams_refuted; model and code agree, "
           "cases of kind read-empty-streams-K1 are fidelity cases). L3/L4 state the exception at inner section ends explicitly. "
           "Descriptor bodies are observed by reflection; String()/Format() are not compared.")


EXPECT = {}      # case line -> observation required by the Spec-side oracle (spec.parse / spec.read of modelexec)
_SPEC_REQ = []   # (case line, spec request line), resolved in one batch at the end of gen


def want_spec(line, op, c):
    _SPEC_REQ.append((line, "%s %s" % (op, fmt_val(L.fmt_section(c["sec"])))))


def read_cases(rng, c, payload, pid, out, kind, cutsets, interleave=True):
    lines, meta, hyp = [], [], []
    for cuts in cutsets:
        items = L.items_for(rng, payload, cuts, pid, interleave=interleave)
        lines.append(L.stream_line(pid, items))
        hyp.append("spec.hyp.read %s %d %d %s" % (L.carrier_args(c), c["stuffing"], pid, fmt_val(items)))
        meta.append(cuts)
    replies = vlib.run_model(lines + hyp)
    streams, hyps = replies[:len(lines)], replies[len(lines):]
    nonempty = len(c["sec"]["streams"]) > 0
    for s, cuts, h in zip(streams, meta, hyps):
        ok = nonempty and not (set(cuts) & set(c["inner_ends"]))
        if ok and h != "1":      # the Coq checker of L4's hypotheses (hyp_readb) disagrees with the generator: not a deciding case
            ok = False; kind = "hyp-false"
        if ok:
            want_spec("pmt.read %s %d" % (s, pid), "spec.read", c)
        out.append(Case("pmt.read %s %d" % (s, pid), kind=kind if nonempty else "read-empty-streams-K1",
                        decides=ok, nontrivial=ok, theorem="C06_L4_read_pmt",
                        note="cuts=%s unit_len=%d inner_ends=%s" % (cuts, c["unit_len"], c["inner_ends"])))


def gen(rng, tier):
    return _gen_own(rng, tier) + _gen_accumulator(rng, tier)


def _gen_accumulator(rng, tier):
    """end-to-end clause "reading it from the stream": ReadPMT collects the PMT through packet.Accumulator, so the
    accumulator histories of C17 (same op acc.run, judged by C17's oracle; theorem C17_refines) run here too
    (seeded C06-u2: an accumulator that has reported completion silently restarts at the next unit start)"""
    import random as _r
    import gen.c17 as c17
    sub = _r.Random(rng.randrange(1 << 62))
    return vlib.borrow(c17, c17.gen(sub, "quick"), "e2e-acc", keep=lambda c: c.decides, theorem="C17_refines")


def _gen_own(rng, tier):
    out = []
    quick = tier == "quick"
    EXPECT.clear(); del _SPEC_REQ[:]
    # ---- F4 regression inputs (DESIGN section 7) and tiny fixed cases
    for b in (b"", b"\x00", b"\x00\x02", b"\x00\x02\xb0", b"\x01", b"\x01\xff", b"\x02\xff", b"\x00\xff", b"\x00\x02\xb0\x00"):
        out.append(Case("pmt.done %s" % hx(b), kind="done-fixed", theorem="C06_L3_done_prefix"))
    # ---- random carriers
    n_big = 120 if quick else 3000
    carriers = [L.rand_carrier(rng) for _ in range(n_big)]
    for c in carriers:
        style = rng.choice(["none", "none", "few", "fill", "many"])
        c["stuffing"] = {"none": 0, "few": rng.randrange(1, 5), "fill": (184 - c["unit_len"] % 184) % 184,
                         "many": rng.randrange(1, 400)}[style]
    payloads = L.ser_payloads(carriers)
    wfs = L.check_carriers(carriers)
    for c, p, w in zip(carriers, payloads, wfs):
        if not w:       # wf_carrierb of the Coq spec rejects it: generator drift, nothing is decided on this carrier
            out.append(Case("pmt.parse %s" % hx(p), kind="hyp-false", decides=False, nontrivial=False))
            continue
        wf = "wf"
        want_spec("pmt.parse %s" % hx(p), "spec.parse", c)
        out.append(Case("pmt.parse %s" % hx(p), kind="parse-" + wf, theorem="C06_L2_parse_tables"))
        out.append(Case("pmt.doneall %s" % hx(p), kind="doneall", theorem="C06_L3_done_prefix"))
        crc_ok = c["pf"] == 0 and not c["pre"]
        out.append(Case("pmt.crc %s" % hx(p), kind="crc" if crc_ok else "fid-crc-pointer", decides=crc_ok, nontrivial=crc_ok,
                        theorem="C06_extract_crc"))
        out.append(Case("psi.acc %s" % hx(p), kind="psi-acc", theorem="C06_psi_accessors"))
        pid = rng.choice(L.PMT_PID_CHOICES + [rng.randrange(1, 8191)])
        cutsets = [L.rand_cuts(rng, len(p), set(c["inner_ends"])) for _ in range(2)]
        read_cases(rng, c, p, pid, out, "read-random-split", cutsets)
    # ---- small carriers: every single cut point (and every pair in thorough)
    n_small = 25 if quick else 200
    smalls = [L.rand_carrier(rng, small=True) for _ in range(n_small)]
    for c in smalls:
        c["stuffing"] = rng.choice([0, 0, 1, 3])
    spay = L.ser_payloads(smalls)
    swf = L.check_carriers(smalls)
    for c, p, w in zip(smalls, spay, swf):
        if not w:
            out.append(Case("pmt.parse %s" % hx(p), kind="hyp-false", decides=False, nontrivial=False))
            continue
        want_spec("pmt.parse %s" % hx(p), "spec.parse", c)
        out.append(Case("pmt.parse %s" % hx(p), kind="parse-wf", theorem="C06_L2_parse_tables"))
        out.append(Case("pmt.doneall %s" % hx(p), kind="doneall", theorem="C06_L3_done_prefix"))
        n = len(p)
        cutsets = [[k] for k in range(1, n)]
        if not quick:
            cutsets += [[i, j] for i in range(1, n) for j in range(i + 1, n)][:1500]
        read_cases(rng, c, p, 256, out, "read-every-cut", cutsets, interleave=False)
    # ---- table header codec
    for b1 in range(256):
        for b0 in (0, 2, 0xfc, 0xff):
            for b2 in (0, 1, 0x7f, 0x80, 0xff, rng.randrange(256)):
                out.append(Case("psi.th %s" % hx(bytes([b0, b1, b2])), kind="th-decode", theorem="C06_table_header_data_from_bytes"))
    for sl in list(range(1024)) + [1024, 1025, 4095, 4096, 32768, 65535, rng.randrange(65536)]:
        for tid, ssi, pi in ((2, 1, 0), (0, 0, 0), (0xfc, 0, 1), (255, 1, 1)):
            ok = sl < 1024
            out.append(Case("psi.thdata %d %d %d %d" % (tid, ssi, pi, sl), kind="th-encode" if ok else "fid-th-encode-wide",
                            decides=ok, nontrivial=ok, theorem="C06_table_header_from_bytes_data"))
    for b in (b"", b"\x02", b"\x02\xb0"):
        out.append(Case("psi.th %s" % hx(b), kind="th-short", theorem="C06_table_header_short"))
    for _ in range(40):
        out.append(Case("psi.th %s" % hx(L.rand_bytes(rng, rng.randrange(3, 12))), kind="th-decode-long", decides=False, nontrivial=False))
    for n in list(range(0, 12)) + [182, 183, 255, 256, 300]:
        out.append(Case("psi.npf %d" % n, kind="npf", decides=n <= 255, nontrivial=n <= 255, theorem="C06_new_pointer_field"))
    out.append(Case("psi.npf -1", kind="fid-npf-neg", decides=False, nontrivial=False))
    # ---- fidelity: malformed inputs tie the model's error / panic branches to the code
    nf = 40 if quick else 600
    for c, p in list(zip(carriers, payloads))[:nf]:
        muts = []
        for _ in range(6):
            k = rng.randrange(len(p) + 1)
            muts.append(p[:k])
        q = bytearray(p)
        base = 1 + c["pf"] + sum(3 + len(b) for _, _, b in c["pre"])
        for off in (1, 2, 10, 11):
            for d in (1, -1, 0x10):
                q2 = bytearray(p)
                q2[base + off] = (q2[base + off] + d) % 256
                muts.append(bytes(q2))
        for _ in range(6):
            q2 = bytearray(p)
            i = rng.randrange(len(p))
            q2[i] ^= 1 << rng.randrange(8)
            muts.append(bytes(q2))
        q2 = bytearray(p)
        q2[0] = rng.choice([254, 255, 200])
        muts.append(bytes(q2))
        for m in muts:
            op = rng.choice(["pmt.parse", "pmt.parse", "pmt.doneall", "pmt.crc", "psi.acc"])
            if op == "pmt.doneall" and len(m) > 400:
                op = "pmt.done"
            out.append(Case("%s %s" % (op, hx(m)), kind="fid-malformed", decides=False, nontrivial=False))
    # ---- fidelity, targeted at the boundaries that no well-formed section reaches: a descriptor that ends exactly at the end
    #      of the section (endPos == len), 4 junk bytes between the last stream and the CRC (offset == bound), an
    #      ES_info_length of 1 (half a descriptor header)
    for c, p in list(zip(carriers, payloads))[:nf * 2]:
        s = c["sec"]
        if not s["streams"]:
            continue
        base = 1 + c["pf"] + sum(3 + len(b) for _, _, b in c["pre"])
        sl = L.section_length(s)
        crc_pos = base + 3 + sl - 4
        pos = base + 12 + L.desc_len(s["pdescs"])
        starts = []
        for st, pid, ds in s["streams"]:
            starts.append(pos)
            pos += 5 + L.desc_len(ds)
        muts = []
        st, pid, ds = s["streams"][-1]
        if ds and len(ds[-1][1]) <= 251:
            q = bytearray(p)
            lp = starts[-1] + 5 + L.desc_len(ds[:-1]) + 1
            q[lp] += 4
            muts.append(bytes(q))
        if sl + 4 <= 1021:
            q = bytearray(p[:crc_pos] + L.rand_bytes(rng, 4) + p[crc_pos:])
            q[base + 1] = (q[base + 1] & 0xF0) | ((sl + 4) >> 8)
            q[base + 2] = (sl + 4) & 0xFF
            muts.append(bytes(q))
        if not ds and sl + 1 <= 1021:
            q = bytearray(p[:crc_pos] + L.rand_bytes(rng, 1) + p[crc_pos:])
            q[starts[-1] + 4] = 1
            q[base + 1] = (q[base + 1] & 0xF0) | ((sl + 1) >> 8)
            q[base + 2] = (sl + 1) & 0xFF
            muts.append(bytes(q))
        for m in muts:
            out.append(Case("pmt.parse %s" % hx(m), kind="fid-boundary", decides=False, nontrivial=False))
    # ---- fidelity: streams outside the hypotheses (no PUSI first, PMT packet without payload flag, short tail)
    for c, p in list(zip(carriers, payloads))[:nf]:
        pid = 256
        cuts = L.rand_cuts(rng, len(p), set(c["inner_ends"]))
        items = L.items_for(rng, p, cuts, pid)
        s = vlib.unhx(vlib.run_model([L.stream_line(pid, items)])[0])
        variants = [s[:rng.randrange(len(s))], s[188:], s + s]
        b = bytearray(s)
        b[3] &= 0xEF
        variants.append(bytes(b))
        b = bytearray(s)
        b[1] &= 0xBF
        variants.append(bytes(b))
        for v in variants:
            out.append(Case("pmt.read %s %d" % (hx(v), pid), kind="fid-stream", decides=False, nontrivial=False))
    # ---- fidelity: a unit interrupted by a new payload_unit_start (the accumulator restarts), two PMTs in a row,
    #      a continuation packet before the first start (the reader gives up: ErrNoPayloadUnitStartIndicator)
    pairs = list(zip(carriers, payloads))
    for i in range(0, min(len(pairs) - 1, nf), 2):
        (c1, p1), (c2, p2) = pairs[i], pairs[i + 1]
        pid = 481
        it1 = L.items_for(rng, p1, L.rand_cuts(rng, len(p1), set(c1["inner_ends"]), "random"), pid, tail_other=False)
        it2 = L.items_for(rng, p2, L.rand_cuts(rng, len(p2), set(c2["inner_ends"])), pid)
        r = vlib.run_model([L.stream_line(pid, it1, "ser.pkts"), L.stream_line(pid, it2, "ser.pkts"),
                            "spec.hyp.read %s %d %d %s" % (L.carrier_args(c1), c1["stuffing"], pid, fmt_val(it1))])
        k1 = [vlib.unhx(x) for x in r[0].strip("[]").split()]
        k2 = [vlib.unhx(x) for x in r[1].strip("[]").split()]
        # an interrupted transmission of unit 1 (its first packets only, never reaching the end of the unit), then unit 2:
        # C06_L4_read_pmt_after_interrupted (deciding when unit 2 satisfies L4's hypotheses and unit 1's packets stop early)
        mine1 = [i for i, it in enumerate(it1) if it[0] == 1]
        cutat = rng.randrange(1, len(mine1)) if len(mine1) > 1 else 0
        npk = mine1[cutat] if cutat else 0          # packets of it1 before its cutat-th PMT packet
        carried = sum(len(it[-1]) for it in it1[:npk] if it[0] == 1)
        h2 = vlib.run_model(["spec.hyp.interrupted %s %s %s %d %d %s" % (
            L.carrier_args(c1), fmt_val(it1[:npk]), L.carrier_args(c2), c2["stuffing"], pid, fmt_val(it2))])
        ok_r = npk > 0 and carried < c1["unit_len"] and h2 == ["1"]      # hyp_interruptedb: every hypothesis of the theorem
        line = "pmt.read %s %d" % (hx(b"".join(k1[:npk] + k2)), pid)
        if ok_r:
            want_spec(line, "spec.read", c2)
        out.append(Case(line, kind="read-after-interrupted" if ok_r else "fid-restart", decides=ok_r, nontrivial=ok_r,
                        theorem="C06_L4_read_pmt_after_interrupted"))
        # the first unit followed by anything (another PMT, garbage, a truncated packet): C06_L4_read_pmt_then_anything
        ok = r[2] == "1"
        for tail, kind in ((b"".join(k2), "read-then-second-unit"), (L.rand_bytes(rng, rng.randrange(1, 400)), "read-then-garbage")):
            line = "pmt.read %s %d" % (hx(b"".join(k1) + tail), pid)
            if ok:
                want_spec(line, "spec.read", c1)
            out.append(Case(line, kind=kind if ok else "fid-two-units", decides=ok, nontrivial=ok,
                            theorem="C06_L4_read_pmt_then_anything"))
        out.append(Case("pmt.read %s %d" % (hx(b"".join(k1[1:] + k2)), pid), kind="fid-join-midway", decides=False, nontrivial=False))
    # ---- a long-lived caller: several PMT versions gathered one after the other through ONE accumulator
    #      (PmtAccumulatorDoneFunc as predicate, Reset between tables), each decoded from acc.Bytes() and looked at again
    #      after the accumulator has been reused (pmt.acchist; goexec/stable.go keeps every Bytes(), packet and descriptor
    #      body handed out).  Table k+1 has the layout of table k with other descriptor bodies, or is unrelated.
    import copy
    for _ in range(30 if quick else 600):
        base = L.rand_carrier(rng, crc="computed", allow_pre=False, small=rng.random() < 0.3,
                              nstreams=rng.choice([1, 2, 3, None]))
        tabs = [base]
        for k in range(rng.choice([1, 1, 2, 3])):
            if rng.random() < 0.75:
                nxt = copy.deepcopy(tabs[-1])
                sec = nxt["sec"]
                sec["ver"] = (sec["ver"] + 1) % 32
                sec["pdescs"] = [(t, L.rand_bytes(rng, len(b))) for t, b in sec["pdescs"]]
                sec["streams"] = [(st, pid, [(t, L.rand_bytes(rng, len(b))) for t, b in ds]) for st, pid, ds in sec["streams"]]
                sec["crc"] = b""
            else:
                nxt = L.rand_carrier(rng, crc="computed", allow_pre=False, small=rng.random() < 0.5)
            tabs.append(nxt)
        for c in tabs:
            c["stuffing"] = rng.choice([0, 0, 3, (184 - c["unit_len"] % 184) % 184])
        pays = L.ser_payloads(tabs)
        if not all(L.check_carriers(tabs)):
            continue
        pid = rng.choice(L.PMT_PID_CHOICES)
        req = [L.stream_line(pid, L.items_for(rng, p, L.rand_cuts(rng, len(p), set(), rng.choice(["full", "random", "one"])),
                                              pid, interleave=False, tail_other=False), "ser.pkts") for p in pays]
        pk = [r.replace("[", "[ ").replace("]", " ]") for r in vlib.run_model(req)]
        out.append(Case("pmt.acchist [ %s ]" % " ".join(pk), kind="acc-reuse-%d" % len(tabs), theorem="C06_L2_parse_tables",
                        note="PMTs decoded from acc.Bytes() stay what was on the wire while the accumulator gathers the next table"))
    if _SPEC_REQ:
        for (line, _), exp in zip(_SPEC_REQ, vlib.run_model([r for _, r in _SPEC_REQ])):
            EXPECT[line] = exp
    return out


# K1 is reported as KNOWN-FINDING only when the coordinator has listed it in known_findings.json (entry id "K1", snippet in
# notes/findings/known_findings.C06.json); without the entry these cases stay plain fidelity cases (model and code agree).
K1_LISTED = any(k.get("id") == "K1" for k in vlib.load_known("C06"))
K1_MSG = "ReadPMT answers ErrPMTNotFound for a well-formed PMT with an empty stream list (K1); the property asks for the (empty) stream list"


def oracle(c, real, model):
    if K1_LISTED and c.kind == "read-empty-streams-K1" and real == "[1 20]":
        return K1_MSG
    exp = EXPECT.get(c.line)
    if exp is not None and real != exp:
        return "observed differs from what the Spec-side oracle (sec_result of the logical section) requires: " + exp[:300]
    return None      # then the projected comparison with the model decides


def known_match(entry, c, real, model):
    if entry.get("id") == "K1":
        return c.kind == "read-empty-streams-K1" and real == "[1 20]"
    return c.line in entry.get("lines", [entry.get("line")])


def case_of_line(line, kind):
    return Case(line, kind=kind, decides=not (kind.startswith("fid-") or kind.startswith("read-empty")))


def shrink(c):
    f = c.line.split()
    if f[0] == "pmt.doneall":
        b = vlib.unhx(f[1])
        for k in range(min(len(b), 58) + 1):
            yield Case("pmt.done %s" % hx(b[:k]), kind=c.kind, decides=c.decides, theorem=c.theorem)
    elif f[0] == "pmt.read":
        s = vlib.unhx(f[1]); pid = int(f[2])
        pk = [s[i:i + 188] for i in range(0, len(s) - 187, 188)]
        mine = [p for p in pk if ((p[1] & 0x1f) << 8 | p[2]) == pid]
        if len(mine) < len(pk):
            yield Case("pmt.read %s %d" % (hx(b"".join(mine)), pid), kind=c.kind, decides=c.decides, theorem=c.theorem)


LEVEL_TEXT = ("Proof: Coq theorems in Properties/C06.v over a model of psi/pmt.go, psi/psi.go and the accumulator "
              "(uint8/uint16 wrap and slice panics written out) state that parsing inverts the ISO 13818-1 serialiser for "
              "every well-formed section, carrier and packetisation, characterise the completion predicate on every prefix, "
              "and give ExtractCRC, the PSI accessors and the table header codec; the model is tied to the real code on every "
              "run by executing both on Coq-serialised carriers and packetisations.")
LEVEL_NOTE = ("Trusted: Coq kernel; transcription Model/Pmt.v, Model/Psi.v; Spec/PmtSpec.v as reading of ISO 13818-1; "
              "extraction and executor glue; reflection access to the descriptor body in goexec.")
TECHNIQUE = "Coq proof (parser inverts serialiser by induction with ghost offsets; prefix characterisation; accumulator composition) + model/implementation correspondence"


# coverage round (notes/coverage.md): cases and support theorems for exported identifiers outside the property text
from gen import covlib
covlib.install(globals())
