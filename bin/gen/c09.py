"""C09 — SCTE-35 encoding is canonical, CRC-correct, inverse to decoding; setters are reflected.
Cases: (a) canonical sections (from logical values through the Coq serialiser, CRC set) re-encoded: byte identity;
(b) setter histories from CreateSCTE35 (clean, with flags set then cleared, wild arguments) -> UpdateData bytes,
full getter view, Data() before/after, and the decode of the bytes just produced;
(c) histories that start from a decoded section (reaches component-mode splice_insert)."""
import vlib
from vlib import Case, hx, parse_val
from gen import sctelib as L
from gen.sctelib import fmt_val

PROP = "C09"
PROOF_FILES = ["Properties/C09.v", "Properties/C13tie.v"]
RULE = ("a case is non-trivial when it is a distinct setter history or a distinct canonical section inside the property's "
        "hypotheses (field values representable: section_length < 1024, lengths < 256); 'clean' histories set only fields "
        "that are on the wire (round trip decode(encode) = getters is checked on the real code as an oracle), 'toggle' "
        "histories set a flag and its value and clear the flag again, 'wild' histories use arbitrary arguments incl. "
        "over-wide values and are fidelity cases when they leave the encoder's range")
EXHAUSTIVE = False
ASSUMPTIONS = ["copy()/append/make behave as documented; alignmentStuffing small enough for make()",
               "objects are modelled by value: setter calls reach the signal through CommandInfo()/Descriptors()[i]/MID()[j]/Components()[j] as in the Go API"]
_logical = {}


# ------------------------------------------------------------------ op constructors (numbers = Exec/ScteExec.v p_*op)
def K(n, *a): return [n] + list(a)


def clean_insert_ops(rng):
    ops = [K(2, rng.choice([0, 0xFFFFFFFF, rng.randrange(1 << 32)]))]
    if rng.random() < 0.2:
        return ops + [K(11, 0), K(4, 1)], False, 0
    ops.append(K(3, rng.randrange(2)))
    prog = int(rng.random() < 0.8); imm = rng.randrange(2)
    ops += [K(11, prog), K(12, imm)]
    has_time, pts = False, 0
    if prog and not imm:
        pts = L.g_pts(rng); ops += [K(0, 1), K(1, pts)]; has_time = True
    if rng.random() < 0.5:
        ops += [K(5, 1), K(6, L.g_pts(rng)), K(7, rng.randrange(2))]
    ops += [K(8, rng.randrange(65536)), K(9, rng.randrange(256)), K(10, rng.randrange(256))]
    return ops, has_time, pts


def clean_desc_ops(rng):
    ops = [K(0, rng.choice([0, 0xFFFFFFFF, rng.randrange(1 << 32)]))]
    if rng.random() < 0.15:
        return ops + [K(2, 1)]
    prog = rng.randrange(2)
    ops.append(K(11, prog))
    if not prog:
        ops.append(K(18, [[rng.randrange(256), rng.choice(L.PTS_EDGE + [rng.randrange(L.T33)])] for _ in range(rng.randrange(3))]))
    if rng.random() < 0.5:
        ops += [K(3, 1), K(4, rng.choice(L.DUR40_EDGE + [rng.randrange(L.T40)]))]
    if rng.random() < 0.4:
        ops.append(K(12, 1))
    else:
        ops += [K(13, rng.randrange(2)), K(15, rng.randrange(2)), K(14, rng.randrange(2)), K(16, rng.randrange(4))]
    u = rng.randrange(4)
    if u == 1:
        ops += [K(5, rng.choice([1, 2, 3, 8, 9, 0x0C, 0x0E, 0x0F])), K(6, L.g_bytes(rng, rng.choice([1, 4, 8, 20])))]
    elif u == 2:
        mid = [[rng.choice([1, 8, 9, 0x0E]), L.g_bytes(rng, rng.choice([0, 1, 3, 8]))] for _ in range(rng.randrange(4))]
        ops += [K(5, 13), K(17, mid)]
        if mid and rng.random() < 0.5:      # MID()[j].SetUPID / SetUPIDType on an element (length follows since 0cd2c00)
            j = rng.randrange(len(mid))
            ops.append(K(20, j, L.g_bytes(rng, rng.choice([0, 1, 2, 5, 9]))))
            if rng.random() < 0.3:
                ops.append(K(21, j, rng.choice([1, 8, 9, 0x0E])))
    elif u == 3:
        ops += [K(6, L.g_bytes(rng, rng.randrange(1, 6)))]      # UPID with type 0 (not used) but bytes present
    ty = rng.choice(L.SEG_TYPES + [0x34, 0x36])
    ops.append(K(1, ty))
    if ty in (0x34, 0x36) and rng.random() < 0.6:
        ops += [K(19, 1), K(9, rng.randrange(256)), K(10, rng.randrange(256))]
    ops += [K(7, rng.randrange(256)), K(8, rng.randrange(256))]
    return ops


def clean_history(rng):
    ops = []
    k = rng.randrange(3)
    has_time, pts = False, 0
    if k == 1:
        pts = L.g_pts(rng); has_time = True
        ops.append(K(5, [1, [K(0, 1), K(1, pts)]]))
    elif k == 2:
        cops, has_time, pts = clean_insert_ops(rng)
        ops.append(K(5, [2, cops]))
    elif rng.random() < 0.5:
        ops.append(K(5, [0, []]))
    adj = L.g_pts(rng) if rng.random() < 0.8 else 0   # splice_null: PTS() is the adjustment itself (0fcfd24)
    ops.append(K(1, (pts + adj) % L.T33))
    if rng.random() < 0.8:
        ops.append(K(0, rng.choice([0, 1, 0xFFF, 0xABC, rng.randrange(4096)])))
    nd = rng.choice([0, 1, 1, 2, 3])
    if nd or rng.random() < 0.5:
        ops.append(K(6, [clean_desc_ops(rng) for _ in range(nd)]))
    rng.shuffle(ops)
    if rng.random() < 0.2:
        ops.insert(rng.randrange(len(ops) + 1), K(7))
    return ops


def toggle_history(rng):
    """set a flag with its value, clear it again (or the other way round); every pair of the API"""
    ops = clean_history(rng)
    extra = []
    t = rng.randrange(8)
    if t == 0:
        extra = [K(3, 1), K(3, 0)] if rng.random() < 0.5 else [K(3, 0), K(3, 1)]            # SCTE35.SetHasPTS
    elif t == 1:
        extra = [K(8, K(5, 1)), K(8, K(6, L.g_pts(rng))), K(8, K(5, 0))]                     # insert duration on/off
    elif t == 2:
        extra = [K(8, K(4, 1)), K(8, K(4, 0))] if rng.random() < 0.5 else [K(8, K(4, 1))]    # cancel on/off
    elif t == 3:
        extra = [K(8, K(12, 1)), K(8, K(12, 0))] if rng.random() < 0.5 else [K(8, K(12, 1))]
    elif t == 4:
        extra = [K(9, 0, K(3, 1)), K(9, 0, K(4, rng.randrange(L.T40))), K(9, 0, K(3, 0))]
    elif t == 5:
        extra = [K(9, 0, K(2, 1)), K(9, 0, K(2, 0))] if rng.random() < 0.5 else [K(9, 0, K(2, 1))]
    elif t == 6:
        extra = [K(9, 0, K(5, 13)), K(9, 0, K(17, [[9, b"ab"]])), K(9, 0, K(5, rng.choice([0, 8, 13])))]
    else:
        extra = [K(9, 0, K(1, 0x34)), K(9, 0, K(19, 1)), K(9, 0, K(9, 7)), K(9, 0, K(1, rng.choice([0x36, 0x30])))]
    return ops + extra


def wild_cmdop(rng):
    k = rng.randrange(14)
    if k in (0, 3, 4, 5, 7, 11, 12):
        return K(k, rng.randrange(2))
    if k == 13:
        return K(13, rng.randrange(3), K(rng.randrange(3), rng.choice([0, 1, rng.randrange(1 << 34)])))
    return K(k, rng.choice([0, 1, 255, 256, 65535, 65536, (1 << 32) - 1, 1 << 32, (1 << 33) - 1, 1 << 33, (1 << 40) + 5, (1 << 64) - 1, rng.randrange(1 << 64)]))


def wild_descop(rng):
    k = rng.randrange(23)
    if k == 22:
        return K(22, rng.randrange(3), [rng.randrange(2), rng.choice([0, 255, 1 << 32, (1 << 33) + 1, rng.randrange(1 << 64)])])
    if k in (2, 3, 11, 12, 13, 14, 15, 19):
        return K(k, rng.randrange(2))
    if k == 6:
        return K(6, L.g_bytes(rng, rng.choice([0, 1, 5, 40])))
    if k == 17:
        return K(17, [[rng.randrange(256), L.g_bytes(rng, rng.choice([0, 1, 5]))] for _ in range(rng.randrange(4))])
    if k == 18:
        return K(18, [[rng.randrange(256), rng.choice([0, 1 << 32, (1 << 33) - 1, 1 << 33, rng.randrange(1 << 64)])] for _ in range(rng.randrange(4))])
    if k == 20:
        return K(20, rng.randrange(3), L.g_bytes(rng, rng.choice([0, 1, 5])))
    if k == 21:
        return K(21, rng.randrange(3), rng.randrange(256))
    if k == 5:
        return K(5, rng.choice([0, 1, 8, 9, 13, 13, 14, 255]))
    if k == 1:
        return K(1, rng.choice([0x34, 0x36, 0x30, 0x10, 0x35, 0, 255]))
    return K(k, rng.choice([0, 1, 3, 4, 255, 256, (1 << 32) - 1, 1 << 32, (1 << 40) - 1, 1 << 40, rng.randrange(1 << 64)]))


def wild_history(rng, ndesc_hint=2):
    ops = []
    for _ in range(rng.randrange(1, 14)):
        k = rng.choice([0, 1, 2, 3, 4, 5, 5, 6, 6, 7, 8, 8, 8, 9, 9, 9])
        if k in (0, 1, 2):
            ops.append(K(k, rng.choice([0, 1, 4095, 4096, 0xFFFF, (1 << 33) - 1, 1 << 33, (1 << 64) - 1, rng.randrange(1 << 34)])))
        elif k == 3:
            ops.append(K(3, rng.randrange(2)))
        elif k == 4:
            ops.append(K(4, rng.choice([0, 1, 2, 7])))
        elif k == 5:
            ops.append(K(5, [rng.randrange(3), [wild_cmdop(rng) for _ in range(rng.randrange(6))]]))
        elif k == 6:
            ops.append(K(6, [[wild_descop(rng) for _ in range(rng.randrange(8))] for _ in range(rng.randrange(3))]))
        elif k == 7:
            ops.append(K(7))
        elif k == 8:
            ops.append(K(8, wild_cmdop(rng)))
        else:
            ops.append(K(9, rng.randrange(ndesc_hint + 1), wild_descop(rng)))
    return ops


def script_of(s):
    """Python mirror of Proofs/ScteBuild.v script_of: the setter history that builds the logical section s
    (s must be api_buildable: no foreign descriptors, no splice_insert components, protocol/enc_alg/cw_index 0)"""
    cmd = s[12]
    ops = []
    pts_time = 0
    if cmd[0] == 1:
        pts_time = cmd[1][0]
        ops.append(K(5, [1, [K(0, 1), K(1, pts_time)]]))
    elif cmd[0] == 2:
        eid, body = cmd[1], cmd[2]
        if not body:
            cops = [K(2, eid), K(11, 0), K(4, 1)]
        else:
            out, mode, brk, up, an, ae = body[0]
            prog = int(mode[0] in (0, 1)); imm = int(mode[0] in (0, 2))
            cops = [K(2, eid), K(3, out), K(11, prog), K(12, imm)]
            if mode[0] == 1:
                pts_time = mode[1][0]
                cops += [K(0, 1), K(1, pts_time)]
            if brk:
                cops += [K(5, 1), K(6, brk[0][1]), K(7, brk[0][0])]
            cops += [K(8, up), K(9, an), K(10, ae)]
        ops.append(K(5, [2, cops]))
    epts = (pts_time + s[8]) % L.T33   # splice_null: pts_time 0, PTS() = pts_adjustment
    ops += [K(1, epts), K(0, s[10])]
    ds = []
    for d in s[13]:
        if not d[2]:
            ds.append([K(0, d[1]), K(2, 1)]); continue
        comps, dur, restr, upid, ty, num, ex, sub = d[2][0]
        o = [K(0, d[1]), K(11, 0 if comps else 1)]
        if comps:
            o.append(K(18, comps[0]))
        if dur:
            o += [K(3, 1), K(4, dur[0])]
        if restr:
            w, n, a, dv = restr[0]
            o += [K(13, w), K(15, n), K(14, a), K(16, dv)]
        else:
            o.append(K(12, 1))
        o += [K(5, upid[1]), K(6, upid[2])] if upid[0] == 0 else [K(5, 13), K(17, upid[1])]
        o.append(K(1, ty))
        if sub:
            o += [K(19, 1), K(9, sub[0][0]), K(10, sub[0][1])]
        o += [K(7, num), K(8, ex)]
        ds.append(o)
    ops.append(K(6, ds))
    return ops


def api_buildable(s):
    c = s[12]
    if c[0] == 2 and c[2] and c[2][0][1][0] in (2, 3) and len(c[2][0][1][1]) > 0:
        return False
    return all(d[0] == 0 for d in s[13]) and s[5] == 0 and s[7] == 0 and s[9] == 0 and s[2] == 0 and s[3] == 0


BIG = [(1 << 33) + 5, (1 << 33), (1 << 40) + 7, (1 << 64) - 1, (1 << 63) + 12345, 0x1FFFFFFFF + 2]


def overwide_history(rng):
    """clean histories whose value setters get over-wide arguments (truncated by the setters since 0b05886):
    spliceInsert.SetDuration, SetAdjustPTS, componentOffset.SetPTSOffset, SetDeviceRestrictions, and the ones that always
    truncated (SetTier, descriptor SetDuration, command SetPTS); flags are set so that the value is on the wire"""
    big = lambda: rng.choice(BIG + [rng.randrange(1 << 33, 1 << 64)])
    cops = [K(2, rng.randrange(1 << 32)), K(0, 1), K(1, big()), K(5, 1), K(6, big()), K(7, rng.randrange(2)),
            K(8, rng.randrange(65536)), K(9, rng.randrange(256)), K(10, rng.randrange(256))]
    d = [K(0, rng.randrange(1 << 32)), K(11, 0), K(18, [[rng.randrange(256), big()] for _ in range(rng.randrange(1, 3))]),
         K(3, 1), K(4, big()), K(13, 1), K(16, rng.choice([4, 5, 6, 7, 255, 131])), K(1, 0x30), K(7, 1), K(8, 2)]
    if rng.random() < 0.5:
        d.append(K(22, 0, [1, big()]))          # Components()[0].SetPTSOffset on the fresh descriptor
        d.append(K(22, 0, [0, rng.randrange(256)]))
    ops = [K(5, [2, cops])]
    if rng.random() < 0.6:
        ops.append(K(2, big()))                 # SCTE35.SetPTS with an over-wide argument (truncated since a397833)
    if rng.random() < 0.6:
        ops.append(K(1, big()))
    ops += [K(0, rng.choice([4096, 0xFFFF, 0x1ABC])), K(6, [d])]
    if rng.random() < 0.5:
        ops.append(K(8, K(6, big())))           # CommandInfo().SetDuration again
    if rng.random() < 0.5:
        ops.append(K(9, 0, K(22, 0, [1, big()])))   # Descriptors()[0].Components()[0].SetPTSOffset
        ops.append(K(9, 0, K(16, rng.choice([7, 6, 255]))))
    return ops


def component_ops(rng, s):
    """setter calls reached through Components()[j] / MID()[j] of the objects of a DECODED section s"""
    ops = []
    big = lambda: rng.choice(BIG + [rng.randrange(1 << 33), rng.randrange(1 << 64)])
    c = s[12]
    if c[0] == 2 and c[2] and c[2][0][1][0] in (2, 3):
        n = len(c[2][0][1][1])
        for _ in range(rng.randrange(1, 4)):
            j = rng.randrange(n + 1)
            k = rng.randrange(3)
            ops.append(K(8, K(13, j, K(k, rng.randrange(256) if k == 0 else rng.randrange(2) if k == 1 else big()))))
    segs = [d for d in s[13] if d[0] == 0]
    for i, d in enumerate(segs):
        if not d[2]:
            continue
        comps, dur, restr, upid = d[2][0][0], d[2][0][1], d[2][0][2], d[2][0][3]
        if comps:
            for _ in range(rng.randrange(1, 3)):
                j = rng.randrange(len(comps[0]) + 1)
                ops.append(K(9, i, K(22, j, [0, rng.randrange(256)] if rng.random() < 0.4 else [1, big()])))
        if upid[0] == 1:
            for _ in range(rng.randrange(1, 3)):
                j = rng.randrange(len(upid[1]) + 1)
                ops.append(K(9, i, K(21, j, rng.randrange(256)) if rng.random() < 0.5 else K(20, j, L.g_bytes(rng, rng.choice([0, 1, 4, 9])))))
        if restr and rng.random() < 0.5:
            ops.append(K(9, i, K(16, rng.choice([4, 7, 255]))))
    rng.shuffle(ops)
    return ops


def has_untimed(s):
    """the logical signal has a splice_time() with time_specified_flag 0 (encoder writes 0x7E there)"""
    c = s[12]
    return c[0] == 2 and c[2] and c[2][0][1][0] == 3 and any(not t for _, t in c[2][0][1][1])


def gen(rng, tier):
    out = []
    mult = 1 if tier == "quick" else 20
    # (a) canonical sections re-encoded
    sigs = []
    for c in L.insert_lattice(rng):
        sigs.append(L.g_signal(rng, cmd=c, pf=0, canonical=True))
    for d in L.seg_lattice(rng)[:: 1 if tier != "quick" else 3]:
        sigs.append(L.g_signal(rng, descs=[d], pf=0, canonical=True))
    for _ in range(300 * mult):
        sigs.append(L.g_signal(rng, pf=rng.choice([0, 0, 3]), canonical=True))
    # long commands: splice_command_length >= 256 needs >= 43 timed components (or ~250 immediate ones), so that the
    # high nibble of the 12-bit length (which shares a byte with the tier) is exercised
    for ncomp, mode in ((43, 3), (60, 3), (120, 3), (250, 2), (255, 2)):
        for _ in range(2 * mult):
            m = [2, L.g_bytes(rng, ncomp)] if mode == 2 else [3, [[rng.randrange(256), L.g_stime(rng)] for _ in range(ncomp)]]
            body = [rng.randrange(2), m, L.g_break(rng, rng.randrange(3)), rng.randrange(65536), rng.randrange(256), rng.randrange(256)]
            sg = L.g_signal(rng, cmd=[2, rng.randrange(1 << 32), [body]], descs=[], pf=0, canonical=True)
            sg[10] = rng.choice([0xFFF, 0x0FF, 0xF00, 0, rng.randrange(4096)])   # tier: neighbours of the length nibble
            sigs.append(sg)
    # descriptors at the size limit (descriptor_length 250..255): canonical sections whose foreign descriptors come first
    for dl in (250, 253, 254, 255):
        for n_after in (0, 1, 2):
            ds = [[1, rng.choice([0, 1, 0x80, 0xFF]), L.g_bytes(rng, dl)]] + [L.g_seg(rng) for _ in range(n_after)]
            sigs.append(L.g_signal(rng, descs=ds, pf=0, canonical=True))
    sigs = [L.with_crc(s) for s in sigs if L.fits(s)]
    data = L.serialise(sigs)
    for s, b in zip(sigs, data):
        line = "scte.reencode " + hx(b)
        _logical[line] = s
        # untimed components (0x7F since ce48cf3) and splice_null with pts_adjustment (kept since 0fcfd24) are ordinary
        # canonical sections; they get their own histogram key only
        kind = "reencode-canonical"
        if has_untimed(s):
            kind = "reencode-canonical-untimed-component"
        elif s[12][0] == 0 and s[8] != 0:
            kind = "reencode-canonical-null-adjustment"
        out.append(Case(line, kind=kind, theorem="C09_encode_decode_canonical"))
    # (a'') arbitrary supported sections (interleaved descriptors, stuffing, legacy command length, any sap_type):
    # re-encoding gives the canonical form of C09_reencode_normalizes
    anys = []
    for _ in range(250 * mult):
        sg = L.g_signal(rng, pf=rng.choice([0, 2]))
        if L.fits(sg):
            anys.append(sg)
    for sg, b in zip(anys, L.serialise(anys)):
        line = "scte.reencode " + hx(b)
        _logical[line] = sg
        out.append(Case(line, kind="reencode-any", theorem="C09_reencode_normalizes"))
    # (a') canonical sections the API can express, built by the setter history of C09_build_canonical
    nb = 0
    for sg, b in zip(sigs, data):
        if api_buildable(sg) and nb < 250 * mult:
            nb += 1
            line = "scte.build [ ] " + fmt_val(script_of(sg))
            _logical[line] = sg
            out.append(Case(line, kind="build-canonical", theorem="C09_build_canonical"))
    # (b) histories from CreateSCTE35
    for _ in range(500 * mult):
        out.append(Case("scte.build [ ] " + fmt_val(clean_history(rng)), kind="clean-history", theorem="C09_encode_canonical"))
    for _ in range(300 * mult):
        out.append(Case("scte.build [ ] " + fmt_val(toggle_history(rng)), kind="toggle-history", theorem="C09_setter_getter"))
    for _ in range(400 * mult):
        out.append(Case("scte.build [ ] " + fmt_val(wild_history(rng)), kind="wild-history", decides=False, nontrivial=False,
                        theorem="ScteEnc.run_script / update_data vs the setter API"))
    # (b') over-wide arguments of the truncating value setters: deciding cases with the round-trip oracle
    for _ in range(200 * mult):
        out.append(Case("scte.build [ ] " + fmt_val(overwide_history(rng)), kind="clean-history-overwide", theorem="C09_history_canonical"))
    # (c') Components()[j] / MID()[j] setters on the objects of a decoded section
    cand = [(sg, b) for sg, b in zip(sigs, data)]
    rng.shuffle(cand)
    nco = 0
    for sg, b in cand:
        ops = component_ops(rng, sg)
        if ops and nco < 250 * mult:
            nco += 1
            out.append(Case("scte.build [ %s ] %s" % (hx(b), fmt_val(ops)), kind="component-setters-decoded",
                            theorem="C09_insert_component_law / C09_desc_component_law / C09_mid_settype"))
    # (c) histories from a decoded section
    base = [(s, b) for s, b in zip(sigs, data)]
    rng.shuffle(base)
    for s, b in base[:150 * mult]:
        nd = sum(1 for d in s[13] if d[0] == 0)
        out.append(Case("scte.build [ %s ] %s" % (hx(b), fmt_val(wild_history(rng, nd))), kind="wild-from-decoded", decides=False,
                        nontrivial=False, theorem="ScteEnc.run_script / update_data vs the setter API"))
        out.append(Case("scte.build [ %s ] %s" % (hx(b), fmt_val(toggle_history(rng)[-3:])), kind="toggle-from-decoded",
                        theorem="C09_setter_getter"))
    # which histories end in a `normal` state (hypothesis of C09_encode_canonical) is decided by the Coq predicate
    # ScteNormalB.isnormal through modelexec: those are deciding cases whatever their kind; the others only tie the model
    # to the code (setter laws hold for every state, but the bytes are outside the theorem)
    idx = [i for i, c in enumerate(out) if c.line.startswith("scte.build ")]
    rep = vlib.run_model(["scte.isnormal " + out[i].line.split(" ", 1)[1] for i in idx])
    for i, r in zip(idx, rep):
        c = out[i]
        nrm = (r == "1")
        if c.kind in ("clean-history", "clean-history-overwide") and not nrm:
            raise RuntimeError("a clean history is not normal: " + c.line[:300])
        c.decides = nrm
        c.nontrivial = nrm
        if not nrm and not c.kind.startswith("wild"):
            c.kind = c.kind + "-not-normal"
    # CRC transliteration
    for n in [0, 1, 2, 3, 4, 17, 100]:
        out.append(Case("scte.crc " + hx(L.g_bytes(rng, n)), kind="crc", theorem="C09_crc"))
    out += gen_alias(rng, mult, [b for _, b in base])
    return out


# ------------------------------------------------------------------ a long-lived caller (scte.hist, notes/aliasing.md)
def mid_desc_ops(rng, n=None):
    """a clean descriptor with a multiple-UPID list of n entries"""
    n = rng.choice([2, 3, 3, 4]) if n is None else n
    mid = [[rng.choice([1, 8, 9, 0x0E]), L.g_bytes(rng, rng.choice([1, 2, 3, 8]))] for _ in range(n)]
    return [K(0, rng.randrange(1 << 32)), K(11, 1), K(12, 1), K(5, 13), K(17, mid), K(1, rng.choice(L.SEG_TYPES)),
            K(7, rng.randrange(256)), K(8, rng.randrange(256))], n


def own_tail(rng, nd, nmid):
    """steps whose arguments come from the SAME object's getters, read-backs between modifiers, UpdateData twice with a
    shrinking setter in between; nd = number of descriptors, nmid = MID entries of descriptor 0 (0 = no MID there)"""
    t = []
    for _ in range(rng.randrange(2, 7)):
        k = rng.randrange(9)
        if k == 0 and nd and nmid:        # SetMID(own entries permuted / some dropped / a fresh one in front or behind)
            sel = list(range(nmid)); rng.shuffle(sel)
            if rng.random() < 0.3:
                sel = sel[:rng.randrange(1, nmid + 1)]
            if rng.random() < 0.4:
                sel.insert(rng.choice([0, len(sel)]), [rng.choice([1, 8, 9]), L.g_bytes(rng, rng.choice([1, 4]))])
            t.append(K(9, 0, K(32, sel)))
            nmid = len(sel)
        elif k == 1 and nd and nmid:      # write through one MID entry, then hand the same entries back
            t.append(K(9, 0, K(20, rng.randrange(nmid), L.g_bytes(rng, rng.choice([0, 1, 5])))))
            t.append(K(9, 0, K(32, list(reversed(range(nmid))))))
        elif k == 2 and nd:               # SetComponents(own Components()) after setting some
            i = rng.randrange(nd)
            cs = [[rng.randrange(256), rng.choice(L.PTS_EDGE + [rng.randrange(L.T33)])] for _ in range(rng.randrange(1, 4))]
            sel = list(range(len(cs))); rng.shuffle(sel)
            t += [K(9, i, K(11, 0)), K(9, i, K(18, cs)), K(9, i, K(33, sel))]
        elif k == 3 and nd > 1:           # SetDescriptors(own Descriptors() reordered / one dropped)
            sel = list(range(nd)); rng.shuffle(sel)
            if rng.random() < 0.3:
                sel = sel[:-1]
            if 0 not in sel or sel.index(0) != 0:
                nmid = 0                  # descriptor 0 is now another one
            nd = len(sel)
            t.append(K(10, sel))
        elif k == 4:
            t.append(K(11))               # SetCommandInfo(own CommandInfo())
        elif k == 5 and nd:               # SetUPID(own UPID()) on a single-UPID descriptor, then a shorter one
            i = rng.randrange(nd)
            if i == 0:
                nmid = 0
            t += [K(9, i, K(5, 8)), K(9, i, K(6, L.g_bytes(rng, 8))), K(9, i, K(34)), K(7), K(9, i, K(6, L.g_bytes(rng, 3))), K(9, i, K(34))]
        elif k == 6:                      # times between modifiers: PTS() is read after each
            p = L.g_pts(rng)
            t += [K(1, p), K(2, (p + rng.choice([0, 1, 90000])) % L.T33), K(1, L.g_pts(rng))]
        elif k == 7:                      # encode, shrink the message, encode again (Data() of the first call is kept)
            t += [K(7), rng.choice([K(6, []), K(4, 0), K(5, [0, []])]), K(7)]
        else:
            t.append(K(7))
    t.append(K(7))
    return t


def gen_alias(rng, mult, sections):
    out = []
    def add(start, ops, kind, th):
        out.append(Case("scte.hist %s %s" % (start, fmt_val(ops)), kind=kind, theorem=th))
    for _ in range(160 * mult):
        # from CreateSCTE35: a clean history whose descriptor 0 carries a MID, then the tail
        ops = clean_history(rng)
        d0, nmid = mid_desc_ops(rng)
        others = [clean_desc_ops(rng) for _ in range(rng.choice([0, 1, 2]))]
        ops = [o for o in ops if o[0] not in (6, 7)] + [K(6, [d0] + others)]
        add("[ ]", ops + own_tail(rng, 1 + len(others), nmid), "hist-own-args", "C09_set_through_descriptor")
    for b in sections[:90 * mult]:
        # from a decoded canonical section (its own descriptors, MID lists and components)
        nd = 3
        add("[ %s ]" % hx(b), own_tail(rng, nd, rng.choice([0, 2, 3])), "hist-own-args-decoded", "C09_set_through_descriptor")
    for _ in range(60 * mult):
        add("[ ]", toggle_history(rng) + [K(7)] + toggle_history(rng)[-3:] + [K(7)], "hist-toggle", "C09_setter_getter")
    # deciding = every UpdateData of the history runs on a `normal` state (ScteNormalB.isnormal, hypothesis of
    # C09_encode_canonical); the setter/getter part of the views holds for every state
    rep = vlib.run_model(["scte.histnormal " + c.line.split(" ", 1)[1] for c in out])
    for c, r in zip(out, rep):
        nrm = (r == "1")
        c.decides = nrm
        c.nontrivial = nrm
        if not nrm:
            c.kind += "-not-normal"
    return out


def _view_eq_modulo_data(a, b):
    return a[:5] == b[:5] and a[6:] == b[6:]


def oracle(c, real, model):
    try:
        if c.kind.startswith("reencode-canonical"):
            r = parse_val(real)
            if r[0] != 0:
                return "a canonical section is not decodable: " + real[:80]
            sec = vlib.unhx(c.line.split()[1])
            sec = sec[1 + sec[0]:]
            if r[1][0] != sec:
                return "re-encoding a decoded canonical section does not reproduce it byte for byte"
            if L.crc32_mpeg2(r[1][0]) != 0:
                return "CRC-32/MPEG-2 of the encoded section is not zero"
        elif c.kind == "reencode-any":
            r = parse_val(real)
            sg = _logical.get(c.line)
            if sg is not None:
                if r[0] != 0:
                    return "a supported section is not decodable: " + real[:80]
                n = list(sg)
                n[0] = b""; n[4] = 3; n[11] = 0; n[14] = b""
                n[13] = [d for d in sg[13] if d[0] == 1] + [d for d in sg[13] if d[0] == 0]
                want = L.py_ser(L.with_crc(n))[1:]
                if r[1][0] != want:
                    return "re-encoding a decoded section does not give its canonical form"
        elif c.kind == "build-canonical":
            r = parse_val(real)
            sg = _logical.get(c.line)
            if sg is not None and r[0] == 0:
                want = L.py_ser(sg)[1 + len(sg[0]):]
                if r[1][0] != want:
                    return "the setter history of a canonical section does not encode to that section"
        elif c.kind in ("clean-history", "clean-history-overwide"):
            r = parse_val(real)
            if r[0] != 0:
                return None
            outb, view, before, after, rt = r[1]
            if L.crc32_mpeg2(outb) != 0:
                return "CRC-32/MPEG-2 of the encoded section is not zero"
            if after != outb:
                return "Data() after UpdateData differs from the returned bytes"
            if rt[0] != 0:
                return "decoding the section just encoded fails: %s" % (rt,)
            if not _view_eq_modulo_data(view, rt[1]):
                return "decoding the section just encoded reports other field values than the getters"
    except Exception as e:
        return None
    return None


def case_of_line(line, kind):
    dec = not kind.startswith("wild") and not kind.endswith("-not-normal")
    return Case(line, kind=kind, decides=dec, nontrivial=dec, theorem="C09")


def known_match(entry, c, real, model):
    return c.line in entry.get("lines", [])


LEVEL_TEXT = ("Proof: Properties/C09.v states over a Gallina model of the setter API and UpdateData that the encoding of every "
              "normal state is the SCTE 35 serialisation of its field values (lengths, reserved bits, CRC = ComputeCRC of the "
              "preceding bytes), that decode and encode are mutually inverse on canonical sections, idempotence, and setter/getter "
              "laws over all setter histories.  The model is tied to the real package on every run by setter histories and canonical "
              "sections, comparing bytes, all getters and Data() before/after.")
LEVEL_NOTE = "Trusted: as C08, plus the by-value rendering of the pointer-based setter API (Model/ScteEnc.v)."
TECHNIQUE = "Coq proof (encoder = serialiser, parser inverts serialiser, fold_left invariants) + model/implementation correspondence on setter histories"
PARTIAL = ("no clause is partial or refuted; limits stated in the theorems: `fits` (8-bit counts and "
           "lengths, section_length < 1024), no stuffing for byte identity; CRC stated against the transliterated ComputeCRC "
           "(Properties/C13tie.v identifies it with CRC-32/MPEG-2); Data() aliasing is only observed in goexec")


def shrink(c):
    """drop one setter call (top level, or one descriptor / one nested op of a SetDescriptors / SetCommandInfo call)"""
    f = c.line.split(" ", 1)
    if f[0] != "scte.build":
        return
    v = parse_val("[" + f[1] + "]")
    start, ops = v[0], v[1]
    # a shrunk clean history need not be clean any more (a value may be left beside a cleared flag), so the round-trip
    # oracle of kind clean-history must not be applied to it: shrunk candidates are judged by real = model only
    kind = c.kind + "-shrunk" if c.kind in ("clean-history", "clean-history-overwide", "build-canonical") else c.kind
    def emit(ops2):
        return Case("scte.build %s %s" % (fmt_val(start), fmt_val(ops2)), kind=kind, decides=c.decides, theorem=c.theorem)
    for i in range(len(ops)):
        yield emit(ops[:i] + ops[i + 1:])
    for i, o in enumerate(ops):
        if o[0] == 6:
            for j in range(len(o[1])):
                yield emit(ops[:i] + [[6, o[1][:j] + o[1][j + 1:]]] + ops[i + 1:])
                for k in range(len(o[1][j])):
                    d2 = o[1][j][:k] + o[1][j][k + 1:]
                    yield emit(ops[:i] + [[6, o[1][:j] + [d2] + o[1][j + 1:]]] + ops[i + 1:])
        if o[0] == 5:
            for k in range(len(o[1][1])):
                yield emit(ops[:i] + [[5, [o[1][0], o[1][1][:k] + o[1][1][k + 1:]]]] + ops[i + 1:])


# coverage round (notes/coverage.md): cases and support theorems for exported identifiers outside the property text
from gen import covlib
covlib.install(globals())
