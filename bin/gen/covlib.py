"""Coverage round (notes/coverage.md): cases for exported functions and constant tables that the text of the twenty
properties does not mention.  Each generator that ends with

    from gen import covlib
    covlib.install(globals())

gets (i) the support file(s) Properties/Extra<Area>.v appended to its PROOF_FILES (re-checked, Print Assumptions counted),
(ii) the cases below appended AFTER its own cases (its own random stream is untouched: the extra cases draw from a
generator seeded from one value taken when the module's gen() has finished), (iii) case_of_line extended to the new ops.
The cases are owned by this module (Case.owner): compared by plain equality of the two replies, not shrunk, never
matched against known findings.

decides=True only where a theorem of Properties/Extra*.v (named in the case) fixes the compared reply completely;
everything else is a fidelity case (kind fid-*).  Ops: Exec/CoverageExec.v = goexec/coverage.go."""
import random
from vlib import Case, hx

PROP = "coverage"
OPS = ("io.issynced", "psi.canbuild", "psi.newth", "pkt.newaf", "pkt.af", "pw.close", "pw.func", "pes.checklen",
       "scte.component", "scte.fresh", "scte.done", "scte.parts", "const.")

EXTRA = {
    "C01": ["Properties/ExtraPkt.v"],
    "C06": ["Properties/ExtraPsi.v"],
    "C09": ["Properties/ExtraScte.v"],
    "C11": ["Properties/ExtraPes.v"],
    "C12": ["Properties/ExtraEbp.v"],
    "C15": ["Properties/ExtraRoot.v"],
    "C16": ["Properties/ExtraIO.v"],
    "C18": ["Properties/ExtraPkt.v"],
    "C19": ["Properties/ExtraScte.v"],
    "C20": ["Properties/ExtraPsi.v"],
}


def mine(line):
    return line.startswith(OPS)


def case_of_line(line, kind):
    return own(Case(line, kind=kind or "replay", decides=not (kind or "").startswith("fid-")))


def own(c):
    import gen.covlib as me
    c.owner = me
    return c


def C(line, kind, theorem, decides=True):
    return own(Case(line, kind="cov:" + kind if decides else "fid-cov:" + kind, decides=decides, nontrivial=decides, theorem=theorem))


def pkt(rng, b3=None):
    b = bytearray(rng.randrange(256) for _ in range(188))
    b[0] = 0x47
    if b3 is not None:
        b[3] = b3
    return bytes(b)


def cases(prop, rng, tier, base):
    n = 1 if tier == "quick" else 10
    out = []
    if prop == "C15":
        out.append(C("const.gots", "consts", "Extra_pts_constants"))
        out.append(C("const.errors", "errors", "Extra_errors_distinct_by_identity, Extra_errors_shared_text, Extra_errors_text_separates_all_other_pairs"))
    if prop == "C01":
        out.append(C("const.packet", "consts", "Extra_packet_constants, Extra_test_packets"))
        out.append(C("pkt.newaf", "newaf", "Extra_new_adaptation_field"))
        for afc in range(4):
            for _ in range(10 * n):
                out.append(C("pkt.af " + hx(pkt(rng, (rng.randrange(4) << 6) | (afc << 4) | rng.randrange(16))), "af-view", "Extra_adaptation_field_view"))
        for b3 in range(256):
            out.append(C("pkt.af " + hx(pkt(rng, b3)), "af-view-sweep", "Extra_adaptation_field_view"))
    if prop == "C18":
        for k, e in ((0, 0), (0, 61), (1, 0), (1, 61), (1, 60), (1, 50), (2, 0), (2, 61)):
            out.append(C("pw.close %d %d" % (k, e), "close", "Extra_writer_adapters"))
        for _ in range(20 * n):
            out.append(C("pw.func %s %d %d %d" % (hx(pkt(rng)), rng.choice([0, 188, 1, 187, 189, -1, 1000]), rng.choice([0, 0, 61, 60]), rng.randrange(2)),
                         "func", "Extra_writer_adapters"))
    if prop == "C16":
        # every combination of the deciding bits of the four header bytes, then random headers; fewer than 4 bytes: fidelity
        def issync(data, te, kind, decides):
            out.append(C("io.issynced %s %d %d %d" % (hx(data), te, rng.choice([16, 17, 64, 4096]), rng.randrange(4)), kind,
                         "Extra_is_synced_spec", decides))
        for b0 in (0x47, 0x46, 0x00, 0xff):
            for afc in range(4):
                for pid in (0, 1, 3, 4, 5, 15, 16, 17, 0x1fff, 0x100, 0x0f00, 0x1000):
                    h = bytes([b0, (rng.randrange(8) << 5) | (pid >> 8), pid & 255, (rng.randrange(4) << 6) | (afc << 4) | rng.randrange(16)])
                    issync(h + bytes(rng.randrange(256) for _ in range(rng.choice([0, 1, 184, 200]))), rng.choice([50, 60, 51]), "issynced-grid", True)
        for _ in range(200 * n):
            h = bytes([rng.choice([0x47, 0x47, 0x47, rng.randrange(256)])] + [rng.randrange(256) for _ in range(3)])
            issync(h + bytes(rng.randrange(256) for _ in range(rng.randrange(0, 190))), rng.choice([50, 60, 51]), "issynced-random", True)
        for k in range(4):
            for te in (50, 60, 51):
                issync(bytes([0x47, 0, 1, 0x10][:k]), te, "issynced-short", False)
    if prop == "C06":
        out.append(C("psi.newth", "newth", "Extra_new_table_header"))
        for _ in range(60 * n):
            ln = rng.choice([0, 1, 2, 3, 10, 183, 184, 200, 1024])
            sl = rng.choice([0, ln, max(ln - 1, 0), ln + 1, rng.randrange(65536), 65535])
            out.append(C("psi.canbuild %s %d" % (hx(bytes(rng.randrange(256) for _ in range(ln))), sl), "canbuild", "Extra_can_build_pmt_iff"))
        # SCTE35AccumulatorDoneFunc = PmtAccumulatorDoneFunc: the property's own pmt.done inputs, same deciding flag
        k = 0
        for c in base:
            if c.line.startswith("pmt.done ") and k < 200 * n:
                k += 1
                out.append(C("scte.done" + c.line[len("pmt.done"):], "scte-done", "Extra_scte35_done_is_pmt_done (with " + (c.theorem or "C06") + ")", c.decides))
    if prop == "C20":
        out.append(C("const.psi", "consts", "Extra_psi_constants"))
    if prop == "C11":
        out.append(C("const.pes", "consts", "Extra_pes_stream_ids"))
        for _ in range(60 * n):
            ln = rng.choice([0, 1, 5, 9, 14, 19, 50])
            out.append(C("pes.checklen %s %d" % (hx(bytes(rng.randrange(256) for _ in range(ln))), rng.choice([0, ln, ln + 1, max(ln - 1, 0), 9, 14, 19])),
                         "checklen", "Extra_check_length_iff"))
    if prop == "C12":
        out.append(C("const.ebp", "consts", "Extra_ebp_constants_and_constructors"))
    if prop == "C19":
        out.append(C("const.scte35", "consts", "Extra_scte35_tables, Extra_scte35_rule_types_are_constants"))
        out.append(C("const.scte35.names", "names", "Extra_scte35_tables"))
    if prop == "C09":
        out.append(C("scte.fresh", "fresh", "Extra_scte35_fresh_objects"))
        out.append(C("scte.component []", "component", "Extra_scte35_fresh_objects"))
        for _ in range(60 * n):
            ops = []
            for _ in range(rng.randrange(1, 6)):
                k = rng.randrange(3)
                v = rng.randrange(256) if k == 0 else rng.randrange(2) if k == 1 else rng.choice([0, 1, 2 ** 33 - 1, 2 ** 33, 2 ** 33 + 5, rng.randrange(2 ** 64), rng.randrange(2 ** 33)])
                ops.append("[%d %d]" % (k, v))
            out.append(C("scte.component [%s]" % " ".join(ops), "component", "Extra_component_setters"))
        # CommandInfo().Data() and Descriptors()[i].Data() after the property's own build scripts: the pieces UpdateData
        # concatenates (C09's byte theorems are about the whole section), compared as a fidelity observation
        k = 0
        for c in base:
            if c.line.startswith("scte.build ") and k < 300 * n:
                k += 1
                out.append(C("scte.parts" + c.line[len("scte.build"):], "parts-data", "ScteEnc.cmd_data / ScteEnc.seg_data as used by C09's update_data theorems", False))
    return out


def install(g):
    prop = g["PROP"]
    for f in EXTRA.get(prop, []):
        if f not in g["PROOF_FILES"]:
            g["PROOF_FILES"] = g["PROOF_FILES"] + [f]
    old_gen = g["gen"]

    def gen(rng, tier):
        base = list(old_gen(rng, tier))
        sub = random.Random(rng.getrandbits(64))
        return base + cases(prop, sub, tier, base)
    g["gen"] = gen
    old_col = g.get("case_of_line")

    def col(line, kind):
        if mine(line):
            return case_of_line(line, kind)
        if old_col:
            return old_col(line, kind)
        return Case(line, kind=kind)
    g["case_of_line"] = col
    # a borrowing property (vlib.borrow) re-owns every case of this module's gen(): its hooks must pass the coverage
    # cases through to the plain comparison
    def wrap(name, default):
        old = g.get(name)
        if old is None:
            return
        def f(c, *a):
            if mine(c.line):
                return default() if callable(default) else default
            return old(c, *a)
        g[name] = f
    wrap("oracle", None)
    wrap("shrink", list)
    wrap("search", list)
    old_km = g.get("known_match")
    if old_km is not None:
        g["known_match"] = lambda entry, c, real, model: False if mine(c.line) else old_km(entry, c, real, model)
