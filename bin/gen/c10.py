"""C10 — SCTE-35 state tracker: histories of ProcessDescriptor / Close / Open over a pool of descriptors.
Two checks per history: (1) the Coq-extracted trace checker of Spec/Trackers.v (op spec.trk) applied to the
REAL observations, (2) equality with the observations of the model (Model/State.v)."""
import atexit, itertools, subprocess
import vlib
from vlib import Case

PROP = "C10"
PROOF_FILES = ["Properties/C10.v"]
RULE = ("trk.hist pool script: every call of the script runs on the real scte35.State with descriptors built through the "
        "public API; observed per call: ids of the closed list, error, ids of Open() after the call, panics. Quick: all "
        "histories of length 3 over a 15-descriptor alphabet x {Process, Close} + Open (29^3 = 24 389), all of length 4 over a "
        "reduced alphabet (12^4 = 20 736), the replays of F10, ring / VSS scenarios, histories with 30-60 distinct descriptors at ONE "
        "signal time (N1, bounded memory) and 800 random histories up to length 200 "
        "over random pools (1..14 distinct signal times, Equal copies, descriptors without PTS, VSS ids); thorough: all of "
        "length 4 over the full alphabet (707 281) and of length 5 over the reduced one (248 832), 12 000 random. Every history "
        "is judged twice: by the Coq-extracted trace checker (Spec/Trackers.v) on the REAL observations and by equality with the "
        "model's observations. A history is counted non-trivial when it hands at least two descriptors with a PTS to "
        "ProcessDescriptor (closing, duplicate detection and the blackout bookkeeping need two).")
EXHAUSTIVE = True
EXHAUSTIVE_NOTE = ("small-scope: every history up to the stated length over the stated alphabet is enumerated (each history also "
                   "checks all its prefixes); unbounded histories are covered by the theorems (induction over the call list)")
ASSUMPTIONS = ["descriptor identity = pool index (pointer identity on the Go side)",
               "cap = len convention for the slice expressions of state.go (DESIGN section 3): the model panics where Go would "
               "re-slice past len within cap; under the proved invariant neither happens"]
TRUSTED_EXTRA = ["Spec/Trackers.v (17 clauses with ghost sets) as the reading of the C10 text; proved to accept the model for every history "
                 "with at most 10 distinct signal times (C10_checker_accepts_model); clause 14 accepts the VSS lookup error (37) after itself",
                 "descriptor identity = pool position (goexec: pointer identity of the objects it built)"]
PARTIAL = ("no-duplicate / not-reopened clauses are proved under the hypothesis that at most 10 ring entries were written "
           "(the 10-entry ring of signal times forgets; known finding, refuted witness C10_no_reopen_unconditional_refuted)")

CLAUSE = {1: "a call (or Open after it) panicked", 2: "a closed descriptor was not open immediately before the call",
          3: "a closed descriptor is returned twice / was already gone", 4: "a closed descriptor is not closable by (Close: not equal to) the incoming one",
          5: "closed list not ordered last-opened first", 6: "open list contains a descriptor that was never processed",
          7: "open list contains a descriptor already reported closed or discarded (reopened)", 8: "open list contains the same descriptor twice",
          9: "open list not in opening order", 10: "a descriptor left the open list without being reported",
          11: "a descriptor entered the open list that is not the one being processed", 12: "a rejecting call returned closed descriptors or changed the open list",
          13: "a descriptor without PTS was not rejected with the unsupported-command error (or one with PTS was)",
          14: "the same descriptor processed twice in a row was not rejected as a duplicate the second time",
          15: "malformed Close result", 16: "Open() changed between two observations without a call", 17: "malformed input"}


def D(ty, ev, pts, haspts=1, segnum=0, segexp=0, hassub=0, subnum=0, subexp=0, vss=None):
    return dict(ty=ty, event=ev, haspts=haspts, ptsv=pts, segnum=segnum, segexp=segexp, hassub=hassub, subnum=subnum, subexp=subexp, vss=vss)


def dtok(i, d):
    return "[ %d %d %d %d %d %d %d %d %d %d %s ]" % (i, d["ty"], d["event"], d["haspts"], d["ptsv"], d["segnum"], d["segexp"], d["hassub"],
                                                     d["subnum"], d["subexp"], "[ %d ]" % d["vss"] if d["vss"] is not None else "[ ]")


def pool_tok(pool):
    return "[ " + " ".join(dtok(i, d) for i, d in enumerate(pool)) + " ]"


def call_tok(c):
    return "[ 2 ]" if c[0] == 2 else "[ %d %d ]" % c


def line_of(pool, script):
    return "trk.hist %s [ %s ]" % (pool_tok(pool), " ".join(call_tok(c) for c in script))


ALPHA = [
    D(0x10, 1, 1000), D(0x11, 1, 2000), D(0x13, 1, 3000), D(0x14, 1, 4000), D(0x17, 2, 1000), D(0x30, 3, 1000), D(0x31, 3, 2000),
    D(0x34, 4, 3000, hassub=1, subnum=1, subexp=1), D(0x35, 4, 4000, segnum=2, segexp=2), D(0x40, 5, 1000, vss=1), D(0x50, 6, 2000),
    D(0x51, 6, 3000), D(0x10, 1, 1000), D(0x30, 3, 1000, haspts=0), D(0x40, 5, 2000),
]
# reduced alphabet (indices into ALPHA): start, breakaway, resumption, network start, ad start, PO end, no-PTS
REDUCED_P = [0, 2, 3, 10, 5, 8, 9, 13]
REDUCED_C = [0, 2, 5]
TYPES = [0x10, 0x11, 0x12, 0x13, 0x14, 0x17, 0x19, 0x20, 0x21, 0x22, 0x23, 0x30, 0x31, 0x32, 0x33, 0x34, 0x35, 0x36, 0x37, 0x40, 0x41,
         0x44, 0x45, 0x50, 0x51, 0x3C, 0x01]


def nontriv(pool, script):
    return sum(1 for c in script if c[0] == 0 and pool[c[1]]["haspts"]) >= 2


def hist(pool, script, kind, theorem="C10_inv_reachable"):
    return Case(line_of(pool, script), kind=kind, decides=True, nontrivial=nontriv(pool, script), theorem=theorem)


def exhaustive(pool, popts, copts, n, kind):
    opts = [(0, i) for i in popts] + [(1, i) for i in copts] + [(2,)]
    ptok = pool_tok(pool)
    toks = [(call_tok(c), 1 if c[0] == 0 and pool[c[1]]["haspts"] else 0) for c in opts]
    out = []
    for combo in itertools.product(toks, repeat=n):
        out.append(Case("trk.hist %s [ %s ]" % (ptok, " ".join(t for t, _ in combo)), kind=kind, decides=True,
                        nontrivial=sum(w for _, w in combo) >= 2, theorem="C10_inv_reachable"))
    return out


def random_pool(rng, npts):
    n = rng.randrange(4, 28)
    ptss = [rng.randrange(2 ** 33) for _ in range(npts)]
    if rng.random() < 0.35:
        ptss[rng.randrange(npts)] = rng.choice([0, 0, 0, 1, 2 ** 33 - 1])     # signal time exactly 0 (seeded C10-v1: an empty ring slot matched it)
    pool = []
    for _ in range(n):
        if pool and rng.random() < 0.15:
            d = dict(rng.choice(pool))            # an Equal copy (another object)
            if rng.random() < 0.3:
                d["subnum"] = (d["subnum"] + 1) % 256
        else:
            ty = rng.choice(TYPES) if rng.random() < 0.7 else rng.choice([0x10, 0x13, 0x14, 0x40, 0x50, 0x30, 0x35])
            d = D(ty, rng.choice([1, 1, 2, 3]), rng.choice(ptss), haspts=0 if rng.random() < 0.06 else 1,
                  segnum=rng.choice([1, 2]), segexp=2, hassub=rng.randrange(2) if ty in (0x34, 0x36) else 0,
                  subnum=rng.choice([1, 2]), subexp=2, vss=rng.choice([None, 1, 1, 2, 1, 2, rng.randrange(900000, 900007)]) if ty == 0x40 else None)
        pool.append(d)
    return pool


def random_script(rng, pool, n):
    s = []
    for _ in range(n):
        r = rng.random()
        if r < 0.78:
            if s and s[-1][0] == 0 and rng.random() < 0.08:
                s.append(s[-1])                     # twice in a row
            else:
                s.append((0, rng.randrange(len(pool))))
        elif r < 0.93:
            s.append((1, rng.randrange(len(pool))))
        else:
            s.append((2,))
    return s


F10_HISTORIES = [
    # Process 0x10, 0x13, 0x50 then Open(): slice bounds out of range on the pinned tree
    ([D(0x10, 1, 100), D(0x13, 1, 200), D(0x50, 1, 300)], [(0, 0), (0, 1), (0, 2), (2,)]),
    # breakaway closed by a network start, later resumption re-slices past len: resurrects the closed descriptors
    ([D(0x10, 1, 100), D(0x13, 1, 200), D(0x50, 2, 300), D(0x14, 1, 400), D(0x30, 3, 250)],
     [(0, 0), (0, 4), (0, 1), (0, 2), (0, 3)]),
    # Close of a descriptor below the breakaway leaves blackoutIdx stale
    ([D(0x10, 1, 100), D(0x13, 1, 200), D(0x14, 1, 400)], [(0, 0), (0, 1), (1, 0), (2,), (0, 2)]),
    # Close of the breakaway itself
    ([D(0x10, 1, 100), D(0x13, 1, 200), D(0x30, 1, 300)], [(0, 0), (0, 1), (1, 1), (0, 2), (2,)]),
    # VSS branch sets descAdded without storing: the same descriptor is accepted twice
    ([D(0x40, 7, 100, vss=1), D(0x40, 7, 200, vss=2)], [(0, 0), (0, 1), (0, 1), (0, 1)]),
]

# N1 (fixed in /repo 34afac6): many distinct descriptors at ONE signal time.  Before the repair the ring entry doubled
# with every descriptor (2^(n-1) stored pointers): these histories ended in the goexec watchdog ([3] = hang / heap).
def one_pts_history(n, rng=None):
    tys = [0x17, 0x30, 0x34, 0x20, 0x10, 0x40]
    pool = []
    for i in range(n):
        ty = 0x17 if rng is None else rng.choice(tys)
        pool.append(D(ty, i + 1, 5000, vss=(i + 1) if ty == 0x40 else None))
    script = [(0, i) for i in range(n)] + [(0, n // 2), (0, 0), (2,)]
    return pool, script


N1_LINE = line_of(*one_pts_history(40))

# the known finding: the 10-entry ring forgets; 12 calls
RING_POOL = [D(0x17, 1, 1000 + 10 * i) for i in range(11)]
RING_SCRIPT = [(0, i) for i in range(11)] + [(0, 0)]
RING_LINE = line_of(RING_POOL, RING_SCRIPT)


def gen(rng, tier):
    out = []
    for pool, script in F10_HISTORIES:
        out.append(hist(pool, script, "f10-replay"))
    out.append(hist(RING_POOL, RING_SCRIPT, "ring-eviction"))
    for n in (30, 40, 60):
        out.append(hist(*one_pts_history(n), "one-pts-many", "C10_bounded_memory"))
    for n in (33, 48, 57) if tier == "quick" else (31, 33, 37, 41, 48, 52, 57, 60):
        out.append(hist(*one_pts_history(n, rng), "one-pts-many", "C10_bounded_memory"))
    # ring: closed, evicted, processed again -> reopened after having been reported closed
    pool = [D(0x10, 1, 50)] + [D(0x20, 2, 1000 + 10 * i) for i in range(10)] + [D(0x11, 1, 60)]
    out.append(hist(pool, [(0, 0), (0, 11)] + [(0, i) for i in range(1, 11)] + [(0, 0), (2,)], "ring-eviction"))
    # the VSS lookup error is raised before the descriptor is stored: the second attempt fails the same way (37, 37)
    out.append(hist([D(0x40, 5, 1000), D(0x40, 5, 2000)], [(0, 0), (0, 1), (0, 1), (2,)], "vss-twice", "C10_dup_twice_in_row_vss"))
    # unusual ADI UPID texts (codes 900000.., Exec/SegExec.v vss_code): "BLACKOUT" without the colon, the word at the end,
    # an empty id, two texts with one id, texts without the word (seeded C10-v2: slicing past the end of "...BLACKOUT")
    vt = [D(0x40, 5, 1000 * (i + 1), vss=900000 + i) for i in range(7)] + [D(0x40, 5, 9000, vss=900000), D(0x40, 5, 9500, vss=1)]
    out.append(hist(vt, [(0, i) for i in range(9)] + [(2,)] + [(0, i) for i in range(9)] + [(2,)], "vss-texts", "C10_inv_reachable"))
    for i in range(7):
        out.append(hist(vt, [(0, 8), (0, i), (0, i), (0, (i + 1) % 7), (0, 7), (2,), (1, i), (2,)], "vss-texts", "C10_inv_reachable"))
    out.append(hist([D(0x40, 5, 1000, vss=1), D(0x40, 5, 2000, vss=1), D(0x40, 5, 3000, vss=2), D(0x41, 5, 4000)],
                    [(0, 0), (0, 1), (0, 1), (0, 2), (0, 2), (0, 3), (2,)], "vss-twice", "C10_dup_twice_in_row_partial"))
    # exactly 10 signal times: nothing is forgotten
    pool = [D(0x17, 1, 1000 + 10 * i) for i in range(10)]
    out.append(hist(pool, [(0, i) for i in range(10)] + [(0, i) for i in range(10)], "ring-full"))
    full_p = list(range(len(ALPHA))); full_c = list(range(len(ALPHA)))
    if tier == "quick":
        out += exhaustive(ALPHA, full_p, full_c, 3, "exhaustive-3")
        out += exhaustive(ALPHA, REDUCED_P, REDUCED_C, 4, "exhaustive-4-reduced")
        nrand, maxlen = 400, 200
    else:
        out += exhaustive(ALPHA, full_p, full_c, 4, "exhaustive-4")
        out += exhaustive(ALPHA, REDUCED_P, REDUCED_C, 5, "exhaustive-5-reduced")
        nrand, maxlen = 6000, 200
    for k in range(nrand):
        npts = rng.choice([1, 2, 3, 4, 6, 9, 10, 10, 11, 12, 14])
        pool = random_pool(rng, npts)
        n = rng.choice([5, 10, 20, 40, 80, maxlen]) if k % 4 else maxlen
        out.append(hist(pool, random_script(rng, pool, n), "random-pts%d" % (npts if npts <= 10 else 11)))
    # breakaway-heavy random histories over a small pool
    for k in range(nrand):
        pool = [D(rng.choice([0x10, 0x13, 0x13, 0x14, 0x50, 0x51, 0x40, 0x41, 0x30, 0x35, 0x17]), rng.choice([1, 2]), 100 * (i % 7) + 5,
                  vss=None) for i in range(rng.randrange(3, 14))]
        out.append(hist(pool, random_script(rng, pool, rng.choice([4, 6, 8, 12, 30])), "random-breakaway"))
    return out


# ---- the oracle: Spec/Trackers.v on the REAL observations, through a persistent modelexec ----
_spec = None
_cache = {}


def _spec_proc():
    global _spec
    if _spec is None or _spec.poll() is not None:
        _spec = subprocess.Popen([vlib.MODELEXEC], stdin=subprocess.PIPE, stdout=subprocess.PIPE, text=True, bufsize=1)
        atexit.register(lambda: _spec.kill())
    return _spec


def spec_verdict(line, obs):
    """-> [] accepted, [k, code] violated, None when the checker could not read the observation"""
    key = (line, obs)
    if key in _cache:
        return _cache[key]
    p = _spec_proc()
    toks = obs.replace("[", " [ ").replace("]", " ] ")
    p.stdin.write("spec.trk " + line[len("trk.hist "):] + " " + toks + "\n")
    p.stdin.flush()
    r = p.stdout.readline().strip()
    try:
        v = vlib.parse_val(r)
        v = v if isinstance(v, list) and len(v) in (0, 2) and v != [-9999] else None
    except Exception:
        v = None
    if len(_cache) > 200000:
        _cache.clear()
    _cache[key] = v
    return v


def script_of(line):
    v = vlib.parse_val("[" + line[len("trk.hist "):] + "]")
    return v[0], v[1]


def oracle(case, real, model):
    if model in ("[-8888]", "[-9999]") or real in ("[-8888]", "[-9999]"):
        return "an executor rejected the request line (generator defect, not a verdict): real %s model %s" % (real, model)
    if real in ("[3]", "[4]"):
        return ("the history did not return: goexec watchdog verdict %s (a call ran for seconds or the heap grew past the limit / the process "
                "died); C10 'no call panics' / bounded memory (C10_bounded_memory)" % real)
    v = spec_verdict(case.line, real)
    if v is None:
        return "the real observation is not readable by the trace checker: %s" % real[:200]
    if v:
        k, code = v
        pool, script = script_of(case.line)
        c = script[k]
        what = "Open()" if c[0] == 2 else "%s(descriptor %d, type 0x%02x)" % ("ProcessDescriptor" if c[0] == 0 else "Close", c[1], pool[c[1]][1])
        return "call %d %s: %s (Spec/Trackers.v clause %d)" % (k, what, CLAUSE.get(code, "?"), code)
    if real != model:
        # the property (as the trace checker reads it) holds on this history, but the tie model = code is broken here:
        # not a failing input by itself (DESIGN 5.2).  Shrinking and searching only follow checker violations.
        if case.kind in ("search", "shrink"):
            return ""
        case.decides = False
        return ("the trace checker accepts the real observations but they differ from the model's "
                "(correspondence Model/State.v State.run vs scte35/state.go; the theorems no longer transport)")
    return ""


REJ = (29, 31, 37)


def evicted_at(pool, script, obs, k):
    """Replays the 10-entry ring of signal times over calls 0..k-1 from the history and the OBSERVED errors (a call whose
    error is not a rejection went through the duplicate scan and either found an entry for its signal time or wrote a new
    one at the head).  True iff the descriptor of call k was stored by an earlier accepted call and the ring entry that
    held it has been overwritten since, i.e. the duplicate scan at call k can no longer see it."""
    slots = [None] * 10          # signal time per slot
    head = 0
    stored = {}                  # signal time -> set of descriptor ids stored under it (accepted calls only)
    forgotten = set()
    for j in range(k):
        c = script[j]
        if c[0] != 0:
            continue
        d = pool[c[1]]
        if d[3] != 1 or j >= len(obs) or not isinstance(obs[j], list) or len(obs[j]) < 2 or obs[j][1] in REJ:
            continue
        p = d[4]
        if p not in slots:
            old = slots[head]
            if old is not None:
                forgotten |= stored.pop(old, set())
            slots[head] = p
            head = (head + 1) % 10
        stored.setdefault(p, set()).add(c[1])
        forgotten.discard(c[1])
    c = script[k]
    return c[0] == 0 and c[1] in forgotten


def known_match(entry, case, real, model):
    """the ring-eviction finding, narrowly: the trace checker's verdict is clause 7 or 8 at a call ProcessDescriptor(d) that
    was accepted, d had been accepted before, and the ring entry that remembered d had really been overwritten by then
    (ring contents recomputed from the history); and the offending id in the observation is d itself"""
    if entry.get("signature") != "ring-eviction":
        return case.line in entry.get("lines", [entry.get("line")])
    v = spec_verdict(case.line, real)
    if not v or v[1] not in (7, 8):
        return False
    try:
        pool, script = script_of(case.line)
        obs = vlib.parse_val(real)
        k = v[0]
        c = script[k]
        if c[0] != 0 or obs[k][1] in REJ or not evicted_at(pool, script, obs, k):
            return False
        i = c[1]
        vis = obs[k][2][1]
        if v[1] == 8:        # the same descriptor twice: d is listed twice, or d is a breakaway (hidden copy) and still listed
            return vis.count(i) >= 2 or (pool[i][1] == 0x13 and i in vis)
        # clause 7: d was reported closed, or had left the open list, before this call and is open again
        was_closed = any(isinstance(obs[j], list) and len(obs[j]) > 2 and i in obs[j][0] for j in range(k + 1))
        was_open = any(isinstance(obs[j], list) and len(obs[j]) > 2 and obs[j][2][0] == 0 and i in obs[j][2][1] for j in range(k))
        if pool[i][1] == 0x13:
            # a breakaway is held as a hidden copy: it is never listed by Open() and its leaving the open list is not
            # observable, so "was open / was reported closed before" cannot be read off the observations.  evicted_at
            # already established that this very descriptor was accepted by an earlier call and that the ring entry
            # remembering it has been overwritten: its second acceptance is the recorded finding (vp run 5, thorough tier)
            return True
        return i in vis and (was_closed or was_open)
    except Exception:
        return False


def case_of_line(line, kind):
    return Case(line, kind=kind or "replay", decides=True, nontrivial=True, theorem="C10_inv_reachable")


def shrink(c):
    pool, script = script_of(c.line)
    used = sorted({cc[1] for cc in script if cc[0] != 2})
    if len(used) < len(pool):
        # drop the descriptors the script does not use and renumber (id = position)
        ren = {old: new for new, old in enumerate(used)}
        p2 = []
        for old in used:
            d = list(pool[old]); d[0] = ren[old]; p2.append(d)
        ptok2 = "[ " + " ".join(vlib.fmt_val(d).replace("[", "[ ").replace("]", " ]") for d in p2) + " ]"
        sc2 = [(cc[0], ren[cc[1]]) if cc[0] != 2 else (2,) for cc in script]
        yield Case("trk.hist %s [ %s ]" % (ptok2, " ".join(call_tok(cc) for cc in sc2)), kind="shrink", decides=True, theorem=c.theorem)
    ptok = "[ " + " ".join(vlib.fmt_val(d).replace("[", "[ ").replace("]", " ]") for d in pool) + " ]"
    n = len(script)
    size = max(1, n // 2)
    cands = []
    while size >= 1:
        for start in range(0, n, size):
            rest = script[:start] + script[start + size:]
            if rest:
                cands.append(rest)
        if size == 1:
            break
        size //= 2
    for rest in cands:
        yield Case("trk.hist %s [ %s ]" % (ptok, " ".join("[ " + " ".join(str(x) for x in cc) + " ]" for cc in rest)),
                   kind="shrink", decides=True, theorem=c.theorem)


def search(c, rng):
    """neighbourhood of a history on which model and code disagree: its prefixes and single-call deletions, then the
    small-scope enumeration; only checker violations count as found"""
    try:
        pool, script = script_of(c.line)
        ptok = "[ " + " ".join(vlib.fmt_val(d).replace("[", "[ ").replace("]", " ]") for d in pool) + " ]"
        for k in range(len(script)):
            rest = script[:k] + script[k + 1:]
            if rest:
                yield Case("trk.hist %s [ %s ]" % (ptok, " ".join("[ " + " ".join(str(x) for x in cc) + " ]" for cc in rest)), kind="search")
    except Exception:
        pass
    for x in exhaustive(ALPHA, REDUCED_P, REDUCED_C, 3, "search"):
        yield x


LEVEL_TEXT = ("Proof: Coq theorems (Properties/C10.v) over a model of the repaired state.go: an invariant (blackout index valid and "
              "pointing at a breakaway, ring shape, open ids processed, and -- while at most 10 ring entries were written -- no duplicates, "
              "nothing gone reopened) proved for one step and for every history by induction over the call list; closed lists sound; "
              "duplicate-twice-in-a-row and no-PTS rejection; no slice expression out of range. The model is tied to the code by small-scope "
              "exhaustive and random histories, judged by the Coq-extracted trace checker on the real observations and by model equality.")
LEVEL_NOTE = ("Trusted: Coq kernel; Spec/Trackers.v as the reading of the property; Model/State.v (checked by the correspondence); extraction "
              "and executor glue; cap = len convention for re-slicing.")
TECHNIQUE = "Coq proof (invariant by induction over call lists) + trace checker extracted from Coq on real observations + small-scope exhaustive histories"
