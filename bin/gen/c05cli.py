"""C05, the command-line tool: cli/parsefile.go is a `main` package among C05's anchors; it runs Sync, ReadPAT,
ReadPMT and then NewSCTE35 / EncoderBoundaryPoint / ReadEncoderBoundaryPoint on every packet of a file.
This driver does not go through goexec: it builds the binary from the tree under test, writes mutated transport
stream files and runs the binary on each under a time and address-space limit.

verdict per file   exit by panic (stderr has "panic:" / "goroutine ") -> C05 violation, replay = the file bytes (hex) + flags
                   no exit within TIMEOUT seconds                      -> C05 violation (hang)
                   anything else (exit 0 with or without an error message)  -> fine
repaired finding   the tool itself called panic(err) when psi.ReadPMT returned an error (cli/parsefile.go, the loop over
                   pat.ProgramMap()): a stream whose PMT is missing or damaged killed the tool with a stack trace
                   (notes/findings/C05-cli.md).  Repaired in /repo commit 2253a95 and recorded as a `fixed` entry in
                   known_findings.json; KNOWN_SIG is None, so any panic of the tool, this one included, is a violation."""
import json, os, re, resource, shutil, subprocess, tempfile, time
import vlib
from gen import tslib as T

HERE = os.path.dirname(os.path.abspath(__file__))
TIMEOUT = 5.0
AS_LIMIT = 4 << 30
FLAGSETS = [["-pmt"], ["-scte35"], ["-ebp"], ["-scte35", "-ebp", "-pid", "257"], ["-pmt=false", "-pid", "103"]]
KNOWN_SIG = None   # was "explicit-panic(err)@main.main" until the repair (fix commit in /repo, see known_findings.json)
KNOWN_WHAT = ("cli/parsefile.go calls panic(err) when psi.ReadPMT fails (PMT missing, truncated or damaged): the tool dies "
              "with a stack trace instead of reporting the error (notes/findings/C05-cli.md)")

PAT_PID, PMT_PID, VID, AUD, SCTE = 0, 0x64, 0x65, 0x66, 0x67


def seeds():
    out = []
    for l in open(os.path.join(HERE, "c05_seeds.txt")):
        l = l.strip()
        if l and not l.startswith("#"):
            out.append(bytes.fromhex(l))
    return out


def parts():
    """the packets of a well-formed little stream, by role"""
    s = seeds()
    pat = T.packets(PAT_PID, b"\x00" + T.pat_section([(1, PMT_PID)]))
    pmt_sec = T.pmt_section([(0x1B, VID, [(0x05, b"CUEI"), (0xE9, bytes([0x0F, 0x01, 0x00, 0x01]))]),
                             (0x0F, AUD, [(0x0A, b"eng\x00"), (0x0E, b"\xc0\x04\xb0")]),
                             (0x86, SCTE, [(0x05, b"CUEI")])], pcr_pid=VID, pinfo=[(0x05, b"CUEI")])
    pmt = T.packets(PMT_PID, b"\x00" + pmt_sec)
    scte = [T.packets(SCTE, sec, cc=i)[0] for i, sec in enumerate(s[4:7])]          # seeds 4..6 start with pointer_field 0
    ebp_pkt = T.set_pid(s[11], VID)                                                 # adaptation field with an EBP in the private data
    cl_ebp = T.af_packet(VID, bytes([0x02, len(s[7])]) + s[7], cc=3)               # the CableLabs EBP of seed 7
    pes_pkt = T.set_pid(s[12], VID)                                                 # PES start behind an adaptation field
    pes2 = T.packets(AUD, s[9] + b"\x00" * 60, pusi=True)[0]
    return {"pat": pat, "pmt": pmt, "pmt_sec": pmt_sec, "scte": scte, "ebp": [ebp_pkt, cl_ebp], "pes": [pes_pkt, pes2]}


def valid_stream(p):
    return p["pat"] + p["pmt"] + [p["ebp"][0], p["pes"][0], p["scte"][0], p["pes"][1], p["ebp"][1], p["scte"][1]] \
        + p["pat"] + p["pmt"] + [p["scte"][2], p["pes"][0]]


def big_pmt(rng, n):
    st = []
    for i in range(n):
        ds = [(rng.choice([0x05, 0x0A, 0x0E, 0xE9, 0x7F, 0xCC, 0xB0]), bytes(rng.randrange(256) for _ in range(rng.randrange(0, 12))))
              for _ in range(rng.randrange(0, 4))]
        st.append((rng.choice([0x1B, 0x0F, 0x86, 0x24, 0x81, 0x06]), 0x100 + i, ds))
    return T.pmt_section(st, pcr_pid=0x100)


def files(rng, tier):
    """list of (kind, bytes)"""
    p = parts()
    base = valid_stream(p)
    flat = b"".join(base)
    out = [("valid", flat), ("valid+garbage-prefix", bytes([1, 0x47, 3, 0x47, 0x1F]) + flat)]
    quick = tier == "quick"
    # truncation: at packet boundaries +-1, and inside the first four packets
    cuts = set()
    for k in range(len(base) + 1):
        for d in (-1, 0, 1):
            cuts.add(k * 188 + d)
    for k in range(0, 4 * 188, 7 if quick else 1):
        cuts.add(k)
    for c in sorted(cuts):
        if 0 <= c < len(flat):
            out.append(("truncate", flat[:c]))
    # every length field of the PAT / PMT / SCTE-35 sections, the EBPs and the adaptation fields
    def in_packet(pkts, idx, newpkt):
        return b"".join(pkts[:idx] + [newpkt] + pkts[idx + 1:])
    def section_muts(idx, walker, name, nfill):
        pkt = base[idx]
        for kind, m in T.length_mutations(pkt, walker(pkt), rng, nfill=nfill):
            out.append((name + ":" + kind, in_packet(base, idx, m[:188].ljust(188, b"\xff"))))
    section_muts(0, lambda b: T.walk_pat(b, 5), "pat", 1)
    section_muts(1, lambda b: T.walk_pmt(b, 5), "pmt", 2 if quick else 4)
    for idx in (4, 7, 10):
        section_muts(idx, lambda b: T.walk_scte(b, 5), "scte", 1 if quick else 3)
    for idx in (2, 6, 3):
        section_muts(idx, T.walk_af, "af", 1)
    for idx in (2, 6):   # the EBP inside the private data: its own length byte
        pkt = base[idx]
        fs = [f for f in T.walk_af(pkt) if f.name == "af.transport_private_data_length"]
        if fs:
            e0 = fs[0].start
            ef = [T.Field("ebp.data_field_length", e0 + 1, 8, e0 + 2, [e0 + pkt[fs[0].off], 188])]
            for kind, m in T.length_mutations(pkt, ef, rng, nfill=1):
                out.append(("ebp:" + kind, in_packet(base, idx, m)))
    # byte corruption of the section / field starts
    for idx in (0, 1, 4, 2, 6):
        pkt = base[idx]
        for i in list(range(1, 30 if quick else 60)):
            for v in ((0x00, 0xFF) if quick else (0x00, 0x01, 0x7F, 0x80, 0xFF, (pkt[i] + 1) & 255, (pkt[i] - 1) & 255)):
                if pkt[i] != v:
                    out.append(("byteset", in_packet(base, idx, pkt[:i] + bytes([v]) + pkt[i + 1:])))
    # stream-level: drop / duplicate / swap packets, PMT split over two and three packets, many programs
    for k in range(len(base)):
        out.append(("drop", b"".join(base[:k] + base[k + 1:])))
    for k in range(len(base) - 1):
        out.append(("swap", b"".join(base[:k] + [base[k + 1], base[k]] + base[k + 2:])))
    for n in (8, 20, 40) if quick else (4, 8, 12, 20, 30, 40, 60):
        sec = big_pmt(rng, n)
        pk = T.packets(PMT_PID, b"\x00" + sec)
        s2 = p["pat"] + pk + base[2:]
        out.append(("big-pmt", b"".join(s2)))
        for k in range(1, len(pk) + 1):
            out.append(("big-pmt-cut", b"".join(p["pat"] + pk[:k])))
            out.append(("big-pmt-interleaved", b"".join(p["pat"] + pk[:k] + [base[3]] + pk[k:] + base[2:5])))
        if len(pk) > 1:
            out.append(("big-pmt-restart", b"".join(p["pat"] + pk[:1] + pk + base[2:5])))
    pat_many = T.packets(PAT_PID, b"\x00" + T.pat_section([(i + 1, PMT_PID + (i % 3)) for i in range(30)]))
    out.append(("pat-many-programs", b"".join(pat_many + base[1:])))
    out.append(("pat-only", b"".join(p["pat"])))
    out.append(("empty", b""))
    out.append(("no-sync", bytes(rng.randrange(256) & 0xBF for _ in range(400))))
    for _ in range(5 if quick else 100):
        b = bytearray(flat)
        for _ in range(rng.randrange(1, 6)):
            b[rng.randrange(len(b))] = rng.randrange(256)
        out.append(("random-bytes", bytes(b)))
    # dedupe, keep order
    seen, res = set(), []
    for k, b in out:
        if b not in seen:
            seen.add(b); res.append((k, b))
    if quick and len(res) > 320:
        # keep the quick tier near 300 files: all stream-level shapes, a spread of the rest
        keep = [x for x in res if x[0].split(":")[0] in ("valid", "valid+garbage-prefix", "drop", "swap", "pat-many-programs", "pat-only",
                                                          "empty", "no-sync", "big-pmt", "big-pmt-cut", "big-pmt-interleaved", "big-pmt-restart")]
        rest = [x for x in res if x not in keep]
        rng.shuffle(rest)
        res = keep + rest[:max(0, 320 - len(keep))]
    return res


# ----------------------------------------------------------------------------- build and run

def build(outdir):
    """go build ./cli from a private copy of the module under test (the tree itself is never written to)"""
    src = tempfile.mkdtemp(prefix="cli-src-", dir=outdir)
    try:
        shutil.copytree(vlib.REPO, os.path.join(src, "m"), ignore=shutil.ignore_patterns(".git"))
        exe = os.path.join(outdir, "gots-cli.%d" % os.getpid())
        rc, out = vlib.sh("go build -o %s ./cli" % exe, cwd=os.path.join(src, "m"), env=vlib.GOENV, timeout=600)
        return (exe if rc == 0 else None), out
    finally:
        shutil.rmtree(src, ignore_errors=True)


def _limits():
    try:
        resource.setrlimit(resource.RLIMIT_AS, (AS_LIMIT, AS_LIMIT))
        resource.setrlimit(resource.RLIMIT_CORE, (0, 0))
    except Exception:
        pass


def run_file(exe, path, flags):
    """-> (class, signature, stderr tail); class in ok / panic / hang"""
    try:
        p = subprocess.run([exe] + flags + ["-f", path], stdout=subprocess.DEVNULL, stderr=subprocess.PIPE, timeout=TIMEOUT,
                           preexec_fn=_limits, env=dict(os.environ, GOTRACEBACK="single"))
    except subprocess.TimeoutExpired:
        return "hang", "timeout", ""
    err = p.stderr.decode("utf-8", "replace")
    if "panic:" in err or "goroutine " in err or "fatal error:" in err:
        return "panic", signature(err), err[-1500:]
    return "ok", "", ""


def signature(err):
    m = re.search(r"^(panic|fatal error): (.*)$", err, re.M)
    msg = m.group(2) if m else "?"
    runtime = "runtime error" in msg or (m and m.group(1) == "fatal error")
    frames = re.findall(r"^([\w./*()\[\]-]+)\(.*\)\n\t(\S+):(\d+)", err, re.M)
    frames = [f for f in frames if not f[0].startswith(("panic", "runtime.")) and "/runtime/" not in f[1]]
    top = frames[0][0] if frames else "?"
    top = top.replace("github.com/Comcast/gots/v2", "")
    if runtime:
        kind = "slice" if "slice bounds" in msg else "index" if "index out of range" in msg else "nil" if "nil pointer" in msg else "runtime"
        return "%s@%s" % (kind, top)
    return "explicit-panic(err)@%s" % top


def write_replay(seed, n, kind, flags, data, cls, sig, err):
    os.makedirs(vlib.OUT, exist_ok=True)
    path = os.path.join(vlib.OUT, "C05-%d-cli-%d.case.json" % (seed, n))
    json.dump({"property": "C05", "extra": "cli", "seed": seed, "kind": kind, "flags": flags, "hex": data.hex(),
               "observed": cls, "signature": sig, "stderr_tail": err,
               "why": "gots-cli %s -f <file> %s" % (" ".join(flags), "did not exit within %.0f s" % TIMEOUT if cls == "hang" else "exited by panic: " + sig),
               "replay_cmd": "bin/check C05 --replay %s" % path}, open(path, "w"), indent=1)
    return path


def shrink(exe, tmp, flags, data, sig):
    """greedy truncation / packet removal keeping the same signature"""
    cur = data
    improved = True
    budget = 60
    while improved and budget > 0:
        improved = False
        cands = []
        n = len(cur) // 188
        for k in range(n):
            cands.append(cur[:k * 188] + cur[(k + 1) * 188:])
        cands += [cur[:len(cur) // 2], cur[:-188], cur[:-1]]
        for c in cands:
            if not c or len(c) >= len(cur):
                continue
            budget -= 1
            path = os.path.join(tmp, "shrink.ts")
            open(path, "wb").write(c)
            cls, s, _ = run_file(exe, path, flags)
            if cls != "ok" and s == sig:
                cur = c; improved = True
                break
            if budget <= 0:
                break
    return cur


def extra(tier, seed, rng):
    """called by bin/check after the generated cases: (violations [(path, suffix)], known lines, info for the evidence)"""
    t0 = time.time()
    os.makedirs(vlib.OUT, exist_ok=True)
    exe, log = build(vlib.OUT)
    if exe is None:
        # cli/ does not build although goexec did: nothing can be said about the tool; reported, not a verdict on the library
        vlib.log("C05 cli: go build ./cli failed:\n" + log[-1500:])
        return [], [], {"cli_built": False}
    tmp = tempfile.mkdtemp(prefix="cli-files-", dir=vlib.OUT)
    viol, known, hist, classes = [], [], {}, {"ok": 0, "panic": 0, "hang": 0, "known": 0}
    seen_sig = set()
    try:
        fl = files(rng, tier)
        for i, (kind, data) in enumerate(fl):
            flags = FLAGSETS[i % len(FLAGSETS)]
            hist[kind.split(":")[0]] = hist.get(kind.split(":")[0], 0) + 1
            path = os.path.join(tmp, "f%d.ts" % i)
            open(path, "wb").write(data)
            cls, sig, err = run_file(exe, path, flags)
            if cls == "hang":   # confirm once
                cls, sig, err = run_file(exe, path, flags)
            os.remove(path)
            if cls == "ok":
                classes["ok"] += 1
                continue
            if cls == "panic" and sig == KNOWN_SIG:
                classes["known"] += 1
                line = "KNOWN-FINDING: property=C05 " + KNOWN_WHAT
                if line not in known:
                    known.append(line)
                continue
            classes[cls] += 1
            if sig in seen_sig or len(seen_sig) >= 10:
                continue
            seen_sig.add(sig)
            small = shrink(exe, tmp, flags, data, sig) if cls == "panic" else data
            viol.append((write_replay(seed, len(viol) + 1, kind, flags, small, cls, sig, err), ""))
    finally:
        shutil.rmtree(tmp, ignore_errors=True)
        try: os.remove(exe)
        except OSError: pass
    info = {"cli_built": True, "cli_files": sum(hist.values()), "cli_kinds": hist, "cli_outcomes": classes,
            "cli_flag_sets": [" ".join(f) for f in FLAGSETS], "cli_wall_s": round(time.time() - t0, 1)}
    vlib.log("C05 cli: %d files, outcomes %s, %.1fs" % (info["cli_files"], classes, time.time() - t0))
    return viol, known, info


def replay(d):
    """bin/check C05 --replay <file written by write_replay>"""
    exe, log = build(vlib.OUT)
    if exe is None:
        print("ERROR cannot build ./cli"); return 2
    tmp = tempfile.mkdtemp(prefix="cli-files-", dir=vlib.OUT)
    try:
        path = os.path.join(tmp, "replay.ts")
        open(path, "wb").write(bytes.fromhex(d["hex"]))
        cls, sig, err = run_file(exe, path, d["flags"])
    finally:
        shutil.rmtree(tmp, ignore_errors=True)
        try: os.remove(exe)
        except OSError: pass
    print("case     : gots-cli %s -f <%d bytes>" % (" ".join(d["flags"]), len(d["hex"]) // 2))
    print("observed :", cls, sig)
    print("required : the tool exits without a panic within %.0f s" % TIMEOUT)
    if cls != "ok":
        print(err[-800:])
        return 1
    print("replay passes: the tool now exits normally on this file")
    return 0
