"""C08 — SCTE-35 decoding reports exactly the encoded fields.
Logical splice_info values (flag lattice + random) are serialised by the Coq Spec serialiser (`ser.scte`,
cross-checked against an independent Python bit-writer) and decoded by the model and by scte35.NewSCTE35;
the full getter view is compared."""
import vlib
from vlib import Case, hx
from gen import sctelib as L

PROP = "C08"
PROOF_FILES = ["Properties/C08.v", "Properties/ModelTie.v"]
RULE = ("a case is non-trivial when it is a distinct supported section (splice_null / time_signal with time / "
        "splice_insert, any descriptors) or a distinct rejected section of one of the four rejection classes; the flag "
        "lattice of splice_insert (cancel | out x {program,component} x {immediate,timed} x {no break, break auto 0/1}) and of "
        "segmentation_descriptor (cancel | components none/0/1/2 x duration x {not restricted | 8 flag triples} x upid shape "
        "{empty, single, empty MID, MID list} cycling the sub-segment types) is enumerated completely on every run, each "
        "with pointer_field 0..254 (every value on every run); truncated / bit-flipped sections are fidelity cases (C05)")
EXHAUSTIVE = True
EXHAUSTIVE_NOTE = "the flag lattices of splice_insert and segmentation_descriptor are enumerated completely; field values are boundary + random"
ASSUMPTIONS = ["bytes.Buffer Next/ReadByte/UnreadByte behave as documented (Model/Scte.v buf)",
               "descriptor.SCTE35() identity is modelled by an owner id"]
_logical = {}   # request line -> logical signal (for shrinking)


def oracle(c, real, model):
    """None = plain comparison.  One relational clause: a well-formed section with pointer_field 255 must decode (the
    property says "any pointer_field"); the unchanged decoder rejects it (uint8 arithmetic on pointer_field + 1) and so does
    its model, so the comparison alone would accept it: known finding K4, theorem C08_pointer_255_refuted."""
    if (c.kind == "pointer-255" or c.line in _k4_lines()) and c.line.startswith("scte.decode xff") and real.startswith("[1 "):
        return ("K4: a well-formed splice_info_section behind a pointer_field of 255 is rejected (error %s): psi.PointerField(data)+1 "
                "is computed in uint8 and wraps to 0 (C08_pointer_255_refuted)" % real[3:-1])
    return None


_K4 = []


def _k4_lines():
    if not _K4:
        _K4.append({l for k in vlib.load_known("C08") if k.get("id") == "K4" for l in k.get("lines", [])})
    return _K4[0]


def known_match(entry, case, real, model):
    if entry.get("signature") == "pointer-field-255":
        return case.line.startswith("scte.decode xff") and (oracle(case, real, model) or "").startswith("K4:")
    return case.line in entry.get("lines", [entry.get("line")])


def _case(s, b, kind, theorem, decides=True):
    line = "scte.decode " + hx(b)
    _logical[line] = s
    return Case(line, kind=kind, decides=decides, nontrivial=decides, theorem=theorem)


def gen(rng, tier):
    sigs, meta = [], []
    def add(s, kind, th="C08_decode_ser"):
        sigs.append(s); meta.append((kind, th))
    pf = [0]
    def nextpf():
        pf[0] = (pf[0] + 1) % 21
        return pf[0]
    rounds = 1 if tier == "quick" else 8
    for _ in range(rounds):
        add(L.g_signal(rng, cmd=[0], descs=[]), "null")
        for t in L.PTS_EDGE:
            for a in (0, 1, L.T33 - 1, L.T33 - t if t else 5):
                s = L.g_signal(rng, cmd=[1, [t]], descs=[], pf=nextpf()); s[8] = a % L.T33
                add(s, "time_signal", "C08_signal_pts")
        for c in L.insert_lattice(rng):
            add(L.g_signal(rng, cmd=c, pf=nextpf()), "insert-lattice")
        for d in L.seg_lattice(rng):
            add(L.g_signal(rng, descs=[d], pf=nextpf()), "seg-lattice")
        for i in range(255):     # every pointer_field the library can take (255 wraps in uint8: C08_pointer_255_refuted)
            add(L.g_signal(rng, pf=i), "pointer")
    n = 600 if tier == "quick" else 20000
    for _ in range(n):
        add(L.g_signal(rng), "random")
    for _ in range(40 if tier == "quick" else 400):
        ds = [L.g_seg(rng) if rng.random() < 0.7 else L.g_foreign(rng) for _ in range(rng.randrange(3, 7))]
        add(L.g_signal(rng, descs=ds), "many-descriptors")
    # two descriptors of one section that are Equal in the library's sense (type, event id, segment numbers, same signal time)
    # but differ in UPID / duration / flags, adjacent or not: both are in the list, in order (seeded C08-u1: the decoder
    # dropped "repeats")
    import copy as _copy
    for _ in range(40 if tier == "quick" else 600):
        d1 = L.g_seg(rng)
        while not d1[2]:
            d1 = L.g_seg(rng)
        d2 = _copy.deepcopy(d1)
        other = L.g_seg(rng)
        while not other[2]:
            other = L.g_seg(rng)
        b2, bo = d2[2][0], other[2][0]
        b2[0], b2[1], b2[2], b2[3] = bo[0], bo[1], bo[2], bo[3]      # components, duration, restrictions, UPID of another one
        mid = [L.g_seg(rng)] if rng.random() < 0.5 else []
        mid += [L.g_foreign(rng)] if rng.random() < 0.3 else []
        cmd = [1, L.g_stime(rng, must=True)] if rng.random() < 0.7 else None
        add(L.g_signal(rng, cmd=cmd, descs=[d1] + mid + [d2] + ([_copy.deepcopy(d1)] if rng.random() < 0.3 else [])), "equal-descriptors")
    # descriptors at the size limit: descriptor_length 250..255 (one byte length; a decoder that does the loop
    # arithmetic in uint8 wraps exactly here), as foreign descriptors and as segmentation descriptors with a long UPID,
    # alone, first, last and in the middle of the loop
    for dl in (250, 253, 254, 255):
        for pos in range(3):
            big = [1, rng.choice([0, 1, 0x80, 0xFF]), L.g_bytes(rng, dl)]
            others = [L.g_seg(rng) for _ in range(2)]
            ds = others[:pos] + [big] + others[pos:]
            add(L.g_signal(rng, descs=ds, pf=nextpf()), "max-descriptor")
        add(L.g_signal(rng, descs=[[1, 3, L.g_bytes(rng, dl)]], pf=0), "max-descriptor")
    for _ in range(12 if tier == "quick" else 120):
        d = L.g_seg(rng)
        # grow the descriptor to the limit through its UPID when it has a plain one
        add(L.g_signal(rng, descs=[d, [1, 0x80, L.g_bytes(rng, rng.choice([200, 240, 254, 255]))]], pf=nextpf()), "max-descriptor")
    # the four rejections
    for _ in range(30 if tier == "quick" else 300):
        ty = rng.choice([4, 7, 255, 1, 2, 3, 8, rng.randrange(7, 256)])
        add(L.g_signal(rng, cmd=[3, ty, L.g_bytes(rng, rng.randrange(0, 12))]), "reject-command", "C08_reject_command")
        s = L.g_signal(rng); s[6] = 1
        add(s, "reject-encrypted", "C08_reject_encrypted")
        # an encrypted section's command bytes are ciphertext: whatever they look like (unsupported type, a
        # time-less time_signal / splice_insert), the answer is the encryption error (the theorem has no hypothesis
        # on the command); likewise a wrong table id wins over everything else
        for cmd in ([3, ty, L.g_bytes(rng, rng.randrange(0, 12))], [1, []], [2, 7, [[1, [1, []], [], 1, 2, 3]]]):
            s = L.g_signal(rng, cmd=cmd); s[6] = 1
            add(s, "reject-encrypted-odd-command", "C08_reject_encrypted")
            s = L.g_signal(rng, cmd=cmd); s[1] = rng.choice([0, 2, 0xFB, 0xFD, 0xFF]); s[6] = rng.randrange(2)
            add(s, "reject-table-id-odd-command", "C08_reject_table_id")
        s = L.g_signal(rng); s[1] = rng.choice([0, 2, 0xFB, 0xFD, 0xFF, rng.randrange(256)])
        if s[1] != 0xFC:
            add(s, "reject-table-id", "C08_reject_table_id")
        ident = rng.choice([b"CUEJ", b"\0\0\0\0", b"cuei", b"DUEI", L.g_bytes(rng, 4)])
        if ident != b"CUEI":
            bad = [1, 2, ident + L.g_bytes(rng, rng.randrange(4, 20))]
            ds = [L.g_seg(rng) for _ in range(rng.randrange(0, 2))] + [bad] + [L.g_seg(rng) for _ in range(rng.randrange(0, 2))]
            add(L.g_signal(rng, descs=ds), "reject-identifier", "C08_reject_identifier")
        add(L.g_signal(rng, cmd=[1, []]), "reject-time-signal-without-time", "C08_reject_no_time")
        add(L.g_signal(rng, cmd=[2, 7, [[1, [1, []], [], 1, 2, 3]]]), "reject-insert-without-time", "C08_reject_no_time")
    sigs2, meta2 = [], []
    for s, m in zip(sigs, meta):
        if L.fits(s):
            sigs2.append(s); meta2.append(m)
    data = L.serialise(sigs2)
    out = [_case(s, b, k, th) for s, b, (k, th) in zip(sigs2, data, meta2)]
    # the same sections followed by padding (0xFF up to a packet payload, or arbitrary bytes): C08_decode_ser_padded
    for s, b, (k, th) in list(zip(sigs2, data, meta2))[:: 4 if tier == "quick" else 2]:
        if th in ("C08_decode_ser", "C08_signal_pts"):
            pad = bytes([0xFF] * rng.choice([1, 2, 7, max(0, 184 - len(b))])) if rng.random() < 0.7 else L.g_bytes(rng, rng.randrange(1, 12))
            out.append(_case(s, b + pad, "padded", "C08_decode_ser_padded"))
    # fidelity (C05 territory): truncations, single-bit flips, length-field perturbation of valid sections
    base = [b for b, (k, _) in zip(data, meta2) if k in ("random", "many-descriptors", "insert-lattice")]
    rng.shuffle(base)
    nmal = 12 if tier == "quick" else 150
    for b in base[:nmal]:
        for cut in range(0, len(b), max(1, len(b) // 24)):
            out.append(Case("scte.decode " + hx(b[:cut]), kind="fidelity-truncated", decides=False, nontrivial=False,
                            theorem="Scte.parse_table vs scte35.NewSCTE35"))
        for _ in range(24):
            i = rng.randrange(len(b)); m = bytearray(b); m[i] ^= 1 << rng.randrange(8)
            out.append(Case("scte.decode " + hx(m), kind="fidelity-bitflip", decides=False, nontrivial=False,
                            theorem="Scte.parse_table vs scte35.NewSCTE35"))
            # whatever still decodes is also re-encoded and printed (String()) on the real object: no panic (C05)
            out.append(Case("scte.reencode " + hx(m), kind="fidelity-bitflip-reencode", decides=False, nontrivial=False,
                            theorem="ScteEnc.update_data vs UpdateData on decoded objects; String() does not panic"))
    # the two loops that do not terminate on the pinned /repo (F11): descriptor_loop_length 0xFFFF, and a MID whose inner
    # lengths overshoot segmentation_upid_length; fidelity cases (outcome class belongs to C05)
    loops = ["00fc301100000000000000fff00000ffff00000000",
             "00fc302600000000000000fff000000015021343554549000000017fbf0d010905000000000000000000",
             "00fc302600000000000000fff000000015021343554549000000017fbf0d0309ff000000000000000000"]
    for h in loops:
        out.append(Case("scte.decode x" + h, kind="fidelity-loop", decides=False, nontrivial=False,
                        theorem="Scte.parse_desc_loop / parse_mid never Diverge (Proofs/ScteTotal.v)"))
    return out


def case_of_line(line, kind):
    dec = not kind.startswith("fidelity")
    return Case(line, kind=kind, decides=dec, nontrivial=dec, theorem="C08_decode_ser")


def shrink(c):
    s = _logical.get(c.line)
    if s is None:
        return
    cands = []
    for i in range(len(s[13])):
        t = list(s); t[13] = s[13][:i] + s[13][i + 1:]; cands.append(t)
    if s[0]:
        t = list(s); t[0] = b""; cands.append(t)
    if s[14]:
        t = list(s); t[14] = b""; cands.append(t)
    for idx, v in ((8, 0), (10, 0xFFF), (5, 0), (7, 0), (9, 0), (15, 0), (11, 0), (4, 3)):
        if s[idx] != v:
            t = list(s); t[idx] = v; cands.append(t)
    if s[12][0] == 2 and len(s[13]) > 0:
        t = list(s); t[12] = [0]; cands.append(t)
    cands = [t for t in cands if L.fits(t)]
    if not cands:
        return
    orig = vlib.unhx(c.line.split()[1])
    full = L.py_ser(s)
    pad = orig[len(full):] if orig[:len(full)] == full else b""
    if pad:
        yield _case(s, full, c.kind, c.theorem, c.decides)
    for t, b in zip(cands, L.serialise(cands)):
        yield _case(t, b + pad, c.kind, c.theorem, c.decides)


LEVEL_TEXT = ("Proof: Properties/C08.v states, over a Gallina model of the repaired decoder (bytes.Buffer semantics, uint8/uint16 "
              "wrap, fuelled loops), that decoding the SCTE 35 section 9 serialisation of any supported logical splice_info "
              "yields exactly its fields (decode_ser), PTS = (pts_time + pts_adjustment) mod 2^33, the descriptor back-reference, "
              "and the four rejections.  The model is tied to the real NewSCTE35 on every run on the complete flag lattice and "
              "random sections, comparing every getter.")
LEVEL_NOTE = ("Trusted: Coq kernel; Model/Scte.v transcription (checked by this correspondence); Spec/Scte35Spec.v as a reading of "
              "SCTE 35; extraction and executor glue; Go semantics of bytes.Buffer.")
TECHNIQUE = "Coq proof (parser inverts serialiser, branch by branch) + model/implementation correspondence on the flag lattice and random sections"
PARTIAL = ("no clause is partial; limits stated in the theorems: pointer_field < 255 (uint8 wrap in psi, C08_pointer_255_refuted), "
           "the model is of the repaired code (F8, loops); String() and StreamSwitchSignalId() are not in the view; "
           "IsIn/IsOut/CanClose/Equal belong to C19")
