"""C07 — PAT decoding: program count, program map, single-program PID, IsPMT, ReadPAT.
Sections are generated from logical values (0..42 entries and more for concatenated payloads,
duplicates, network entry, reserved bits random) through the Coq Spec serialisers
(pat.ser.payload / pat.ser.packet of modelexec) and presented on the three carriers."""
import vlib
from vlib import Case, hx, unhx

PROP = "C07"
PROOF_FILES = ["Properties/C07.v", "Properties/ModelTie.v"]
RULE = ("well-formed program association sections behind ANY pointer_field (0 in half of the cases; every value 0..255 in front of small "
        "sections on the bare payload carrier and every value that fits - up to 171 - on the packet and stream carriers; the skipped bytes "
        "are 0xFF stuffing, zeros, random bytes or bytes that look like table ids / sync bytes) built by the Coq serialiser from logical entry lists: "
        "every entry count 0..42 (several shapes each: distinct programs, duplicate program numbers, network entry "
        "program_number 0 first/middle/last/only, PIDs 0/1/0x1FFF and random with all reserved-bit patterns), entry counts "
        "43..253 for concatenated payloads; each on the carriers payload bytes (bare, 0xFF-stuffed, random trailing bytes), "
        "whole 188-byte packet (no adaptation field, adaptation field of every length that leaves room), packet stream "
        "through ReadPAT (0..5 leading packets of other PIDs, trailing packets incl. a second PAT, fragmenting reader, "
        "streams without a PAT ending in EOF / partial packet / reader error); IsPMT for PIDs that are values, network-only, "
        "absent, and for the nil PAT.  Every deciding case is judged by the Spec-side oracle (spec.pat of modelexec: expected entry count, "
        "sorted last-wins program map, single-program PID, PMT classification computed from the logical entry list by Spec/PatSpec.v) "
        "in addition to model equality.  A case is non-trivial when it is a distinct request inside the property's hypotheses; "
        "malformed inputs (a pointer_field that does not point at the section, truncation, wrong section_length, packets without payload, short payloads, "
        "188-byte payload strings, psi helpers on arbitrary bytes) are fidelity cases for the C05 totality lemmas")
EXHAUSTIVE = False
ASSUMPTIONS = ["the model follows /repo commit 3223166 (finding P1: before it the accessors ignored a non-zero pointer_field; fixed entry in known_findings.json)",
               "io.ReadFull behaves as documented (the reader script is the list of its results)",
               "payload byte strings are not exactly 188 bytes long (NewPAT treats a 188-byte slice as a packet)"]


EXPECT = {}   # case line -> reply required by the Spec-side oracle (spec.pat / spec.pat.ispmt of modelexec)
META = {}     # case line -> logical description of the case (for the shrinker)
_SPEC_REQ = []  # (case line, spec request), resolved in one batch at the end of gen


def spec_view_req(entries):
    return "spec.pat %s" % wire([list(e) for e in entries])


def spec_ispmt_req(entries, pid):
    return "spec.pat.ispmt %s %d" % (wire([list(e) for e in entries]), pid)


def wire(v):
    if isinstance(v, int):
        return str(v)
    if isinstance(v, (bytes, bytearray)):
        return hx(v)
    return "[ " + " ".join(wire(x) for x in v) + " ]" if v else "[ ]"


def rb(rng, n):
    return bytes(rng.randrange(256) for _ in range(n))


def entries_shapes(rng, n):
    """several logical entry lists with n entries: (program_number, pid, reserved)"""
    def pid():
        return rng.choice([0, 1, 0x10, 0x1E1, 0x1FFF, 0x1000, 0x00FF, 0x0100, rng.randrange(8192), rng.randrange(8192)])
    def pn():
        return rng.choice([1, 2, 255, 256, 257, 65535, rng.randrange(1, 65536), rng.randrange(1, 65536)])
    shapes = []
    shapes.append([(pn(), pid(), rng.randrange(8)) for _ in range(n)])                      # random programs
    shapes.append([(i + 1, 0x100 + i, 7) for i in range(n)])                                # distinct, conventional
    if n >= 1:
        for pos in {0, n // 2, n - 1}:                                                      # network entry
            e = [(pn(), pid(), rng.randrange(8)) for _ in range(n)]
            e[pos] = (0, pid(), rng.randrange(8))
            shapes.append(e)
    if n >= 2:
        e = [(pn(), pid(), rng.randrange(8)) for _ in range(n)]                             # duplicates: last wins
        k = e[0][0]
        for _ in range(max(1, n // 3)):
            e[rng.randrange(n)] = (k, pid(), rng.randrange(8))
        e[-1] = (k, pid(), rng.randrange(8)) if rng.random() < 0.5 else e[-1]
        shapes.append(e)
        shapes.append([(5, pid(), rng.randrange(8)) for _ in range(n)])                     # all the same program
        shapes.append([(0, pid(), 0) for _ in range(n)])                                    # only network entries
    return shapes


def pfk(rec):
    """kind suffix: cases with a non-zero pointer_field are counted separately"""
    return "-pf" if rec["pf"] else ""


def filler_of(rng, k):
    """the k bytes between the pointer_field and the section: stuffing, or arbitrary bytes (the tail of a previous
    section), incl. bytes that look like a table_id / sync byte"""
    c = rng.randrange(4)
    if c == 0:
        return b"\xff" * k
    if c == 1:
        return rb(rng, k)
    if c == 2:
        return bytes(rng.choice([0x00, 0x47, 0xB0, 0xFF, k & 0xFF]) for _ in range(k))
    return bytes(k)


def pick_pf(rng, n):
    """pointer_field for an n-entry section: 0 in half of the cases, else small / fitting a packet / up to 255"""
    room = 184 - (13 + 4 * n)
    c = rng.randrange(8)
    if c < 4:
        return 0
    if c < 6 and room > 0:
        return rng.choice([1, 2, 3, 8, room, rng.randrange(1, room + 1)]) if room >= 8 else rng.randrange(1, room + 1)
    return rng.choice([1, 4, 100, 182, 183, 254, 255, rng.randrange(1, 256)])


def mkrec(rng, entries, pf=None):
    """the logical payload: pointer_field and the bytes it skips, then the section: flags nibble, the five bytes after
    section_length, the entries, the CRC bytes"""
    k = pick_pf(rng, len(entries)) if pf is None else pf
    return dict(pf=k, filler=filler_of(rng, k),
                flags=rng.choice([0xB, 0xB, 0x8, 0xF, 0x0, rng.randrange(16)]),
                hdr=bytes([rng.randrange(256), rng.randrange(256), 0xC1 | (rng.randrange(32) << 1), 0, 0]),
                entries=list(entries), crc=rb(rng, 4))


def payload_req(rec, rest=b"", entries=None):
    e = rec["entries"] if entries is None else entries
    return "pat.ser.payload_pf %d %s %d %s %s %s %s" % (rec["pf"], hx(rec["filler"]), rec["flags"], hx(rec["hdr"]),
                                                     wire([list(x) for x in e]), hx(rec["crc"]), hx(rest))


def ser_payload_req(rng, entries, rest=b""):
    return payload_req(mkrec(rng, entries), rest)


def ser_packet_req(rng, pid, af, payload):
    return "pat.ser.packet %d %d %d %d %s %s" % (rng.randrange(8), pid, rng.randrange(4), rng.randrange(16),
                                                 wire([af] if af is not None else []), hx(payload))


def other_packet(rng):
    """a packet of another PID (random header bits, with or without adaptation field / payload)"""
    pid = rng.choice([1, 0x11, 0x100, 0x1FFF, 0x1000, rng.randrange(1, 8192)])
    p = bytearray(rb(rng, 188))
    p[0] = 0x47
    p[1] = (rng.randrange(8) << 5) | (pid >> 8)
    p[2] = pid & 0xFF
    return bytes(p)


def gen(rng, tier):
    thorough = tier == "thorough"
    out = []
    reps = 6 if thorough else 1
    # ---- stage 1: payloads from logical entry lists
    EXPECT.clear(); META.clear(); del _SPEC_REQ[:]
    plan = []    # (entries, request)
    recs = []
    for _ in range(reps):
        for n in range(0, 43):
            for e in entries_shapes(rng, n):
                recs.append(mkrec(rng, e))
                plan.append((e, payload_req(recs[-1])))
    for n in [43, 44, 60, 100, 200, 252, 253] + ([rng.randrange(43, 254) for _ in range(20)] if thorough else []):
        e = entries_shapes(rng, n)[rng.randrange(3)]
        recs.append(mkrec(rng, e))
        plan.append((e, payload_req(recs[-1])))
    # every pointer_field 0..255 in front of small sections (bare payload; the packet carriers take those that fit)
    for n in (0, 1, 2) if not thorough else (0, 1, 2, 3, 10, 42):
        for k in range(256):
            e = entries_shapes(rng, n)[rng.randrange(2)]
            recs.append(mkrec(rng, e, pf=k))
            plan.append((e, payload_req(recs[-1])))
    bare = [unhx(r) for r in vlib.run_model([r for _, r in plan])]
    # ---- stage 2: carriers
    pkt_reqs = []   # (kind, entries, payload, af) -> 188-byte packets through the Spec packet serialiser
    for (e, _), pay, rec in zip(plan, bare, recs):
        n = len(e)
        th = "C07_num_programs"
        # payload carrier: bare, stuffed to a 184-byte payload, random trailing bytes
        variants = [pay]
        if len(pay) <= 184:
            variants.append(pay + b"\xff" * (184 - len(pay)))
        variants.append(pay + rb(rng, rng.randrange(1, 30)))
        for v in variants:
            if len(v) == 188:
                out.append(Case("pat.new " + hx(v), kind="fidelity-payload-188", decides=False, nontrivial=False, theorem=th))
            else:
                out.append(Case("pat.new " + hx(v), kind="payload" + pfk(rec), theorem=th))
                _SPEC_REQ.append((out[-1].line, spec_view_req(e)))
                META[out[-1].line] = dict(carrier="payload", rec=rec, rest=v[len(pay):])
        if len(pay) <= 184:
            stuffed = pay + b"\xff" * (184 - len(pay))
            pkt_reqs.append(("packet", e, stuffed, None, rec))
            room = 183 - len(pay)        # adaptation field content bytes that still leave room for the section
            afl = sorted({0, 1, room, rng.randrange(0, room + 1), rng.randrange(0, room + 1)} if room >= 1 else {0})
            for L in ((range(0, room + 1) if (thorough and n % 7 == 0) else afl) if room >= 0 else []):
                af = (bytes([rng.choice([0x00, 0x40, 0x10, 0xFF])]) + b"\xff" * (L - 1)) if L else b""
                body = pay + b"\xff" * (183 - L - len(pay))
                pkt_reqs.append(("packet-af", e, body, af, rec))
    packets = [unhx(r) for r in vlib.run_model([ser_packet_req(rng, 0 if k != "packet" or rng.random() < 0.7 else rng.randrange(8192), af, body)
                                                for k, e, body, af, _ in pkt_reqs])]
    pat_packets = []
    for (k, e, body, af, rec), pkt in zip(pkt_reqs, packets):
        assert len(pkt) == 188
        out.append(Case("pat.new " + hx(pkt), kind=k + pfk(rec), theorem="C07_packet_carrier"))
        _SPEC_REQ.append((out[-1].line, spec_view_req(e)))
        META[out[-1].line] = dict(carrier="packet", rec=rec, pkt=pkt, af=af)
        if pkt[1] & 0x1F == 0 and pkt[2] == 0:
            pat_packets.append((e, pkt, rec))
    # ---- stream carrier
    for i, (e, pkt, rec) in enumerate(pat_packets):
        if not thorough and i % 3 and not (rec["pf"] and i % 3 == 1):
            continue
        lead = [other_packet(rng) for _ in range(rng.choice([0, 1, 2, 3, 5]))]
        trail = [other_packet(rng) for _ in range(rng.randrange(3))]
        if rng.random() < 0.3:
            trail.append(pat_packets[rng.randrange(len(pat_packets))][1])   # a later, different PAT must not matter
        frag = rng.choice([0, 1, 7, 187, 188, 189, 376, 4096])
        tailmode = rng.randrange(3)
        out.append(Case("pat.read %s %d %d" % (wire(lead + [pkt] + trail), tailmode, frag), kind="stream" + pfk(rec),
                        theorem="C07_read_pat"))
        _SPEC_REQ.append((out[-1].line, spec_view_req(e)))
        META[out[-1].line] = dict(carrier="stream", rec=rec, pkt=pkt, lead=lead, trail=trail, tail=tailmode, frag=frag)
    for _ in range(200 if thorough else 40):
        pk = [other_packet(rng) for _ in range(rng.randrange(0, 6))]
        out.append(Case("pat.read %s %d %d" % (wire(pk), rng.randrange(2), rng.choice([0, 1, 100, 188, 1000])),
                        kind="stream-no-pat", theorem="C07_read_pat_not_found"))
        # a reader error other than EOF is passed on (lemma read_pat_reader_error); not part of the property text
        out.append(Case("pat.read %s 2 %d" % (wire(pk), rng.choice([0, 50, 188])), kind="fidelity-stream-reader-error",
                        decides=False, nontrivial=False, theorem="read_pat_reader_error"))
    # ---- IsPMT
    for i, ((e, _), pay, rec) in enumerate(zip(plan, bare, recs)):
        if len(pay) == 188 or (not thorough and i % 2 and not (rec["pf"] and i % 4 == 1)):
            continue
        progs = {}
        for pn, pid, _ in e:
            if pn:
                progs[pn] = pid
        vals = set(progs.values())
        net_only = [pid for pn, pid, _ in e if pn == 0 and pid not in vals]
        overwritten = [pid for pn, pid, _ in e if pn and pid not in vals]
        cand = []
        if vals:
            cand += [(rng.choice(sorted(vals)), "ispmt-value"), (sorted(vals)[-1], "ispmt-value")]
        if net_only:
            cand.append((net_only[0], "ispmt-network-pid"))
        if overwritten:
            cand.append((overwritten[0], "ispmt-overwritten-pid"))
        absent = next(p for p in [0x1ABC, 0x0ABC, 0x1FFE, 7] + list(range(8192)) if p not in vals)
        cand.append((absent, "ispmt-absent"))
        for pid, kind in cand:
            p = bytearray(other_packet(rng))
            p[1] = (p[1] & 0xE0) | (pid >> 8)
            p[2] = pid & 0xFF
            out.append(Case("pat.ispmt %s [ %s ]" % (hx(p), hx(pay)), kind=kind + pfk(rec), theorem="C07_is_pmt_iff"))
            _SPEC_REQ.append((out[-1].line, spec_ispmt_req(e, pid)))
            META[out[-1].line] = dict(carrier="ispmt", rec=rec, pkt=bytes(p), pid=pid)
    for _ in range(10):
        out.append(Case("pat.ispmt %s [ ]" % hx(other_packet(rng)), kind="ispmt-nil", theorem="C07_is_pmt_nil"))
    # ---- fidelity (C05 side): malformed inputs; they tie the error branches of the model to the code
    def fid(line, kind):
        out.append(Case(line, kind="fidelity-" + kind, decides=False, nontrivial=False, theorem="Proofs/PatTotal.v"))
    sample = [p for p in bare if len(p) <= 184]
    for k in range(400 if thorough else 60):
        pay = bytearray(sample[rng.randrange(len(sample))])
        fid("pat.new " + hx(pay[:rng.randrange(len(pay) + 1)]), "truncated")
        q = bytearray(pay)
        q[0] = rng.choice([1, 2, 5, 100, 183, 200, 254, 255])
        fid("pat.new " + hx(q), "pointer-field")
        fid("pat.psi " + hx(q), "psi")
        q = bytearray(pay)
        q[2] = rng.randrange(256); q[3] = rng.choice([0, 1, 4, 8, 9, 12, 13, 255, rng.randrange(256)])
        fid("pat.new " + hx(q), "section-length")
        fid("pat.new " + hx(q + b"\xff" * (184 - len(q))), "section-length")
        fid("pat.psi " + hx(q), "psi")
        # 188-byte packets: no payload flag, oversized adaptation field, payload too short for a PAT
        p = bytearray(other_packet(rng))
        p[3] = rng.choice([0x00, 0x20, 0x10, 0x30, 0x30, 0x30])
        p[4] = rng.choice([0, 1, 170, 171, 172, 182, 183, 184, 200, 255])
        fid("pat.new " + hx(p), "packet-malformed")
        fid("pat.pkt " + hx(p), "pkt")
        fid("pat.ispmt %s [ %s ]" % (hx(other_packet(rng)), hx(p)), "ispmt-malformed")
        q = [other_packet(rng) for _ in range(rng.randrange(3))]
        p[1] &= 0xE0; p[2] = 0
        fid("pat.read %s %d 0" % (wire(q + [bytes(p)]), rng.randrange(3)), "stream-malformed-pat")
    for n in list(range(0, 16)) + [187, 188, 189]:
        for pat in (bytes(n), b"\xff" * n, rb(rng, n), bytes([0, 0, 0xB0, 0x0D]) + bytes(max(0, n - 4))):
            fid("pat.new " + hx(pat[:n]), "short")
            fid("pat.psi " + hx(pat[:n]), "psi")
    for _ in range(300 if thorough else 60):
        b = bytearray(rb(rng, rng.choice([1, 2, 3, 4, 5, 8, 13, 20, 100, 184, 255, 256, 257, 300])))
        b[0] = rng.choice([0, 0, 1, 2, len(b) - 3, len(b) - 2, len(b) - 1, len(b), 254, 255]) & 0xFF
        fid("pat.psi " + hx(b), "psi")
        fid("pat.new " + hx(b), "random")
    # the Spec-side oracle: one batch through modelexec
    for (line, _), r in zip(_SPEC_REQ, vlib.run_model([q for _, q in _SPEC_REQ])):
        EXPECT[line] = r
    return out


def oracle(c, real, model):
    """deciding cases are judged by the Spec-side oracle (spec.pat of modelexec: spec_num / spec_map / spts / spec_is_pmt
    of Spec/PatSpec.v on the LOGICAL entry list, no model function involved) in addition to model equality"""
    exp = EXPECT.get(c.line)
    if exp is not None and c.decides and real != exp:
        return ("observed differs from what the Spec-side oracle (spec.pat: entry count, sorted last-wins program map, "
                "single-program PID, PMT classification from the logical entry list) requires: " + exp[:300])
    return None


def _resolve(cands):
    """cands: list of (kind of line builder, serialisation request or None, spec request, builder(bytes)->line, meta)"""
    reqs = [c[0] for c in cands if c[0] is not None] + [c[1] for c in cands]
    rep = vlib.run_model(reqs)
    nser = sum(1 for c in cands if c[0] is not None)
    sers, specs = rep[:nser], rep[nser:]
    k = 0
    for (serreq, _, build, meta), sp in zip(cands, specs):
        b = None
        if serreq is not None:
            b = unhx(sers[k]); k += 1
        line = build(b)
        if line is None:
            continue
        EXPECT[line] = sp
        META[line] = meta
        yield line


def shrink(c):
    """drop entries (halves, then single entries), shorten the carrier (stream -> its PAT packet -> payload bytes
    without trailing bytes); every candidate is re-serialised by the Coq serialiser and gets its own oracle answer"""
    m = META.get(c.line)
    if m is None:
        return
    rec = m["rec"]; es = rec["entries"]
    subs = []
    if len(es) > 1:
        subs += [es[:len(es) // 2], es[len(es) // 2:]]
    subs += [es[:i] + es[i + 1:] for i in range(min(len(es), 16))]
    cands = []
    def rec_with(e):
        r = dict(rec); r["entries"] = e
        return r
    if m["carrier"] == "stream":
        for lead, trail, frag in (([], m["trail"], m["frag"]), (m["lead"], [], m["frag"]), ([], [], 0)):
            if (lead, trail, frag) != (m["lead"], m["trail"], m["frag"]):
                mm = dict(m); mm.update(lead=lead, trail=trail, frag=frag)
                cands.append((None, spec_view_req(es), (lambda b, l=lead, t=trail, f=frag: "pat.read %s %d %d" % (wire(l + [m["pkt"]] + t), m["tail"], f)), mm))
        cands.append((None, spec_view_req(es), (lambda b: "pat.new " + hx(m["pkt"])), dict(carrier="packet", rec=rec, pkt=m["pkt"], af=None)))
    elif m["carrier"] == "packet":
        cands.append((payload_req(rec), spec_view_req(es), (lambda b: "pat.new " + hx(b) if len(b) != 188 else None),
                      dict(carrier="payload", rec=rec, rest=b"")))
    elif m["carrier"] == "payload":
        if rec["pf"]:
            for r0 in (dict(rec, pf=0, filler=b""), dict(rec, filler=b"\xff" * rec["pf"]), dict(rec, pf=1, filler=b"\xff")):
                if (r0["pf"], r0["filler"]) != (rec["pf"], rec["filler"]):
                    cands.append((payload_req(r0, m["rest"]), spec_view_req(es), (lambda b: "pat.new " + hx(b) if len(b) != 188 else None),
                                  dict(carrier="payload", rec=r0, rest=m["rest"])))
        if m["rest"]:
            cands.append((payload_req(rec), spec_view_req(es), (lambda b: "pat.new " + hx(b) if len(b) != 188 else None),
                          dict(carrier="payload", rec=rec, rest=b"")))
        for e in subs:
            cands.append((payload_req(rec, m["rest"], e), spec_view_req(e), (lambda b: "pat.new " + hx(b) if len(b) != 188 else None),
                          dict(carrier="payload", rec=rec_with(e), rest=m["rest"])))
    elif m["carrier"] == "ispmt":
        for e in subs:
            cands.append((payload_req(rec, b"", e), spec_ispmt_req(e, m["pid"]),
                          (lambda b: "pat.ispmt %s [ %s ]" % (hx(m["pkt"]), hx(b)) if len(b) != 188 else None),
                          dict(carrier="ispmt", rec=rec_with(e), pkt=m["pkt"], pid=m["pid"])))
    for line in _resolve(cands):
        yield Case(line, kind=c.kind, decides=c.decides, nontrivial=c.nontrivial, theorem=c.theorem)


def payload_of(pkt):
    if not pkt[3] & 0x10:
        return None
    start = 4 + ((1 + pkt[4]) if pkt[3] & 0x20 else 0)
    return pkt[start:] if start <= 188 else None


def wf_payload(b):
    """pointer_field k, then k bytes, table_id 0, a complete section with section_length = 9 + 4n; not 188 bytes long"""
    if len(b) < 13 or len(b) == 188:
        return False
    k = b[0]
    if len(b) < 13 + k or b[1 + k] != 0:
        return False
    sl = ((b[2 + k] & 3) << 8) | b[3 + k]
    return sl >= 9 and (sl - 9) % 4 == 0 and 4 + k + sl <= len(b) and (b[2 + k] & 0x0C) == 0


def wf_carrier(b):
    if len(b) == 188:
        p = payload_of(b)
        return p is not None and wf_payload(p)
    return wf_payload(b)


def line_decides(line):
    """is this request inside the hypotheses of C07 (used for corpus and replay lines)"""
    f = line.split()
    try:
        if f[0] == "pat.new":
            return wf_carrier(unhx(f[1]))
        if f[0] == "pat.read":
            v = vlib.parse_val("[ " + line[len("pat.read "):] + " ]")
            pkts, tail = v[0], v[1]
            if any(len(p) != 188 for p in pkts):
                return False
            for p in pkts:
                if (p[1] & 0x1F) == 0 and p[2] == 0:
                    q = payload_of(p)
                    return q is not None and wf_payload(q)
            return tail in (0, 1)
        if f[0] == "pat.ispmt":
            v = vlib.parse_val("[ " + line[len("pat.ispmt "):] + " ]")
            return len(v[0]) == 188 and (len(v[1]) == 0 or wf_carrier(v[1][0]))
    except Exception:
        return False
    return False


def case_of_line(line, kind):
    dec = line_decides(line) and not kind.startswith("fidelity")
    return Case(line, kind=(kind or "replay") if dec or kind.startswith("fidelity") else "fidelity-" + (kind or "replay"),
                decides=dec, nontrivial=dec)


def search(c, rng):
    """a fidelity case disagrees: try well-formed inputs of every small size on the payload carrier"""
    reqs = []
    for n in range(0, 43):
        for e in entries_shapes(rng, n)[:3]:
            reqs.append(ser_payload_req(rng, e))
    for r in vlib.run_model(reqs):
        yield Case("pat.new " + r, kind="search", theorem="C07_num_programs")


LEVEL_TEXT = ("Proof: Coq theorems in Properties/C07.v state for ALL well-formed program association sections (any entry list "
              "with section_length < 1024, any reserved bits, any trailing bytes; ANY pointer_field with any skipped bytes) that NumPrograms is the number "
              "of entries, that ProgramMap is exactly the last-wins map of the entries with non-zero program_number to their "
              "13-bit PID, that SPTSpmtPID succeeds exactly on a single program entry, that the 188-byte path of NewPAT equals the "
              "payload path for every packet (any adaptation field), that ReadPAT skips any prefix of other-PID packets and reports "
              "ErrPATNotFound without a PID-0 packet, and that IsPMT holds exactly for PIDs that are values of the map (nil PAT -> "
              "ErrNilPAT). The model is tied to /repo on every run on all entry counts 0..42 x shapes x three carriers.")
LEVEL_NOTE = ("Trusted: Coq kernel; the transcription Model/Pat.v; io.ReadFull semantics (reader script = list of ReadFull "
              "results); extraction and executor glue. Maps are compared after sorting by key.")
TECHNIQUE = "Coq proof (parser inverts serialiser, induction over the entry list; lia for bit slicing) + model/implementation correspondence on structured sections over three carriers"
