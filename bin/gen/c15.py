"""C15 — PTS arithmetic modulo 2^33: boundary grid (exhaustive on the grid) + random pairs."""
from vlib import Case

PROP = "C15"
PROOF_FILES = ["Properties/C15.v"]
W = 162000000; M = 2 ** 33; U = M - 1 - W
NEG = 2 ** 64 - 2; POS = 2 ** 64 - 1
GRID = [0, 1, 2, W - 2, W - 1, W, W + 1, U - 1, U, U + 1, U + 2, M - W - 1, M - W, M - W + 1, M // 2, M - 3, M - 2, M - 1]
DS = [1, 2, 3, W - 1, W]
RULE = ("pairs (p,q) from the threshold grid %d x %d (complete) plus random 33-bit pairs, through After/GreaterOrEqual/"
        "RolledOver/DurationFrom, and (p,d) with d in {1,2,3,W-1,W} and random d in [1,W] through Add; a case is "
        "non-trivial when it is a distinct request line inside the property's hypotheses (33-bit operands, 1<=d<=W); "
        "64-bit and sentinel operands are fidelity cases" % (len(GRID), len(GRID)))
EXHAUSTIVE = True
EXHAUSTIVE_NOTE = "the threshold grid is enumerated completely on every run; the 2^66 pair space is covered by the theorems"
ASSUMPTIONS = ["Go uint64 arithmetic wraps modulo 2^64 (written out in Model/Pts.v)"]


def gen(rng, tier):
    out = []
    def pair(p, q, kind, decides=True):
        for op, th in (("pts.after", "C15_after_trichotomy"), ("pts.ge", "C15_ge_iff"), ("pts.ro", "C15_rolled_over_iff"),
                       ("pts.dur", "C15_duration_sym")):
            out.append(Case("%s %d %d" % (op, p, q), kind=kind, decides=decides, nontrivial=decides, theorem=th))
    for p in GRID:
        for q in GRID:
            pair(p, q, "grid")
        for d in DS:
            out.append(Case("pts.add %d %d" % (p, d), kind="grid-add", theorem="C15_add_mod"))
            s = (p + d) % M
            pair(s, p, "grid-add-pair"); pair(p, s, "grid-add-pair")
    n = 4000 if tier == "quick" else 200000
    for _ in range(n):
        p = rng.randrange(M); q = rng.randrange(M)
        if rng.random() < 0.5:
            p = rng.choice([rng.randrange(W + 5), M - 1 - rng.randrange(W + 5)])
            q = rng.choice([rng.randrange(W + 5), M - 1 - rng.randrange(W + 5)])
        pair(p, q, "random")
        d = rng.randrange(1, W + 1)
        out.append(Case("pts.add %d %d" % (p, d), kind="random-add", theorem="C15_add_mod"))
        s = (p + d) % M
        pair(s, p, "random-add-pair")
    for p in GRID + [rng.randrange(M) for _ in range(50)]:
        out.append(Case("pts.after %d %d" % (p, NEG), kind="sentinel", theorem="C15_after_neg_inf"))
        out.append(Case("pts.after %d %d" % (p, POS), kind="sentinel", theorem="C15_not_after_pos_inf"))
    # fidelity: operands outside the property's range (full uint64), ties the model's wrap-around to the code
    for _ in range(500 if tier == "quick" else 20000):
        p = rng.randrange(2 ** 64); q = rng.choice([rng.randrange(2 ** 64), NEG, POS, rng.randrange(M)])
        pair(p, q, "fidelity-u64", decides=False)
        out.append(Case("pts.add %d %d" % (p, q), kind="fidelity-u64", decides=False, nontrivial=False))
    return out


def shrink(c):
    f = c.line.split()
    a, b = int(f[1]), int(f[2])
    for a2, b2 in ((a // 2, b), (a, b // 2), (a - 1, b), (a, b - 1)):
        if a2 >= 0 and b2 >= 0 and (a2, b2) != (a, b):
            if f[0] == "pts.add" and not (1 <= b2 <= W):
                continue
            yield Case("%s %d %d" % (f[0], a2, b2), kind=c.kind, decides=c.decides, theorem=c.theorem)


def search(c, rng):
    for p in GRID:
        for q in GRID:
            for op in ("pts.after", "pts.ge", "pts.ro", "pts.dur"):
                yield Case("%s %d %d" % (op, p, q), kind="search")

LEVEL_TEXT = ("Proof: 13 Coq theorems (Properties/C15.v) state every clause of the property for ALL 33-bit operands and all "
              "distances 1..162000000 over a model of pts.go with uint64 wrap written out; closed by lia, no axioms. "
              "The model is tied to /repo on every run by executing it and the real methods on the complete threshold grid "
              "and on random operands; since the property fixes every compared value, any difference is a failing input.")
LEVEL_NOTE = ("Trusted: Coq kernel; the transcription Model/Pts.v (checked by the correspondence, exhaustive on the threshold "
              "grid); extraction (ExtrOcamlBasic) and the executor glue; Go's uint64 semantics.")
TECHNIQUE = "Coq proof (lia over N with explicit uint64 wrap) + model/implementation correspondence on threshold grid and random pairs"


# coverage round (notes/coverage.md): cases and support theorems for exported identifiers outside the property text
from gen import covlib
covlib.install(globals())
