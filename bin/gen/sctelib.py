"""Shared by c08.py / c09.py: logical splice_info values (in the wire `val` shape understood by the
`ser.scte` op of modelexec), an independent Python serialiser written from SCTE 35 section 9 with a
bit writer, and random / lattice generators.  The Coq serialiser (Spec/Scte35Spec.v) is the reference;
`serialise` asks modelexec and insists that the Python one agrees."""
import itertools
import vlib


def fmt_val(v):
    """wire syntax with every token separated by a space (the executors split on spaces)"""
    if isinstance(v, bool):
        return "1" if v else "0"
    if isinstance(v, int):
        return str(v)
    if isinstance(v, (bytes, bytearray)):
        return "x" + bytes(v).hex()
    return "[ " + "".join(fmt_val(x) + " " for x in v) + "]"

T33 = 1 << 33
T40 = 1 << 40
PTS_EDGE = [0, 1, (1 << 32) - 1, 1 << 32, (1 << 32) + 1, T33 - 1, 0x1FFFFFFFE, 0x100000000, 0xFFFFFFFF]
DUR40_EDGE = [0, 1, T40 - 1, 1 << 39, 1 << 32, (1 << 33) - 1, 1 << 33, 0xFF00000000, 0xFFFFFFFFFF]
SEG_TYPES = [0x10, 0x11, 0x30, 0x34, 0x36, 0x35, 0x37, 0x40, 0x50, 0x00, 0xFF, 0x22]


class Bits:
    def __init__(self):
        self.v = 0; self.n = 0

    def put(self, val, width):
        assert 0 <= val < (1 << width), (val, width)
        self.v = (self.v << width) | val; self.n += width

    def raw(self, b):
        assert self.n % 8 == 0
        for x in b:
            self.put(x, 8)

    def bytes(self):
        assert self.n % 8 == 0
        return self.v.to_bytes(self.n // 8, "big") if self.n else b""


# ---------------------------------------------------------------- python serialiser (SCTE 35 tables)
def py_stime(w, t):
    if t:
        w.put(1, 1); w.put(0x3F, 6); w.put(t[0], 33)
    else:
        w.put(0, 1); w.put(0x7F, 7)


def py_command(cmd):
    w = Bits()
    k = cmd[0]
    if k == 0:
        return 0, b""
    if k == 1:
        py_stime(w, cmd[1]); return 6, w.bytes()
    if k == 3:
        return cmd[1], bytes(cmd[2])
    eid, body = cmd[1], cmd[2]
    w.put(eid, 32)
    if not body:
        w.put(1, 1); w.put(0x7F, 7); return 5, w.bytes()
    out, mode, brk, upid, an, ae = body[0]
    w.put(0, 1); w.put(0x7F, 7)
    prog = mode[0] in (0, 1); imm = mode[0] in (0, 2)
    w.put(out, 1); w.put(int(prog), 1); w.put(1 if brk else 0, 1); w.put(int(imm), 1); w.put(0xF, 4)
    if mode[0] == 1:
        py_stime(w, mode[1])
    elif mode[0] == 2:
        w.put(len(mode[1]), 8); w.raw(mode[1])
    elif mode[0] == 3:
        w.put(len(mode[1]), 8)
        for tag, t in mode[1]:
            w.put(tag, 8); py_stime(w, t)
    if brk:
        auto, d = brk[0]
        w.put(auto, 1); w.put(0x3F, 6); w.put(d, 33)
    w.put(upid, 16); w.put(an, 8); w.put(ae, 8)
    return 5, w.bytes()


def py_descriptor(d):
    if d[0] == 1:
        return bytes([d[1], len(d[2])]) + bytes(d[2])
    w = Bits()
    w.put(0x43554549, 32); w.put(d[1], 32)
    if not d[2]:
        w.put(1, 1); w.put(0x7F, 7)
    else:
        comps, dur, restr, upid, ty, num, ex, sub = d[2][0]
        w.put(0, 1); w.put(0x7F, 7)
        w.put(0 if comps else 1, 1); w.put(1 if dur else 0, 1); w.put(0 if restr else 1, 1)
        if restr:
            wd, nb, ar, dev = restr[0]
            w.put(wd, 1); w.put(nb, 1); w.put(ar, 1); w.put(dev, 2)
        else:
            w.put(0x1F, 5)
        if comps:
            w.put(len(comps[0]), 8)
            for tag, off in comps[0]:
                w.put(tag, 8); w.put(0x7F, 7); w.put(off, 33)
        if dur:
            w.put(dur[0], 40)
        if upid[0] == 0:
            w.put(upid[1], 8); w.put(len(upid[2]), 8); w.raw(upid[2])
        else:
            body = b"".join(bytes([t, len(b)]) + bytes(b) for t, b in upid[1])
            w.put(0x0D, 8); w.put(len(body), 8); w.raw(body)
        w.put(ty, 8); w.put(num, 8); w.put(ex, 8)
        if sub:
            w.put(sub[0][0], 8); w.put(sub[0][1], 8)
    p = w.bytes()
    return bytes([2, len(p)]) + p


def py_ser(s):
    ptr, tid, ssi, priv, sap, pv, enc, ea, adj, cw, tier, legacy, cmd, descs, stuff, crc = s
    ctype, cbytes = py_command(cmd)
    dbytes = b"".join(py_descriptor(d) for d in descs)
    w = Bits()
    w.put(pv, 8); w.put(enc, 1); w.put(ea, 6); w.put(adj, 33); w.put(cw, 8); w.put(tier, 12)
    w.put(0xFFF if legacy else len(cbytes), 12); w.put(ctype, 8); w.raw(cbytes)
    w.put(len(dbytes), 16); w.raw(dbytes); w.raw(stuff); w.put(crc, 32)
    body = w.bytes()
    h = Bits()
    h.put(tid, 8); h.put(ssi, 1); h.put(priv, 1); h.put(sap, 2); h.put(len(body), 12)
    return bytes([len(ptr)]) + bytes(ptr) + h.bytes() + body


def crc32_mpeg2(b):
    c = 0xFFFFFFFF
    for x in b:
        c ^= x << 24
        for _ in range(8):
            c = ((c << 1) ^ 0x04C11DB7) & 0xFFFFFFFF if c & 0x80000000 else (c << 1) & 0xFFFFFFFF
    return c


def serialise(signals):
    """bytes of each logical signal through the Coq serialiser; the Python one must agree"""
    lines = ["ser.scte " + fmt_val(s) for s in signals]
    rep = vlib.run_model(lines)
    out = []
    for s, r in zip(signals, rep):
        if not r.startswith("x"):
            raise RuntimeError("ser.scte rejected a generated logical signal: %s -> %s" % (fmt_val(s), r))
        b = bytes.fromhex(r[1:])
        p = py_ser(s)
        if p != b:
            raise RuntimeError("Python and Coq SCTE-35 serialisers disagree on %s\n coq %s\n py  %s" % (fmt_val(s), b.hex(), p.hex()))
        out.append(b)
    return out


# ---------------------------------------------------------------- generators of logical values
def g_pts(rng):
    return rng.choice(PTS_EDGE) if rng.random() < 0.5 else rng.randrange(T33)


def g_stime(rng, must=False):
    if must or rng.random() < 0.8:
        return [g_pts(rng)]
    return []


def g_bytes(rng, n):
    return bytes(rng.randrange(256) for _ in range(n))


def g_mode(rng, k):
    if k == 0:
        return [0]
    if k == 1:
        return [1, g_stime(rng, must=True)]
    n = rng.choice([0, 1, 1, 2, 3])
    if k == 2:
        return [2, g_bytes(rng, n)]
    return [3, [[rng.randrange(256), g_stime(rng)] for _ in range(n)]]


def g_break(rng, k):
    if k == 0:
        return []
    return [[k - 1, g_pts(rng)]]


def insert_lattice(rng):
    """every (cancel | out x mode x break) combination once"""
    out = [[2, rng.randrange(1 << 32), []], [2, 0xFFFFFFFF, []]]
    for o, m, b in itertools.product((0, 1), range(4), range(3)):
        body = [o, g_mode(rng, m), g_break(rng, b), rng.choice([0, 0xFFFF, rng.randrange(65536)]),
                rng.randrange(256), rng.randrange(256)]
        out.append([2, rng.choice([0, 0xFFFFFFFF, rng.randrange(1 << 32)]), [body]])
    return out


def g_upid(rng, k):
    if k == 0:
        return [0, 0, b""]
    if k == 1:
        ty = rng.choice([1, 2, 3, 8, 9, 0x0C, 0x0E, 0x0F, 0xFF, 0])
        return [0, ty, g_bytes(rng, rng.choice([1, 4, 8, 12, 30]))]
    if k == 2:
        return [1, []]
    return [1, [[rng.choice([1, 8, 9, 0x0E, 0x0D, 0]), g_bytes(rng, rng.choice([0, 1, 3, 8]))] for _ in range(rng.choice([1, 2, 3]))]]


def g_segbody(rng, comps_k, dur_k, restr, upid_k, ty, sub_k):
    comps = []
    if comps_k:
        comps = [[[rng.randrange(256), rng.choice(PTS_EDGE + [rng.randrange(T33)])] for _ in range(comps_k - 1)]]
    dur = [rng.choice(DUR40_EDGE + [rng.randrange(T40)])] if dur_k else []
    sub = [[rng.randrange(256), rng.randrange(256)]] if sub_k else []
    return [comps, dur, restr, g_upid(rng, upid_k), ty, rng.randrange(256), rng.randrange(256), sub]


def seg_lattice(rng):
    """cancelled + every flag combination: comps(none/empty/1/2) x dur x restr(none + 8 flag triples, device cycling)
    x upid shape(4) x type class (sub-capable with/without sub, other)"""
    out = [[0, rng.randrange(1 << 32), []], [0, 0xFFFFFFFF, []]]
    restrs = [[]] + [[[w, n, a, (w * 4 + n * 2 + a) % 4]] for w, n, a in itertools.product((0, 1), repeat=3)] + [[[1, 0, 1, 3]], [[0, 0, 0, 2]]]
    tys = [(0x34, 1), (0x36, 1), (0x34, 0), (0x36, 0), (0x30, 0), (0x10, 0), (0x35, 0)]
    i = 0
    for ck, dk, r, uk in itertools.product(range(4), (0, 1), restrs, range(4)):
        ty, sk = tys[i % len(tys)]; i += 1
        out.append([0, rng.randrange(1 << 32), [g_segbody(rng, ck, dk, r, uk, ty, sk)]])
    for ty, sk in tys + [(t, 0) for t in SEG_TYPES]:
        out.append([0, rng.randrange(1 << 32), [g_segbody(rng, rng.randrange(3), rng.randrange(2), rng.choice(restrs), rng.randrange(4), ty, sk)]])
    return out


def g_foreign(rng):
    tag = rng.choice([0, 1, 3, 4, 0x80, 0xFF, rng.randrange(3, 256)])
    body = rng.choice([b"", b"CUEI", b"CUEI" + g_bytes(rng, rng.randrange(1, 12)), g_bytes(rng, rng.randrange(0, 20))])
    return [1, tag, body]


def g_seg(rng):
    if rng.random() < 0.15:
        return [0, rng.randrange(1 << 32), []]
    restr = [] if rng.random() < 0.4 else [[rng.randrange(2), rng.randrange(2), rng.randrange(2), rng.randrange(4)]]
    ty = rng.choice(SEG_TYPES + [0x34, 0x36])
    sub = 1 if ty in (0x34, 0x36) and rng.random() < 0.6 else 0
    return [0, rng.randrange(1 << 32), [g_segbody(rng, rng.randrange(4), rng.randrange(2), restr, rng.randrange(4), ty, sub)]]


def g_command(rng):
    k = rng.randrange(4)
    if k == 0:
        return [0]
    if k == 1:
        return [1, g_stime(rng, must=True)]
    return rng.choice(insert_lattice(rng))


def g_signal(rng, cmd=None, descs=None, pf=None, canonical=False):
    """a supported splice_info; canonical=True restricts to what the encoder emits
    (pointer filler irrelevant, sap_type 3, no legacy length, no stuffing, foreign descriptors first)"""
    if cmd is None:
        cmd = g_command(rng)
    if descs is None:
        descs = [g_seg(rng) if rng.random() < 0.75 else g_foreign(rng) for _ in range(rng.choice([0, 1, 1, 2, 3]))]
    if pf is None:
        pf = rng.choice([0, 0, 0, 1, 2, 5, 20, rng.randrange(21), rng.randrange(255), 183, 254])   # any pointer_field below 255
    ptr = bytes([0xFF] * pf) if rng.random() < 0.7 else g_bytes(rng, pf)
    has_time = cmd[0] == 1 or (cmd[0] == 2 and cmd[2] and cmd[2][0][1][0] == 1)
    adj = g_pts(rng) if (has_time or rng.random() < 0.3) else 0
    tier = rng.choice([0xFFF, 0, 1, 0xABC, rng.randrange(4096)])
    stuff = b"" if canonical or rng.random() < 0.8 else g_bytes(rng, rng.randrange(1, 6))
    legacy = 0 if canonical else int(rng.random() < 0.15)
    sap = 3 if canonical or rng.random() < 0.8 else rng.randrange(4)
    api = canonical and rng.random() < 0.5
    if canonical:
        descs = [d for d in descs if d[0] == 1] + [d for d in descs if d[0] == 0]
    if api:   # expressible through the creation + setter API: no foreign descriptors, fixed-part fields at their defaults
        descs = [d for d in descs if d[0] == 0]
    ssi = 0 if api else int(rng.random() < 0.25)     # section_syntax_indicator / private_indicator: kept by decoder and encoder
    priv = 0 if api else int(rng.random() < 0.25)
    s = [ptr, 0xFC, ssi, priv, sap, 0 if api else rng.choice([0, 0, 1, 255]), 0, 0 if api else rng.choice([0, 0, 1, 63, rng.randrange(64)]), adj,
         0 if api else rng.choice([0, 255, rng.randrange(256)]), tier, legacy, cmd, descs, stuff, rng.randrange(1 << 32)]
    return s


def with_crc(s):
    """set the CRC_32 field so that the section checks (python CRC; only used for canonical inputs)"""
    t = list(s); t[15] = 0
    b = py_ser(t)
    sec = b[1 + len(s[0]):-4]
    t[15] = crc32_mpeg2(sec)
    return t


def desc_size(d):
    return len(py_descriptor(d))


def fits(s):
    """section_length < 1024 (what the encoder can express) and every descriptor < 256"""
    try:
        b = py_ser(s)
    except AssertionError:
        return False
    return len(b) - 1 - len(s[0]) - 3 < 1024 and all(desc_size(d) - 2 < 256 for d in s[13])
