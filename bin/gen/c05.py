"""C05 — decoders are total: every decoding entry point on 'almost well-formed' input.
The verdict does not depend on the model: a real panic / hang / modified input IS the violation.
The model side (tot.* ops backed by the Coq models, where present) is compared as a fidelity case."""
import os
HERE = os.path.dirname(os.path.abspath(__file__))
from vlib import Case, hx, parse_val
from gen import c05cli

PROP = "C05"
import glob as _g
PROOF_FILES = sorted("Properties/" + os.path.basename(p) for p in _g.glob(os.path.join(os.path.dirname(HERE), "..", "coq", "theories", "Properties", "C05*.v")))


ENTRIES = ["pkt.read", "pkt.setpayload", "pkt.setpayloadfn", "pkt.setafc", "af.getters", "af.setters", "affn",
           "psi.accessors", "psi.pat", "psi.pmt", "psi.done", "psi.crc", "psi.filter", "psi.readpat", "psi.readpmt",
           "pes.new", "ebp.read", "scte.new", "pkt.sync", "pkt.acc", "pkt.writer"]
# entries that take the integer argument and the values worth trying
NARG = {"pkt.read": [0, 15, 255], "pkt.setpayload": [0, 1, 3, 100, 183, 184, 200], "pkt.setpayloadfn": [0, 10, 184, 200],
        "pkt.setafc": [0, 1, 2, 3], "af.getters": [0, 1], "af.setters": list(range(40)),
        "psi.accessors": [0, 13, 1021], "psi.pmt": [101, 256], "psi.filter": [101, 256, 0], "psi.readpmt": [100, 0x64],
        "pkt.sync": [0, 100], "pkt.writer": [0, 1, 2]}

RULE = ("every entry point (%d ops of goexec/total.go, each calling the decoder and then every getter / printer / "
        "re-encoder of a successful result) on mutations of %d valid vectors: truncation at every offset, every "
        "byte of the first 48 set to 00/01/7f/80/ff, single-bit flips, length-like bytes +-1 and doubled, random "
        "tails, plus empty / random strings; non-trivial = distinct (entry, input) pairs that are not the unmutated seed"
        % (len(ENTRIES), 15))
EXHAUSTIVE = False
MAX_REPORTS = 40
ASSUMPTIONS = ["a call is a hang when it runs > 3 s or the heap exceeds 768 MiB (goexec watchdog), confirmed by one re-run in a fresh process",
               "memory/time bounds are observed, not proved (DESIGN section 10); read-only = input snapshot compared after the call",
               "cli/parsefile.go (a main package) is not driven"]
PARTIAL = ("proof covers panic-freedom / termination of the modelled entry points (Properties/C05.v lists them); "
           "memory and time bounds and aliasing are runtime observations made by goexec only")


def seeds():
    out = []
    for l in open(os.path.join(HERE, "c05_seeds.txt")):
        l = l.strip()
        if l and not l.startswith("#"):
            out.append(bytes.fromhex(l))
    return out


def mutations(s, rng, tier):
    """yield (kind, bytes)"""
    n = len(s)
    yield "seed", s
    step = 1 if n <= 64 or tier == "thorough" else max(1, n // 48)
    for k in list(range(0, min(n, 48))) + list(range(48, n, step)):
        yield "truncate", s[:k]
    lim = min(n, 48) if tier == "quick" else min(n, 96)
    for i in range(lim):
        for v in (0x00, 0x01, 0x7f, 0x80, 0xff):
            if s[i] != v:
                yield "byteset", s[:i] + bytes([v]) + s[i + 1:]
        for d in (1, -1):
            yield "len+-1", s[:i] + bytes([(s[i] + d) & 0xff]) + s[i + 1:]
        yield "double", s[:i] + bytes([(s[i] * 2) & 0xff]) + s[i + 1:]
    for _ in range(40 if tier == "quick" else 400):
        i = rng.randrange(n); b = 1 << rng.randrange(8)
        yield "bitflip", s[:i] + bytes([s[i] ^ b]) + s[i + 1:]
    for _ in range(20 if tier == "quick" else 200):
        i = rng.randrange(min(n, 40))
        t = bytes(rng.randrange(256) for _ in range(rng.randrange(0, 30)))
        yield "randtail", s[:i] + t
    for _ in range(10 if tier == "quick" else 100):
        i = rng.randrange(min(n, 30))
        v = rng.choice([0, 0xff, 0x7f, 0x80, 1])
        j = i + 1 + rng.randrange(n - i)
        yield "set+cut", s[:i] + bytes([v]) + s[i + 1:j]


def gen(rng, tier):
    out = []
    inputs = []
    for s in seeds():
        for kind, b in mutations(s, rng, tier):
            inputs.append((kind, b))
    inputs.append(("empty", b""))
    for _ in range(60 if tier == "quick" else 2000):
        inputs.append(("random", bytes(rng.randrange(256) for _ in range(rng.randrange(0, 48)))))
    for _ in range(40 if tier == "quick" else 1000):
        b = bytearray(rng.randrange(256) for _ in range(188)); b[0] = 0x47
        if rng.random() < 0.5:
            b[3] |= 0x20; b[4] = rng.choice([0, 1, 7, 182, 183, 184, 255, rng.randrange(256)])
        inputs.append(("random188", bytes(b)))
    # 188-byte seeds with a hostile adaptation_field_length / flags byte
    for s in seeds():
        if len(s) == 188:
            for afl in (0, 1, 2, 6, 7, 8, 182, 183, 184, 185, 200, 255):
                for fl in (0x00, 0x10, 0x08, 0x18, 0x04, 0x02, 0x03, 0x1f, 0xff):
                    b = bytearray(s); b[3] |= 0x20; b[4] = afl; b[5] = fl
                    inputs.append(("af-hostile", bytes(b)))
    seen = set()
    for ent in ENTRIES:
        args = NARG.get(ent, [None])
        for kind, b in inputs:
            if args == [None]:
                ns = [None]
            elif len(args) <= 4 or kind in ("af-hostile", "seed"):
                ns = args
            else:
                ns = [args[rng.randrange(len(args))], args[rng.randrange(len(args))]]
            for n in ns:
                line = "tot.%s %s" % (ent, hx(b)) + ("" if n is None else " %d" % n)
                if line in seen:
                    continue
                seen.add(line)
                out.append(Case(line, kind=ent + ":" + kind, decides=True, nontrivial=(kind != "seed"),
                                theorem="C05 totality of " + ent))
    return out


def oracle(c, real, model):
    """verdict from the REAL observation alone; when the real code is fine the model's outcome class is compared
    (the model side of the same op, Exec/TotExec.v): a difference breaks the tie between the totality theorems
    (Properties/C05*.v) and the code and is reported as a correspondence break ("fidelity:" prefix, see bin/check)."""
    if real.startswith("[0 1]"):
        if model != "[0 1]":
            return "fidelity: the real code returns, the model of %s answers %s" % (c.line.split(" ")[0], MODEL_CLASS.get(model, model))
        return ""
    if real.startswith("[0 0]"):
        return "a read-only operation modified a caller-supplied buffer"
    if real.startswith("[2"):
        return "panic at " + site(real) + ("" if model == "[0 1]" else " (model: %s)" % MODEL_CLASS.get(model, model))
    if real == "[3]":
        return "hang or heap blow-up (watchdog)"
    if real == "[4]":
        return "process died"
    return "unexpected reply " + real


MODEL_CLASS = {"[0 1]": "returns", "[2 x]": "Panic", "[3]": "Diverge"}


def site(real):
    try:
        v = parse_val(real)
        return v[1].decode()
    except Exception:
        return real


def violation_key(c, real):
    return c.line.split(" ")[0] + "@" + site(real)


def known_match(k, c, real, model):
    sig = k.get("signature", {})
    return sig.get("entry") == c.line.split(" ")[0] and sig.get("site") == site(real)


def case_of_line(line, kind):
    return Case(line, kind=kind or "replay", decides=True)


def shrink(c):
    f = c.line.split(" ")
    b = bytes.fromhex(f[1][1:])
    rest = f[2:]
    n = len(b)
    cands = []
    for k in (n // 2, n - 1, n - 4, n - 16):
        if 0 <= k < n:
            cands.append(b[:k])
    for i in range(min(n, 40)):
        if b[i] != 0:
            cands.append(b[:i] + b"\x00" + b[i + 1:])
    for x in cands:
        yield Case(" ".join([f[0], hx(x)] + rest), kind=c.kind, decides=True, theorem=c.theorem)


LEVEL_TEXT = ("Proof (partial, see level_note): the decoder models live in a Res monad with bounds-checked reads and fuelled loops, "
              "and Properties/C05.v states for the modelled entry points that no byte string makes them Panic or Diverge. "
              "Tie and verdict: every decoding entry point of the real library (21 entry groups incl. getters, printers and "
              "re-encoders of successful results) is run on truncations, length-field perturbations, byte/bit corruptions of "
              "valid vectors and on random input; any panic, hang, heap blow-up or modified input buffer is reported with the input.")
LEVEL_NOTE = ("Partial: time/memory bounds and non-modification of caller buffers are runtime observations (goexec watchdog and "
              "snapshots), not theorems; entry points whose model is not yet in Properties/C05.v rest on the malformed-input "
              "stream alone. Trusted: Coq kernel, model transcription, executor glue, Go runtime.")
TECHNIQUE = "Coq totality theorems over Res-monad models (no Panic/Diverge for all inputs) + malformed-input differential run of every real entry point"


# ---- the command-line tool (cli/parsefile.go): a driver of its own, see bin/gen/c05cli.py; bin/check calls `extra`
# after the generated cases and `replay_extra` for a replay file that carries "extra" ----
def extra(tier, seed, rng):
    return c05cli.extra(tier, seed, rng)


def replay_extra(d):
    return c05cli.replay(d)
