"""C05 — decoders are total: every decoding entry point on 'almost well-formed' input.
The verdict does not depend on the model: a real panic / hang / modified input IS the violation.
Three parts:
 * the malformed stream through goexec AND modelexec: every case `tot.<entry> <bytes> [n]` runs one entry group of the
   real library (goexec/total.go) and the same group over the models (Exec/TotExec.v); the outcome classes AND the
   accept / reject bit of the group's primary decoder (reply [0 u e]) are compared.  Properties/C05Tot.v proves that the
   model side never answers Panic / Diverge and that e is the Ok / Err of the primary decoder's model, so the run ties
   which inputs are accepted to the models the totality theorems are about; a difference with a well-behaved real side
   is a correspondence break (oracle message "fidelity: ...", reported through the no-failing-input-found path).
 * byte-level mutations of 15 valid vectors plus structure-aware mutations (every length field of well-formed PAT / PMT /
   splice_info_section / EBP / PES header / adaptation field, sections split over packets), see structured_cases.
 * the command-line tool cli/parsefile.go on mutated transport-stream files (bin/gen/c05cli.py; no executor involved)."""
import os
HERE = os.path.dirname(os.path.abspath(__file__))
from vlib import Case, hx, parse_val
from gen import c05cli
from gen import tslib as T
import vlib

PROP = "C05"
import glob as _g
PROOF_FILES = sorted("Properties/" + os.path.basename(p) for p in _g.glob(os.path.join(os.path.dirname(HERE), "..", "coq", "theories", "Properties", "C05*.v")))


ENTRIES = ["pkt.read", "pkt.setpayload", "pkt.setpayloadfn", "pkt.setafc", "af.getters", "af.setters", "affn",
           "psi.accessors", "psi.pat", "psi.pmt", "psi.done", "psi.crc", "psi.filter", "psi.readpat", "psi.readpmt",
           "pes.new", "ebp.read", "scte.new", "pkt.sync", "pkt.acc", "pkt.writer"]
# entries that take the integer argument and the values worth trying
# af.setters: n = 40*shape + 20*flag + op; shapes 1..5 (data length derived from the packet: L, L-1, L+1, room, 0) only matter
# for op 7 (SetTransportPrivateData) and op 8 (SetAdaptationFieldExtension)
AF_SHAPED = [40 * sh + 20 * fl + op for sh in range(1, 6) for fl in (0, 1) for op in (7, 8)]
# psi.filter: 10000+k = PID list derived from the packets ({0}, {pid0}, {0,pid0}, {}, first / last / all own stream PIDs, absent)
FILTER_SHAPED = list(range(10000, 10008))
NARG = {"pkt.read": [0, 15, 255], "pkt.setpayload": [0, 1, 3, 100, 183, 184, 200], "pkt.setpayloadfn": [0, 10, 184, 200],
        "pkt.setafc": [0, 1, 2, 3], "af.getters": [0, 1], "af.setters": list(range(40)),
        "psi.accessors": [0, 13, 1021], "psi.pmt": [101, 256], "psi.filter": [101, 256, 0], "psi.readpmt": [100, 0x64],
        "pkt.sync": [0, 100], "pkt.writer": [0, 1, 2, -1]}   # -1: a packet writer that answers (0, nil): seeded C05-u1
# integer arguments that select an argument SHAPE DERIVED FROM THE INPUT (goexec/total.go tot* helpers = Exec/TotExec.v):
# two of them per input on top of the fixed ones (all of them on seeds and on the hostile adaptation-field grid)
NSHAPED = {"af.setters": AF_SHAPED, "psi.filter": FILTER_SHAPED, "pkt.setpayload": [256, 257, 258], "psi.readpmt": [-1]}

RULE = ("every entry point (%d ops of goexec/total.go, each calling the decoder and then every getter / printer / "
        "re-encoder of a successful result; the same op over the models in Exec/TotExec.v) on mutations of %d valid vectors: "
        "truncation at every offset, every byte of the first 48 set to 00/01/7f/80/ff, single-bit flips, length-like bytes +-1 "
        "and doubled, random tails, plus empty / random strings; plus structure-aware mutations: every length field of "
        "well-formed PAT / PMT / splice_info_section / EBP / PES header / adaptation field (built by the Coq Spec serialisers) "
        "set to 0, max, +-1, x2 and to the values that end its content at / one before / one past every enclosing end, the "
        "swallowed bytes refilled with descriptor-like shapes, and PMT sections split at every payload offset over two packets; "
        "the integer argument also selects argument shapes derived from the input (setter data of exactly / one off the advertised inner length, "
        "payload of exactly / one off the free space, PID lists made of PID 0 / the packet's PID / the PMT's own PIDs); "
        "non-trivial = distinct (entry, input) pairs that are not an unmutated seed.  Separately: the cli binary on ~320 "
        "mutated transport-stream files (coverage.extra)"
        % (len(ENTRIES), 15))
EXHAUSTIVE = False
MAX_REPORTS = 40
ASSUMPTIONS = ["a call is a hang when it runs > 3 s or the heap exceeds 768 MiB (goexec watchdog), confirmed by one re-run in a fresh process",
               "memory bounds are theorems for the decoder MODELS listed in Properties/C05Bound.v (ProgramMap, NewPMT streams, NewSCTE35 descriptor loop, "
               "ReadEncoderBoundaryPoint, accumulator, state tracker); for the real code memory and time are observed by the goexec watchdog only; "
               "read-only = input snapshot compared after the call",
               "model side of the tot.* ops: the printers (String(), Format(), fmt %v / Sprint of a result) are modelled by the index / slice / decoder "
               "operations they perform (Model/Printers.v), not by their text; fmt's rule 'call Error()/String() when the operand has one, else print the "
               "fields by reflection' is transcribed there and trusted; fmt's recovery of a panicking String() is not modelled (the model panics where "
               "the method would) and goexec calls every nested String() directly as well",
               "cli/parsefile.go: the binary is built from a copy of the tree and run with a 5 s timeout and a 4 GiB address-space limit; a panic is "
               "recognised from stderr ('panic:' / 'goroutine '); its explicit panic(err) on a ReadPMT error was repaired in /repo commit 2253a95 (notes/findings/C05-cli.md); "
               "any panic or hang of the tool is a violation"]
PARTIAL = ("proof covers panic-freedom / termination of the modelled entry points and of the printers' panic-relevant operations "
           "(Properties/C05*.v), and size bounds of the results of six decoder models (Properties/C05Bound.v: ProgramMap, NewPMT, NewSCTE35, "
           "ReadEncoderBoundaryPoint, accumulator, state tracker; not NewPESHeader, FilterPMTPacketsToPids, the stream readers); time bounds of the real code and aliasing are runtime observations made by goexec only")


def seeds():
    out = []
    for l in open(os.path.join(HERE, "c05_seeds.txt")):
        l = l.strip()
        if l and not l.startswith("#"):
            out.append(bytes.fromhex(l))
    return out


def mutations(s, rng, tier):
    """yield (kind, bytes)"""
    n = len(s)
    yield "seed", s
    step = 1 if n <= 64 or tier == "thorough" else max(1, n // 48)
    for k in list(range(0, min(n, 48))) + list(range(48, n, step)):
        yield "truncate", s[:k]
    lim = min(n, 48) if tier == "quick" else min(n, 96)
    for i in range(lim):
        for v in (0x00, 0x01, 0x7f, 0x80, 0xff):
            if s[i] != v:
                yield "byteset", s[:i] + bytes([v]) + s[i + 1:]
        for d in (1, -1):
            yield "len+-1", s[:i] + bytes([(s[i] + d) & 0xff]) + s[i + 1:]
        yield "double", s[:i] + bytes([(s[i] * 2) & 0xff]) + s[i + 1:]
    for _ in range(40 if tier == "quick" else 400):
        i = rng.randrange(n); b = 1 << rng.randrange(8)
        yield "bitflip", s[:i] + bytes([s[i] ^ b]) + s[i + 1:]
    for _ in range(20 if tier == "quick" else 200):
        i = rng.randrange(min(n, 40))
        t = bytes(rng.randrange(256) for _ in range(rng.randrange(0, 30)))
        yield "randtail", s[:i] + t
    for _ in range(10 if tier == "quick" else 100):
        i = rng.randrange(min(n, 30))
        v = rng.choice([0, 0xff, 0x7f, 0x80, 1])
        j = i + 1 + rng.randrange(n - i)
        yield "set+cut", s[:i] + bytes([v]) + s[i + 1:j]


REAL_ONLY_OPS = ("cost.",)   # long streams through the real stream readers only (the model side is not run on them)


def long_streams(rng, tier):
    """streams of hundreds of packets for the stream readers, so that work or allocation that grows faster than
    linearly with the input shows (goexec/total.go costLimit, reply [7 ..]; the watchdog for time).  Shapes: a PSI PID
    whose payload is an endless run of non-PMT sections (the accumulation never completes), the same with unit starts
    sprinkled in, a PMT whose last section is always cut, garbage with sync bytes, and plain multiples of 188."""
    out = []
    pid = PMT_PID

    def packets(pay, pusi_every=0):
        pk = b""
        n = len(pay) // 184
        for i in range(n):
            pusi = i == 0 or (pusi_every and i % pusi_every == 0)
            pk += bytes([0x47, (0x40 if pusi else 0) | (pid >> 8), pid & 255, 0x10 | (i & 15)]) + pay[i * 184:(i + 1) * 184]
        return pk

    def add(ent, b, n, kind):
        out.append(Case("cost.%s %s" % (ent, hx(b)) + ("" if n is None else " %d" % n), kind=ent + ":long:" + kind, decides=True,
                        nontrivial=True, theorem="C05 bounded cost of " + ent))

    for npk in ((300, 1000) if tier == "quick" else (300, 700, 1000, 2000, 3000)):
        body = b""
        while len(body) < npk * 184:
            body += bytes([rng.choice([0xC0, 0x42, 0x00]), 0xB0 | rng.randrange(4), rng.randrange(256)]) + b""
            ln = ((body[-2] & 3) << 8) | body[-1]
            body += bytes(rng.randrange(256) for _ in range(ln))
        for kind, pk in (("never-complete", packets(b"\x00" + body)), ("unit-starts", packets(b"\x00" + body, 97))):
            add("pkt.acc", pk, None, kind); add("psi.readpmt", pk, pid, kind); add("psi.readpmt", pk, -1, kind)
            add("psi.readpat", pk, None, kind); add("psi.filter", pk, 101, kind); add("pkt.writer", pk, 0, kind)
            add("pkt.sync", pk[1:], None, kind)
        junk = bytes(rng.choice([0x47, 0x47, 0, 0xFF, rng.randrange(256)]) for _ in range(npk * 188 + rng.randrange(188)))
        add("pkt.sync", junk, None, "garbage"); add("psi.readpat", junk, None, "garbage"); add("psi.readpmt", junk, 0x47, "garbage")
        add("pkt.writer", junk, 3, "garbage"); add("pkt.acc", junk, None, "garbage")
    return out


def gen(rng, tier):
    out = []
    inputs = []
    for s in seeds():
        for kind, b in mutations(s, rng, tier):
            inputs.append((kind, b))
    inputs.append(("empty", b""))
    for _ in range(60 if tier == "quick" else 2000):
        inputs.append(("random", bytes(rng.randrange(256) for _ in range(rng.randrange(0, 48)))))
    for _ in range(40 if tier == "quick" else 1000):
        b = bytearray(rng.randrange(256) for _ in range(188)); b[0] = 0x47
        if rng.random() < 0.5:
            b[3] |= 0x20; b[4] = rng.choice([0, 1, 7, 182, 183, 184, 255, rng.randrange(256)])
        inputs.append(("random188", bytes(b)))
    # 188-byte seeds with a hostile adaptation_field_length / flags byte
    for s in seeds():
        if len(s) == 188:
            for afl in (0, 1, 2, 6, 7, 8, 182, 183, 184, 185, 200, 255):
                for fl in (0x00, 0x10, 0x08, 0x18, 0x04, 0x02, 0x03, 0x1f, 0xff):
                    b = bytearray(s); b[3] |= 0x20; b[4] = afl; b[5] = fl
                    inputs.append(("af-hostile", bytes(b)))
    seen = set()
    structured_cases(rng, tier, out, seen)
    for ent in ENTRIES:
        args = NARG.get(ent, [None])
        for kind, b in inputs:
            if args == [None]:
                ns = [None]
            elif len(args) <= 4 or kind in ("af-hostile", "seed"):
                ns = args
            else:
                ns = [args[rng.randrange(len(args))], args[rng.randrange(len(args))]]
            sh = NSHAPED.get(ent, [])
            if len(sh) <= 1 or kind in ("af-hostile", "seed"):
                ns = list(ns) + sh
            else:
                ns = list(ns) + [sh[rng.randrange(len(sh))], sh[rng.randrange(len(sh))]]
            for n in ns:
                line = "tot.%s %s" % (ent, hx(b)) + ("" if n is None else " %d" % n)
                if line in seen:
                    continue
                seen.add(line)
                out.append(Case(line, kind=ent + ":" + kind, decides=True, nontrivial=(kind != "seed"),
                                theorem="C05 totality of " + ent))
    out += long_streams(rng, tier)     # last: the random stream of the cases above is unchanged
    return out


# ---- structure-aware malformed stream: well-formed structures from the other generators' serialisers (Coq Spec
# serialisers through modelexec: ser.section / ser.scte / ser.ebp.*; bin/gen/tslib.py for the packet layer), every
# length field set to 0, max, +-1, x2 and to the values that make its content end exactly AT, one BEFORE and one PAST
# each enclosing end, the swallowed bytes refilled with descriptor-like shapes; sections split at every payload
# offset over two packets for the stream readers ----
PMT_PID = 0x64


def carry(pid, chunk, pusi, cc=0):
    """one packet whose payload is exactly `chunk` (<= 184 bytes): the adaptation field takes the rest"""
    n = len(chunk)
    hdr = bytes([0x47, (0x40 if pusi else 0) | (pid >> 8), pid & 255])
    if n >= 184:
        return hdr + bytes([0x10 | cc]) + chunk[:184]
    if n == 183:
        return hdr + bytes([0x30 | cc, 0]) + chunk
    afl = 183 - n
    return hdr + bytes([0x30 | cc, afl, 0]) + b"\xff" * (afl - 1) + chunk


def wellformed(rng, tier):
    """dict of lists of well-formed byte strings: pmt / pat payloads (pointer field 0), scte sections (with pointer
    field), ebp, pes, af packets"""
    from gen import pmtlib, sctelib, c12
    quick = tier == "quick"
    secs = []
    for k in ([1, 2, 3, 5] if quick else [0, 1, 1, 2, 2, 3, 4, 5, 8, 12]):
        c = pmtlib.rand_carrier(rng, crc="", allow_pre=False, small=(k < 3), nstreams=k)
        secs.append(c["sec"])
    rep = vlib.run_model(["ser.section " + pmtlib.fmt_val(pmtlib.fmt_section(x)) for x in secs])
    pmts = [b"\x00" + vlib.unhx(r) + b"\xff" * 3 for r in rep]
    pmts.append(b"\x00" + T.pmt_section([(0x1B, 0x100, [])], prog=155) + b"\xff" * 3)       # smallest: one stream, no descriptors
    pmts.append(b"\x00" + T.pmt_section([(0x1B, 0x65, [(0x05, b"CUEI"), (0xE9, bytes([0x0F, 1, 0, 1]))]),
                                          (0x0F, 0x66, [(0x0A, b"eng\x00"), (0x0E, b"\xc0\x04\xb0")]),
                                          (0x86, 0x67, [(0x05, b"CUEI")])], pinfo=[(0x05, b"CUEI")]) + b"\xff" * 2)
    # descriptor tags whose Format() branches nothing else reaches (bin/gocover): audio stream, Dolby Digital, AVC video
    pmts.append(b"\x00" + T.pmt_section([(0x81, 0x68, [(0x03, b"\x00"), (0x0C, b"\x01"), (0x28, b"\x64\x00\x1f\x3f")])]) + b"\xff")
    pats = [b"\x00" + T.pat_section([(i + 1, PMT_PID + i) for i in range(n)]) + b"\xff" * 2 for n in (1, 3, 40)]
    sigs = [sctelib.g_signal(rng, pf=0) for _ in range(4 if quick else 20)]
    # foreign (non-segmentation) descriptors that are NOT adjacent: avail / segmentation / DTMF-like orders, so that a
    # decoder which keeps descriptor bytes as sub-slices of its input and appends to them would write into the input
    for _ in range(3 if quick else 12):
        f1 = [1, rng.choice([0, 1]), b"CUEI" + bytes(rng.randrange(256) for _ in range(rng.randrange(1, 9)))]
        f2 = [1, rng.choice([1, 3]), b"CUEI" + bytes(rng.randrange(256) for _ in range(rng.randrange(6, 30)))]
        f3 = [1, 0x80, bytes(rng.randrange(256) for _ in range(rng.randrange(0, 20)))]
        for ds in ([f1, sctelib.g_seg(rng), f2], [f1, sctelib.g_seg(rng), f2, sctelib.g_seg(rng), f3], [sctelib.g_seg(rng), f1, sctelib.g_seg(rng), f2]):
            sigs.append(sctelib.g_signal(rng, descs=ds, pf=0))
    sigs = [s for s in sigs if sctelib.fits(s)]
    sctes = [b for b in sctelib.serialise(sigs)] + [x for x in seeds()[4:7]]
    lines = [c12.comcast_line(1, 1, 0, 0, 0x80, 3, 0x1D, (7, 9), b"\x01\x02"), c12.comcast_line(0, 1, 1, 0, None, None, None, None, b""),
             c12.cablelabs_line(1, 0, 1, 0, 0x45425030, (0x80, 0x55), 2, [1, 2, 0x1D], (1, 2), b"\x09"),
             c12.cablelabs_line(0, 0, 0, 0, 0x45425030, None, None, [5], None, b"")]
    ebps = [b for wf, b in c12.serialise(lines) if b] + [x for x in seeds()[7:9]]
    pes = list(seeds()[9:11])
    afs = [seeds()[11], seeds()[12]] + [T.af_packet(0x65, bytes([0x02, len(e)]) + e, cc=1) for e in ebps[:3]]
    return {"pmt": pmts, "pat": pats, "scte": sctes, "ebp": ebps, "pes": pes, "af": afs}


def structured_cases(rng, tier, out, seen):
    quick = tier == "quick"
    nfill = 3 if quick else 6
    w = wellformed(rng, tier)

    def add(ent, b, n, kind):
        line = "tot.%s %s" % (ent, hx(b)) + ("" if n is None else " %d" % n)
        if line not in seen:
            seen.add(line)
            out.append(Case(line, kind=ent + ":struct:" + kind, decides=True, nontrivial=True, theorem="C05 totality of " + ent))

    def psi_payload(pay, kind, pid_arg):
        """a PSI payload (pointer field first) to every entry that can meet it: as bytes and as packets"""
        add("psi.pmt", pay, pid_arg, kind); add("psi.done", pay, None, kind); add("psi.crc", pay, None, kind)
        add("psi.accessors", pay, 13, kind)
        pk = b"".join(T.packets(PMT_PID, pay))
        add("psi.filter", pk, pid_arg, kind); add("psi.readpmt", pk, PMT_PID, kind); add("pkt.acc", pk, None, kind)
        add("psi.readpmt", pk, -1, kind)
        for n in (FILTER_SHAPED if kind == "seed" else (10002, 10006, FILTER_SHAPED[rng.randrange(8)])):
            add("psi.filter", pk, n, kind)

    for pay in w["pmt"]:
        fields = T.walk_pmt(pay, 1)
        psi_payload(pay, "seed", 101)
        for kind, m in T.length_mutations(pay, fields, rng, nfill=nfill):
            psi_payload(m, kind, 101)
        # the section split at every payload offset over two packets (stream readers, accumulator, filter)
        step = 1 if (not quick or len(pay) < 80) else 3
        for k in range(1, min(len(pay), 184), step):
            pk = carry(PMT_PID, pay[:k], True, 0) + carry(PMT_PID, pay[k:k + 184].ljust(min(184, max(1, len(pay) - k)), b"\xff"), False, 1)
            rest = pay[k + 184:]
            if rest:
                pk += b"".join(T.packets(PMT_PID, rest, cc=2, pusi=False))
            for ent, n in (("psi.readpmt", PMT_PID), ("pkt.acc", None), ("psi.filter", 101), ("psi.filter", 10002), ("psi.filter", 10006)):
                add(ent, pk, n, "split")
    # printer shapes: every descriptor tag that decode() / the Decode* functions branch on, with 0..5 data bytes, as the
    # only descriptor of a stream, as the first of two and as the last descriptor of the last stream (String(), Format()
    # and the decoders index the data at fixed positions: Model/Printers.v)
    for tag in (0x0A, 0x0E, 0x52, 0x7F, 0xE9, 0xCC, 0x05, 0xB0, 0x02, 0x97, 0x00):
        for k in range(0, 6):
            body = bytes([0x20] + [0x41 + i for i in range(k)])[:k]
            for shape in (0, 1, 2):
                if shape == 0:
                    streams = [(0x1B, 0x65, [(tag, body)])]
                elif shape == 1:
                    streams = [(0x0F, 0x66, [(tag, body), (0x0A, b"eng\x00")])]
                else:
                    streams = [(0x1B, 0x65, [(0x05, b"CUEI")]), (0x86, 0x67, [(0x0E, b"\xc0\x04\xb0"), (tag, body)])]
                psi_payload(b"\x00" + T.pmt_section(streams) + b"\xff" * 2, "printer-shapes", 0x65)
    # the smallest sections: table_id 2 with section_length 0..24 (the decoders' minimum-length guards: 9 = static part + CRC,
    # 13 in the filter), content taken from a valid section, followed by stuffing or by the rest of the valid section
    valid = T.pmt_section([(0x1B, 0x100, [])], prog=1)
    for sl in range(0, 25):
        for tail in (b"\xff" * 4, valid[3 + sl:] + b"\xff" * 2, b""):
            psi_payload(b"\x00" + bytes([0x02, 0xB0, sl]) + valid[3:3 + sl] + tail, "small-sections", 0x100)
    # a payload whose first section byte is stuffing (NewPMT inspects nothing) followed by bytes that announce a section:
    # every announced section_length class, in one and in two packets, with every derived PID list
    for sl in (0, 12, 13, 14, 100, 179, 180, 181, 183, 184, 364, 365, 366, 500, 1021, 1023):
        for pfx in (b"\x00\xff", b"\x01\x00\xff", b"\x00\xff\xff"):
            for fill in (0xFF, 0x00, None):
                for npk in (1, 2):
                    body = pfx + bytes([0xB0 | (sl >> 8), sl & 255])
                    n = 184 * npk - len(body)
                    body += bytes(rng.randrange(256) for _ in range(n)) if fill is None else bytes([fill]) * n
                    pk = b"".join(T.packets(PMT_PID, body))
                    for k in FILTER_SHAPED:
                        add("psi.filter", pk, k, "stuffing-then-section")
                    add("psi.filter", pk, 101, "stuffing-then-section"); add("psi.readpmt", pk, -1, "stuffing-then-section")
                    add("psi.pmt", body, 101, "stuffing-then-section"); add("pkt.acc", pk, None, "stuffing-then-section")
    for pay in w["pat"]:
        for kind, m in [("seed", pay)] + list(T.length_mutations(pay, T.walk_pat(pay, 1), rng, nfill=1)):
            add("psi.pat", m, None, kind); add("psi.accessors", m, 0, kind)
            pk = T.packets(0, m)[0]
            add("psi.pat", pk, None, kind); add("psi.readpat", pk + T.packets(PMT_PID, w["pmt"][0])[0], None, kind)
    for sec in w["scte"]:
        base = 1 + sec[0]
        for kind, m in [("seed", sec)] + list(T.length_mutations(sec, T.walk_scte(sec, base), rng, nfill=nfill)):
            add("scte.new", m, None, kind)
    for e in w["ebp"]:
        for kind, m in [("seed", e)] + list(T.length_mutations(e, T.walk_ebp(e), rng, nfill=1)):
            add("ebp.read", m, None, kind)
            for cut in (len(m) - 1, len(m) - 4, 7, 3):
                if 0 < cut < len(m):
                    add("ebp.read", m[:cut], None, kind + "+cut")
    for p in w["pes"]:
        for kind, m in [("seed", p)] + list(T.length_mutations(p, T.walk_pes(p), rng, nfill=1)):
            add("pes.new", m, None, kind)
            add("pkt.read", carry(0x65, m[:184], True), 0, kind)
    for pkt in w["af"]:
        fs = T.walk_af(pkt)
        tp = [f for f in fs if f.name == "af.transport_private_data_length"]
        if tp and pkt[tp[0].off] >= 2:   # an EBP in the private data: its own length byte is a field of the packet too
            e0 = tp[0].start
            fs = fs + [T.Field("ebp.data_field_length", e0 + 1, 8, e0 + 2, [e0 + pkt[tp[0].off], 188])]
        for kind, m in [("seed", pkt)] + list(T.length_mutations(pkt, fs, rng, nfill=1)):
            add("af.getters", m, 1, kind); add("affn", m, None, kind); add("pkt.read", m, 0, kind)
            add("pkt.setpayload", m, 100, kind); add("pkt.setafc", m, 3, kind)
            for op in (range(20, 40) if kind.split(":")[0].startswith("af.") or kind == "seed" else (25, 27, 28)):
                add("af.setters", m, op, kind)
            for op in AF_SHAPED:
                add("af.setters", m, op, kind)
            for n in (256, 257, 258):
                add("pkt.setpayload", m, n, kind)
    # an adaptation field whose transport_private_data / extension length byte is overlong (150..255), under every flag
    # combination that moves the field, with every data-length selector of the two variable-length setters
    for flags, ext in ((0x02, False), (0x12, False), (0x1E, False), (0x01, True), (0x03, True), (0x1F, True), (0x19, True)):
        pos = 6 + (6 if flags & 0x10 else 0) + (6 if flags & 0x08 else 0) + (1 if flags & 0x04 else 0)
        for afl in (183, 100, pos - 4):
            for v in list(range(150, 256, 1 if not quick else 7)) + [182, 183, 184, 255, 188 - pos - 1, 188 - pos - 2, 188 - pos]:
                pkt = bytearray([0x47, 0x00, 0x65, 0x30 if afl < 183 else 0x20, afl, flags]) + bytearray(b"\x00" * 182)
                q = pos
                if ext and flags & 0x02:
                    pkt[q] = 2; q += 3           # a small private-data field in front of the extension
                pkt[q] = v & 255
                m = bytes(pkt)
                for op in AF_SHAPED:
                    if (op % 20 == 8) == ext:
                        add("af.setters", m, op, "overlong-inner-length")
                add("af.setters", m, 27 if not ext else 28, "overlong-inner-length")
                add("af.getters", m, 1, "overlong-inner-length"); add("affn", m, None, "overlong-inner-length")
                for n in (256, 257, 258, 100):
                    add("pkt.setpayload", m, n, "overlong-inner-length")


def oracle(c, real, model):
    """verdict from the REAL observation alone; when the real code is fine the model's reply is compared
    (the model side of the same op, Exec/TotExec.v): its outcome class, and the accept / reject bit e of the group's
    primary decoder ([0 u e]).  A difference breaks the tie between the totality theorems (Properties/C05*.v) and the
    code and is reported as a correspondence break ("fidelity:" prefix, see bin/check)."""
    op = c.line.split(" ")[0]
    if op.startswith("cost.") and real.startswith("[0 1 "):
        return ""      # long stream, real side only (REAL_ONLY_OPS): returned within the time and allocation bounds
    if real.startswith("[0 1 "):
        if not model.startswith("[0 1 "):
            return "fidelity: the real code returns, the model of %s answers %s" % (op, MODEL_CLASS.get(model, model))
        if real != model:
            return ("fidelity: accept/reject differs for %s: the real primary decoder %s, its model %s"
                    % (op, EBIT.get(real, real), EBIT.get(model, model)))
        return ""
    if real.startswith("[0 0"):
        return "a read-only operation modified a caller-supplied buffer"
    if real.startswith("[7 x"):
        try:
            txt = bytes.fromhex(real[4:-1]).decode("ascii", "replace")
        except ValueError:
            txt = real[:200]
        return "memory not bounded by a small multiple of the input size: " + txt
    if real.startswith("[2"):
        return "panic at " + site(real) + ("" if model.startswith("[0 1") else " (model: %s)" % MODEL_CLASS.get(model, model))
    if real == "[3]":
        return "hang or heap blow-up (watchdog)"
    if real == "[4]":
        return "process died"
    return "unexpected reply " + real


MODEL_CLASS = {"[0 1 0]": "returns a value", "[0 1 1]": "returns an error", "[2 x]": "Panic", "[3]": "Diverge"}
EBIT = {"[0 1 0]": "returns a value", "[0 1 1]": "returns an error"}


def search(c, rng):
    """neighbourhood of a case whose model reply differs (correspondence break): its shrinks and single-byte changes,
    judged by the real side alone (a panic / hang / modified input there is a failing input)"""
    f = c.line.split(" ")
    b = bytes.fromhex(f[1][1:])
    rest = f[2:]
    out = list(shrink(c))
    for i in range(min(len(b), 64)):
        for v in ((b[i] + 1) & 255, (b[i] - 1) & 255, b[i] ^ 0x80, 0xff):
            out.append(Case(" ".join([f[0], hx(b[:i] + bytes([v]) + b[i + 1:])] + rest), kind=c.kind, decides=True, theorem=c.theorem))
    for x in out:
        x.owner = RealSideJudge   # a candidate fails only when the REAL code misbehaves on it
    return out


class RealSideJudge:
    """judge of the search candidates: the property's own verdict (panic / hang / modified input of the real code); the
    comparison with the model is left out, otherwise every neighbour that shows the same difference would be reported as
    a failing input"""
    @staticmethod
    def oracle(c, real, model):
        why = oracle(c, real, model)
        return "" if why.startswith("fidelity:") else why

    @staticmethod
    def known_match(k, c, real, model):
        return known_match(k, c, real, model)


def site(real):
    try:
        v = parse_val(real)
        return v[1].decode()
    except Exception:
        return real


def violation_key(c, real):
    return c.line.split(" ")[0] + "@" + site(real)


def known_match(k, c, real, model):
    sig = k.get("signature", {})
    return sig.get("entry") == c.line.split(" ")[0] and sig.get("site") == site(real)


def case_of_line(line, kind):
    return Case(line, kind=kind or "replay", decides=True)


def shrink(c):
    f = c.line.split(" ")
    b = bytes.fromhex(f[1][1:])
    rest = f[2:]
    n = len(b)
    cands = []
    for k in (n // 2, n - 1, n - 4, n - 16):
        if 0 <= k < n:
            cands.append(b[:k])
    for i in range(min(n, 40)):
        if b[i] != 0:
            cands.append(b[:i] + b"\x00" + b[i + 1:])
    for x in cands:
        yield Case(" ".join([f[0], hx(x)] + rest), kind=c.kind, decides=True, theorem=c.theorem)


LEVEL_TEXT = ("Proof (partial, see level_note): the decoder models live in a Res monad with bounds-checked reads and fuelled loops, "
              "and Properties/C05*.v state for the modelled entry points that no byte string makes them Panic or Diverge; "
              "Properties/C05Tot.v states the same of the 21 executor ops that run those models call by call like goexec/total.go. "
              "Tie and verdict: every decoding entry point of the real library (21 entry groups incl. getters, printers and "
              "re-encoders of successful results) is run on truncations, length-field perturbations (byte-level and structure-aware), "
              "byte/bit corruptions of valid vectors and on random input, next to the model op of the same name; any panic, hang, heap "
              "blow-up or modified input buffer is reported with the input, a difference of outcome class as a correspondence break. "
              "The command-line tool is built and run on mutated transport-stream files.")
LEVEL_NOTE = ("Partial: time bounds and non-modification of caller buffers are runtime observations (goexec watchdog and "
              "snapshots), not theorems; memory bounds are theorems about the decoder MODELS where Properties/C05Bound.v states them "
              "(NewPESHeader, FilterPMTPacketsToPids and the stream readers are not covered), for the real code memory is watched by goexec; the text produced by the printers and the cli binary have no model (the printers' panic-relevant "
              "operations, psi.CanBuildPMT and the state-tracker calls at the end of scte.new are modelled and proved total: Properties/C05Tot.v). Trusted: Coq kernel, model transcription, executor glue, Go runtime.")
TECHNIQUE = "Coq totality theorems over Res-monad models (no Panic/Diverge for all inputs) + malformed-input differential run of every real entry point against the model op of the same name + cli binary on mutated files"


# ---- the command-line tool (cli/parsefile.go): a driver of its own, see bin/gen/c05cli.py; bin/check calls `extra`
# after the generated cases and `replay_extra` for a replay file that carries "extra" ----
def extra(tier, seed, rng):
    return c05cli.extra(tier, seed, rng)


def replay_extra(d):
    return c05cli.replay(d)
