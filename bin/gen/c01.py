"""C01 — transport header getters/setters, Equal, CheckErrors, FromBytes, CC copy helpers.

Exhaustive part: every setter is run through the real API for ALL values of the header byte(s)
it touches x ALL in-range field values (sweep ops: one request enumerates the combinations
inside both executors); getters for all (b1,b2) and all (b0,b3).  The rest of the packet is random.
Individual cases (one call each) cover random packets and are what a replay shows."""
from vlib import Case, hx

PROP = "C01"
PROOF_FILES = ["Properties/C01.v"]
RULE = ("sweeps: for random rest-of-packet contents, SetPID for all 256 prior values of byte 1 x all 8192 PIDs and for all "
        "65536 prior (byte1,byte2) x boundary PIDs; the three flag setters for 256 x {0,1}; SetTransportScramblingControl "
        "256 x 4; SetContinuityCounter 256 x 16 (and ints -40..55; individual calls of SetPID / SetContinuityCounter with out-of-range and negative Go ints are deciding too: the stored value is the argument mod 8192 / mod 16); Inc/Zero (method and copying) 256; SetCC (copying) "
        "256 x 16; all getters for all 65536 (byte1,byte2) and all 65536 (byte0,byte3); every reply carries the new header "
        "bytes, the read-back through function- and method-style getters and the count of calls that left bytes 4..187 "
        "untouched.  Individual calls on random packets compare all 188 bytes and all 19 getters; Equal on pairs differing "
        "in exactly one bit at each of the 1504 positions; FromBytes on lengths 0..400.  A case is non-trivial when it is a "
        "distinct request inside the property's hypotheses (188-byte packet, in-range value)")
EXHAUSTIVE = True
EXHAUSTIVE_NOTE = ("affected header byte(s) x in-range field values enumerated completely through the real API on every run "
                   "(PID: 256 prior byte-1 values x 8192 PIDs = 2 097 152 SetPID calls, plus 65536 prior byte pairs x boundary "
                   "PIDs); the remaining 184 bytes are sampled, the theorems cover them")
ASSUMPTIONS = ["a Packet is a [188]byte value: constant-index reads cannot panic (guard is_pkt in every theorem)",
               "Go int arguments are modelled as Z; byte(x) is x mod 256; & on negative ints is two's complement (Z.land)",
               "pointer identity (a == b, nil) and aliasing are outside the value model; goexec observes them (fresh-memory and "
               "argument-unchanged flags) and the model states the required answer"]
PARTIAL = "aliasing of the copy helpers / CopyPackets / FromBytes is checked by goexec snapshots only (not expressible in the value model)"

SETTERS = {"hdr.set_tei": (0, 1), "hdr.set_pusi": (0, 1), "hdr.set_tp": (0, 1), "hdr.set_pid": None,
           "hdr.set_tsc": (0, 3), "hdr.set_cc": None, "hdr.set_cc_fn": (0, 15)}
SWEEP_DECODE = {}   # filled by oracle(): sweep line -> an individual failing call (used by shrink)


def rpkt(rng, kind=None):
    """a random packet; header bytes biased to boundary patterns"""
    k = kind if kind is not None else rng.randrange(4)
    if k == 0:
        b = bytearray(rng.randrange(256) for _ in range(188))
    elif k == 1:
        b = bytearray([rng.choice([0, 0xff, 0x47, 0x80, 0x7f, 0x10, 0x20, 0x30, 0x1f, 0xe0])] * 188)
        for _ in range(rng.randrange(6)):
            b[rng.randrange(188)] = rng.randrange(256)
    elif k == 2:
        b = bytearray([0x47, rng.randrange(256), rng.randrange(256), rng.randrange(256)]) + bytearray(
            rng.randrange(256) for _ in range(184))
    else:
        b = bytearray(188)
        for i in range(4):
            b[i] = rng.randrange(256)
    return bytes(b)


def gen(rng, tier):
    out = []
    thorough = tier == "thorough"
    # ---- exhaustive sweeps
    nbase = 1 if not thorough else 4
    for _ in range(nbase):
        base = rpkt(rng, 0)
        for b1 in range(256):
            out.append(Case("hdr.sweep_pid %s %d" % (hx(base), b1), kind="sweep-setpid", theorem="C01_set_pid"))
    for base in [rpkt(rng, 0) for _ in range(1 if not thorough else 8)]:
        for pid in (0, 1, 255, 256, 0x1000, 0x1fff, 0x0aaa, 0x1555):
            out.append(Case("hdr.sweep_pid_b2 %s %d" % (hx(base), pid), kind="sweep-setpid-b2", theorem="C01_set_pid_any_int"))
    for base in [rpkt(rng, 0) for _ in range(3 if not thorough else 40)]:
        for w in range(3):
            out.append(Case("hdr.sweep_bit %s %d" % (hx(base), w), kind="sweep-flag", theorem="C01_set_tei"))
        out.append(Case("hdr.sweep_tsc %s" % hx(base), kind="sweep-tsc", theorem="C01_set_tsc"))
        out.append(Case("hdr.sweep_cc %s 0 16" % hx(base), kind="sweep-cc", theorem="C01_set_cc"))
        out.append(Case("hdr.sweep_cc %s -40 96" % hx(base), kind="sweep-cc-anyint", theorem="C01_set_cc_any_int"))
        out.append(Case("hdr.sweep_inc %s" % hx(base), kind="sweep-inc-zero", theorem="C01_cc_copy_helpers"))
        out.append(Case("hdr.sweep_cc_fn %s 16" % hx(base), kind="sweep-setcc-copy", theorem="C01_cc_copy_helpers"))
        out.append(Case("hdr.sweep_cc_fn %s 256" % hx(base), kind="fidelity-setcc-copy-u8", decides=False, nontrivial=False))
        out.append(Case("hdr.sweep_get12 %s" % hx(base), kind="sweep-get-b1b2", theorem="C01_get_exact_pid"))
        out.append(Case("hdr.sweep_get03 %s" % hx(base), kind="sweep-get-b0b3", theorem="C01_check_errors_iff"))
    # ---- individual calls on random packets (all 188 bytes + all getters compared)
    n = 300 if not thorough else 20000
    out.append(Case("hdr.new", kind="new", theorem="C01_new"))
    for _ in range(n):
        p = rpkt(rng)
        out.append(Case("hdr.get %s" % hx(p), kind="get", theorem="C01_get_exact_pid"))
        out.append(Case("hdr.set_pid %s %d" % (hx(p), rng.choice([0, 1, 8191, 4096, rng.randrange(8192)])), kind="set",
                        theorem="C01_set_pid"))
        out.append(Case("hdr.set_%s %s %d" % (rng.choice(["tei", "pusi", "tp"]), hx(p), rng.randrange(2)), kind="set",
                        theorem="C01_set_tei"))
        out.append(Case("hdr.set_tsc %s %d" % (hx(p), rng.randrange(4)), kind="set", theorem="C01_set_tsc"))
        out.append(Case("hdr.set_cc %s %d" % (hx(p), rng.randrange(16)), kind="set", theorem="C01_set_cc"))
        out.append(Case("hdr.inc_cc %s" % hx(p), kind="set", theorem="C01_inc_cc"))
        out.append(Case("hdr.zero_cc %s" % hx(p), kind="set", theorem="C01_zero_cc"))
        out.append(Case("hdr.increment_cc_fn %s" % hx(p), kind="cc-copy", theorem="C01_cc_copy_helpers"))
        out.append(Case("hdr.zero_cc_fn %s" % hx(p), kind="cc-copy", theorem="C01_cc_copy_helpers"))
        out.append(Case("hdr.set_cc_fn %s %d" % (hx(p), rng.randrange(16)), kind="cc-copy", theorem="C01_cc_copy_helpers"))
        # out-of-range arguments: fidelity (ties the wrap-around of the model to the code)
        # any Go int: SetPID stores pid mod 8192, SetContinuityCounter value mod 16 (C01_set_pid_any_int / C01_set_cc_any_int
        # determine all 188 bytes for EVERY int, so these are deciding; non-trivial only when the value is in range)
        v = rng.choice([8192, 8193, 65535, 65536, -1, -8191, -8192, -8193, 1 << 40, -(1 << 40), (1 << 62) + 5, rng.randrange(-70000, 70000)])
        out.append(Case("hdr.set_pid %s %d" % (hx(p), v), kind="set-pid-anyint", nontrivial=0 <= v < 8192, theorem="C01_set_pid_any_int"))
        v = rng.choice([16, 17, 255, 256, -1, -15, -16, -17, 1 << 33, -(1 << 33), rng.randrange(-300, 300)])
        out.append(Case("hdr.set_cc %s %d" % (hx(p), v), kind="set-cc-anyint", nontrivial=0 <= v < 16, theorem="C01_set_cc_any_int"))
        out.append(Case("hdr.set_tsc %s %d" % (hx(p), rng.randrange(4, 256)), kind="fidelity-range", decides=False, nontrivial=False))
        out.append(Case("hdr.set_cc_fn %s %d" % (hx(p), rng.randrange(16, 256)), kind="fidelity-range", decides=False, nontrivial=False))
    # ---- Equal: identical, one bit flipped at every position, random pairs
    for base in [rpkt(rng, 0) for _ in range(1 if not thorough else 6)]:
        out.append(Case("hdr.equal %s %s" % (hx(base), hx(base)), kind="equal-same", theorem="C01_equal_iff"))
        for bit in range(1504):
            q = bytearray(base); q[bit // 8] ^= 1 << (bit % 8)
            out.append(Case("hdr.equal %s %s" % (hx(base), hx(bytes(q))), kind="equal-onebit", theorem="C01_equal_iff"))
    for _ in range(50 if not thorough else 2000):
        a = rpkt(rng); b = rng.choice([a, rpkt(rng)])
        out.append(Case("hdr.equal %s %s" % (hx(a), hx(b)), kind="equal-random", theorem="C01_equal_iff"))
    # differences that cancel under a checksum-like comparison (seeded C01-v2: differences XOR-accumulated): the same
    # bit flipped in two bytes, two unequal bytes exchanged, the same delta added to one byte and subtracted from another
    for k in range(300 if not thorough else 6000):
        a = bytearray(rpkt(rng)); b = bytearray(a)
        i, j = rng.sample(range(188), 2)
        if k < 8:
            i, j = [(1, 10), (3, 4), (0, 187), (2, 3), (4, 5), (1, 2), (100, 101), (186, 187)][k]
        m = k % 3
        if m == 0:
            bit = 1 << rng.randrange(8); b[i] ^= bit; b[j] ^= bit
        elif m == 1:
            if b[i] == b[j]:
                b[j] ^= 0x40; a[j] ^= 0x40
            b[i], b[j] = b[j], b[i]
        else:
            d = rng.randrange(1, 256); b[i] = (b[i] + d) % 256; b[j] = (b[j] - d) % 256
        out.append(Case("hdr.equal %s %s" % (hx(bytes(a)), hx(bytes(b))), kind="equal-cancelling", theorem="C01_equal_iff"))
    # ---- FromBytes: every length 0..400 (only 188 may give a packet); 188 with each error class
    for ln in list(range(0, 401)) + [1000, 1880]:
        b = bytes(rng.randrange(256) for _ in range(ln))
        if ln > 0 and rng.random() < 0.7:
            b = b"\x47" + b[1:]
        out.append(Case("hdr.from_bytes %s" % hx(b), kind="from-bytes-len", theorem="C01_from_bytes_len"))
    for _ in range(200 if not thorough else 5000):
        p = bytearray(rpkt(rng, 2))
        p[0] = rng.choice([0x47, 0x47, 0x47, 0x46, 0x48, 0, 0xff, rng.randrange(256)])
        out.append(Case("hdr.from_bytes %s" % hx(bytes(p)), kind="from-bytes-188", theorem="C01_from_bytes_188"))
    # ---- CopyPackets
    for _ in range(20 if not thorough else 400):
        ps = [rpkt(rng) for _ in range(rng.randrange(0, 5))]
        out.append(Case("hdr.copy_packets [ %s ]" % " ".join(hx(p) for p in ps), kind="copy-packets", theorem="C01_copy_packets"))
    return out


# ----------------------------------------------------------------------------- sweeps: locate the failing call
def _sweep_combos(f):
    """the individual calls a sweep line stands for, in the executors' order: (line, prior packet)"""
    op = f[0]
    base = bytearray(bytes.fromhex(f[1][1:]))
    def with_bytes(**kw):
        b = bytearray(base)
        for k, v in kw.items():
            b[int(k[1:])] = v
        return hx(bytes(b))
    if op == "hdr.sweep_pid":
        b1 = int(f[2])
        return [("hdr.set_pid %s %d" % (with_bytes(b1=b1), pid)) for pid in range(8192)], 6
    if op == "hdr.sweep_pid_b2":
        pid = int(f[2])
        return [("hdr.set_pid %s %d" % (with_bytes(b1=a, b2=b), pid)) for a in range(256) for b in range(256)], 6
    if op == "hdr.sweep_bit":
        name = ["tei", "pusi", "tp"][min(int(f[2]), 2)]
        return [("hdr.set_%s %s %d" % (name, with_bytes(b1=a), v)) for a in range(256) for v in range(2)], 4
    if op == "hdr.sweep_tsc":
        return [("hdr.set_tsc %s %d" % (with_bytes(b3=a), v)) for a in range(256) for v in range(4)], 9
    if op == "hdr.sweep_cc":
        lo, n = int(f[2]), int(f[3])
        return [("hdr.set_cc %s %d" % (with_bytes(b3=a), lo + k)) for a in range(256) for k in range(n)], 9
    if op == "hdr.sweep_inc":
        names = ["hdr.inc_cc", "hdr.zero_cc", "hdr.increment_cc_fn", "hdr.zero_cc_fn", "hdr.get"]
        return [("%s %s" % (names[k], with_bytes(b3=a))) for a in range(256) for k in range(5)], 9
    if op == "hdr.sweep_cc_fn":
        n = int(f[2])
        return [("hdr.set_cc_fn %s %d" % (with_bytes(b3=a), v)) for a in range(256) for v in range(n)], 9
    if op == "hdr.sweep_get12":
        return [("hdr.get %s" % with_bytes(b1=a, b2=b)) for a in range(256) for b in range(256)], 10
    if op == "hdr.sweep_get03":
        return [("hdr.get %s" % with_bytes(b0=a, b3=b)) for a in range(256) for b in range(256)], 9
    return [], 0


def oracle(case, real, model):
    if real in ("[-8888]", "[-9999]") or model in ("[-8888]", "[-9999]"):
        return "executor rejected the request (malformed case line): real %s model %s" % (real, model)
    if not case.line.startswith("hdr.sweep_") or real == model:
        return None
    # find the first combination whose record differs and remember the individual call for shrink()
    try:
        f = case.line.split()
        calls, nrd = _sweep_combos(f)
        rec = 2 * (4 + 2 * nrd)            # hex digits per combination
        r = real.split()[0].lstrip("[")[1:]
        m = model.split()[0].lstrip("[")[1:]
        k = next((i for i in range(len(calls)) if r[i * rec:(i + 1) * rec] != m[i * rec:(i + 1) * rec]), None)
        if k is None:
            k = 0   # only the untouched-bytes count differs: any call may be the culprit, replay keeps the sweep
            SWEEP_DECODE[case.line] = None
            return "sweep: a call changed bytes outside the header (count of untouched tails differs)"
        SWEEP_DECODE[case.line] = calls[k]
        return "sweep: first differing call is `%s` (real %s, required %s)" % (
            calls[k][:40] + "...", r[k * rec:(k + 1) * rec], m[k * rec:(k + 1) * rec])
    except Exception as e:   # unreadable reply (panic etc.)
        return "sweep replies differ"


def shrink(c):
    f = c.line.split()
    if f[0].startswith("hdr.sweep_"):
        line = SWEEP_DECODE.get(c.line)
        if line:
            yield case_of_line(line, "from-" + c.kind)
        else:
            calls, _ = _sweep_combos(f)
            step = max(1, len(calls) // 50)
            for l in calls[::step]:
                yield case_of_line(l, "from-" + c.kind)
        return
    # individual call: zero the bytes the operation does not touch
    if len(f) >= 2 and f[1].startswith("x") and len(f[1]) == 377:
        b = bytearray(bytes.fromhex(f[1][1:]))
        if any(b[4:]):
            z = bytes(b[:4]) + bytes(184)
            yield Case(" ".join([f[0], hx(z)] + f[2:]), kind=c.kind, decides=c.decides, theorem=c.theorem)
        for i in range(4):
            if b[i]:
                z = bytearray(b); z[i] = 0
                yield Case(" ".join([f[0], hx(bytes(z))] + f[2:]), kind=c.kind, decides=c.decides, theorem=c.theorem)


def case_of_line(line, kind):
    f = line.split()
    decides = True
    if f[0] in SETTERS and SETTERS[f[0]] is not None and len(f) > 2:
        lo, hi = SETTERS[f[0]]
        decides = lo <= int(f[2]) <= hi
    return Case(line, kind=kind or "replay", decides=decides, nontrivial=decides)


def search(c, rng):
    """a fidelity case disagreed: look for a deciding failure around it (same packet, in-range values)"""
    f = c.line.split()
    if len(f) >= 2 and f[1].startswith("x") and len(f[1]) == 377:
        p = f[1]
        yield Case("hdr.get %s" % p, kind="search")
        for pid in (0, 1, 255, 256, 4095, 4096, 8191):
            yield Case("hdr.set_pid %s %d" % (p, pid), kind="search")
        for v in range(4):
            yield Case("hdr.set_tsc %s %d" % (p, v), kind="search")
        for v in range(16):
            yield Case("hdr.set_cc %s %d" % (p, v), kind="search")
            yield Case("hdr.set_cc_fn %s %d" % (p, v), kind="search")
        for op in ("hdr.inc_cc", "hdr.zero_cc", "hdr.increment_cc_fn", "hdr.zero_cc_fn"):
            yield Case("%s %s" % (op, p), kind="search")


LEVEL_TEXT = ("Proof: the Coq theorems of Properties/C01.v state every clause for ALL 188-byte packets (getters = ISO 13818-1 "
              "fields, set/get, frame conditions byte-wise and bit-wise, function = method, copy helpers modulo 16, Equal iff "
              "bytes equal, CheckErrors characterisation with priority, FromBytes only on 188 bytes) over a model of "
              "packet.go/modify.go; proved by finite reflection over the affected byte(s) x values lifted with list-update "
              "lemmas; no axioms.  The model is tied to the code by running both over the complete affected-byte x value "
              "space through the real API on every run.")
LEVEL_NOTE = "Trusted: Coq kernel + vm_compute; the transcription Model/Packet.v (exhaustively compared on the affected bytes); extraction and executor glue."
TECHNIQUE = "Coq proof (finite reflection per header byte + list-update lemmas) + exhaustive model/implementation correspondence on header bytes x field values"


# coverage round (notes/coverage.md): cases and support theorems for exported identifiers outside the property text
from gen import covlib
covlib.install(globals())
