"""C04 — PCR and PTS/DTS codecs: exact layout, round trip, reserved/marker bits ignored, both PTS decoders agree.
ops: pcr.rt old v -> [0 [old' [0 ExtractPCR(old')]]] ; pts.rt old v -> [0 [old' gots.ExtractTime(old') pes.ExtractTime(old')]] ;
     pcr.get b, pts.get b, pes.time b (decoders on arbitrary bytes); pcr.put / pts.put (encoders alone)."""
import sys
import vlib
from vlib import Case, hx, unhx, parse_val

PROP = "C04"
PROOF_FILES = ["Properties/C04.v", "Properties/C04e2e.v", "Properties/C04tie.v"]
PCR_MAX = (1 << 33) * 300
PTS_MAX = 1 << 33
RULE = ("PCR values 0, 2^k, 2^k+-1 (every k), base 2^k+-1 x ext {0,1,127,128,255,256,257,298,299}, every ext 0..299 on four bases, every "
        "8-bit pattern across each byte boundary of the base, range ends, "
        "random; PTS values 0, 2^k, 2^k+-1, slice boundaries (bits 32/30/29/22/15/14/7) with every 8-bit pattern across each, random; written into prior contents "
        "00.., ff.., random of length 6..12 resp. 5..12 and read back (both PTS decoders); decoders on random bytes and on "
        "every single reserved/marker bit flipped; a case is non-trivial when it is a distinct request inside the property's "
        "hypotheses (value in range, target long enough); short targets and 64-bit values are fidelity cases")
EXHAUSTIVE = True
EXHAUSTIVE_NOTE = ("the boundary grid (all powers of two and neighbours, all slice boundaries x the three prior-content classes) and all "
                   "reserved/marker single-bit flips of the sampled vectors are enumerated completely on every run; the value space "
                   "itself is covered by the theorems")
ASSUMPTIONS = ["Go uint64 arithmetic wraps modulo 2^64 and byte() truncates (written out in Model/PcrCodec.v, Model/Pts.v)"]


def ref_pcr_bytes(v):
    base, ext = divmod(v, 300)
    bits = format(base, "033b") + "111111" + format(ext, "09b")
    return int(bits, 2).to_bytes(6, "big")


def ref_pts_bytes(v):
    s = format(v, "033b")
    bits = "0010" + s[0:3] + "1" + s[3:18] + "1" + s[18:33] + "1"
    return int(bits, 2).to_bytes(5, "big")


def ref_pcr_decode(b):
    x = int.from_bytes(b[:6], "big")
    return (x >> 15) * 300 + (x & 0x1ff)


def ref_pts_decode(b):
    s = format(int.from_bytes(b[:5], "big"), "040b")
    return int(s[4:7] + s[8:23] + s[24:39], 2)


def priors(rng, n, extra=True):
    out = [bytes(n), b"\xff" * n, bytes(rng.randrange(256) for _ in range(n))]
    if extra:
        m = n + rng.randrange(1, 7)
        out.append(bytes(rng.randrange(256) for _ in range(m)))
    return out


def pcr_values(rng, tier):
    vs = {0, 1, 299, 300, 301, PCR_MAX - 1, PCR_MAX - 300, PCR_MAX - 301}
    for k in range(0, 42):
        for d in (-1, 0, 1):
            v = (1 << k) + d
            if 0 <= v < PCR_MAX:
                vs.add(v)
    for k in range(0, 34):
        for d in (-1, 0, 1):
            base = (1 << k) + d
            if 0 <= base < PTS_MAX:
                for ext in (0, 1, 127, 128, 255, 256, 257, 298, 299):
                    vs.add(base * 300 + ext)
    # every extension value 0..299 on four bases; every 8-bit pattern straddling each byte boundary of the base
    for base in (0, 1, PTS_MAX - 1, rng.randrange(PTS_MAX)):
        for ext in range(300):
            vs.add(base * 300 + ext)
    for k in (1, 9, 17, 25):
        for x in range(256):
            base = (x << max(0, k - 4)) % PTS_MAX
            vs.add(base * 300 + rng.randrange(300))
    for _ in range(300 if tier == "quick" else 30000):
        vs.add(rng.randrange(PCR_MAX))
        vs.add(rng.randrange(1 << rng.randrange(1, 42)) % PCR_MAX)
    return sorted(vs)


def pts_values(rng, tier):
    vs = {0, 1, PTS_MAX - 1, PTS_MAX - 2}
    for k in range(0, 33):
        for d in (-1, 0, 1):
            v = (1 << k) + d
            if 0 <= v < PTS_MAX:
                vs.add(v)
    for k in (7, 14, 15, 22, 29, 30, 32):   # slice boundaries: everything below / at / above
        for v in ((1 << k) - 1, 1 << k, (1 << k) | ((1 << k) - 1), PTS_MAX - (1 << k), (PTS_MAX - 1) ^ (1 << k)):
            vs.add(v % PTS_MAX)
    for k in (7, 14, 15, 22, 29, 30):       # every 8-bit pattern straddling each slice / byte boundary
        for x in range(256):
            vs.add((x << (k - 4)) % PTS_MAX)
            vs.add(((x << (k - 4)) | rng.randrange(1 << (k - 4))) % PTS_MAX)
    for _ in range(300 if tier == "quick" else 30000):
        vs.add(rng.randrange(PTS_MAX))
        vs.add(rng.randrange(1 << rng.randrange(1, 34)) % PTS_MAX)
    return sorted(vs)


def gen(rng, tier):
    return _gen_own(rng, tier) + _gen_e2e_af(rng, tier)


def _gen_own(rng, tier):
    out = []
    for v in pcr_values(rng, tier):
        for old in priors(rng, 6):
            out.append(Case("pcr.rt %s %d" % (hx(old), v), kind="pcr-roundtrip", theorem="C04_pcr_roundtrip"))
    for v in pts_values(rng, tier):
        for old in priors(rng, 5):
            out.append(Case("pts.rt %s %d" % (hx(old), v), kind="pts-roundtrip", theorem="C04_pts_roundtrip"))
    # encoders alone on long targets (nothing beyond 6 / 5 bytes is touched)
    for _ in range(200 if tier == "quick" else 5000):
        n = rng.randrange(6, 40)
        old = bytes(rng.randrange(256) for _ in range(n))
        out.append(Case("pcr.put %s %d" % (hx(old), rng.randrange(PCR_MAX)), kind="pcr-touches-only", theorem="C04_pcr_layout"))
        out.append(Case("pts.put %s %d" % (hx(old), rng.randrange(PTS_MAX)), kind="pts-touches-only", theorem="C04_pts_layout"))
    # decoders on arbitrary bytes, then with every reserved / marker bit flipped
    for _ in range(150 if tier == "quick" else 5000):
        b = bytearray(rng.randrange(256) for _ in range(rng.choice((6, 6, 6, 7, 11))))
        out.append(Case("pcr.get " + hx(b), kind="pcr-decode", theorem="C04_pcr_decode_arith"))
        for bit in range(1, 7):
            c = bytearray(b); c[4] ^= 1 << bit
            out.append(Case("pcr.get " + hx(c), kind="pcr-reserved-flip", theorem="C04_pcr_decode_ignores_reserved"))
        p = bytearray(rng.randrange(256) for _ in range(rng.choice((5, 5, 5, 6, 10))))
        flips = [(0, 0), (0, 4), (0, 5), (0, 6), (0, 7), (2, 0), (4, 0)]
        for op, th in (("pts.get", "C04_pts_decode_arith"), ("pes.time", "C04_pts_decoders_agree")):
            out.append(Case("%s %s" % (op, hx(p)), kind="pts-decode", theorem=th))
            for (i, bit) in flips:
                c = bytearray(p); c[i] ^= 1 << bit
                out.append(Case("%s %s" % (op, hx(c)), kind="pts-marker-flip", theorem="C04_pts_decode_ignores_markers"))
    # fidelity: targets that are too short (panic), values outside the property's range
    for n in range(0, 6):
        old = bytes(rng.randrange(256) for _ in range(n))
        out.append(Case("pcr.rt %s %d" % (hx(old), rng.randrange(PCR_MAX)), kind="fidelity-short", decides=False, nontrivial=False))
        out.append(Case("pcr.get " + hx(old), kind="fidelity-short", decides=False, nontrivial=False))
        if n < 5:
            out.append(Case("pts.rt %s %d" % (hx(old), rng.randrange(PTS_MAX)), kind="fidelity-short", decides=False, nontrivial=False))
            out.append(Case("pts.get " + hx(old), kind="fidelity-short", decides=False, nontrivial=False))
            out.append(Case("pes.time " + hx(old), kind="fidelity-short", decides=False, nontrivial=False))
    for _ in range(200 if tier == "quick" else 5000):
        old = bytes(rng.randrange(256) for _ in range(8))
        v = rng.choice((rng.randrange(PCR_MAX, 1 << 64), (1 << 64) - 1 - rng.randrange(1000), PCR_MAX + rng.randrange(1000)))
        out.append(Case("pcr.rt %s %d" % (hx(old), v), kind="fidelity-u64", decides=False, nontrivial=False))
        v = rng.choice((rng.randrange(PTS_MAX, 1 << 64), (1 << 64) - 1 - rng.randrange(1000), PTS_MAX + rng.randrange(1000)))
        out.append(Case("pts.rt %s %d" % (hx(old), v), kind="fidelity-u64", decides=False, nontrivial=False))
    # end to end: PTS/DTS carried in a PES header (ops and projections of the C11 group)
    from gen import c11
    pv = pts_values(rng, "quick")
    for i, v1 in enumerate(pv[:: (7 if tier == "quick" else 1)]):
        v2 = pv[(i * 11 + 5) % len(pv)]
        sid = rng.choice((0xE0, 0xC0, 0xBD, 0x00, 0xFD))
        extra = bytes(rng.randrange(256) for _ in range(rng.choice((0, 0, 3))))
        hdr = bytes([0, 0, 1, sid, 0, 0, rng.choice((0x80, 0x84)), 0xC0 | rng.randrange(64), 10 + len(extra)])
        b = hdr + bytes(rng.randrange(256) for _ in range(10)) + extra + bytes(rng.randrange(256) for _ in range(rng.randrange(0, 9)))
        out.append(Case("pes.put %s %d %d" % (hx(b), v1, v2), kind="pes-insert-then-decode", theorem="C04_pes_pts_dts_readback",
                        proj=c11.proj_put))
        pk = bytearray(rng.randrange(256) for _ in range(188)); pk[0] = 0x47; pk[1] |= 0x40
        if i % 2:
            pk[3] &= 0xdf
        else:
            pk[3] |= 0x20; pk[4] = rng.randrange(0, 170)
        out.append(Case("pes.withpes %s %d" % (hx(pk), v1), kind="withpes-readback", theorem="C04_with_pes_readback",
                        proj=c11.proj_withpes))
    # SetPCR / SetOPCR on a packet (FromBytes) whose field ALREADY decodes to the value being set but is not its
    # canonical coding: reserved bits cleared or random, or extension 300..511 with the base one lower ("for all prior
    # contents" of the six bytes; seeded C04-v1: the setter returned early when the decoded value was already v).
    # af.hist <packet> [ [8 v] ] / [ [9 v] ]: C03's op, compared byte for byte with the model's AF.step here.
    vals = [v for v in pcr_values(rng, "quick")]
    for i, v in enumerate(vals[:: (3 if tier == "quick" else 1)]):
        encs = []
        canon = bytearray(ref_pcr_bytes(v))
        e = bytearray(canon); e[4] &= 0x81; encs.append(e)                       # reserved bits 0
        e = bytearray(canon); e[4] = (e[4] & 0x81) | (rng.randrange(64) << 1); encs.append(e)
        base, ext = divmod(v, 300)
        if base >= 1 and ext + 300 < 512:
            x = ((base - 1) << 15) | (0x3F << 9) | (ext + 300)
            encs.append(bytearray(x.to_bytes(6, "big")))                          # extension 300.. with base - 1
            x = ((base - 1) << 15) | (ext + 300)
            encs.append(bytearray(x.to_bytes(6, "big")))
        for enc in encs:
            for code, flag in ((8, 0x10), (9, 0x08)):
                pk = bytearray(188); pk[0] = 0x47; pk[1] = rng.randrange(0x20); pk[2] = rng.randrange(256)
                pk[3] = 0x30 | rng.randrange(16); pk[4] = 7 + rng.choice((0, 0, 5, 20)); pk[5] = flag
                pk[6:12] = enc
                for j in range(12, 5 + pk[4]):
                    pk[j] = 0xFF
                for j in range(5 + pk[4], 188):
                    pk[j] = rng.randrange(256)
                out.append(Case("af.hist %s [ [ %d %d ] ]" % (hx(bytes(pk)), code, v), kind="af-set-same-value-noncanonical",
                                theorem="C04_pcr_layout / C03 step_refines"))
    # a PCR / OPCR set, then the packet's own adaptation field copied onto itself (p.SetAdaptationField(af of p): receiver and
    # argument are the same memory; seeded C04-u1), and the same on a packet that does not carry the sync byte yet (a zero
    # value, or an option function run by packet.Create before 0x47 is written; seeded C04-u2: a sync-byte check in valid())
    for i, v in enumerate(vals[:: (5 if tier == "quick" else 1)]):
        for sync in (0x47, 0x00):
            pk = bytearray(188); pk[0] = sync; pk[1] = rng.randrange(0x20); pk[2] = rng.randrange(256)
            pk[3] = 0x30 | rng.randrange(16); pk[4] = rng.choice((20, 30, 183)); pk[5] = 0
            for j in range(6, 5 + pk[4]):
                pk[j] = 0xFF
            for j in range(5 + pk[4], 188):
                pk[j] = rng.randrange(256)
            v2 = vals[(i * 7 + 3) % len(vals)]
            ops = "[ 3 1 ] [ 8 %d ] [ 4 1 ] [ 9 %d ] [ 14 0 ] [ 8 %d ]" % (v, v2, v2)
            out.append(Case("af.hist %s [ %s ]" % (hx(bytes(pk)), ops), kind="af-set-selfcopy" + ("" if sync == 0x47 else "-nosync"),
                            theorem="C03_self_copy_identity / C03 step_refines"))
    crosscheck_spec(out)
    return out


BORROWS = ["C03"]


def _gen_e2e_af(rng, tier):
    """end-to-end clause "a PCR or OPCR set on an adaptation field is read back unchanged": the adaptation-field edit
    histories of C03 (same op af.hist, judged by C03's oracle) that call SetPCR / SetOPCR"""
    import random as _r
    import gen.c03 as c03
    sub = _r.Random(rng.randrange(1 << 62))
    keep = lambda c: c.decides and (" [ 8 " in c.line or " [ 9 " in c.line)
    return vlib.borrow(c03, c03.gen(sub, tier), "e2e-af", keep=keep, theorem="C03_pcr_roundtrip / C03 readback")
def crosscheck_spec(cases):
    """the bit-string reference used by the oracle below is itself compared, on every value and byte string of this run,
    with the Coq-extracted ISO field serialisers / value functions of Spec/TimestampSpec.v (ops ser.pcr, ser.ts,
    spec.pcrval, spec.tsval of modelexec); a disagreement is a fault of the machinery, not a verdict (exit 2)"""
    req, want = [], []
    for c in cases:
        if not c.decides:
            continue
        f = c.line.split(" ")
        if f[0] in ("pcr.rt", "pcr.put"):
            req.append("ser.pcr " + f[2]); want.append(hx(ref_pcr_bytes(int(f[2]))))
        elif f[0] in ("pts.rt", "pts.put"):
            req.append("ser.ts 2 " + f[2]); want.append(hx(ref_pts_bytes(int(f[2]))))
        elif f[0] == "pcr.get":
            req.append("spec.pcrval " + f[1]); want.append(str(ref_pcr_decode(unhx(f[1]))))
        elif f[0] in ("pts.get", "pes.time"):
            req.append("spec.tsval " + f[1]); want.append(str(ref_pts_decode(unhx(f[1]))))
    got = vlib.run_model(req)
    for r, g, w in zip(req, got, want):
        if g != w:
            print("ERROR C04 generator: Spec/TimestampSpec.v and the Python reference disagree on `%s`: %s vs %s" % (r, g, w))
            sys.exit(2)
    return len(req)


def oracle(c, real, model):
    """inside the hypotheses the observation is fixed by the property: compare the real reply with an independent
    bit-string reference as well (None -> the driver compares real with model)"""
    if not c.decides:
        return None
    f = c.line.split(" ")
    try:
        if f[0] in ("pcr.rt", "pcr.put"):
            old, v = unhx(f[1]), int(f[2])
            nb = ref_pcr_bytes(v) + old[6:]
            want = "[0 [%s [0 %d]]]" % (hx(nb), v) if f[0] == "pcr.rt" else "[0 %s]" % hx(nb)
        elif f[0] in ("pts.rt", "pts.put"):
            old, v = unhx(f[1]), int(f[2])
            nb = ref_pts_bytes(v) + old[5:]
            want = "[0 [%s [0 %d] [0 %d]]]" % (hx(nb), v, v) if f[0] == "pts.rt" else "[0 %s]" % hx(nb)
        elif f[0] == "pcr.get":
            want = "[0 %d]" % ref_pcr_decode(unhx(f[1]))
        elif f[0] in ("pts.get", "pes.time"):
            want = "[0 %d]" % ref_pts_decode(unhx(f[1]))
        elif f[0] == "pes.put":
            pr = c.proj(real)
            if len(pr) != 2 or pr[1][3:7] != (1, int(f[2]), 1, int(f[3])):
                return "PTS/DTS written into the PES header are not read back: observed %r, required PTS %s DTS %s" % (pr[1:], f[2], f[3])
            return None
        elif f[0] == "pes.withpes":
            pr = c.proj(real)
            if pr != ("hdr", 0, 1, 184, 1, int(f[2]), 0):
                return "packet.WithPES then NewPESHeader: observed %r, required PTS %s" % (pr, f[2])
            return None
        else:
            return None
    except Exception:
        return None
    if real != want:
        return "observed %s, required %s (ISO 13818-1 layout, bit-string reference)" % (real, want)
    if model != want:
        return "Coq model differs from the bit-string reference: model %s, reference %s" % (model, want)
    return ""


def shrink(c):
    f = c.line.split(" ")
    if f[0] in ("pcr.rt", "pcr.put", "pts.rt", "pts.put"):
        old, v = unhx(f[1]), int(f[2])
        n = 6 if f[0].startswith("pcr") else 5
        for old2, v2 in ((bytes(n), v), (old, v & (v - 1)), (old, v >> 1), (old[:n], v)):
            if (old2, v2) != (old, v) and v2 >= 0:
                yield Case("%s %s %d" % (f[0], hx(old2), v2), kind=c.kind, theorem=c.theorem)
    elif f[0] in ("pes.put", "pes.withpes", "af.hist"):
        return
    else:
        b = unhx(f[1])
        for i in range(len(b)):
            if b[i]:
                yield Case("%s %s" % (f[0], hx(b[:i] + bytes([b[i] & (b[i] - 1)]) + b[i + 1:])), kind=c.kind, theorem=c.theorem)


def search(c, rng):
    for k in range(0, 42):
        v = 1 << k
        if v < PCR_MAX:
            yield Case("pcr.rt %s %d" % (hx(bytes(6)), v), kind="search", theorem="C04_pcr_roundtrip")
        if v < PTS_MAX:
            yield Case("pts.rt %s %d" % (hx(bytes(5)), v), kind="search", theorem="C04_pts_roundtrip")
    for i in range(6):
        for bit in range(8):
            b = bytearray(6); b[i] = 1 << bit
            yield Case("pcr.get " + hx(b), kind="search", theorem="C04_pcr_decode_arith")
            if i < 5:
                yield Case("pts.get " + hx(b[:5]), kind="search", theorem="C04_pts_decode_arith")
                yield Case("pes.time " + hx(b[:5]), kind="search", theorem="C04_pts_decoders_agree")


def case_of_line(line, kind):
    f = line.split(" ")
    dec = True
    try:
        if f[0] in ("pcr.rt", "pcr.put"):
            dec = len(unhx(f[1])) >= 6 and int(f[2]) < PCR_MAX
        elif f[0] in ("pts.rt", "pts.put"):
            dec = len(unhx(f[1])) >= 5 and int(f[2]) < PTS_MAX
        elif f[0] == "pcr.get":
            dec = len(unhx(f[1])) >= 6
        elif f[0] in ("pes.put", "pes.withpes"):
            from gen import c11
            return Case(line, kind=kind, proj=c11.proj_put if f[0] == "pes.put" else c11.proj_withpes)
        else:
            dec = len(unhx(f[1])) >= 5
    except Exception:
        pass
    return Case(line, kind=kind, decides=dec)


LEVEL_TEXT = ("Proof: Properties/C04.v states round trip, byte layout (incl. reserved/marker bits and untouched tail), "
              "independence of the decoders from reserved/marker bits and agreement of the two PTS decoders for ALL values in range "
              "and ALL prior contents, over models of pcr.go / pts.go / pes.ExtractTime with uint64/byte truncation written out; "
              "lor-as-add + lia, no axioms. The models are tied to /repo on every run (boundary grid complete, random values, "
              "decoders on arbitrary bytes and bit flips), and the real replies are also compared with a bit-string reference.")
LEVEL_NOTE = ("Trusted: Coq kernel; the transcriptions Model/PcrCodec.v, Model/Pts.v, Model/Pes.v (checked by the correspondence); "
              "extraction and executor glue; Go uint64/byte semantics. The end-to-end clause for PCR/OPCR in an adaptation field is "
              "stated in C03; the PES-header clause is C11_pes_pts_dts_readback.")
TECHNIQUE = "Coq proof (disjoint lor as +, lia with div/mod) + model/implementation correspondence on boundary grid and random values"
