"""C12 - EBP codec: decode exact, re-encode byte-identical, built EBPs encode/decode, time within 1 ns.

Logical EBPs are chosen here and serialised by the Coq-extracted Spec serialiser (ops ser.ebp.* of
modelexec), so "well-formed" is what Spec/EbpSpec.v says.  Malformed inputs (C05 stream) are fidelity
cases: they tie the model's panic / error behaviour to the code but decide nothing for C12."""
import itertools, os
import vlib
from vlib import Case

PROP = "C12"
# development aid: VERIF_EBP_GUARDED=1 compares against the model of the readers WITH notes/findings/C05-ebp.patch
# (use together with VERIF_REPO=<a tree that has the patch>)
GUARDED = os.environ.get("VERIF_EBP_GUARDED", "1") not in ("", "0")   # /repo HEAD has the reader guards (commit 0e5df3a): strict comparison with the guarded model
READ = "ebp.readg" if GUARDED else "ebp.read"
BUILD = "ebp.buildg" if GUARDED else "ebp.build"
PROOF_FILES = ["Properties/C12.v", "Properties/C05_ebp.v"]
NS = 10 ** 9
E31 = 2 ** 31
E32 = 2 ** 32
LO = E31 * NS                 # 1968-01-20T03:14:08Z
ERA = E32 * NS                # 2036-02-07T06:28:16Z
HI = (E32 + E31) * NS         # 2104-02-26T09:42:24Z (exclusive)
RULE = ("ebp.read on Spec-serialised well-formed EBPs: Comcast flag lattice (2^8 shapes) x reserved tails 0..8 bytes, "
        "CableLabs 16 flag settings x 3 extension shapes x SAP x grouping chains of 0..6 ids x time x tails 0..8, field "
        "values drawn with high bits; ebp.build scripts through the setter API / direct field assignments; ebp.time on "
        "instants at second boundaries +-2 ns, the era boundary, both range ends and random instants; ebp.ntp on field "
        "boundaries.  A case is non-trivial when it is a distinct request inside the property's hypotheses (well-formed, "
        "non-empty EBP; consistent build script; instant inside 1968-01-20T03:14:08Z..2104-02-26T09:42:24Z) with at least "
        "one optional field, tail byte, setter call or a non-zero sub-second part; malformed / out-of-range inputs are "
        "fidelity cases (decides=False)")
EXHAUSTIVE = True
EXHAUSTIVE_NOTE = ("the flag lattice x chain lengths 0..6 x reserved lengths 0..8 of both flavours is enumerated completely on "
                   "every run (field VALUES are sampled; all values are covered by the theorems)")
ASSUMPTIONS = [
    "Go's time package (time.Date, Time.Add, Time.Sub with saturation, Time.Before, time.Unix, Time.Unix, Time.Nanosecond) is exact "
    "integer arithmetic on nanoseconds for instants between 1900 and 2172; time.Time is modelled as Z nanoseconds since "
    "1900-01-01T00:00:00Z and goexec converts through time.Unix / Time.Unix+Nanosecond",
    "encoding/binary.Write of uint8/uint32/[]uint8 into a bytes.Buffer appends the big-endian bytes and cannot fail",
    "uint8 / uint32 / uint64 arithmetic wraps (written out in Model/Ebp.v); int is at least 32 bits",
    "SuccessReadTime (time.Now) is not part of the property and is not modelled",
]
PARTIAL = ("aliasing (ReservedBytes is a view into the input buffer) is outside a value model; goexec checks only that "
           "decoding, querying and re-encoding leave the input buffer unchanged")


# ----------------------------------------------------------------------------- logical values

def hib(rng, bits=8):
    """a value with a bias towards high bits / extremes"""
    top = (1 << bits) - 1
    r = rng.random()
    if r < 0.15: return top
    if r < 0.25: return 0
    if r < 0.35: return 1 << (bits - 1)
    if r < 0.45: return top - 1
    if r < 0.6: return rng.randrange(1 << (bits - 1), top + 1)
    return rng.randrange(top + 1)


def opt(present, v):
    return "[%d]" % v if present else "[]"


def topt(present, s, f):
    return "[%d %d]" % (s, f) if present else "[]"


def comcast_line(fr, sg, di, rs, ext, sap, grp, tm, tail):
    return "ser.ebp.comcast %d %d %d %d %s %s %s %s %s" % (
        fr, sg, di, rs, opt(ext is not None, ext or 0), opt(sap is not None, sap or 0), opt(grp is not None, grp or 0),
        topt(tm is not None, *(tm or (0, 0))), vlib.hx(tail))


def cablelabs_line(fr, sg, co, rs, fmt, ext, sap, groups, tm, tail):
    if ext is None:
        e = "[]"
    else:
        e = "[%d %s]" % (ext[0], opt(ext[1] is not None, ext[1] or 0))
    g = "[]" if groups is None else "[" + " ".join(str(x) for x in groups) + "]"
    return "ser.ebp.cablelabs %d %d %d %d %d %s %s %s %s %s" % (
        fr, sg, co, rs, fmt, e, opt(sap is not None, sap or 0), g, topt(tm is not None, *(tm or (0, 0))), vlib.hx(tail))


def rtime(rng):
    return (hib(rng, 32), hib(rng, 32))


def rtail(rng, n):
    return bytes(hib(rng) for _ in range(n))


def sync_id(rng):
    return rng.choice([0x1C, 0x1D, 0x1C, 0x1D, 0x1B, 0x1E, 0x00, 0x7F, rng.randrange(128)])


def sp(line):
    """wire syntax: brackets are separate tokens"""
    return " ".join(line.replace("[", " [ ").replace("]", " ] ").split())


def serialise(lines):
    """[(wf, bytes)] through the Coq-extracted Spec serialiser"""
    out = []
    for r in vlib.run_model([sp(l) for l in lines]):
        v = vlib.parse_val(r) if "!!" not in r else [0, b""]
        out.append((v[0] == 1, v[1]))
    return out


# ----------------------------------------------------------------------------- generators

def gen_decode(rng, tier):
    lines, meta = [], []
    reps = 1 if tier == "quick" else 6
    bools = list(itertools.product((0, 1), repeat=4))
    for _ in range(reps):
        # Comcast: 2^8 flag shapes x tails 0..8
        for (fr, sg, di, rs) in bools:
            for (he, hs, hg, ht) in bools:
                for n in range(9):
                    lines.append(comcast_line(fr, sg, di, rs, hib(rng) if he else None, hib(rng) if hs else None,
                                              (sync_id(rng) if rng.random() < 0.5 else hib(rng)) if hg else None,
                                              rtime(rng) if ht else None, rtail(rng, n)))
                    meta.append(("comcast-lattice", "C12_decode_ser_comcast", he or hs or hg or ht or n > 0))
        # CableLabs: 16 flag settings x ext shapes x sap x chains 0..6 x time x tails 0..8
        for (fr, sg, co, rs) in bools:
            for es in (0, 1, 2):
                for hs in (0, 1):
                    for ng in range(7):
                        for ht in (0, 1):
                            for n in range(9):
                                ext = None if es == 0 else (rng.choice([0, 0x7F, rng.randrange(128)]), hib(rng) if es == 2 else None)
                                groups = None if ng == 0 else [sync_id(rng) for _ in range(ng)]
                                fmt = rng.choice([0x45425030, 0x45425030, hib(rng, 32)])
                                lines.append(cablelabs_line(fr, sg, co, rs, fmt, ext, hib(rng) if hs else None, groups,
                                                            rtime(rng) if ht else None, rtail(rng, n)))
                                meta.append(("cablelabs-lattice", "C12_decode_ser_cablelabs", True))
    # long tails and long chains up to the length bound (253) and just beyond it (not well-formed: fidelity)
    for _ in range(60 if tier == "quick" else 600):
        he, hs, hg, ht = (rng.random() < 0.5 for _ in range(4))
        fixed = 1 + he + hs + hg + 8 * ht
        n = rng.choice([253 - fixed, 252 - fixed, 254 - fixed, 255 - fixed, 256 - fixed, rng.randrange(9, 253 - fixed)])
        lines.append(comcast_line(rng.random() < .5, rng.random() < .5, rng.random() < .5, rng.random() < .5,
                                  hib(rng) if he else None, hib(rng) if hs else None, hib(rng) if hg else None,
                                  rtime(rng) if ht else None, rtail(rng, n)))
        meta.append(("comcast-long", "C12_decode_ser_comcast", True))
        es = rng.randrange(3)
        hs, ht = rng.random() < 0.5, rng.random() < 0.5
        ng = rng.choice([0, 1, 7, 20, 100, rng.randrange(1, 240)])
        fixed = 5 + (es > 0) + (es == 2) + hs + 8 * ht + ng
        n = max(0, rng.choice([253 - fixed, 252 - fixed, 254 - fixed, 255 - fixed, 256 - fixed, rng.randrange(0, 60)]))
        ext = None if es == 0 else (rng.randrange(128), hib(rng) if es == 2 else None)
        lines.append(cablelabs_line(rng.random() < .5, rng.random() < .5, rng.random() < .5, rng.random() < .5, hib(rng, 32), ext,
                                    hib(rng) if hs else None, None if ng == 0 else [sync_id(rng) for _ in range(ng)],
                                    rtime(rng) if ht else None, rtail(rng, n)))
        meta.append(("cablelabs-long", "C12_decode_ser_cablelabs", True))
    out, valid = [], []
    for (wf, b), (kind, th, nt) in zip(serialise(lines), meta):
        if len(b) == 0:
            continue
        if wf:
            out.append(Case(READ + " " + vlib.hx(b), kind=kind, theorem=th, nontrivial=bool(nt)))
            valid.append(b)
        else:
            out.append(Case(READ + " " + vlib.hx(b), kind=kind + "-notwf", decides=False, nontrivial=False, theorem="fidelity"))
    return out, valid


def gen_malformed(rng, tier, valid):
    """the C05 stream restricted to the EBP readers: fidelity only"""
    out = []
    def add(b, kind):
        out.append(Case(READ + " " + vlib.hx(bytes(b)), kind=kind, decides=False, nontrivial=False, theorem="C05_read_ebp_panic_free"))
    for b in ([], [0xA9], [0xDF], [0x00], [0xA9, 0], [0xDF, 0], [0xA9, 1], [0xDF, 1], [0xA9, 0, 0xFF], [0x47, 0x1F, 0xFF]):
        add(b, "malformed-tiny")
    sample = rng.sample(valid, min(len(valid), 150 if tier == "quick" else 2000))
    for b in sample:
        k = rng.randrange(len(b) + 1)
        add(b[:k], "malformed-truncated")
        for d in (-1, 1, rng.choice([2, 0x80, 0xFE, 0xFF, -(b[1])])):
            m = bytearray(b); m[1] = (m[1] + d) & 0xFF
            add(m, "malformed-length")
        m = bytearray(b); i = rng.randrange(len(m)); m[i] ^= 1 << rng.randrange(8)
        add(m, "malformed-bitflip")
        # a well-formed EBP followed by other bytes (decode_ser is stated for any `rest`; Data() returns the EBP alone)
        out.append(Case(READ + " " + vlib.hx(bytes(b) + rtail(rng, rng.randrange(1, 6))), kind="trailing-bytes", decides=True,
                        nontrivial=True, theorem="C12_decode_ser_comcast/cablelabs (rest <> [])"))
    # every truncation of a few rich vectors
    for b in sample[:6 if tier == "quick" else 40]:
        for k in range(len(b)):
            add(b[:k], "malformed-truncated")
    for _ in range(300 if tier == "quick" else 5000):
        n = rng.choice([2, 3, 4, 7, 8, 12, 20, rng.randrange(2, 40)])
        add([rng.choice([0xA9, 0xDF])] + [rng.randrange(256) for _ in range(n - 1)], "malformed-random")
    # CableLabs grouping chain that runs off the end / all 256 index values flagged (F11 loop, repaired)
    for n in (8, 9, 40, 255, 256, 257, 300):
        add([0xDF, 0xFF, 0x45, 0x42, 0x50, 0x30, 0x10] + [0x80 | rng.randrange(128) for _ in range(max(0, n - 7))], "malformed-chain")
    add([0xDF] + [0xFF] * 299, "malformed-chain")
    # the witnesses of C05_read_ebp_total_refuted / C05_grouping_loop_unrepaired_refuted (Proofs/EbpTotal.v)
    for b in ([169, 1, 1], [169, 1, 32], [169, 1, 16], [169, 1, 8], [169, 9, 8, 0, 0, 0, 0, 1, 2], [223, 1, 69, 66, 80, 48, 1],
              [223, 1, 69, 66, 80, 48, 32], [223, 1, 69, 66, 80, 48, 16], [223, 1, 69, 66, 80, 48, 8], [223, 2, 69, 66, 80, 48, 1, 128],
              [223, 2, 69, 66, 80, 48, 16, 129], [223, 255, 255, 255, 255, 255, 144] + [129] * 249):
        add(b, "c05-witness")
    add([0xDF, 253, 0x45, 0x42, 0x50, 0x30, 0x11, 0x80] + [0x81] * 246 + [0x01, 0x55], "c05-index-wrap")
    return out


FLAGOPS = {"frag": 0, "seg": 1, "sap": 2, "grp": 3, "time": 4, "ext": 5, "special": 6, "part": 7}


def rand_instant(rng):
    return rng.choice([rng.randrange(LO, HI), rng.randrange(LO, HI) // NS * NS + rng.choice([0, 1, 999999999, 999999998, 500000000])])


def gen_build(rng, tier):
    out = []
    n = 1500 if tier == "quick" else 40000
    for i in range(n):
        fl = rng.randrange(2)
        steps, flags = [], []
        consistent = True
        want = {k: rng.random() < 0.5 for k in ("frag", "seg", "sap", "grp", "time", "ext", "special")}
        part = fl == 1 and want["ext"] and rng.random() < 0.5
        values = []
        if want["sap"]:
            values.append("[8 %d]" % hib(rng))
        if want["grp"]:
            g = [hib(rng)] if fl == 0 else [rng.choice([sync_id(rng), rng.randrange(128)]) for _ in range(rng.choice([1, 1, 2, 3, 6]))]
            values.append("[11 %s]" % vlib.hx(bytes(g)))
        if want["time"]:
            if rng.random() < 0.5:
                values.append("[9 %d]" % rand_instant(rng))
            else:
                values += ["[17 %d]" % hib(rng, 32), "[18 %d]" % hib(rng, 32)]
        if want["ext"]:
            values.append("[13 %d]" % (hib(rng) & 0x7F if fl == 1 else hib(rng)))
        if part:
            values.append("[14 %d]" % hib(rng))
        if fl == 1 and rng.random() < 0.3:
            values.append("[15 %d]" % hib(rng, 32))
        if rng.random() < 0.5:
            values.append("[12 %s]" % vlib.hx(rtail(rng, rng.choice([0, 1, 2, 8, rng.randrange(9)]))))
        flagsteps = ["[%d 1]" % FLAGOPS[k] for k in want if want[k]]
        rng.shuffle(values); rng.shuffle(flagsteps)
        steps = values + flagsteps if rng.random() < 0.5 else flagsteps + values
        if rng.random() < 0.5:
            rng.shuffle(steps)
        if part:  # SetPartitionFlag needs the extension flag set, and must follow the assignment of ExtensionFlags
            steps = [s for s in steps if s != "[7 1]"]
            pos = 1 + max(i for i, s in enumerate(steps) if s == "[5 1]" or s.startswith("[13 "))
            steps.insert(rng.randrange(pos, len(steps) + 1), "[7 1]")
        kind = "build-consistent"
        if rng.random() < 0.25:
            # inconsistent / out-of-contract scripts: fidelity only
            consistent = False
            kind = "build-inconsistent"
            extra = rng.choice(["[8 %d]" % hib(rng), "[3 1]", "[11 %s]" % vlib.hx(bytes([hib(rng), hib(rng)])), "[10 1]", "[10 0]",
                                "[0 0]", "[4 0]", "[16 %d]" % hib(rng), "[19 %d]" % hib(rng), "[20 %d]" % hib(rng),
                                "[13 %d]" % hib(rng), "[12 %s]" % vlib.hx(rtail(rng, rng.choice([240, 250, 253, 255]))),
                                "[9 %d]" % rng.randrange(0, 2 * HI), "[2 1]", "[5 1]"])
            steps.insert(rng.randrange(len(steps) + 1), extra)
        line = sp(BUILD + " %d [%s]" % (fl, " ".join(steps)))
        if consistent and any(s.startswith("[9 ") for s in steps):
            # SetEBPTime: the property fixes the instant only to within 1 ns, so the exact TimeFraction is not decided by it:
            # one deciding case judged by the property itself (oracle), one fidelity case comparing everything
            out.append(Case(line, kind="build-consistent-time", decides=True, nontrivial=True, theorem="C12_build_encode_decode",
                            note="oracle-build"))
            out.append(Case(line, kind="build-time-fields", decides=False, nontrivial=False, theorem="fidelity"))
        else:
            out.append(Case(line, kind=kind, decides=consistent, nontrivial=consistent and len(steps) > 0,
                            theorem="C12_build_encode_decode" if consistent else "fidelity"))
    return out


def instants(rng, tier):
    inr, outr = [], []
    secs = [E31, E31 + 1, E31 + 2, E32 - 2, E32 - 1, E32, E32 + 1, E32 + 2, E32 + E31 - 2, E32 + E31 - 1,
            E31 + 0x7FFFFFFF, 3 * E31 // 2, E32 + E31 // 2, 3913056000, 3786825600]
    secs += [rng.randrange(E31, E32 + E31) for _ in range(40 if tier == "quick" else 2000)]
    for s in secs:
        for d in (-2, -1, 0, 1, 2):
            t = s * NS + d
            (inr if LO <= t < HI else outr).append(t)
        # 1953125 = 5^9: the sub-second values n = k*5^9 - 1 are the only ones that read back 1 ns late (C12_time_exact_iff)
        for sub in (500000000, 999999997, 3, 232830644, 232830643, 698491931, 1953124, 1953125, 1953123, 3906249,
                    511 * 1953125 - 1, 511 * 1953125, 256 * 1953125 - 1):
            t = s * NS + sub
            (inr if LO <= t < HI else outr).append(t)
    inr += [LO, LO + 1, LO + 2, HI - 1, HI - 2, HI - 3, ERA - 2, ERA - 1, ERA, ERA + 1, ERA + 2]
    outr += [LO - 1, LO - 2, LO - NS, HI, HI + 1, HI + NS, 0, 1, -1, -NS, NS, 2208988800 * NS, 2 * HI, 4 * ERA,
             -2 ** 62, 2 ** 62, ERA + 2 ** 63 - 1, ERA + 2 ** 63, ERA + 2 ** 63 + 5, -2 ** 63, -2 ** 63 - 7]
    for _ in range(2000 if tier == "quick" else 100000):
        inr.append(rng.randrange(LO, HI))
    for _ in range(200 if tier == "quick" else 5000):
        outr.append(rng.choice([rng.randrange(0, LO), rng.randrange(HI, 3 * HI), rng.randrange(-2 ** 62, 0)]))
    return inr, outr


def proj_time(reply):
    return vlib.parse_val(reply)[2]


def gen_time(rng, tier):
    out = []
    inr, outr = instants(rng, tier)
    for t in inr:
        fl = rng.randrange(2)
        line = "ebp.time %d %d" % (fl, t)
        out.append(Case(line, kind="time-in-range", theorem="C12_time_roundtrip", nontrivial=True, note="oracle"))
        out.append(Case(line, kind="time-fields", decides=False, nontrivial=False, theorem="fidelity"))
    for t in outr:
        out.append(Case("ebp.time %d %d" % (rng.randrange(2), t), kind="time-out-of-range", decides=False, nontrivial=False,
                        theorem="fidelity"))
    # decoding side of the time: EBPTime of given fields (decode theorem: the NTP era instant)
    vals = [0, 1, 2, E31 - 1, E31, E31 + 1, E32 - 1, E32 - 2]
    for s in vals:
        for f in vals + [4, 5, 4294967291, 2147483647, 858993459, 858993460]:
            out.append(Case("ebp.ntp %d %d" % (s, f), kind="ntp-grid", theorem="C12_ebptime_ntp"))
    for _ in range(1000 if tier == "quick" else 50000):
        out.append(Case("ebp.ntp %d %d" % (hib(rng, 32), hib(rng, 32)), kind="ntp-random", theorem="C12_ebptime_ntp"))
    return out


def gen_hist(rng, tier, valid):
    """ONE object used the way a long-lived caller does (ebp.hist): the time is read after EVERY step, between two
    SetEBPTime calls that fall into the same whole second, across Data() calls and flag changes; from a created and from
    a decoded object"""
    out = []
    timed = [b for b in valid if (b[0] == 0xA9 and len(b) > 2 and b[2] & 0x08) or (b[0] == 0xDF and len(b) > 6 and b[6] & 0x08)]
    for i in range(250 if tier == "quick" else 8000):
        steps, sets = [], []
        t = rand_instant(rng)
        decoded = bool(timed) and i % 3 == 2
        if not decoded:
            steps.append("[4 1]")
        for _ in range(rng.randrange(2, 7)):
            r = rng.random()
            if r < 0.45:      # another instant in the SAME second
                t = t // NS * NS + rng.choice([0, 1, 999999999, rng.randrange(NS), (t % NS + rng.choice([1, 40, 250000000])) % NS])
            elif r < 0.6:     # the same sub-second part in another second
                t = min(HI - 1, max(LO, t + rng.choice([-3, -1, 1, 3, E32 // 2]) * NS))
            elif r < 0.7:
                t = rand_instant(rng)
            else:
                steps.append(rng.choice(["[21 0]", "[0 1]", "[0 0]", "[1 1]", "[4 1]", "[6 1]", "[21 0]"]))
                continue
            if not LO <= t < HI:
                t = rand_instant(rng)
            steps.append("[9 %d]" % t)
            sets.append(t)
        if rng.random() < 0.5:
            steps.append("[21 0]")
        if not sets:
            continue
        start = "[%s]" % vlib.hx(rng.choice(timed)) if decoded else "[%d]" % rng.randrange(2)
        line = sp("ebp.hist %s [%s]" % (start, " ".join(steps)))
        # the property fixes every instant read back to within 1 ns of the last one set: judged by the oracle; the exact
        # field values are compared by the fidelity twin
        out.append(Case(line, kind="hist-time-decoded" if decoded else "hist-time", decides=True, nontrivial=True,
                        theorem="C12_time_roundtrip", note="oracle-hist"))
        out.append(Case(line, kind="hist-time-fields", decides=False, nontrivial=False, theorem="fidelity"))
    return out


def gen(rng, tier):
    dec, valid = gen_decode(rng, tier)
    cases = dec + gen_build(rng, tier) + gen_time(rng, tier) + gen_malformed(rng, tier, valid) + gen_hist(rng, tier, valid)
    # Fidelity cases of the readers: the tree may or may not have notes/findings/C05-ebp.patch (F11).  Both variants are
    # modelled (g = false / g = true, related by C05_read_ebp_patch_only_adds_error); the alternative answer is attached and
    # the oracle accepts a tree that follows ONE of the two variants consistently.
    if not GUARDED:
        fid = [c for c in cases if not c.decides and c.line.split(" ")[0] in ("ebp.read", "ebp.build")]
        alt = vlib.run_model([c.line.replace("ebp.read ", "ebp.readg ", 1).replace("ebp.build ", "ebp.buildg ", 1) for c in fid])
        for c, a in zip(fid, alt):
            c.note = "alt:" + a
    return cases


_variant = {"seen": None}


def oracle(c, real, model):
    if c.kind == "time-in-range":
        # the property: the instant read back is within one nanosecond of the one set
        t = int(c.line.split()[2])
        try:
            got = vlib.parse_val(real)[2]
        except Exception:
            return "SetEBPTime/EBPTime did not return an instant: " + real
        if abs(got - t) > 1:
            return "EBPTime(SetEBPTime(t)) - t = %d ns (required: at most 1 ns)" % (got - t)
        return ""
    if c.kind.startswith("hist-time") and c.decides:
        # every read of the time, after every step, is within 1 ns of the last instant set (C12_time_roundtrip applied at each
        # SetEBPTime; the steps in between do not touch the time fields)
        if real == model:
            return ""
        try:
            v = vlib.parse_val(real)
            if c.kind == "hist-time-decoded":
                if v[0] != 0:
                    return "the well-formed EBP no longer decodes: " + real[:200]
                v = v[1]
            steps = vlib.parse_val(c.line[c.line.index("[", c.line.index("]")):])
            last = None
            for st, ob in zip(steps, v[1:]):
                if st[0] == 9:
                    last = st[1]
                if last is not None and abs(ob[0][17] - last) > 1:
                    return "EBPTime() is %d ns away from the last SetEBPTime(%d) after step %s (required: at most 1 ns)" % (ob[0][17] - last, last, st)
            return "fidelity: every instant is within 1 ns but another getter differs from the model"
        except Exception as e:
            return "unreadable observation: " + real[:200]
    if c.kind == "build-consistent-time":
        # built through SetEBPTime: judged by the property (encode/decode agree, length byte, instant within 1 ns)
        if real == model:
            return ""
        try:
            before, data, after, dec = vlib.parse_val(real)
            steps = vlib.parse_val(c.line[c.line.index("[") :])
            t = [s[1] for s in steps if s[0] == 9][-1]
            if dec[0] != 0:
                return "the bytes of the built EBP do not decode: " + real[:200]
            dobs, ddata, ddfl, unchanged = dec[1]
            if dobs != after:
                return "decoding the encoded EBP does not give back the values of the built object"
            if ddata != data or len(data) < 2 or data[1] != len(data) - 2:
                return "re-encoding differs or the length byte is not the number of bytes that follow"
            if abs(after[17] - t) > 1 or abs(before[17] - t) > 1:
                return "EBPTime after SetEBPTime(t) is %d ns away (required: at most 1 ns)" % (after[17] - t)
            return ""
        except Exception as e:
            return "unreadable observation: " + real[:200]
    if not c.decides and c.note.startswith("alt:") and c.note[4:] != model:
        # the two reader variants differ on this input
        if real == model:
            v = "as-is"
        elif real == c.note[4:]:
            v = "guard-patched"
        else:
            return "observed differs from both reader variants (as-is: %s; with C05-ebp.patch: %s)" % (model[:200], c.note[4:204])
        if _variant["seen"] not in (None, v):
            return "readers follow neither variant consistently (this case: %s, earlier: %s)" % (v, _variant["seen"])
        _variant["seen"] = v
        return ""
    return None


def case_of_line(line, kind):
    op = line.split(" ")[0]
    if op == "ebp.time":
        t = int(line.split()[2])
        if LO <= t < HI:
            return Case(line, kind="time-in-range", theorem="C12_time_roundtrip")
        return Case(line, kind="time-out-of-range", decides=False, theorem="fidelity")
    if op == "ebp.hist":
        if kind in ("hist-time", "hist-time-decoded"):
            return Case(line, kind=kind, theorem="C12_time_roundtrip", note="oracle-hist")
        return Case(line, kind=kind or "hist-time-fields", decides=False, theorem="fidelity")
    if op in ("ebp.build", "ebp.buildg") and kind == "build-consistent-time":
        return Case(line, kind=kind, theorem="C12_build_encode_decode", note="oracle-build")
    return Case(line, kind=kind or "replay")


def shrink(c):
    f = c.line.split(" ")
    if f[0] == "ebp.time":
        t = int(f[2])
        for t2 in (t // NS * NS + 999999999, LO + t % NS, LO + 999999999):
            if t2 != t and LO <= t2 < HI:
                yield Case("ebp.time %s %d" % (f[1], t2), kind=c.kind, decides=c.decides, theorem=c.theorem)
    elif f[0] in ("ebp.read", "ebp.readg") and c.decides:
        # well-formed input: cut reserved bytes off the end / zero field bytes, keep only candidates that the model still
        # decodes and re-encodes to themselves (i.e. that are still well-formed EBPs)
        b = bytearray(vlib.unhx(f[1]))
        cands = []
        for k in (len(b) // 2, 8, 4, 2, 1):
            if 0 < k < len(b) - 2 and b[1] >= k + 1:
                m = bytearray(b[:len(b) - k]); m[1] = b[1] - k
                cands.append(bytes(m))
        for i in range(len(b) - 1, 2, -1):
            if b[i] not in (0, 0x80) and len(cands) < 40:
                m = bytearray(b); m[i] = b[i] & 0x80
                cands.append(bytes(m))
        lines = [f[0] + " " + vlib.hx(m) for m in cands]
        for line, m, r in zip(lines, cands, vlib.run_model(lines)):
            v = vlib.parse_val(r)
            if v[0] == 0 and v[1][1] == m:
                yield Case(line, kind=c.kind, decides=True, theorem=c.theorem)
    elif f[0] in ("ebp.build", "ebp.buildg"):
        # remove one field group at a time (a value together with its flag, so that a consistent script stays consistent)
        body = c.line[c.line.index("[") + 1:c.line.rindex("]")]
        steps = vlib.parse_val("[" + body + "]")
        groups = [(8, 2), (11, 3), (9, 17, 18, 4), (13, 14, 5, 7), (14, 7), (0,), (1,), (6,), (12,), (15,)]
        for g in groups:
            rest = [s for s in steps if not (s[0] in g and (s[0] > 7 or s[1] == 1))]
            if len(rest) < len(steps):
                yield Case(sp(f[0] + " %s [%s]" % (f[1], " ".join(vlib.fmt_val(s) for s in rest))), kind=c.kind,
                           decides=c.decides, theorem=c.theorem)


LEVEL_TEXT = ("Proof: Coq theorems in Properties/C12.v over a model of ebp/*.go with uint8 index arithmetic, uint32/uint64 "
              "wrap and the NTP era split written out: the readers invert the Spec serialisers for every well-formed EBP of both "
              "flavours, Data() of the decoded object is the input, built objects encode and decode, the stream-sync rule, and "
              "|EBPTime(SetEBPTime t) - t| <= 1 ns for every instant of the representable range; no axioms. The model is tied "
              "to /repo on every run by running both on the complete flag/shape lattice, build scripts, boundary instants and a "
              "malformed stream.")
LEVEL_NOTE = ("Trusted: Coq kernel; the transcription Model/Ebp.v (checked by the correspondence); Spec/EbpSpec.v as the reading "
              "of the wire format; extraction and executor glue; Go's time and encoding/binary packages.")
TECHNIQUE = ("Coq proof (parser-inverts-serialiser with the uint8 cursor as ghost length; Z div/mod arithmetic for the time) + "
             "model/implementation correspondence, exhaustive on the flag/shape lattice")


# coverage round (notes/coverage.md): cases and support theorems for exported identifiers outside the property text
from gen import covlib
covlib.install(globals())
