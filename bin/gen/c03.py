"""C03 — adaptation field under any edit history.

Starts are logical adaptation fields serialised by the Coq Spec serialiser (modelexec op af.ser); one case is a
whole history `af.hist <188 bytes> [ops]`; both executors answer with the getters of the start and, per call, the
error, the 188 bytes after it and every getter of both APIs.  The python below only chooses logical values and
arguments (it tracks field sizes to aim at the capacity boundaries); it decides nothing."""
import itertools
import vlib
from vlib import Case

PROP = "C03"
PROOF_FILES = ["Properties/C03.v", "Properties/ModelTie.v", "Properties/C04tie.v"]
PCRMAX = (2 ** 33) * 300
RULE = ("random histories of 1..60 setter calls (the 13 setters of packet/adaptationfield.go + Packet.SetAdaptationField) from random "
        "well-formed starts (adaptation_field_length 1..183, with/without payload, random subsets of optional fields, serialised "
        "by the Coq Spec serialiser), data lengths aimed at room-1/room/room+1; all histories of length <= 2 (quick) / <= 3 from three starts, length 4 from the "
        "short start (22-letter alphabet) and length 4 over a 12-letter alphabet from the other two (thorough); non-trivial = distinct history in which at least one "
        "call changes the size of the field contents (a shift-and-stuff happened) or is refused for lack of room; garbage starts and "
        "out-of-range arguments are fidelity cases")
EXHAUSTIVE = False
EXHAUSTIVE_NOTE = "histories up to length 2 (quick) / 3-4 (thorough) over the 22-letter alphabet are enumerated completely from three starts; the history space itself is unbounded and covered by the induction"
ASSUMPTIONS = ["an *AdaptationField is a *[188]byte: constant and guarded indexes cannot panic (Model/AF.v header)",
               "every `return err` in the setters precedes the first write (checked on every case: bytes after an error = bytes before)"]
PARTIAL = "F13: method-style TransportPrivateData()/AdaptationFieldExtension() return the field with its length byte (theorem states that shape)"


# ----------------------------------------------------------------------------- logical state (generation only)

class L:
    __slots__ = ("n", "pcr", "opcr", "sp", "tpd", "ext")

    def __init__(s, n, pcr=False, opcr=False, sp=False, tpd=None, ext=None):
        s.n = n; s.pcr = pcr; s.opcr = opcr; s.sp = sp; s.tpd = tpd; s.ext = ext

    def content(s):
        return (1 + 6 * s.pcr + 6 * s.opcr + 1 * s.sp + (0 if s.tpd is None else 1 + s.tpd)
                + (0 if s.ext is None else 1 + s.ext))

    def room(s):
        return s.n - s.content()

    def copy(s):
        return L(s.n, s.pcr, s.opcr, s.sp, s.tpd, s.ext)


def rand_laf_sizes(rng, n):
    """random subset of optional fields that fits in n"""
    s = L(n)
    order = ["pcr", "opcr", "sp", "tpd", "ext"]
    rng.shuffle(order)
    style = rng.random()
    for f in order:
        if rng.random() < 0.5:
            continue
        need = {"pcr": 6, "opcr": 6, "sp": 1, "tpd": 1, "ext": 1}[f]
        if s.room() < need:
            continue
        if f in ("pcr", "opcr", "sp"):
            setattr(s, f, True)
        else:
            r = s.room() - 1
            if style < 0.25:
                k = r                      # fill to capacity
            elif style < 0.5:
                k = rng.randint(0, min(r, 3))
            else:
                k = rng.randint(0, r)
            setattr(s, f, min(k, 255))
    return s


def rb(rng, n):
    return bytes(rng.randrange(256) for _ in range(n))


def ser_request(rng, s, with_flags=True):
    """af.ser line for sizes s with random contents"""
    n = s.n
    afc = 0x20 if n == 183 else 0x30
    hdr = bytes([0x47, rng.randrange(32) | rng.choice([0, 0x40, 0x80]), rng.randrange(256), afc | rng.randrange(16) | rng.choice([0, 0, 0x40, 0x80])])
    pay = rb(rng, 183 - n)
    def ob(x):
        return "[ ]" if x is None else "[ %s ]" % vlib.hx(x)
    fl = [rng.randrange(2) for _ in range(3)]
    laf = "[ %d %d %d %d %s %s %s %s %s ]" % (
        n, fl[0], fl[1], fl[2],
        ob(rb(rng, 6) if s.pcr else None), ob(rb(rng, 6) if s.opcr else None),
        "[ %d ]" % rng.randrange(256) if s.sp else "[ ]",
        ob(None if s.tpd is None else rb(rng, s.tpd)), ob(None if s.ext is None else rb(rng, s.ext)))
    return "af.ser %s %s %s" % (vlib.hx(hdr), laf, vlib.hx(pay))


def run_ser(lines):
    out = []
    for r in vlib.run_model(lines):
        v = vlib.parse_val(r)
        out.append((v[0], v[1]))
    return out


def pick_len(rng, cur, room):
    """data length for a variable field whose current data length is cur and with `room` spare bytes"""
    mx = cur + room
    c = rng.random()
    if c < 0.12: k = 0
    elif c < 0.22: k = 1
    elif c < 0.42: k = mx
    elif c < 0.54: k = mx + 1
    elif c < 0.62: k = mx - 1
    elif c < 0.66: k = mx + rng.randint(2, 5)
    elif c < 0.85: k = rng.randint(0, max(mx, 0))
    else: k = rng.randint(0, 8)
    return max(0, min(k, 300))


def apply_sim(s, op):
    """python mirror of the logical step, returns True when the content size changed or a grow was refused"""
    c, a = op
    before = s.content()
    refused = False
    def grow(t):
        nonlocal refused
        if t.content() <= t.n:
            return t
        refused = True
        return s
    t = s.copy()
    if c == 3:
        if a and not s.pcr: t.pcr = True; t = grow(t)
        elif not a: t.pcr = False
    elif c == 4:
        if a and not s.opcr: t.opcr = True; t = grow(t)
        elif not a: t.opcr = False
    elif c == 5:
        if a and not s.sp: t.sp = True; t = grow(t)
        elif not a: t.sp = False
    elif c == 6:
        if a and s.tpd is None: t.tpd = 0; t = grow(t)
        elif not a: t.tpd = None
    elif c == 7:
        if a and s.ext is None: t.ext = 0; t = grow(t)
        elif not a: t.ext = None
    elif c == 11:
        if s.tpd is not None: t.tpd = len(a); t = grow(t)
    elif c == 12:
        if s.ext is not None: t.ext = len(a); t = grow(t)
    elif c == 13:
        src = a  # an L
        if src.content() <= s.n:
            t = src.copy(); t.n = s.n
        else:
            refused = True
    return t, (t.content() != before or refused)


def rand_op(rng, s):
    """one operation with arguments biased to the capacity boundary of state s"""
    c = rng.choices(range(14), weights=[2, 2, 2, 6, 6, 6, 7, 7, 4, 4, 4, 10, 10, 3])[0]
    if c <= 7:
        return (c, rng.randrange(2))
    if c in (8, 9):
        v = rng.choice([0, 1, 299, 300, PCRMAX - 1, rng.randrange(PCRMAX), rng.randrange(PCRMAX), (1 << rng.randrange(1, 42)) - rng.randrange(2)])
        return (c, min(v, PCRMAX - 1))
    if c == 10:
        return (c, rng.choice([0, 1, 127, 128, 255, rng.randrange(256)]))
    if c == 11:
        k = pick_len(rng, s.tpd if s.tpd is not None else 0, s.room())
        return (c, rb(rng, k))
    if c == 12:
        k = pick_len(rng, s.ext if s.ext is not None else 0, s.room())
        return (c, rb(rng, k))
    # 13: source field with content aimed at the target's length
    want = rng.choice([s.n, s.n + 1, s.n - 1, rng.randint(1, 183), rng.randint(1, 183)])
    want = max(1, min(183, want))
    srcn = rng.choice([183, want, rng.randint(want, 183)])
    src = rand_laf_sizes(rng, srcn)
    # try to make the content exactly `want` bytes with a variable field
    t = L(srcn, rng.random() < 0.4, rng.random() < 0.4, rng.random() < 0.4)
    if rng.random() < 0.6 and t.content() + 1 <= want <= srcn and want - t.content() - 1 <= 255:
        if rng.random() < 0.5: t.tpd = want - t.content() - 1
        else: t.ext = want - t.content() - 1
        src = t
    return (c, src)


def fmt_op(op, srcs):
    c, a = op
    if c <= 10 or c == 14:
        return "[ %d %d ]" % (c, a)
    if c in (11, 12):
        return "[ %d %s ]" % (c, vlib.hx(a))
    return "[ 13 %s ]" % vlib.hx(srcs[id(a)])


def hist_line(pkt, ops, srcs=None):
    return "af.hist %s [ %s ]" % (vlib.hx(pkt), " ".join(fmt_op(o, srcs or {}) for o in ops))


def rand_len(rng):
    c = rng.random()
    if c < 0.45: return 183
    if c < 0.6: return rng.randint(1, 20)
    if c < 0.7: return rng.choice([1, 2, 7, 8, 13, 14, 182])
    return rng.randint(1, 182)


# ----------------------------------------------------------------------------- generator

ALPHABET = ([(c, v) for c in (3, 4, 5, 6, 7) for v in (0, 1)] + [(0, 1), (8, 12345678901), (9, 299), (10, 200)]
            + [(c, k) for c in (11, 12) for k in ("0", "1", "fit", "fit+1")] )   # 10 + 4 + 8 = 22 letters
SMALL_ALPHABET = [(3, 1), (3, 0), (5, 1), (6, 0), (6, 1), (7, 0), (7, 1), (11, "fit"), (11, "1"), (12, "fit"), (12, "fit+1"), (10, 200)]


def concretise(rng, s, letter):
    c, a = letter
    if c in (11, 12):
        cur = (s.tpd if c == 11 else s.ext) or 0
        k = {"0": 0, "1": 1, "fit": cur + s.room(), "fit+1": cur + s.room() + 1}[a]
        return (c, bytes((i * 7 + 1) & 255 for i in range(max(0, min(k, 300)))))
    return (c, a)


def gen(rng, tier):
    quick = tier == "quick"
    plans = []    # (kind, sizes, ops)  ops may contain (13, L)
    nrand = 1500 if quick else 20000
    for _ in range(nrand):
        s0 = rand_laf_sizes(rng, rand_len(rng))
        s = s0
        ops = []
        nt = False
        n = rng.randint(1, 60) if rng.random() < 0.7 else rng.randint(1, 8)
        for _ in range(n):
            op = rand_op(rng, s)
            s, ch = apply_sim(s, op)
            nt = nt or ch
            ops.append(op)
        plans.append(("random-history", s0, ops, nt))
    # small-scope exhaustive histories from three starts
    starts = [L(183), L(14, True, False, True, 2, None), L(40, False, True, False, 3, 4)]
    maxlen = 2 if quick else 3
    for s0 in starts:
        for k in range(1, maxlen + 1):
            for word in itertools.product(ALPHABET, repeat=k):
                s = s0; ops = []; nt = False
                for letter in word:
                    op = concretise(rng, s, letter)
                    s, ch = apply_sim(s, op)
                    nt = nt or ch
                    ops.append(op)
                plans.append(("exhaustive-len%d" % k, s0, ops, nt))
        if not quick:
            # the complete 22-letter alphabet at length 4 from the short field next to a payload (room 3),
            # the reduced alphabet from the other two starts
            alpha4 = ALPHABET if s0.n == 14 else SMALL_ALPHABET
            for word in itertools.product(alpha4, repeat=4):
                s = s0; ops = []; nt = False
                for letter in word:
                    op = concretise(rng, s, letter)
                    s, ch = apply_sim(s, op)
                    nt = nt or ch
                    ops.append(op)
                plans.append(("exhaustive-len4" if s0.n == 14 else "exhaustive-len4-small", s0, ops, nt))
    # serialise starts and sources through the Coq serialiser
    reqs, where = [], []
    for pi, (kind, s0, ops, nt) in enumerate(plans):
        reqs.append(ser_request(rng, s0)); where.append((pi, None))
        for op in ops:
            if op[0] == 13:
                reqs.append(ser_request(rng, op[1])); where.append((pi, id(op[1])))
    res = run_ser(reqs)
    pk = {}; srcs = {}
    for (pi, sid), (b, fits) in zip(where, res):
        assert fits == 1 and len(b) == 188, "generator produced a start that does not fit"
        if sid is None: pk[pi] = b
        else: srcs[sid] = b
    out = []
    for pi, (kind, s0, ops, nt) in enumerate(plans):
        out.append(Case(hist_line(pk[pi], ops, srcs), kind=kind, decides=True, nontrivial=nt, theorem="C03_history"))
    dom = in_domain([c.line for c in out])
    assert all(dom), "generator produced a deciding case outside the hypotheses of C03_history: " + out[dom.index(False)].line[:300]
    fid = fidelity(rng, quick, [pk[i] for i in range(min(len(pk), 200))])
    # aliasing: SetAdaptationField with the packet itself as the source, inside otherwise well-formed histories
    # (compared strictly; the recogniser does not classify code 14, so these stay fidelity cases)
    for pi in range(0, min(len(plans), 400 if quick else 4000), 2):
        kind, s0, ops, nt = plans[pi]
        if kind != "random-history": break
        ops2 = list(ops); ops2.insert(rng.randrange(len(ops2) + 1), (14, 0))
        fid.append(Case(hist_line(pk[pi], ops2, srcs), kind="fidelity-self-copy", decides=False, nontrivial=False,
                        theorem="C03_step_refines (OSetAF p)"))
    for c, inside in zip(fid, in_domain([c.line for c in fid])):
        if inside:   # e.g. an untouched start with in-range arguments: the theorem decides it after all
            c.kind = "fidelity-inside-domain"; c.decides = True; c.theorem = "C03_history"
    return out + fid


def fidelity(rng, quick, pool):
    """outside the property's hypotheses: garbage fields, zero length, no field, out-of-range arguments"""
    out = []
    n = 500 if quick else 6000
    for i in range(n):
        c = rng.random()
        p = bytearray(rng.choice(pool))
        if c < 0.3:
            p = bytearray(rb(rng, 188)); p[0] = 0x47
            if rng.random() < 0.8: p[3] |= 0x20
            if rng.random() < 0.5: p[4] = rng.choice([0, 1, 183, 184, 200, 255, rng.randrange(256)])
        elif c < 0.5:
            p[4] = rng.choice([0, 184, 255, rng.randrange(256)])
        elif c < 0.6:
            p[3] &= ~0x20 & 255
        elif c < 0.8:
            j = rng.randrange(4, 30); p[j] = rng.randrange(256)
        ops = []
        s = L(183)
        for _ in range(rng.randint(1, 12)):
            op = rand_op(rng, s)
            if op[0] == 13:
                src = bytearray(rng.choice(pool))
                if rng.random() < 0.5:
                    src[rng.randrange(4, 30)] = rng.randrange(256)
                op = (13, bytes(src));
            elif op[0] in (8, 9) and rng.random() < 0.5:
                op = (op[0], rng.choice([PCRMAX, 2 ** 64 - 1, rng.randrange(2 ** 64)]))
            elif op[0] in (11, 12) and rng.random() < 0.2:
                op = (op[0], rb(rng, rng.choice([255, 256, 257, 300, rng.randrange(400)])))
            ops.append(op)
        srcs = {id(o[1]): o[1] for o in ops if o[0] == 13}
        out.append(Case(hist_line(bytes(p), ops, srcs), kind="fidelity-garbage", decides=False, nontrivial=False,
                        theorem="Proofs/AFTotal.v (C05)"))
    return out



# ----------------------------------------------------------------------------- projection (DESIGN 5.3)
# A presence toggle that turns PCR / OPCR / splice countdown on leaves the new field's value unspecified
# (spec: op_rel is a relation there).  The model reproduces what the code does (old bytes shine through), but a
# harmless change of the code (e.g. zeroing the new field) must not alarm: when the replies differ, the bytes and
# getter values of fields that are currently *unspecified* are masked on both sides before comparing.

GETTER_IDX = {"pcr": (5, 23), "opcr": (7, 24), "sp": (9, 25)}
FIELDS = ((3, 8, "pcr", 16), (4, 9, "opcr", 8), (5, 10, "sp", 4))


def unspecified_trace(pkt, ops, model_v):
    """which of PCR/OPCR/splice are 'switched on, value never set' after each call; read off the MODEL's reply
    (status and flags byte after each call), so it is exact for every start, garbage included"""
    prev = pkt[5]; U = set(); out = []
    for step, (c, a) in zip(model_v[1:], ops):
        if not isinstance(step, list) or len(step) != 3:
            break
        ok = step[0] == [0]; fl = step[1][5]
        for code, setter, f, bit in FIELDS:
            if c == code and ok:
                if a and not (prev & bit) and (fl & bit): U.add(f)
                if not a: U.discard(f)
            if c == setter and ok: U.discard(f)
            if not (fl & bit): U.discard(f)
        if c == 13 and ok: U.clear()
        prev = fl
        out.append((frozenset(U), fl))
    return out


def masked(v, trace):
    for (U, fl), step in zip(trace, v[1:]):
        if not U or not isinstance(step, list) or len(step) != 3: continue
        b = bytearray(step[1]); g = step[2]
        pcr, opcr = bool(fl & 16), bool(fl & 8)
        rng = {"pcr": (6, 12), "opcr": (6 + 6 * pcr, 12 + 6 * pcr), "sp": (6 + 6 * pcr + 6 * opcr, 7 + 6 * pcr + 6 * opcr)}
        for f in U:
            lo, hi = rng[f]
            for i in range(lo, hi): b[i] = 0
            for gi in GETTER_IDX[f]:
                if isinstance(g[gi], list) and len(g[gi]) == 2 and g[gi][0] == 0: g[gi] = [0, "unspecified"]
        step[1] = bytes(b)
    return v


MASKED_ACCEPTS = []


def oracle(c, real, model):
    if c.kind == "F13-getter-shape":
        # the property's own reading of the getter clause, applied to the REAL observation of the start packet:
        # the method getter must return what the function-style getter returns (the value, no length byte)
        try:
            g = vlib.parse_val(real)[0]
            if g[11][0] == 0 and g[26][0] == 0 and g[11][1] != g[26][1]:
                return "method-style TransportPrivateData() = %s, value = %s (length byte included)" % (g[11][1].hex(), g[26][1].hex())
        except Exception:
            return "unreadable reply"
        return ""
    if real == model:
        return ""
    try:
        pkt, ops = split_line(c.line)
        mv = vlib.parse_val(model)
        tr = unspecified_trace(pkt, [(o[0], o[1]) for o in ops], mv)
        if not any(U for U, _ in tr):
            return None
        if masked(vlib.parse_val(real), tr) == masked(mv, tr):
            MASKED_ACCEPTS.append(c.line[:200])   # fidelity note: differs only inside unspecified fields
            return ""
    except Exception:
        return None
    return None

# ----------------------------------------------------------------------------- shrinking / replay

def split_line(line):
    v = vlib.parse_val("[" + line.partition(" ")[2] + "]")
    return v[0], v[1]


def join_line(pkt, ops):
    def f(o):
        return "[ %d %s ]" % (o[0], vlib.hx(o[1]) if isinstance(o[1], (bytes, bytearray)) else str(o[1]))
    return "af.hist %s [ %s ]" % (vlib.hx(pkt), " ".join(f(o) for o in ops))


def shrink(c):
    """shorter histories first (short prefixes, then dropping single calls), then shorter data"""
    pkt, ops = split_line(c.line)
    n = len(ops)
    cands = []
    if n > 1:
        k = 1
        while k < n:
            cands.append(ops[:k]); k *= 2
        cands.append(ops[:n - 1]); cands.append(ops[1:]); cands.append(ops[n // 2:])
        for i in range(n):
            cands.append(ops[:i] + ops[i + 1:])
    for i, o in enumerate(ops):
        if isinstance(o[1], (bytes, bytearray)) and len(o[1]) != 188 and len(o[1]) > 0:
            cands.append(ops[:i] + [[o[0], o[1][:len(o[1]) // 2]]] + ops[i + 1:])
            cands.append(ops[:i] + [[o[0], o[1][:-1]]] + ops[i + 1:])
    for k in cands:
        if k:
            yield Case(join_line(pkt, k), kind=c.kind, decides=c.decides, theorem=c.theorem)


def known_match(entry, case, real, model):
    return case.kind == "F13-getter-shape" and entry.get("kind") == "F13-getter-shape"


def in_domain(lines):
    """is the case inside the hypotheses of C03_history ?  decided by the Coq-extracted recogniser (op af.wf:
    Spec/AFParse.v in_domain, sound by Proofs/AFParseSound.v in_domain_sound), not by python"""
    reqs = ["af.wf " + l.partition(" ")[2] for l in lines]
    return [r == "1" for r in vlib.run_model(reqs)]


def case_of_line(line, kind):
    if kind == "F13-getter-shape":
        return Case(line, kind=kind, decides=True, theorem="C03_getters_full_refuted")
    try:
        ok = in_domain([line])[0]
    except Exception:
        ok = False
    return Case(line, kind=kind or "replay", decides=ok and not kind.startswith("fidelity"),
                theorem="C03_history" if ok else "Proofs/AFTotal.v (C05)")


def search(c, rng):
    """a fidelity case disagreed: look for a deciding case nearby (same history from well-formed starts)"""
    pkt, ops = split_line(c.line)
    ops = [o for o in ops if not (isinstance(o[1], (bytes, bytearray)) and len(o[1]) == 188)]
    reqs = [ser_request(rng, rand_laf_sizes(rng, rand_len(rng))) for _ in range(40)]
    for b, fits in run_ser(reqs):
        if ops:
            yield Case(join_line(b, ops), kind="search", decides=True, theorem="C03_history")


LEVEL_TEXT = ("Proof: Properties/C03.v (33 theorems, plus the tie files ModelTie.v / C04tie.v; all 'Closed under the global context') over a Gallina transliteration of "
              "packet/adaptationfield.go, Packet.SetAdaptationField, the function-style accessor package and pcr.go (repaired code: F5, F6, C05 guards). "
              "C03_step_refines: for EVERY well-formed start (adaptation_field_length 1..183, any payload, any subset of optional fields), every one of "
              "the 14 setters and every in-range argument, the bytes after the call are header ++ ISO serialisation of the updated logical value ++ "
              "payload, or an error with the operation not honourable; C03_history lifts this to all finite histories by induction over the operation "
              "list; C03_no_spurious_error / C03_error_only_when_refused give both directions of the error contract; C03_getters_agree_partial and the "
              "*_last_set theorems give every getter of both APIs (F13 shape for the two method slice getters, full reading refuted with a witness); "
              "C03_frame_history is the byte-level statement that header, length byte and payload never change; C03_total_any_packet: no panic on any "
              "188 bytes. The model is tied to /repo on every run by executing whole histories on both and comparing all 188 bytes, the error and "
              "every getter after every call.")
LEVEL_NOTE = ("Trusted: Coq kernel; the transcription Model/AF.v, AFfn.v, Pcr.v (checked by the correspondence on every run); extraction and executor glue; "
              "Go array/slice semantics as in DESIGN section 3; Spec/AFSpec.v as the reading of ISO 13818-1 2.4.3.4. Values of PCR/OPCR/splice fields that were "
              "switched on but never set are unspecified by the property and masked in the comparison. Known finding F13 (getter shape) is reported on every run.")
TECHNIQUE = "Coq proof (refinement to a logical record + induction over histories) + model/implementation correspondence on generated and small-scope exhaustive edit histories"
