"""C17 — payload accumulator: Bytes() = payloads of the packets accepted since the last unit start, Packets() a copy of
exactly those packets, refusal before the first PUSI, completion at the first packet after which the predicate holds,
predicate errors propagated, refusal after completion, Reset = new.
Cases: acc.run <pred kind> <k> <ops>   ops: [0 pkt] WritePacket, [1] Reset, [2] Bytes, [3] Packets
  pred kinds: 0 done when len>=k, 1 never, 2 always, 3 error when len>=k, 4 (true, error) when len>=k, 5 done when last byte = k,
  6 done when the sum of the accumulated bytes = k mod 256."""
import itertools
from vlib import Case, hx, parse_val, fmt_val

PROP = "C17"
PROOF_FILES = ["Properties/C17.v", "Properties/ModelTie.v"]
RULE = ("operation histories over 8 packet kinds (PUSI+payload, continuation, continuation with adaptation field, PUSI with "
        "adaptation field, no payload, PUSI without payload, adaptation field longer than the packet, adaptation field of 183 "
        "bytes = empty payload, and packets of 188 uniformly random bytes) with Bytes() and Packets() observed after every call, Reset at random places, under threshold "
        "/ never / always / failing / failing-and-done / content-dependent predicates; all histories of length <= 3 (quick) or "
        "<= 5 (thorough) over 6 kinds are enumerated; non-trivial = the history contains a unit start followed by at least one "
        "more WritePacket")
EXHAUSTIVE = True
EXHAUSTIVE_NOTE = ("all WritePacket histories up to length 3 (quick) / 5 (thorough) over six packet kinds x four predicates, with "
                   "Bytes/Packets after every call; unbounded histories are covered by the refinement theorem")
ASSUMPTIONS = [
    "predicate oracle: any function from the accumulated bytes to (done, err); goexec uses threshold, never, always, failing, "
    "failing-with-done, last-byte and byte-sum predicates; the predicate does not modify the slice it is given",
    "bytes.Buffer.Write never returns an error (documented: it panics on out-of-memory instead)",
    "packets are [188]byte arrays (the type guarantees the length)",
]
PS = 188
KINDS6 = ["P", "C", "A", "N", "NP", "X"]
KINDS = KINDS6 + ["PA", "E"]


def packet(rng, kind):
    """a 188-byte packet of the given kind with random content"""
    pusi = kind in ("P", "NP", "PA")
    b1 = (0x40 if pusi else 0) | rng.randrange(32) | (0x80 if rng.random() < 0.1 else 0)
    cc = rng.randrange(16)
    body = bytes(rng.randrange(256) for _ in range(184))
    if kind in ("P", "C"):
        afc = 1
    elif kind in ("A", "PA"):
        afc = 3
        l = rng.choice([0, 1, 7, 100, 182, rng.randrange(0, 183)])
        body = bytes([l]) + body[1:]
    elif kind in ("N", "NP"):
        afc = 2
        body = bytes([183]) + body[1:]
    elif kind == "X":
        afc = 3
        body = bytes([rng.choice([184, 185, 200, 255])]) + body[1:]
    else:  # E: adaptation field fills the packet, empty payload
        afc = 3
        body = bytes([183]) + body[1:]
    return bytes([0x47, b1, rng.randrange(256), (afc << 4) | cc]) + body


def payload_len(p):
    if not (p[3] & 0x10):
        return None
    start = 4 + ((1 + p[4]) if (p[3] & 0x20) else 0)
    return None if start > PS else PS - start


def proj(reply):
    """WritePacket's int result is not fixed by the property: compare error and flags"""
    v = parse_val(reply)
    if isinstance(v, list) and len(v) == 2 and v[0] == 0:
        outs = []
        for o in v[1]:
            if o and o[0] == 0 and len(o) == 4:
                outs.append([0, o[2], o[3]])
            else:
                outs.append(o)
        return [0, outs]
    return v


def fmt_ops(ops):
    return "[ " + " ".join("[ 0 %s ]" % hx(o) if isinstance(o, (bytes, bytearray)) else "[ %d ]" % o for o in ops) + " ]"


def mk(kind_p, k, ops, kind, decides=True):
    writes = [o for o in ops if isinstance(o, (bytes, bytearray))]
    nt = False
    for i, w in enumerate(writes):
        if (w[1] & 0x40) and i + 1 < len(writes):
            nt = True
    return Case("acc.run %d %d %s" % (kind_p, k, fmt_ops(ops)), kind=kind, decides=decides, nontrivial=nt and decides,
                theorem="C17_refines", proj=proj if decides else None)


def observe(pkts):
    """WritePacket each packet and look at Bytes() and Packets() after every call"""
    ops = []
    for p in pkts:
        ops += [p, 2, 3]
    return ops


def gen(rng, tier):
    out = []
    # 1. every history up to length L over six packet kinds
    L = 3 if tier == "quick" else 5
    for n in range(1, L + 1):
        for ci, combo in enumerate(itertools.product(KINDS6, repeat=n)):
            pkts = [packet(rng, c) for c in combo]
            total = sum(payload_len(p) or 0 for p in pkts)
            preds = [(1, 0), (0, rng.choice([1, 184, 185, 368, max(1, total)])), (3, rng.choice([1, 185, 300])), (2, 0)]
            if tier == "quick" and n == 3:
                preds = [preds[(ci + i) % 4] for i in range(2)]
            for kp, k in preds:
                out.append(mk(kp, k, [2, 3] + observe(pkts), "hist-%d" % n))
    # 2. random long histories with resets
    for _ in range(400 if tier == "quick" else 20000):
        n = rng.randrange(1, 14)
        ops = []
        for _ in range(n):
            r = rng.random()
            if r < 0.08:
                ops.append(1)
            elif r < 0.16:
                ops.append(rng.choice([2, 3]))
            else:
                kd = rng.choice(["P", "C", "C", "C", "A", "A", "N", "NP", "X", "PA", "E"])
                ops.append(packet(rng, kd))
                if rng.random() < 0.7:
                    ops += [2, 3]
                # the same packet again, byte for byte (MPEG-TS allows duplicate packets; the accumulator has no notion of
                # them: each one is a packet of its own; seeded C17-v1 swallowed a repeated continuation packet)
                while rng.random() < 0.15:
                    ops.append(ops[-1] if isinstance(ops[-1], (bytes, bytearray)) else [o for o in ops if isinstance(o, (bytes, bytearray))][-1])
                    if rng.random() < 0.7:
                        ops += [2, 3]
        ops += [2, 3]
        kp = rng.choice([0, 0, 0, 1, 2, 3, 3, 4, 5, 6, 6])
        k = rng.choice([0, 1, 100, 184, 185, 368, 369, 552, 1000]) if kp < 5 else rng.randrange(256 if kp == 5 else 8)
        out.append(mk(kp, k, ops, "random-pred%d" % kp))
        if rng.random() < 0.1:
            out.append(mk(kp, k, ops, "fidelity-write-count", decides=False))
    # 2b. packets of 188 uniformly random bytes (any header, any adaptation_field_length): C05 on garbage
    for _ in range(150 if tier == "quick" else 8000):
        ops = []
        for _ in range(rng.randrange(1, 8)):
            p = bytearray(rng.randrange(256) for _ in range(PS))
            if rng.random() < 0.5:
                p[1] |= 0x40
            if rng.random() < 0.3:
                p[4] = rng.choice([0, 1, 182, 183, 184, 255])
            ops += [bytes(p), 2, 3]
            if rng.random() < 0.1:
                ops.append(1)
        out.append(mk(rng.choice([0, 1, 3, 6]), rng.choice([1, 100, 185, 400]), ops, "random-bytes"))
    # 2c. runs of identical packets
    for _ in range(40 if tier == "quick" else 1500):
        first = packet(rng, "P")
        cont = packet(rng, rng.choice(["C", "C", "A"]))
        ops = [first, 2, 3] + [cont, 2, 3] * rng.randrange(2, 5) + [packet(rng, "C"), 2, 3] + [first, 2, 3] * 2
        total = 184 * 6
        out.append(mk(rng.choice([0, 0, 3, 6]), rng.choice([185, 369, 553, total]), ops, "duplicate-packets"))
    # 3. behaviour after completion and after reset
    for _ in range(60 if tier == "quick" else 2000):
        pk = [packet(rng, "P")] + [packet(rng, rng.choice(["C", "A"])) for _ in range(rng.randrange(0, 4))]
        total = sum(payload_len(p) or 0 for p in pk)
        k = rng.randrange(1, total + 1)
        after = [packet(rng, rng.choice(KINDS)) for _ in range(rng.randrange(1, 4))]
        ops = observe(pk) + observe(after) + [1, 2, 3] + observe(after) + observe(pk)
        out.append(mk(0, k, ops, "done-then-reset"))
    return out


def _parse(c):
    v = parse_val("[" + c.line.partition(" ")[2] + "]")
    ops = [bytes(o[1]) if o[0] == 0 else o[0] for o in v[2]]
    return v[0], v[1], ops


def shrink(c):
    kp, k, ops = _parse(c)
    for i in range(len(ops)):
        yield mk(kp, k, ops[:i] + ops[i + 1:], c.kind, c.decides)
    if len(ops) > 3:
        yield mk(kp, k, ops[:len(ops) // 2], c.kind, c.decides)
        yield mk(kp, k, ops[len(ops) // 2:], c.kind, c.decides)
    if kp not in (1,):
        yield mk(1, 0, ops, c.kind, c.decides)


def search(c, rng):
    for n in range(1, 4):
        for combo in itertools.product(KINDS6, repeat=n):
            yield mk(0, 185, [2, 3] + observe([packet(rng, x) for x in combo]), "search")


def case_of_line(line, kind):
    c = Case(line, kind=kind or "replay")
    kp, k, ops = _parse(c)
    return mk(kp, k, ops, kind or "replay", decides=not (kind or "").startswith("fidelity"))


LEVEL_TEXT = ("Proof: Coq theorems (Properties/C17.v): the model of accumulator.go (three-state machine, buffer, packet list, "
              "payload extraction) refines the abstract accumulator of the property for EVERY operation list over "
              "WritePacket/Reset/Bytes/Packets, every 188-byte packet and every predicate oracle; clause theorems (refused before "
              "the first unit start, restart on unit start, bytes = concatenated payloads, done exactly at the first packet after "
              "which the predicate holds, predicate error propagated, refused after done, reset = new) and totality; the completion, "
              "predicate-error, no-payload, refusal and reset clauses are also stated over ARBITRARY histories (Proofs/AccHistory.v: "
              "C17_completion_invariant of every reachable state, C17_completion_step_iff / C17_accepted_step / "
              "C17_pred_error_propagated / C17_no_payload_reported for one WritePacket from any reachable state, "
              "C17_starting_refuses, C17_done_absorbs, C17_reset_fresh_history, C17_unit_shape). By induction "
              "over the operation list, no axioms. Tied to /repo on every run by executing model and real accumulator on all "
              "short histories and random long ones; goexec additionally checks the defensive copies.")
LEVEL_NOTE = ("Trusted: Coq kernel; the transcription Model/Accumulator.v; extraction and glue. Partial: 'independent copy' and "
              "'never modifies the packets it is given' are aliasing facts a value model cannot state; they are checked by goexec "
              "on every case (caller's packet scribbled after each call, returned slices scribbled), not proved.")
TECHNIQUE = "Coq refinement proof by induction over operation lists with a predicate oracle + model/implementation correspondence on enumerated short histories"
PARTIAL = "defensive copies (aliasing) are checked at run time by goexec only"
